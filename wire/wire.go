// Package wire reassembles kraken's p2p frames (4-byte big-endian length
// prefix, protobuf p2p.Message, raw piece payload after a PIECE_PAYLOAD
// message) from the byte stream of one direction of a simulated connection, so
// that harness monitors can observe what peers actually say to each other.
package wire

import (
	"encoding/binary"
	"time"

	"github.com/golang/protobuf/proto"
	"github.com/uber/kraken/gen/go/proto/p2p"

	simrt "kverif/sim"
	"kverif/simnet"
)

// Frame is one message seen on the wire.
type Frame struct {
	At       time.Duration
	Seq      int64
	Conn     *simnet.Conn // writing end
	From, To string       // node names
	Msg      *p2p.Message // nil if the frame did not parse (Garbage set)
	Garbage  bool
	First    bool // first frame of this direction (the handshake)
	// InfoHash and PeerID announced in the handshake of this direction.
	InfoHash, PeerID string
}

type stream struct {
	buf     []byte
	skip    int // payload bytes still to skip
	frames  int
	ih, pid string
	dead    bool
}

// Log collects the frames of every connection of a network.
type Log struct {
	S       *simrt.Sim
	Frames  []*Frame
	OnFrame func(f *Frame)
	streams map[*simnet.Conn]*stream
}

// Attach installs the tap on nw (chaining any previous OnWrite).
func Attach(s *simrt.Sim, nw *simnet.Network) *Log {
	l := &Log{S: s, streams: map[*simnet.Conn]*stream{}}
	prev := nw.OnWrite
	nw.OnWrite = func(c *simnet.Conn, b []byte) {
		if prev != nil {
			prev(c, b)
		}
		l.feed(c, b)
	}
	return l
}

// Handshake returns the info hash and peer id announced by end c (empty until seen).
func (l *Log) Handshake(c *simnet.Conn) (infoHash, peerID string) {
	if st := l.streams[c]; st != nil {
		return st.ih, st.pid
	}
	return "", ""
}

func (l *Log) feed(c *simnet.Conn, b []byte) {
	st := l.streams[c]
	if st == nil {
		st = &stream{}
		l.streams[c] = st
	}
	if st.dead {
		return
	}
	for len(b) > 0 {
		if st.skip > 0 {
			n := min(st.skip, len(b))
			st.skip -= n
			b = b[n:]
			continue
		}
		st.buf = append(st.buf, b...)
		b = nil
		for st.skip == 0 {
			if len(st.buf) < 4 {
				break
			}
			n := int(binary.BigEndian.Uint32(st.buf[:4]))
			if n > 64<<20 {
				st.dead = true
				l.emit(c, st, nil)
				return
			}
			if len(st.buf) < 4+n {
				break
			}
			m := new(p2p.Message)
			if err := proto.Unmarshal(st.buf[4:4+n], m); err != nil {
				st.dead = true
				l.emit(c, st, nil)
				return
			}
			rest := st.buf[4+n:]
			st.buf = nil
			l.emit(c, st, m)
			if m.Type == p2p.Message_PIECE_PAYLOAD && m.PiecePayload != nil && m.PiecePayload.Length > 0 {
				st.skip = int(m.PiecePayload.Length)
			}
			if len(rest) > 0 {
				// re-feed what followed the frame
				k := min(st.skip, len(rest))
				st.skip -= k
				st.buf = append(st.buf, rest[k:]...)
			}
		}
	}
}

func (l *Log) emit(c *simnet.Conn, st *stream, m *p2p.Message) {
	f := &Frame{At: l.S.Now(), Seq: l.S.NextSeq(), Conn: c, From: c.Node().Name, To: c.Peer().Node().Name, Msg: m, Garbage: m == nil, First: st.frames == 0}
	if m != nil && st.frames == 0 && m.Type == p2p.Message_BITFIELD && m.Bitfield != nil {
		st.ih, st.pid = m.Bitfield.InfoHash, m.Bitfield.PeerID
	}
	st.frames++
	f.InfoHash, f.PeerID = st.ih, st.pid
	l.Frames = append(l.Frames, f)
	if l.OnFrame != nil {
		l.OnFrame(f)
	}
}
