// Package simsql registers "simsqlite3": mattn/go-sqlite3 wrapped so that
// CURRENT_TIMESTAMP in statement text is the simulator's fake clock (sqlite
// would otherwise read the real wall clock in C, and kraken compares the stored
// value with time.Now on the Go side).
package simsql

import (
	"context"
	"database/sql"
	"database/sql/driver"
	"strings"
	"time"

	"github.com/jmoiron/sqlx"
	sqlite3 "github.com/mattn/go-sqlite3"
	"github.com/pressly/goose"

	_ "github.com/uber/kraken/localdb/migrations" // registers kraken's goose migrations

	simrt "kverif/sim"
)

const DriverName = "simsqlite3"

func init() {
	sql.Register(DriverName, &drv{inner: &sqlite3.SQLiteDriver{
		ConnectHook: func(c *sqlite3.SQLiteConn) error {
			// ksim_now() = CURRENT_TIMESTAMP on the simulator's clock
			return c.RegisterFunc("ksim_now", func() string {
				return time.Now().UTC().Format("2006-01-02 15:04:05")
			}, false)
		},
	}})
}

// rewrite replaces CURRENT_TIMESTAMP by a call of ksim_now(), also inside
// column defaults (DEFAULT (ksim_now()) is evaluated at insert time, as
// DEFAULT CURRENT_TIMESTAMP is).
func rewrite(q string) string {
	if !strings.Contains(q, "CURRENT_TIMESTAMP") {
		return q
	}
	return strings.ReplaceAll(q, "CURRENT_TIMESTAMP", "(ksim_now())")
}

type drv struct{ inner driver.Driver }

func (d *drv) Open(name string) (driver.Conn, error) {
	c, err := d.inner.Open(name)
	if err != nil {
		return nil, err
	}
	return &conn{c}, nil
}

type conn struct{ c driver.Conn }

// mutating reports the leading keyword of a statement that changes the
// database ("" for reads and session statements).
func mutating(q string) string {
	f := strings.Fields(q)
	if len(f) == 0 {
		return ""
	}
	switch k := strings.ToUpper(f[0]); k {
	case "INSERT", "UPDATE", "DELETE", "REPLACE":
		tbl := ""
		for i, w := range f {
			if u := strings.ToUpper(w); (u == "INTO" || u == "FROM" || (k == "UPDATE" && i == 0)) && i+1 < len(f) {
				tbl = strings.Trim(f[i+1], "(`\"")
				break
			}
		}
		return k + " " + tbl
	}
	return ""
}

func sqlOp(q string) error {
	if m := mutating(q); m != "" {
		return simrt.SQLOp(m)
	}
	return nil
}

// stmt wraps a prepared statement so that its executions are crash points too.
type stmt struct {
	driver.Stmt
	q string
}

func (s *stmt) Exec(args []driver.Value) (driver.Result, error) { //nolint
	if err := sqlOp(s.q); err != nil {
		return nil, err
	}
	return s.Stmt.Exec(args) //nolint
}

func (s *stmt) ExecContext(ctx context.Context, a []driver.NamedValue) (driver.Result, error) {
	if err := sqlOp(s.q); err != nil {
		return nil, err
	}
	if e, ok := s.Stmt.(driver.StmtExecContext); ok {
		return e.ExecContext(ctx, a)
	}
	return nil, driver.ErrSkip
}

func (s *stmt) QueryContext(ctx context.Context, a []driver.NamedValue) (driver.Rows, error) {
	if q, ok := s.Stmt.(driver.StmtQueryContext); ok {
		return q.QueryContext(ctx, a)
	}
	return nil, driver.ErrSkip
}

func (c *conn) Prepare(q string) (driver.Stmt, error) {
	st, err := c.c.Prepare(rewrite(q))
	if err != nil {
		return nil, err
	}
	return &stmt{st, q}, nil
}
func (c *conn) Close() error                          { return c.c.Close() }
func (c *conn) Begin() (driver.Tx, error)             { return c.c.Begin() } //nolint
func (c *conn) BeginTx(ctx context.Context, o driver.TxOptions) (driver.Tx, error) {
	return c.c.(driver.ConnBeginTx).BeginTx(ctx, o)
}
func (c *conn) PrepareContext(ctx context.Context, q string) (driver.Stmt, error) {
	st, err := c.c.(driver.ConnPrepareContext).PrepareContext(ctx, rewrite(q))
	if err != nil {
		return nil, err
	}
	return &stmt{st, q}, nil
}
func (c *conn) ExecContext(ctx context.Context, q string, a []driver.NamedValue) (driver.Result, error) {
	if err := sqlOp(q); err != nil {
		return nil, err
	}
	return c.c.(driver.ExecerContext).ExecContext(ctx, rewrite(q), a)
}
func (c *conn) QueryContext(ctx context.Context, q string, a []driver.NamedValue) (driver.Rows, error) {
	return c.c.(driver.QueryerContext).QueryContext(ctx, rewrite(q), a)
}
func (c *conn) Ping(ctx context.Context) error {
	if p, ok := c.c.(driver.Pinger); ok {
		return p.Ping(ctx)
	}
	return nil
}
func (c *conn) ResetSession(ctx context.Context) error {
	if r, ok := c.c.(driver.SessionResetter); ok {
		return r.ResetSession(ctx)
	}
	return nil
}

// Open opens (creating if needed) kraken's local database at path through the
// simulated-clock driver and runs kraken's migrations, mirroring localdb.New.
// The database is closed when the run ends.
func Open(s *simrt.Sim, path string) (*sqlx.DB, error) {
	db, err := sqlx.Open(DriverName, path)
	if err != nil {
		return nil, err
	}
	db.SetMaxOpenConns(1)
	if err := goose.SetDialect("sqlite3"); err != nil {
		return nil, err
	}
	goose.SetLogger(nopLogger{})
	if err := goose.Up(db.DB, "."); err != nil {
		db.Close()
		return nil, err
	}
	if s != nil {
		s.AtEnd(func() { db.Close() })
	}
	return db, nil
}

type nopLogger struct{}

func (nopLogger) Fatal(v ...interface{})                 {}
func (nopLogger) Fatalf(format string, v ...interface{}) {}
func (nopLogger) Print(v ...interface{})                 {}
func (nopLogger) Println(v ...interface{})               {}
func (nopLogger) Printf(format string, v ...interface{}) {}
