#!/bin/bash
# Builds the framework offline from files on disk: transformer, overlay of the
# current /repo tree, and every harness binary (primes the Go build cache).
set -e
cd "$(dirname "$0")"
. ./env.sh
mkdir -p .build/bin evidence replays
(cd tools/simgen && go build -o ../../.build/bin/simgen ./cmd/simgen && go build -o ../../.build/bin/shimgen ./cmd/shimgen)
cp -f /repo/go.sum go.sum.repo 2>/dev/null || true
mkdir -p .build/main/bin
./.build/bin/simgen -repo /repo -out .build/main/overlay -verif "$PWD"
rm -f .build/main/overlay.stamp
for d in props/c*/; do
  id=$(basename "$d")
  go test -c -overlay .build/main/overlay.json -tags verif -o .build/main/bin/$id.test ./props/$id
done
echo setup done
