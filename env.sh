export GOFLAGS=-mod=mod GOPROXY=off GOSUMDB=off GOTOOLCHAIN=local CGO_ENABLED=1
export PATH=/opt/veriftools/go1.26.8/bin:$PATH
