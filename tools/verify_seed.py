#!/usr/bin/env python3
"""Verify an independently seeded property-breaking change and file it under
/verif/seeded/<name>/.

  tools/verify_seed.py <PROPERTY_ID> <mutation worktree> <delivery dir> [name]

Steps (all in a fresh scratch worktree of /repo HEAD, removed afterwards):
  1. the demonstration passes WITHOUT the patch;
  2. the patch applies and builds; the unit tests of the touched packages pass;
  3. the demonstration FAILS with the patch;
  4. `KRAKEN_REPO=<scratch> ./check <ID>` (quick tier) must report a VIOLATION.
Writes seeded/<name>/{patch.diff, demo/, meta.json}; meta.json records what ran.
"""
import json, os, shutil, subprocess, sys, hashlib, re

VERIF = os.path.dirname(os.path.dirname(os.path.abspath(__file__)))
pid, mutwt, deliv = sys.argv[1].upper(), sys.argv[2].rstrip('/'), sys.argv[3].rstrip('/')
name = sys.argv[4] if len(sys.argv) > 4 else pid
scratch = '/tmp/vs-' + name.lower()
goenv = dict(os.environ, GOFLAGS='-mod=mod', GOPROXY='off')
for k in ('GOSUMDB', 'GOTOOLCHAIN'):
    goenv.pop(k, None)


def sh(cmd, cwd=None, env=None, timeout=3600):
    p = subprocess.run(['bash', '-c', cmd], cwd=cwd, env=env or goenv, stdout=subprocess.PIPE, stderr=subprocess.STDOUT, text=True, timeout=timeout)
    return p.returncode, p.stdout


log = []
def note(s):
    print(s); log.append(s)

subprocess.run(['git', '-C', '/repo', 'worktree', 'remove', '--force', scratch], stderr=subprocess.DEVNULL)
rc, out = sh('git -C /repo worktree add -q %s HEAD' % scratch)
assert rc == 0, out
try:
    patch = os.path.join(deliv, 'patch.diff')
    # demonstration files: untracked files of the mutation worktree
    rc, out = sh('git status --porcelain --untracked-files=all', cwd=mutwt)
    untracked = [l[3:].strip() for l in out.splitlines() if l.startswith('??') and l.strip().endswith('.go')]
    # demonstration files: delivered under demo/; their place in the tree is the
    # untracked copy left in the mutation worktree, or a directory named in the README
    readme = ''
    for rn in ('README.txt', 'README.md', 'README'):
        if os.path.exists(os.path.join(deliv, 'demo', rn)):
            readme = open(os.path.join(deliv, 'demo', rn)).read()
    demo_files, demo_src = [], {}
    for root, _, fs in os.walk(os.path.join(deliv, 'demo')):
        for fn in fs:
            if not fn.endswith('.go'):
                continue
            src = os.path.join(root, fn)
            rel = os.path.relpath(src, os.path.join(deliv, 'demo'))
            target = None
            if os.path.dirname(rel) and os.path.isdir(os.path.join(scratch, os.path.dirname(rel))):
                target = rel
            if target is None:
                for u in untracked:
                    if os.path.basename(u) == fn:
                        target = u
            if target is None:
                pkg = re.search(r'^package (\w+)', open(src).read(), re.M).group(1)
                for d in re.findall(r'((?:[\w.-]+/)+[\w.-]+|(?:[\w.-]+/)+)', readme):
                    d = d.strip('/').replace('/tmp/mut-%s/' % name.lower(), '')
                    if d.endswith('.go'):
                        d = os.path.dirname(d)
                    if os.path.isdir(os.path.join(scratch, d)) and any(x.endswith('.go') for x in os.listdir(os.path.join(scratch, d))):
                        if pkg == 'main' or any(re.search(r'^package %s\b' % pkg.replace('_test', ''), open(os.path.join(scratch, d, x)).read(), re.M) for x in os.listdir(os.path.join(scratch, d)) if x.endswith('.go') and not x.endswith('_test.go')):
                            target = os.path.join(d, fn)
                            break
            if target is None:
                note('cannot place demo file %s' % rel)
                continue
            demo_files.append(target)
            demo_src[target] = src
    note('demo files: %s' % demo_files)
    for f in demo_files:
        os.makedirs(os.path.dirname(os.path.join(scratch, f)) or scratch, exist_ok=True)
        shutil.copy(demo_src[f], os.path.join(scratch, f))
    demo_pkgs = sorted({'./' + os.path.dirname(f) for f in demo_files if f.endswith('_test.go')})
    run_re = []
    for f in demo_files:
        if f.endswith('_test.go'):
            run_re += re.findall(r'^func (Test\w+)\(', open(os.path.join(scratch, f)).read(), re.M)
    demo_cmd = 'go test -count=1 %s -run "^(%s)$" 2>&1 | tail -15' % (' '.join(demo_pkgs), '|'.join(run_re)) if demo_pkgs else None
    main_demo = [f for f in demo_files if not f.endswith('_test.go')]
    if not demo_cmd and main_demo:
        demo_cmd = 'go run ./%s 2>&1 | tail -15' % os.path.dirname(main_demo[0])
    note('demo command: %s' % demo_cmd)
    res = {}
    def demo():
        rc, out = sh('set -o pipefail; ' + demo_cmd, cwd=scratch)
        return rc, out
    rc0, out0 = demo() if demo_cmd else (None, 'no demonstration found')
    note('demo WITHOUT patch: rc=%s\n%s' % (rc0, out0[-600:]))
    rc, out = sh('git apply --exclude="*_test.go" %s' % patch, cwd=scratch)
    assert rc == 0, 'patch does not apply: ' + out
    rc, out = sh('go build ./... 2>&1 | grep -v "sqlite\\|^\\s\\||" | tail -5', cwd=scratch)
    note('build: %s' % (out.strip() or 'ok'))
    rcp, outp = sh('git diff --name-only', cwd=scratch)
    touched = sorted({'./' + os.path.dirname(f) for f in outp.split() if f.endswith('.go')})
    # unit tests of touched packages, excluding the demonstration tests
    skip = '|'.join(run_re) or 'NONE__'
    rc_ut, out_ut = sh('set -o pipefail; go test -count=1 %s -skip "^(%s)$" 2>&1 | grep -v "^20\\|warn" | tail -12' % (' '.join(touched), skip), cwd=scratch)
    note('unit tests of touched packages %s: rc=%s\n%s' % (touched, rc_ut, out_ut[-800:]))
    rc1, out1 = demo() if demo_cmd else (None, '')
    note('demo WITH patch: rc=%s\n%s' % (rc1, out1[-600:]))
    sh('git checkout go.mod go.sum', cwd=scratch)
    for f in demo_files:
        os.remove(os.path.join(scratch, f))
    env = dict(os.environ, KRAKEN_REPO=scratch)
    rcc, outc = sh('./check %s 2>&1 | tail -8' % pid, cwd=VERIF, env=env, timeout=3600)
    caught = 'VIOLATION property=' + pid in outc
    note('./check %s on the patched tree: caught=%s\n%s' % (pid, caught, outc[-1200:]))
    dst = os.path.join(VERIF, 'seeded', name)
    if os.path.isdir(dst):
        shutil.rmtree(dst)
    os.makedirs(os.path.join(dst, 'demo'))
    shutil.copy(patch, os.path.join(dst, 'patch.diff'))
    for f in demo_files:
        d = os.path.join(dst, 'demo', f)
        os.makedirs(os.path.dirname(d), exist_ok=True)
        shutil.copy(demo_src[f], d)
    if readme:
        open(os.path.join(dst, 'demo', 'README.txt'), 'w').write(readme)
    meta = {}
    mp = os.path.join(deliv, 'meta.json')
    if os.path.exists(mp):
        try:
            meta = json.load(open(mp))
        except Exception:
            meta = {'raw': open(mp).read()}
    oracles = sorted(set(re.findall(r'violation oracle=(\w+)', outc)))
    meta.update({'breaks_property': pid, 'demo_files': demo_files, 'demo_command': demo_cmd,
                 'verified_by_owner': {'demo_without_patch_rc': rc0, 'demo_with_patch_rc': rc1, 'unit_tests_touched_packages_rc': rc_ut,
                                       'touched_packages': touched, 'check_quick_caught': caught, 'check_oracles': oracles,
                                       'valid': bool(rc0 == 0 and rc1 not in (0, None) and rc_ut == 0)},
                 'log': log})
    json.dump(meta, open(os.path.join(dst, 'meta.json'), 'w'), indent=1)
    print('RESULT %s valid=%s caught=%s oracles=%s' % (name, meta['verified_by_owner']['valid'], caught, oracles))
finally:
    subprocess.run(['git', '-C', '/repo', 'worktree', 'remove', '--force', scratch], stderr=subprocess.DEVNULL)
    key = 'alt-' + hashlib.sha256(os.path.realpath(scratch).encode()).hexdigest()[:10]
    shutil.rmtree(os.path.join(VERIF, '.build', key), ignore_errors=True)
