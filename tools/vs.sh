#!/bin/bash
# tools/vs.sh <ID> [suffix]: verify a delivered blind mutation, file it under seeded/, remove its scratch worktree.
cd "$(dirname "$0")/.."
. ./env.sh
id=$1; sfx=$2; lc=$(echo "$id" | tr A-Z a-z)$sfx
name=$id$sfx
python3 tools/verify_seed.py $id /tmp/mut-$lc /tmp/deliv-$lc $name > /tmp/vs-$lc.log 2>&1
tail -3 /tmp/vs-$lc.log | grep RESULT || tail -20 /tmp/vs-$lc.log
git -C /repo worktree remove --force /tmp/mut-$lc 2>/dev/null
git -C /repo worktree prune
