#!/bin/bash
# tools/try_patch.sh <patch.diff> <check args...>: run ./check against a scratch worktree of /repo HEAD with the patch applied.
cd "$(dirname "$0")/.."
. ./env.sh
patch=$(realpath "$1"); shift
wt=/tmp/tp-$$
git -C /repo worktree add -q --detach $wt HEAD || exit 2
(cd $wt && git apply --exclude='*_test.go' "$patch") || { echo "patch does not apply"; git -C /repo worktree remove --force $wt; exit 2; }
KRAKEN_REPO=$wt ./check "$@"
rc=$?
key=alt-$(python3 -c "import hashlib,os,sys; print(hashlib.sha256(os.path.realpath('$wt').encode()).hexdigest()[:10])")
if [ -n "$KEEP_REPLAYS" ]; then mkdir -p /tmp/tp-replays; cp -r .build/$key/replays/. /tmp/tp-replays/ 2>/dev/null; fi
rm -rf .build/$key
git -C /repo worktree remove --force $wt
exit $rc
