// simgen rewrites kraken sources so that every source of nondeterminism goes
// through the simulator (see DESIGN.md §2.2 and appendix B). Output: rewritten
// copies under -out and an overlay.json for `go build -overlay`.
package main

import (
	"bytes"
	"crypto/sha256"
	"encoding/hex"
	"encoding/json"
	"flag"
	"fmt"
	"go/ast"
	"go/constant"
	"go/format"
	"go/parser"
	"go/token"
	"go/types"
	"os"
	"path/filepath"
	"sort"
	"strconv"
	"strings"

	"golang.org/x/tools/go/ast/astutil"
	"golang.org/x/tools/go/packages"
)

var importSwap = map[string]string{
	"os":                                  "kverif/shim/os",
	"sync":                                "kverif/shim/sync",
	"sync/atomic":                         "kverif/shim/atomic",
	"go.uber.org/atomic":                  "kverif/shim/uatomic",
	"golang.org/x/sync/syncmap":           "kverif/shim/syncmap",
	"golang.org/x/sync/singleflight":      "kverif/shim/singleflight",
	"golang.org/x/sync/errgroup":          "kverif/shim/errgroup",
	"golang.org/x/sync/semaphore":         "kverif/shim/semaphore",
	"math/rand":                           "kverif/shim/rand",
	"github.com/docker/distribution/uuid": "kverif/shim/uuid",
	"github.com/andres-erbsen/clock":      "kverif/shim/clock",
	"net":                                 "kverif/shim/net",
	"io/ioutil":                           "kverif/shim/ioutil",
}

// default package names of the swapped imports (shim packages keep them)
var importName = map[string]string{
	"os": "os", "sync": "sync", "sync/atomic": "atomic", "go.uber.org/atomic": "atomic",
	"golang.org/x/sync/syncmap": "syncmap", "math/rand": "rand",
	"golang.org/x/sync/singleflight": "singleflight", "golang.org/x/sync/errgroup": "errgroup", "golang.org/x/sync/semaphore": "semaphore",
	"github.com/docker/distribution/uuid": "uuid", "github.com/andres-erbsen/clock": "clock", "net": "net",
	"io/ioutil": "ioutil",
}

// time functions rewritten to their simrt counterparts (Sleep releases the
// baton; timers get a unique nanosecond offset so that ties never occur)
var timeFuncs = map[string]bool{"Sleep": true, "NewTimer": true, "NewTicker": true, "After": true, "Tick": true, "AfterFunc": true}

const krakenPrefix = "github.com/uber/kraken/"

var skipDirs = []string{"/mocks/", "/tools/", "/test/", "/examples/", "/gen/"}

type census struct {
	Files, Go, Send, Recv, Select, RangeChan, RangeMap, Sleep, Imports, Fatal, Decorate int
	Packages                                                                            int
	Skipped                                                                             []string
	PointerKeyRanges                                                                    []string
}

var (
	cs census
	// decoration points: fully qualified constructor -> (name passed to
	// simrt.Decorate, interface type of the same package its result is used at)
	decorateCfg = map[string][2]string{
		krakenPrefix + "lib/torrent/scheduler/announcequeue.New": {"announcequeue.New", "Queue"},
	}
)

func main() {
	repo := flag.String("repo", "/repo", "kraken tree")
	out := flag.String("out", "/verif/.build/overlay", "output dir")
	verifDir := flag.String("verif", "/verif", "module dir to load packages from")
	disable := flag.String("disable", "", "comma separated import swaps to disable (e.g. net)")
	modfile := flag.String("modfile", "", "alternative go.mod (scratch kraken trees)")
	flag.Parse()
	for _, d := range strings.Split(*disable, ",") {
		delete(importSwap, strings.TrimSpace(d))
	}
	absRepo, _ := filepath.Abs(*repo)

	cfg := &packages.Config{
		Mode: packages.NeedName | packages.NeedFiles | packages.NeedSyntax | packages.NeedTypes | packages.NeedTypesInfo | packages.NeedCompiledGoFiles | packages.NeedImports,
		Dir:  *verifDir,
		Env:  append(os.Environ(), "GOFLAGS=-mod=mod", "GOPROXY=off", "GOSUMDB=off"),
	}
	if *modfile != "" {
		cfg.Env = append(os.Environ(), "GOFLAGS=-mod=mod -modfile="+*modfile, "GOPROXY=off", "GOSUMDB=off")
	}
	pkgs, err := packages.Load(cfg, krakenPrefix+"...")
	if err != nil {
		fmt.Fprintln(os.Stderr, "simgen: load:", err)
		os.Exit(2)
	}
	overlay := map[string]string{}
	os.RemoveAll(*out)
	sort.Slice(pkgs, func(i, j int) bool { return pkgs[i].PkgPath < pkgs[j].PkgPath })
	for _, p := range pkgs {
		skip := false
		for _, d := range skipDirs {
			if strings.Contains(p.PkgPath+"/", d) {
				skip = true
			}
		}
		if skip {
			continue
		}
		if len(p.Errors) > 0 {
			cs.Skipped = append(cs.Skipped, fmt.Sprintf("%s: %v", p.PkgPath, p.Errors[0]))
			continue
		}
		cs.Packages++
		for i, f := range p.Syntax {
			fn := p.CompiledGoFiles[i]
			if !strings.HasPrefix(fn, absRepo+"/") || strings.HasSuffix(fn, "_test.go") {
				continue
			}
			changed, src, err := rewriteFile(p, f)
			if err != nil {
				fmt.Fprintf(os.Stderr, "simgen: %s: %v\n", fn, err)
				os.Exit(2)
			}
			if !changed {
				continue
			}
			rel := strings.TrimPrefix(fn, absRepo+"/")
			dst := filepath.Join(*out, rel)
			os.MkdirAll(filepath.Dir(dst), 0o755)
			if err := os.WriteFile(dst, src, 0o644); err != nil {
				fmt.Fprintln(os.Stderr, "simgen:", err)
				os.Exit(2)
			}
			overlay[fn] = dst
			cs.Files++
		}
	}
	b, _ := json.MarshalIndent(map[string]any{"Replace": overlay}, "", " ")
	os.MkdirAll(*out, 0o755)
	os.WriteFile(filepath.Join(*out, "..", "overlay.json"), b, 0o644)
	cb, _ := json.MarshalIndent(cs, "", " ")
	os.WriteFile(filepath.Join(*out, "..", "census.json"), cb, 0o644)
	h := sha256.Sum256(b)
	fmt.Printf("simgen: %d packages, %d files rewritten (go=%d send=%d recv=%d select=%d rangechan=%d rangemap=%d sleep=%d imports=%d fatal=%d decorate=%d) overlay=%s skipped=%d\n",
		cs.Packages, cs.Files, cs.Go, cs.Send, cs.Recv, cs.Select, cs.RangeChan, cs.RangeMap, cs.Sleep, cs.Imports, cs.Fatal, cs.Decorate, hex.EncodeToString(h[:4]), len(cs.Skipped))
	for _, s := range cs.Skipped {
		fmt.Fprintln(os.Stderr, "simgen: skipped", s)
	}
}

type rewriter struct {
	pkg       *packages.Package
	info      *types.Info
	fset      *token.FileSet
	file      *ast.File
	needSim   bool
	needHook  bool
	n         int
	rangeKind map[*ast.RangeStmt]int // 1 chan, 2 map
	goInline  map[*ast.GoStmt][]bool
	isSleep   map[*ast.CallExpr]bool
	decorate  map[*ast.CallExpr][2]string // call -> (name, qualified interface type)
	recvOf    map[ast.Expr]ast.Expr       // generated Recv/Recv2 call -> channel expr
	sendOf    map[ast.Expr][2]ast.Expr    // generated SendTo call -> (ch, v)
	relabel   map[*ast.BlockStmt]int      // generated block whose last stmt must carry an outer label
	err       error
}

func (r *rewriter) tmp(prefix string) *ast.Ident {
	r.n++
	return ast.NewIdent(fmt.Sprintf("ʂ%s%d", prefix, r.n))
}

func sel(pkg, name string) ast.Expr {
	return &ast.SelectorExpr{X: ast.NewIdent(pkg), Sel: ast.NewIdent(name)}
}

func call(fun ast.Expr, args ...ast.Expr) *ast.CallExpr {
	return &ast.CallExpr{Fun: fun, Args: args}
}

func rewriteFile(p *packages.Package, f *ast.File) (bool, []byte, error) {
	r := &rewriter{pkg: p, info: p.TypesInfo, fset: p.Fset, file: f,
		rangeKind: map[*ast.RangeStmt]int{}, goInline: map[*ast.GoStmt][]bool{}, isSleep: map[*ast.CallExpr]bool{}, decorate: map[*ast.CallExpr][2]string{},
		recvOf: map[ast.Expr]ast.Expr{}, sendOf: map[ast.Expr][2]ast.Expr{}, relabel: map[*ast.BlockStmt]int{}}
	changed := false

	// imports
	for _, im := range f.Imports {
		path, _ := strconv.Unquote(im.Path.Value)
		if np, ok := importSwap[path]; ok {
			if im.Name == nil && importName[path] != filepath.Base(np) {
				im.Name = ast.NewIdent(importName[path])
			}
			im.Path.Value = strconv.Quote(np)
			changed = true
			cs.Imports++
		}
	}

	// pass 0: collect type-dependent facts on the untouched tree
	ast.Inspect(f, func(n ast.Node) bool {
		switch x := n.(type) {
		case *ast.RangeStmt:
			if tv, ok := r.info.Types[x.X]; ok && tv.Type != nil {
				switch u := tv.Type.Underlying().(type) {
				case *types.Chan:
					r.rangeKind[x] = 1
				case *types.Map:
					r.rangeKind[x] = 2
					if _, isPtr := u.Key().Underlying().(*types.Pointer); isPtr {
						cs.PointerKeyRanges = append(cs.PointerKeyRanges, r.fset.Position(x.Pos()).String()+" "+u.Key().String())
					}
				}
			}
		case *ast.GoStmt:
			fl := make([]bool, len(x.Call.Args))
			for i, a := range x.Call.Args {
				tv, ok := r.info.Types[a]
				if ok && (tv.Value != nil || tv.IsNil()) {
					fl[i] = true
				}
				if ok && tv.Value != nil && tv.Value.Kind() == constant.Unknown {
					fl[i] = false
				}
				if _, isLit := a.(*ast.FuncLit); isLit {
					fl[i] = true
				}
			}
			r.goInline[x] = fl
		case *ast.CallExpr:
			if se, ok := x.Fun.(*ast.SelectorExpr); ok && timeFuncs[se.Sel.Name] {
				if id, ok := se.X.(*ast.Ident); ok {
					if pn, ok := r.info.Uses[id].(*types.PkgName); ok && pn.Imported().Path() == "time" {
						r.isSleep[x] = true
					}
				}
			}
		}
		return true
	})

	// decoration points: `return pkg.Ctor(...)` inside a function whose single
	// result is the configured interface type of pkg
	var funcStack []*ast.FuncType
	var visit func(n ast.Node) bool
	visit = func(n ast.Node) bool {
		switch x := n.(type) {
		case *ast.FuncDecl:
			if x.Body != nil {
				funcStack = append(funcStack, x.Type)
				ast.Inspect(x.Body, visit)
				funcStack = funcStack[:len(funcStack)-1]
			}
			return false
		case *ast.FuncLit:
			funcStack = append(funcStack, x.Type)
			ast.Inspect(x.Body, visit)
			funcStack = funcStack[:len(funcStack)-1]
			return false
		case *ast.ReturnStmt:
			if len(x.Results) != 1 || len(funcStack) == 0 {
				return true
			}
			ce, ok := x.Results[0].(*ast.CallExpr)
			if !ok {
				return true
			}
			se, ok := ce.Fun.(*ast.SelectorExpr)
			if !ok {
				return true
			}
			fo, ok := r.info.Uses[se.Sel].(*types.Func)
			if !ok || fo.Pkg() == nil {
				return true
			}
			cfg, ok := decorateCfg[fo.Pkg().Path()+"."+fo.Name()]
			if !ok {
				return true
			}
			ft := funcStack[len(funcStack)-1]
			if ft.Results == nil || len(ft.Results.List) != 1 || len(ft.Results.List[0].Names) > 1 {
				return true
			}
			rt := r.info.TypeOf(ft.Results.List[0].Type)
			nt, ok := rt.(*types.Named)
			if !ok || nt.Obj().Pkg() == nil || nt.Obj().Pkg().Path() != fo.Pkg().Path() || nt.Obj().Name() != cfg[1] {
				return true
			}
			if _, isIface := nt.Underlying().(*types.Interface); !isIface {
				return true
			}
			pkgIdent, ok := se.X.(*ast.Ident)
			if !ok {
				return true
			}
			r.decorate[ce] = [2]string{cfg[0], pkgIdent.Name + "." + cfg[1]}
		}
		return true
	}
	ast.Inspect(f, visit)

	// special package: utils/log Fatal* must not exit the process
	if p.PkgPath == krakenPrefix+"utils/log" {
		for _, d := range f.Decls {
			fd, ok := d.(*ast.FuncDecl)
			if !ok || fd.Recv != nil || !strings.HasPrefix(fd.Name.Name, "Fatal") || fd.Body == nil {
				continue
			}
			var args []ast.Expr
			for _, fld := range fd.Type.Params.List {
				for _, nm := range fld.Names {
					args = append(args, ast.NewIdent(nm.Name))
				}
			}
			c := call(sel("simrt", "LogFatal"), args...)
			// variadic last parameter is passed as a single slice value; fine for a message
			fd.Body = &ast.BlockStmt{List: []ast.Stmt{&ast.ExprStmt{X: c}}}
			r.needSim = true
			changed = true
			cs.Fatal++
		}
	}

	// special package: utils/diskspaceutil.Usage consults the simulator first
	if p.PkgPath == krakenPrefix+"utils/diskspaceutil" {
		for _, d := range f.Decls {
			fd, ok := d.(*ast.FuncDecl)
			if !ok || fd.Recv != nil || fd.Name.Name != "Usage" || fd.Body == nil {
				continue
			}
			src := "package x\nfunc f() { if u, err, ok := simrt.DiskUsageHook(); ok { return UsageInfo{Util: u.Util, TotalBytes: u.Total, UsedBytes: u.Used, FreeBytes: u.Free}, err } }"
			pf, perr := parser.ParseFile(token.NewFileSet(), "", src, 0)
			if perr != nil {
				return false, nil, perr
			}
			hook := pf.Decls[0].(*ast.FuncDecl).Body.List
			fd.Body.List = append(hook, fd.Body.List...)
			r.needSim = true
			changed = true
			cs.Decorate++
		}
	}

	post := func(c *astutil.Cursor) bool {
		switch x := c.Node().(type) {
		case *ast.SendStmt:
			ce := call(call(sel("simrt", "SendTo"), x.Chan), x.Value)
			r.sendOf[ce] = [2]ast.Expr{x.Chan, x.Value}
			c.Replace(&ast.ExprStmt{X: ce})
			r.needSim = true
			cs.Send++
		case *ast.UnaryExpr:
			if x.Op != token.ARROW {
				break
			}
			fn := "Recv"
			switch par := c.Parent().(type) {
			case *ast.AssignStmt:
				if len(par.Lhs) == 2 && len(par.Rhs) == 1 {
					fn = "Recv2"
				}
			case *ast.ValueSpec:
				if len(par.Names) == 2 && len(par.Values) == 1 {
					fn = "Recv2"
				}
			}
			ce := call(sel("simrt", fn), x.X)
			r.recvOf[ce] = x.X
			c.Replace(ce)
			r.needSim = true
			cs.Recv++
		case *ast.CallExpr:
			if r.isSleep[x] {
				x.Fun = sel("simrt", x.Fun.(*ast.SelectorExpr).Sel.Name)
				r.needSim = true
				cs.Sleep++
			}
			if d, ok := r.decorate[x]; ok {
				delete(r.decorate, x)
				parts := strings.SplitN(d[1], ".", 2)
				fun := &ast.IndexExpr{X: sel("simrt", "Decorate"), Index: sel(parts[0], parts[1])}
				c.Replace(call(fun, &ast.BasicLit{Kind: token.STRING, Value: strconv.Quote(d[0])}, x))
				r.needSim = true
				cs.Decorate++
			}
		case *ast.GoStmt:
			c.Replace(r.rewriteGo(x))
			r.needSim = true
			cs.Go++
		case *ast.RangeStmt:
			switch r.rangeKind[x] {
			case 1:
				c.Replace(r.rewriteRangeChan(x))
				cs.RangeChan++
				r.needSim = true
			case 2:
				c.Replace(r.rewriteRangeMap(x))
				cs.RangeMap++
				r.needSim = true
			}
		case *ast.SelectStmt:
			c.Replace(r.rewriteSelect(x))
			cs.Select++
			r.needSim = true
		case *ast.LabeledStmt:
			if blk, ok := x.Stmt.(*ast.BlockStmt); ok {
				if _, gen := r.relabel[blk]; gen {
					last := len(blk.List) - 1
					blk.List[last] = &ast.LabeledStmt{Label: x.Label, Stmt: blk.List[last]}
					c.Replace(blk)
				}
			}
		}
		return true
	}
	astutil.Apply(f, nil, post)
	if r.err != nil {
		return false, nil, r.err
	}
	if r.needSim {
		changed = true
		astutil.AddNamedImport(r.fset, f, "simrt", "kverif/sim")
		// a rewrite may have removed the file's last use of package time
		if !astutil.UsesImport(f, "time") {
			astutil.DeleteImport(r.fset, f, "time")
		}
	}
	if !changed {
		return false, nil, nil
	}
	// keep only comments that precede the package clause (build constraints)
	var keep []*ast.CommentGroup
	for _, cg := range f.Comments {
		if cg.End() < f.Package {
			keep = append(keep, cg)
		}
	}
	f.Comments = keep
	stripDocs(f)
	var buf bytes.Buffer
	if err := format.Node(&buf, r.fset, f); err != nil {
		return false, nil, err
	}
	// sanity: no construct may be left untouched
	return true, buf.Bytes(), nil
}

func stripDocs(f *ast.File) {
	ast.Inspect(f, func(n ast.Node) bool {
		switch x := n.(type) {
		case *ast.FuncDecl:
			x.Doc = nil
		case *ast.GenDecl:
			x.Doc = nil
		case *ast.Field:
			x.Doc, x.Comment = nil, nil
		case *ast.ValueSpec:
			x.Doc, x.Comment = nil, nil
		case *ast.TypeSpec:
			x.Doc, x.Comment = nil, nil
		case *ast.ImportSpec:
			x.Doc, x.Comment = nil, nil
		}
		return true
	})
}

// go F(a1..an) -> { ʂf, ʂ1.. := F, a1..; simrt.Go(func(){ ʂf(ʂ1..) }) }
func (r *rewriter) rewriteGo(g *ast.GoStmt) ast.Stmt {
	cl := g.Call
	inline := r.goInline[g]
	var lhs, rhs []ast.Expr
	var fun ast.Expr
	if fl, ok := cl.Fun.(*ast.FuncLit); ok {
		fun = fl
	} else if pe, ok := cl.Fun.(*ast.ParenExpr); ok {
		if fl, ok := pe.X.(*ast.FuncLit); ok {
			fun = fl
		}
	}
	if fun == nil {
		f := r.tmp("f")
		lhs = append(lhs, f)
		rhs = append(rhs, cl.Fun)
		fun = ast.NewIdent(f.Name)
	}
	var args []ast.Expr
	for i, a := range cl.Args {
		if i < len(inline) && inline[i] {
			args = append(args, a)
			continue
		}
		t := r.tmp("a")
		lhs = append(lhs, t)
		rhs = append(rhs, a)
		args = append(args, ast.NewIdent(t.Name))
	}
	inner := &ast.CallExpr{Fun: fun, Args: args, Ellipsis: cl.Ellipsis}
	if cl.Ellipsis != token.NoPos {
		inner.Ellipsis = 1
	}
	body := &ast.FuncLit{Type: &ast.FuncType{Params: &ast.FieldList{}}, Body: &ast.BlockStmt{List: []ast.Stmt{&ast.ExprStmt{X: inner}}}}
	goCall := &ast.ExprStmt{X: call(sel("simrt", "Go"), body)}
	if len(lhs) == 0 {
		return goCall
	}
	return &ast.BlockStmt{List: []ast.Stmt{
		&ast.AssignStmt{Lhs: lhs, Tok: token.DEFINE, Rhs: rhs},
		goCall,
	}}
}

// for X := range C {B} -> for { X, ʂok := simrt.Recv2(C); if !ʂok { break }; B }
func (r *rewriter) rewriteRangeChan(rs *ast.RangeStmt) ast.Stmt {
	ok := r.tmp("ok")
	var key ast.Expr = ast.NewIdent("_")
	tok := token.DEFINE
	if rs.Key != nil {
		key = rs.Key
		tok = rs.Tok
	}
	var decl ast.Stmt
	if tok == token.ASSIGN {
		// X = ... needs ok declared separately
		decl = &ast.BlockStmt{List: []ast.Stmt{}}
		r.err = fmt.Errorf("%s: range over channel with '=' not supported", r.fset.Position(rs.Pos()))
	}
	_ = decl
	recv := &ast.AssignStmt{Lhs: []ast.Expr{key, ok}, Tok: token.DEFINE, Rhs: []ast.Expr{call(sel("simrt", "Recv2"), rs.X)}}
	brk := &ast.IfStmt{Cond: &ast.UnaryExpr{Op: token.NOT, X: ast.NewIdent(ok.Name)}, Body: &ast.BlockStmt{List: []ast.Stmt{&ast.BranchStmt{Tok: token.BREAK}}}}
	body := append([]ast.Stmt{recv, brk}, rs.Body.List...)
	return &ast.ForStmt{Body: &ast.BlockStmt{List: body}}
}

// for K, V := range M {B} -> { ʂm := M; for _, K := range simrt.MapKeys(ʂm) { V, ʂok := ʂm[K]; if !ʂok { continue }; B } }
func (r *rewriter) rewriteRangeMap(rs *ast.RangeStmt) ast.Stmt {
	m := r.tmp("m")
	decl := &ast.AssignStmt{Lhs: []ast.Expr{m}, Tok: token.DEFINE, Rhs: []ast.Expr{rs.X}}
	mref := func() ast.Expr { return ast.NewIdent(m.Name) }
	keysCall := call(sel("simrt", "MapKeys"), mref())
	isBlank := func(e ast.Expr) bool {
		if e == nil {
			return true
		}
		id, ok := e.(*ast.Ident)
		return ok && id.Name == "_"
	}
	var pre []ast.Stmt
	var keyVar ast.Expr
	loopTok := token.DEFINE
	if rs.Tok == token.ASSIGN {
		// assign form: iterate with a temporary, then assign
		k := r.tmp("k")
		keyVar = k
		if !isBlank(rs.Key) {
			pre = append(pre, &ast.AssignStmt{Lhs: []ast.Expr{rs.Key}, Tok: token.ASSIGN, Rhs: []ast.Expr{ast.NewIdent(k.Name)}})
		}
		ok := r.tmp("ok")
		if !isBlank(rs.Value) {
			pre = append(pre,
				&ast.DeclStmt{Decl: &ast.GenDecl{Tok: token.VAR, Specs: []ast.Spec{&ast.ValueSpec{Names: []*ast.Ident{ok}, Type: ast.NewIdent("bool")}}}},
				&ast.AssignStmt{Lhs: []ast.Expr{rs.Value, ast.NewIdent(ok.Name)}, Tok: token.ASSIGN, Rhs: []ast.Expr{&ast.IndexExpr{X: mref(), Index: ast.NewIdent(k.Name)}}})
		} else {
			pre = append(pre, &ast.AssignStmt{Lhs: []ast.Expr{ast.NewIdent("_"), ok}, Tok: token.DEFINE, Rhs: []ast.Expr{&ast.IndexExpr{X: mref(), Index: ast.NewIdent(k.Name)}}})
		}
		pre = append(pre, &ast.IfStmt{Cond: &ast.UnaryExpr{Op: token.NOT, X: ast.NewIdent(ok.Name)}, Body: &ast.BlockStmt{List: []ast.Stmt{&ast.BranchStmt{Tok: token.CONTINUE}}}})
	} else {
		var kname *ast.Ident
		if isBlank(rs.Key) {
			kname = r.tmp("k")
		} else {
			kname = rs.Key.(*ast.Ident)
		}
		keyVar = kname
		ok := r.tmp("ok")
		var v ast.Expr = ast.NewIdent("_")
		if !isBlank(rs.Value) {
			v = rs.Value
		}
		pre = append(pre,
			&ast.AssignStmt{Lhs: []ast.Expr{v, ok}, Tok: token.DEFINE, Rhs: []ast.Expr{&ast.IndexExpr{X: mref(), Index: ast.NewIdent(kname.Name)}}},
			&ast.IfStmt{Cond: &ast.UnaryExpr{Op: token.NOT, X: ast.NewIdent(ok.Name)}, Body: &ast.BlockStmt{List: []ast.Stmt{&ast.BranchStmt{Tok: token.CONTINUE}}}})
	}
	loop := &ast.RangeStmt{Key: ast.NewIdent("_"), Value: keyVar, Tok: loopTok, X: keysCall,
		Body: &ast.BlockStmt{List: append(pre, rs.Body.List...)}}
	blk := &ast.BlockStmt{List: []ast.Stmt{decl, loop}}
	r.relabel[blk] = 1
	return blk
}

// select -> { ʂc0 := simrt.RecvCase(c); ...; switch simrt.Select(hasDefault, ʂc0, ...) { case 0: ... default: ... } }
func (r *rewriter) rewriteSelect(s *ast.SelectStmt) ast.Stmt {
	if len(s.Body.List) == 0 {
		return &ast.ExprStmt{X: call(sel("simrt", "ParkForever"))}
	}
	var pre []ast.Stmt
	var caseArgs []ast.Expr
	var clauses []ast.Stmt
	hasDefault := false
	idx := 0
	for _, cc0 := range s.Body.List {
		cc := cc0.(*ast.CommClause)
		if cc.Comm == nil {
			hasDefault = true
			clauses = append(clauses, &ast.CaseClause{List: nil, Body: cc.Body})
			continue
		}
		cv := r.tmp("c")
		var body []ast.Stmt
		field := func(n string) ast.Expr { return &ast.SelectorExpr{X: ast.NewIdent(cv.Name), Sel: ast.NewIdent(n)} }
		switch cm := cc.Comm.(type) {
		case *ast.ExprStmt:
			ce, _ := cm.X.(*ast.CallExpr)
			if ch, ok := r.recvOf[ce]; ok {
				pre = append(pre, &ast.AssignStmt{Lhs: []ast.Expr{cv}, Tok: token.DEFINE, Rhs: []ast.Expr{call(sel("simrt", "RecvCase"), ch)}})
			} else if sv, ok := r.sendOf[ce]; ok {
				pre = append(pre, &ast.AssignStmt{Lhs: []ast.Expr{cv}, Tok: token.DEFINE, Rhs: []ast.Expr{call(call(sel("simrt", "SendCase"), sv[0]), sv[1])}})
			} else {
				r.err = fmt.Errorf("%s: unrecognised select clause", r.fset.Position(cc.Pos()))
				return s
			}
		case *ast.AssignStmt:
			ce, _ := cm.Rhs[0].(*ast.CallExpr)
			ch, ok := r.recvOf[ce]
			if !ok {
				r.err = fmt.Errorf("%s: unrecognised select receive clause", r.fset.Position(cc.Pos()))
				return s
			}
			pre = append(pre, &ast.AssignStmt{Lhs: []ast.Expr{cv}, Tok: token.DEFINE, Rhs: []ast.Expr{call(sel("simrt", "RecvCase"), ch)}})
			rhs := []ast.Expr{field("V")}
			if len(cm.Lhs) == 2 {
				rhs = append(rhs, field("OK"))
			}
			asg := &ast.AssignStmt{Lhs: cm.Lhs, Tok: cm.Tok, Rhs: rhs}
			body = append(body, asg)
			if cm.Tok == token.DEFINE {
				// silence "declared and not used" the way select does not need to
				for _, l := range cm.Lhs {
					if id, ok := l.(*ast.Ident); ok && id.Name != "_" {
						body = append(body, &ast.AssignStmt{Lhs: []ast.Expr{ast.NewIdent("_")}, Tok: token.ASSIGN, Rhs: []ast.Expr{ast.NewIdent(id.Name)}})
					}
				}
			}
		default:
			r.err = fmt.Errorf("%s: unrecognised select clause kind %T", r.fset.Position(cc.Pos()), cc.Comm)
			return s
		}
		caseArgs = append(caseArgs, ast.NewIdent(cv.Name))
		clauses = append(clauses, &ast.CaseClause{List: []ast.Expr{&ast.BasicLit{Kind: token.INT, Value: strconv.Itoa(idx)}}, Body: append(body, cc.Body...)})
		idx++
	}
	hd := "false"
	if hasDefault {
		hd = "true"
	} else {
		// keeps the switch a terminating statement when the select was one
		clauses = append(clauses, &ast.CaseClause{List: nil, Body: []ast.Stmt{&ast.ExprStmt{X: call(ast.NewIdent("panic"), &ast.BasicLit{Kind: token.STRING, Value: `"simgen: unreachable select result"`})}}})
	}
	sw := &ast.SwitchStmt{
		Tag:  call(sel("simrt", "Select"), append([]ast.Expr{ast.NewIdent(hd)}, caseArgs...)...),
		Body: &ast.BlockStmt{List: clauses},
	}
	blk := &ast.BlockStmt{List: append(pre, sw)}
	r.relabel[blk] = 1
	return blk
}
