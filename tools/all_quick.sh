#!/bin/bash
# tools/all_quick.sh [tier]: every enabled check once against /repo; one summary line each.
cd "$(dirname "$0")/.."
. ./env.sh
tier=${1:-quick}
for id in $(cat props/enabled.txt); do
  t0=$(date +%s)
  out=$(./check $id --tier $tier 2>&1); rc=$?
  t1=$(date +%s)
  echo "$id rc=$rc wall=$((t1-t0))s $(echo "$out" | grep -c '^VIOLATION') violations $(echo "$out" | grep -c '^KNOWN-FINDING') known | $(echo "$out" | grep '^check' | tail -1 | cut -c1-160)"
  if [ $rc -ne 0 ]; then echo "$out" | tail -15; fi
done
