#!/usr/bin/env python3
"""Re-run the checks against the seeded changes kept under /verif/seeded/.

  tools/recheck_seeded.py [--tier quick|thorough] [--seed N] [--all-checks] [name ...]

For every seeded/<name>/ a scratch worktree of /repo HEAD is created under
/tmp, patch.diff is applied (test files excluded), `KRAKEN_REPO=<scratch>
./check <property>` is run and the outcome is stored in meta.json under
"recheck" (keyed by tier). The scratch tree and its build output are removed
afterwards. Nothing is written to /repo, /verif/evidence or /verif/replays.
With --all-checks every enabled check whose harness imports a touched package
is run too (who else notices the change).
"""
import hashlib, json, os, re, shutil, subprocess, sys, time

VERIF = os.path.dirname(os.path.dirname(os.path.abspath(__file__)))
args = sys.argv[1:]
tier, seed, names = 'quick', '1', []
i = 0
while i < len(args):
    if args[i] == '--tier':
        tier = args[i + 1]; i += 2
    elif args[i] == '--seed':
        seed = args[i + 1]; i += 2
    else:
        names.append(args[i]); i += 1
if not names:
    names = sorted(os.listdir(os.path.join(VERIF, 'seeded')))


def sh(cmd, cwd=None, env=None, timeout=7200):
    p = subprocess.run(['bash', '-c', cmd], cwd=cwd, env=env, stdout=subprocess.PIPE, stderr=subprocess.STDOUT, text=True, timeout=timeout)
    return p.returncode, p.stdout


repo_head = sh('git -C /repo rev-parse --short HEAD')[1].strip()
verif_head = sh('git -C %s rev-parse --short HEAD' % VERIF)[1].strip()
summary = []
for name in names:
    d = os.path.join(VERIF, 'seeded', name)
    mp = os.path.join(d, 'meta.json')
    if not os.path.exists(mp):
        continue
    meta = json.load(open(mp))
    pid = (meta.get('breaks_property') or meta.get('property') or name[:3]).upper()
    scratch = '/tmp/rs-' + name.lower()
    subprocess.run(['git', '-C', '/repo', 'worktree', 'remove', '--force', scratch], stderr=subprocess.DEVNULL, stdout=subprocess.DEVNULL)
    shutil.rmtree(scratch, ignore_errors=True)
    subprocess.run(['git', '-C', '/repo', 'worktree', 'prune'])
    rc, out = sh('git -C /repo worktree add -q --detach %s HEAD' % scratch)
    if rc != 0:
        print(name, 'worktree failed', out); continue
    key = 'alt-' + hashlib.sha256(os.path.realpath(scratch).encode()).hexdigest()[:10]
    try:
        rc, out = sh('git apply --exclude="*_test.go" %s' % os.path.join(d, 'patch.diff'), cwd=scratch)
        if rc != 0:
            rc, out = sh('git apply -3 --exclude="*_test.go" %s' % os.path.join(d, 'patch.diff'), cwd=scratch)
        rec = {'repo_head': repo_head, 'verif_head': verif_head, 'seed': int(seed)}
        if rc != 0:
            rec.update(applies=False, note=out[-400:])
            print('%s: patch no longer applies to %s' % (name, repo_head))
        else:
            t0 = time.time()
            env = dict(os.environ, KRAKEN_REPO=scratch, VERIF_SEED=seed)
            rcc, outc = sh('./check %s --tier %s 2>&1 | tail -12' % (pid, tier), cwd=VERIF, env=env)
            caught = ('VIOLATION property=' + pid) in outc
            oracles = sorted(set(re.findall(r'violation oracle=(\w+)', outc)))
            infra = 'check:' in outc and not caught
            rec.update(applies=True, caught=caught, oracles=oracles, wall_s=round(time.time() - t0, 1), tail=outc[-700:] if not caught else '')
            print('%s: %s tier=%s caught=%s oracles=%s infra=%s (%.0fs)' % (name, pid, tier, caught, oracles, infra, time.time() - t0))
            if not caught:
                print(outc[-700:])
        meta.setdefault('recheck', {})[tier] = rec
        json.dump(meta, open(mp, 'w'), indent=1)
        summary.append((name, pid, rec.get('caught'), rec.get('oracles')))
    finally:
        subprocess.run(['git', '-C', '/repo', 'worktree', 'remove', '--force', scratch], stderr=subprocess.DEVNULL)
        shutil.rmtree(os.path.join(VERIF, '.build', key), ignore_errors=True)
print('SUMMARY')
for s in summary:
    print(' ', s)
