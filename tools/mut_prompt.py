#!/usr/bin/env python3
"""Prepare a blind property-breaking task for a fresh sub-agent.

  tools/mut_prompt.py <ID> [suffix]

Creates a scratch worktree /tmp/mut-<id><suffix> of /repo HEAD and an empty
delivery directory /tmp/deliv-<id><suffix>, and prints the prompt: the text of
the property only — nothing from /verif.
"""
import json, os, subprocess, sys

VERIF = os.path.dirname(os.path.dirname(os.path.abspath(__file__)))
pid = sys.argv[1].upper()
suffix = sys.argv[2] if len(sys.argv) > 2 else ''
name = pid.lower() + suffix
prop = None
for l in open(os.path.join(VERIF, 'properties.jsonl')):
    p = json.loads(l)
    if p['id'] == pid:
        prop = p
wt, deliv = '/tmp/mut-' + name, '/tmp/deliv-' + name
subprocess.run(['git', '-C', '/repo', 'worktree', 'remove', '--force', wt], stderr=subprocess.DEVNULL, stdout=subprocess.DEVNULL)
subprocess.run(['rm', '-rf', wt, deliv])
subprocess.run(['git', '-C', '/repo', 'worktree', 'prune'])
subprocess.check_call(['git', '-C', '/repo', 'worktree', 'add', '-q', '--detach', wt, 'HEAD'])
os.makedirs(os.path.join(deliv, 'demo'))
extra = os.environ.get('MUT_EXTRA', '')
print(f"""You are helping to evaluate how good a verification effort for the Go project uber/kraken (a P2P Docker registry) is. Your job is to play the part of a developer whose plausible-looking change silently breaks one stated behavioural property of the system.

You have your own scratch git worktree of the repository at {wt} (detached HEAD). Work ONLY there. Never read or write anything under /repo or /verif (both are off limits, including reading them for hints), and do not run git commands that affect other worktrees. Do not commit.

The property (this is all you are given about it):

  id: {prop['id']}
  title: {prop['title']}
  statement: {prop['statement']}
  quantified over: {prop['quantifier']['text']}
  why the existing tests cannot settle it: {prop['why_tests_cant']}
  code it is anchored in: {', '.join(prop['anchors'].get('files', []))}

Task. Produce ONE change to the non-test Go source of uber/kraken in {wt} that:
  1. makes the property FALSE for some input / schedule / crash point / fault sequence / history, in the real behaviour of the code (not merely in a comment or a log line);
  2. still compiles (`go build ./...`) and still passes the EXISTING unit tests, unedited — at the very least those of every package you touch and of the packages that import them; do not edit, delete or skip existing tests;
  3. needs something SPECIFIC in order to manifest — a particular interleaving of goroutines, a crash or fault at a particular point, a multi-step sequence of operations, an unusual input or configuration, or two cooperating sites that each look fine alone. A change that ordinary use or the first smoke test would expose at once is not wanted;
  4. looks like something a real developer might write (an optimisation, a refactoring, a "simplification", a new fast path, a small feature, a changed default, reordered steps, a lock narrowed, a check moved) — not a line that is obviously sabotage. Keep it small (typically under 60 changed lines) and confined to one or two files.{extra}
Then write a DEMONSTRATION: a new Go test file (or small program) placed in the appropriate package directory of {wt} that FAILS with your change and PASSES without it (check both: use `git stash` / `git apply -R` on your non-test change, or `git diff > p; git apply -R p`, run the demo, re-apply). The demonstration may use whatever it needs (goroutines with deliberate synchronisation, temp dirs, fake clocks, httptest servers, killing a child process, calling exported or unexported functions of the package) but must be deterministic enough to fail at least 9 times out of 10 with the change and never without it.

Environment: there is no network. Before every go command: `export GOFLAGS=-mod=mod GOPROXY=off` (leave GOSUMDB unset). Use the default `go` on PATH. The first build takes a couple of minutes (cgo sqlite); later ones are cached. If `go` rewrites go.mod/go.sum in the worktree, restore them with `git checkout go.mod go.sum`. Some existing tests are timing-flaky under load (e.g. in lib/store/disk, utils/bandwidth, utils/httputil, utils/timeutil, lib/torrent/scheduler): if one of those fails, re-run it alone before concluding your change broke it. The machine is shared: do not run the whole repository's test suite more than once or twice; prefer `go test ./path/of/touched/package/... ` and its direct importers.

Deliver, in {deliv}/ :
  - patch.diff : `git diff` of your NON-test change only (it must apply with `git apply` to a clean checkout of the same commit);
  - demo/ : the demonstration file(s), at the same relative paths they have inside the worktree (e.g. demo/lib/store/foo_demo_test.go);
  - meta.json : {{"property": "{pid}", "summary": "<what the change does and why it looks innocent>", "needs_to_manifest": "<the exact circumstances under which the property is violated>", "files": [...], "demo_command": "<go test command, run from the worktree root>", "verified": "<what you ran and what you saw, with and without the change>"}}
Leave the worktree with your change applied and the demo files in place. Your final message should be a short report: what you changed, what it needs to manifest, and the commands with their outcomes.""")
