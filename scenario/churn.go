// Package scenario holds whole-cluster workloads shared by several harnesses.
//
// Churn runs real agents, origins and a tracker (package cluster) through a
// tape-drawn history of downloads of several blobs, removals, idle drops,
// connection resets and stalls, partitions, tracker errors, scheduler stops,
// reloads and agent restarts. It has no oracle of its own: harnesses attach
// monitors (network events in event-loop order, p2p frames on the wire,
// decoration points) that judge what the schedulers do in vivo, i.e. under the
// histories the real system produces rather than under a scripted API driver.
package scenario

import (
	"bytes"
	"fmt"
	"strings"
	"time"

	"github.com/uber/kraken/core"
	"github.com/uber/kraken/lib/torrent/networkevent"
	"github.com/uber/kraken/lib/torrent/scheduler/connstate"
	"github.com/uber/kraken/lib/torrent/scheduler/dispatch"

	"kverif/cluster"
	"kverif/kit"
	simrt "kverif/sim"
	"kverif/simhttp"
	"kverif/wire"
)

// World is what monitors see.
type World struct {
	S        *simrt.Sim
	C        *cluster.Cluster
	P        cluster.Params
	Blobs    [][]byte
	Digests  []core.Digest
	InfoHash []core.InfoHash
	Wire     *wire.Log
	// PeerOfIP maps a node address ("10.0.2.1") to the peer id living there.
	PeerOfIP map[string]string
	// NodeSince is the fake time at which the current scheduler of a node name
	// (e.g. "agent1.0") was created or last reloaded: state kept by the
	// scheduler (connection table, blacklist, announce queue) starts there.
	NodeSince map[string]time.Duration
	// Faulty reports whether this run injects faults at all.
	Faulty bool
	// Stopped holds the names of nodes whose scheduler was stopped for good.
	Stopped map[string]bool
	// Reloading holds the names of nodes whose scheduler is being replaced
	// right now (between the Reload call and its return).
	Reloading map[string]bool
	// OnReloaded, if set, is called when a Reload has returned (monitors drop
	// what they know about the old scheduler of that node).
	OnReloaded func(node *simrt.Node)

	onEvent func(node *simrt.Node, origin bool, ev *networkevent.Event) // the scenario's own triggers
}

// Hooks are the attachment points of a harness.
type Hooks struct {
	// Setup runs after the networks exist and before any service starts
	// (register decorators, attach to w.Wire).
	Setup func(w *World)
	// OnEvent receives every network event of every peer, synchronously from
	// kraken's producer call: for scheduler events that is the event loop, so
	// the order of calls is the order in which the loop applied them.
	OnEvent func(w *World, node *simrt.Node, origin bool, ev *networkevent.Event)
	// End runs when the history is over (final checks).
	End func(w *World)
}

func (w *World) hookPeer(node *simrt.Node, origin bool, ev *cluster.Events, h Hooks) {
	ev.Hook = func(e *networkevent.Event) {
		if w.onEvent != nil {
			w.onEvent(node, origin, e)
		}
		if h.OnEvent != nil {
			h.OnEvent(w, node, origin, e)
		}
	}
}

// IPOf strips the port of an address.
func IPOf(addr string) string {
	if i := strings.LastIndex(addr, ":"); i >= 0 {
		return addr[:i]
	}
	return addr
}

// Churn runs one history.
func Churn(s *simrt.Sim, tier string, h Hooks) {
	tp := s.Tape
	thorough := tier == "thorough"
	sc := cluster.DefaultSched()
	sc.LeecherTTI = time.Duration(8+tp.Draw(40)) * time.Second
	sc.SeederTTI = time.Duration(8+tp.Draw(60)) * time.Second
	sc.ConnTTI = time.Duration(3+tp.Draw(58)) * time.Second
	sc.ConnTTL = time.Duration(20+tp.Draw(100)) * time.Second
	sc.PreemptionInterval = time.Duration(1+tp.Draw(8)) * time.Second
	sc.EmitStatsInterval = time.Minute
	sc.ConnState = connstate.Config{MaxOpenConnectionsPerTorrent: 1 + tp.Draw(4), BlacklistDuration: time.Duration(5+tp.Draw(26)) * time.Second}
	if tp.Chance(600) {
		sc.ConnState.MaxMutualConnections = 1 + tp.Draw(2)
	}
	sc.Dispatch = dispatch.Config{AgentPipelineLimit: 1 + tp.Draw(4), OriginPipelineLimit: 1 + tp.Draw(4),
		PieceRequestMinTimeout: time.Duration(2+tp.Draw(6)) * time.Second, DisableEndgame: tp.Chance(300)}
	p := cluster.Params{PieceLength: int64(512 << tp.Draw(4)), Sched: sc,
		AnnounceInterval: time.Duration(1+tp.Draw(4)) * time.Second, PeerHandoutLimit: 1 + tp.Draw(5)}
	c := cluster.New(s, p)
	w := &World{S: s, C: c, P: p, PeerOfIP: map[string]string{}, NodeSince: map[string]time.Duration{}, Stopped: map[string]bool{}, Reloading: map[string]bool{}}
	w.Wire = wire.Attach(s, c.NW)
	w.Faulty = tp.Chance(750)
	if h.Setup != nil {
		h.Setup(w)
	}
	nOrigins := 1 + tp.Draw(2)
	c.StartOrigins(nOrigins)
	for _, o := range c.Origins {
		w.PeerOfIP[o.IP] = o.PCtx.PeerID.String()
		w.NodeSince[o.Node.Name] = s.Now()
		w.hookPeer(o.Node, true, o.Events, h)
	}
	c.StartTracker()
	nBlobs := 1 + tp.Draw(3)
	for i := 0; i < nBlobs; i++ {
		n := 1 + tp.Draw(10<<10)
		if tp.Chance(300) {
			n = 1 + tp.Draw(48<<10)
		}
		b := kit.Bytes(s, n)
		w.Blobs = append(w.Blobs, b)
		var d core.Digest
		for _, o := range c.Origins {
			d = c.Seed(o, b)
		}
		w.Digests = append(w.Digests, d)
		mi, err := core.NewMetaInfo(d, bytes.NewReader(b), p.PieceLength)
		if err != nil {
			s.InfraError("metainfo: %v", err)
		}
		w.InfoHash = append(w.InfoHash, mi.InfoHash())
	}
	nAgents := 2 + tp.Draw(3)
	if thorough {
		nAgents += tp.Draw(2)
	}
	startAgent := func(i int) *cluster.Agent {
		a := c.StartAgent(i)
		w.PeerOfIP[a.IP] = a.PCtx.PeerID.String()
		w.NodeSince[a.Node.Name] = s.Now()
		w.hookPeer(a.Node, false, a.Events, h)
		return a
	}
	cur := make([]*cluster.Agent, nAgents) // current incarnation of each agent
	for i := 0; i < nAgents; i++ {
		cur[i] = startAgent(i + 1)
	}
	if w.Faulty && tp.Chance(300) {
		c.HN.FaultFn = simhttp.RandomFaults(s, simhttp.Rates{Refuse: 30, ResetBefore: 30, ResetAfter: 30, Status: 40, Delay: 100})
	}
	if tp.Chance(500) {
		// slow links: downloads span several announce rounds, so peers dial each
		// other while they already hold conns (neighbour lists are not empty)
		c.NW.MaxLatency = time.Duration(5+tp.Draw(200)) * time.Millisecond
		c.NW.ChunkPm = tp.Draw(300)
	}
	if w.Faulty && tp.Chance(300) {
		s.InjectPauses(1+tp.Draw(3), 20000, 10*time.Second)
	}
	// clients (busy counts the client tasks of a node that have not finished;
	// tasks of a crashed node never do, and only current nodes are waited for)
	busy := map[*simrt.Node]int{}
	download := func(ai, bi int) {
		a := cur[ai]
		err := a.Sched.Download(cluster.Namespace, w.Digests[bi])
		s.Logf("agent%d Download(blob%d) -> %v", ai+1, bi, err)
	}
	client := func(n *simrt.Node, fn func()) {
		busy[n]++
		s.GoNode(n, "client", func() {
			defer func() { busy[n]-- }()
			fn()
		})
	}
	for ai := 0; ai < nAgents; ai++ {
		ai := ai
		nOps := 1 + tp.Draw(3)
		client(cur[ai].Node, func() {
			for k := 0; k < nOps; k++ {
				simrt.Sleep(time.Duration(tp.Draw(6000)) * time.Millisecond)
				download(ai, tp.Draw(nBlobs))
			}
		})
	}
	// removal (or nothing) exactly when an agent receives the last piece of a
	// blob, so that it races with the dispatcher's asynchronous completion notice
	if tp.Chance(500) {
		pieces := map[string]int{}
		digestOf := map[string]core.Digest{}
		for i, b := range w.Blobs {
			pieces[w.InfoHash[i].String()] = int((int64(len(b)) + p.PieceLength - 1) / p.PieceLength)
			digestOf[w.InfoHash[i].String()] = w.Digests[i]
		}
		seen := map[string]int{}
		trigger := make(chan func(), 64)
		w.onEvent = func(node *simrt.Node, origin bool, ev *networkevent.Event) {
			if origin || ev.Name != networkevent.ReceivePiece {
				return
			}
			k := node.Name + "/" + ev.Torrent
			seen[k]++
			if seen[k] != pieces[ev.Torrent] {
				return
			}
			seen[k] = 0
			for _, a := range cur {
				if a.Node == node {
					a, d := a, digestOf[ev.Torrent]
					select {
					case trigger <- func() { s.GoNode(a.Node, "remove", func() { a.Sched.RemoveTorrent(d) }) }:
					default:
					}
				}
			}
		}
		simrt.Go(func() {
			for {
				fn := simrt.Recv(trigger)
				if tp.Chance(600) {
					s.Probe("churn_removal_at_last_piece")
					fn()
				}
			}
		})
	}
	// disturbances
	nDist := tp.Draw(7)
	for k := 0; k < nDist; k++ {
		simrt.Sleep(time.Duration(tp.Draw(6000)) * time.Millisecond)
		ai := tp.Draw(nAgents)
		a := cur[ai]
		kind := tp.Draw(9)
		if !w.Faulty && kind >= 2 {
			kind = tp.Draw(2)
		}
		switch kind {
		case 0, 1: // manual removal
			d := w.Digests[tp.Draw(nBlobs)]
			s.Logf("RemoveTorrent agent%d", ai+1)
			s.GoNode(a.Node, "remove", func() { a.Sched.RemoveTorrent(d) })
		case 2: // connection reset
			if cs := c.NW.Conns(); len(cs) > 0 {
				cn := cs[tp.Draw(len(cs))]
				s.Fault("net_reset")
				cn.Reset()
			}
		case 3: // stalled connection
			if cs := c.NW.Conns(); len(cs) > 0 {
				cn := cs[tp.Draw(len(cs))]
				cn.Stall(true)
				dur := time.Duration(1+tp.Draw(25)) * time.Second
				simrt.Go(func() { simrt.Sleep(dur); cn.Stall(false) })
			}
		case 4: // partition of an agent from another peer, healed later
			var b *simrt.Node
			if tp.Chance(400) {
				b = c.Origins[tp.Draw(nOrigins)].Node
			} else {
				b = cur[tp.Draw(nAgents)].Node
			}
			if b != a.Node {
				s.Fault("net_partition")
				c.NW.Partition(a.Node, b, true)
				an := a.Node
				dur := time.Duration(2+tp.Draw(30)) * time.Second
				simrt.Go(func() { simrt.Sleep(dur); c.NW.Partition(an, b, false); s.Fault("net_heal") })
			}
		case 5: // scheduler reload (new scheduler object, same process)
			s.Fault("scheduler_reload")
			s.Logf("Reload agent%d", ai+1)
			if w.Stopped[a.Node.Name] || w.Reloading[a.Node.Name] {
				break
			}
			w.Reloading[a.Node.Name] = true
			s.GoNode(a.Node, "reload", func() {
				a.Sched.Reload(sc)
				w.NodeSince[a.Node.Name] = s.Now()
				delete(w.Reloading, a.Node.Name)
				if w.OnReloaded != nil {
					w.OnReloaded(a.Node)
				}
			})
		case 6: // crash and restart on the same directories
			s.Fault("crash")
			s.Logf("crash+restart agent%d", ai+1)
			s.KillNode(a.Node)
			simrt.Sleep(time.Duration(tp.Draw(3000)) * time.Millisecond)
			na := startAgent(ai + 1)
			cur[ai] = na
			bi := tp.Draw(nBlobs)
			client(na.Node, func() {
				simrt.Sleep(time.Duration(tp.Draw(3000)) * time.Millisecond)
				download(ai, bi)
			})
		case 7: // graceful stop (the agent stays down)
			s.Fault("scheduler_stop")
			s.Logf("Stop agent%d", ai+1)
			w.Stopped[a.Node.Name] = true
			s.GoNode(a.Node, "stop", func() { a.Sched.Stop() })
		case 8: // one more download elsewhere
			bi := tp.Draw(nBlobs)
			client(a.Node, func() { download(ai, bi) })
		}
	}
	simrt.Sleep(time.Duration(tp.Draw(8000)) * time.Millisecond)
	// faults stop; let the system run until the clients are done, then idle on
	// so that seeder / leecher idle drops and blacklist expiries happen too
	c.NW.HealAll()
	c.NW.Quiet, c.HN.Quiet = true, true
	for _, cn := range c.NW.Conns() {
		if cn.Stalled {
			cn.Stall(false)
		}
	}
	deadline := s.Now() + 6*(sc.LeecherTTI+sc.ConnTTI+sc.ConnState.BlacklistDuration+2*p.AnnounceInterval+90*time.Second)
	stillBusy := func() (n int) {
		for _, a := range cur {
			n += busy[a.Node]
		}
		return n
	}
	for s.Now() < deadline && stillBusy() > 0 {
		simrt.Sleep(time.Second)
	}
	if stillBusy() > 0 {
		s.Probe("churn_clients_still_busy_at_end")
	}
	simrt.Sleep(time.Duration(tp.Draw(int((sc.SeederTTI+2*sc.PreemptionInterval)/time.Second)+1)) * time.Second)
	// a late joiner: a fresh agent arrives when everybody else is done, idle or
	// already timed out, and pulls one or two blobs from whoever the tracker
	// still lists
	if tp.Chance(500) {
		a := startAgent(nAgents + 1)
		cur = append(cur, a)
		n := 1 + tp.Draw(2)
		ai := nAgents
		client(a.Node, func() {
			for k := 0; k < n; k++ {
				download(ai, tp.Draw(nBlobs))
				simrt.Sleep(time.Duration(tp.Draw(4000)) * time.Millisecond)
			}
		})
		dl := s.Now() + 3*(sc.LeecherTTI+60*time.Second)
		for s.Now() < dl && busy[a.Node] > 0 {
			simrt.Sleep(time.Second)
		}
		simrt.Sleep(time.Duration(tp.Draw(20)) * time.Second)
		s.Probe("churn_late_joiner")
	}
	if h.End != nil {
		h.End(w)
	}
	kit.SetSample(map[string]any{"scenario": "churn", "agents": nAgents, "origins": nOrigins, "blobs": nBlobs, "piece_length": p.PieceLength,
		"max_conns": sc.ConnState.MaxOpenConnectionsPerTorrent, "max_mutual": sc.ConnState.MaxMutualConnections,
		"blacklist": sc.ConnState.BlacklistDuration.String(), "disturbances": nDist, "faulty": w.Faulty,
		"frames_on_wire": len(w.Wire.Frames), "clients_busy_at_end": fmt.Sprint(stillBusy())})
}
