package scenario

import (
	"bytes"
	"time"

	"github.com/uber/kraken/core"
	"github.com/uber/kraken/lib/torrent/scheduler/connstate"
	"github.com/uber/kraken/lib/torrent/scheduler/dispatch"

	"kverif/cluster"
	"kverif/kit"
	simrt "kverif/sim"
	"kverif/wire"
)

// Reunion: a handful of agents pull one blob of many small pieces over slow
// links and end up connected to each other; everybody completes and falls
// idle, so the seeding torrents time out (their conns, whose idle limit is
// longer, stay); then newcomers arrive one after the other and dial, over
// several announce rounds, into that mesh of peers which hold conns but have
// the torrent unloaded. Like Churn it has no oracle of its own.
func Reunion(s *simrt.Sim, tier string, h Hooks) {
	tp := s.Tape
	sc := cluster.DefaultSched()
	sc.SeederTTI = time.Duration(4+tp.Draw(10)) * time.Second
	sc.LeecherTTI = 10 * time.Minute
	sc.ConnTTI = time.Duration(40+tp.Draw(60)) * time.Second
	sc.ConnTTL = 10 * time.Minute
	sc.PreemptionInterval = time.Duration(1+tp.Draw(3)) * time.Second
	sc.EmitStatsInterval = time.Minute
	sc.ConnState = connstate.Config{MaxOpenConnectionsPerTorrent: 3 + tp.Draw(4), BlacklistDuration: time.Duration(4+tp.Draw(8)) * time.Second}
	switch tp.Draw(5) {
	case 0:
	case 1, 2, 3:
		sc.ConnState.MaxMutualConnections = 1
	case 4:
		sc.ConnState.MaxMutualConnections = 2
	}
	sc.Dispatch = dispatch.Config{AgentPipelineLimit: 1 + tp.Draw(3), OriginPipelineLimit: 1 + tp.Draw(3), PieceRequestMinTimeout: 4 * time.Second}
	p := cluster.Params{PieceLength: int64(256 << tp.Draw(3)), Sched: sc,
		AnnounceInterval: time.Duration(1+tp.Draw(3)) * time.Second, PeerHandoutLimit: 1 + tp.Draw(4)}
	c := cluster.New(s, p)
	w := &World{S: s, C: c, P: p, PeerOfIP: map[string]string{}, NodeSince: map[string]time.Duration{}, Stopped: map[string]bool{}, Reloading: map[string]bool{}}
	w.Wire = wire.Attach(s, c.NW)
	if h.Setup != nil {
		h.Setup(w)
	}
	c.NW.MaxLatency = time.Duration(10+tp.Draw(90)) * time.Millisecond
	c.StartOrigins(1)
	o := c.Origins[0]
	w.PeerOfIP[o.IP] = o.PCtx.PeerID.String()
	w.hookPeer(o.Node, true, o.Events, h)
	c.StartTracker()
	blob := kit.Bytes(s, int(p.PieceLength)*(30+tp.Draw(90))-tp.Draw(int(p.PieceLength)))
	d := c.Seed(o, blob)
	w.Blobs, w.Digests = [][]byte{blob}, []core.Digest{d}
	mi, err := core.NewMetaInfo(d, bytes.NewReader(blob), p.PieceLength)
	if err != nil {
		s.InfraError("metainfo: %v", err)
	}
	w.InfoHash = []core.InfoHash{mi.InfoHash()}
	start := func(i int) *cluster.Agent {
		a := c.StartAgent(i)
		w.PeerOfIP[a.IP] = a.PCtx.PeerID.String()
		w.NodeSince[a.Node.Name] = s.Now()
		w.hookPeer(a.Node, false, a.Events, h)
		return a
	}
	pull := func(a *cluster.Agent, done *int) {
		s.GoNode(a.Node, "client", func() {
			err := a.Sched.Download(cluster.Namespace, d)
			s.Logf("%s Download -> %v", a.Name, err)
			*done++
		})
	}
	// phase 1: the mesh forms
	n := 3 + tp.Draw(2)
	done := 0
	for i := 1; i <= n; i++ {
		pull(start(i), &done)
		simrt.Sleep(time.Duration(tp.Draw(1500)) * time.Millisecond)
	}
	for dl := s.Now() + 5*time.Minute; s.Now() < dl && done < n; {
		simrt.Sleep(time.Second)
	}
	// phase 2: everybody idles past the seeder limit (torrents unloaded, conns kept)
	simrt.Sleep(sc.SeederTTI + 2*sc.PreemptionInterval + time.Duration(tp.Draw(8000))*time.Millisecond)
	// phase 3: newcomers
	late, ldone := 1+tp.Draw(2), 0
	for i := 0; i < late; i++ {
		pull(start(n+1+i), &ldone)
		simrt.Sleep(time.Duration(tp.Draw(6000)) * time.Millisecond)
	}
	for dl := s.Now() + 5*time.Minute; s.Now() < dl && ldone < late; {
		simrt.Sleep(time.Second)
	}
	simrt.Sleep(time.Duration(tp.Draw(10)) * time.Second)
	if h.End != nil {
		h.End(w)
	}
	s.Probe("reunion_run")
	kit.SetSample(map[string]any{"scenario": "reunion", "agents": n, "newcomers": late, "pieces": mi.NumPieces(), "piece_length": p.PieceLength,
		"max_conns": sc.ConnState.MaxOpenConnectionsPerTorrent, "max_mutual": sc.ConnState.MaxMutualConnections, "handout_limit": p.PeerHandoutLimit,
		"seeder_tti": sc.SeederTTI.String(), "conn_tti": sc.ConnTTI.String(), "frames_on_wire": len(w.Wire.Frames)})
}
