package scenario

import (
	"bytes"
	"time"

	"github.com/uber/kraken/core"
	"github.com/uber/kraken/lib/torrent/scheduler/connstate"
	"github.com/uber/kraken/lib/torrent/scheduler/dispatch"

	"kverif/cluster"
	"kverif/kit"
	simrt "kverif/sim"
	"kverif/wire"
)

// RestartBurst: an agent that holds a complete blob is restarted (the blob is
// in its cache, no torrent is loaded, the tracker still lists it as a seeder)
// and is then dialled by several leechers of that blob within a second or two,
// while its tasks that finish accepting a conn are slow (site-armed pauses
// between the acceptance and the conn event): conns exist for a torrent that
// has no torrent control yet. The leechers also connect to each other, so later
// handshakes carry neighbour lists. No oracle of its own.
func RestartBurst(s *simrt.Sim, tier string, h Hooks) {
	tp := s.Tape
	sc := cluster.DefaultSched()
	sc.SeederTTI, sc.LeecherTTI = 10*time.Minute, 10*time.Minute
	sc.ConnTTI, sc.ConnTTL = 2*time.Minute, 10*time.Minute
	sc.PreemptionInterval = 2 * time.Second
	sc.EmitStatsInterval = time.Minute
	sc.ConnState = connstate.Config{MaxOpenConnectionsPerTorrent: 4 + tp.Draw(3), BlacklistDuration: time.Duration(4+tp.Draw(8)) * time.Second}
	if tp.Chance(850) {
		sc.ConnState.MaxMutualConnections = 1 + tp.Draw(5)/4 // mostly 1, sometimes 2
	}
	sc.Dispatch = dispatch.Config{AgentPipelineLimit: 1 + tp.Draw(2), OriginPipelineLimit: 1 + tp.Draw(2), PieceRequestMinTimeout: 4 * time.Second}
	p := cluster.Params{PieceLength: int64(256 << tp.Draw(2)), Sched: sc,
		AnnounceInterval: time.Duration(1+tp.Draw(2)) * time.Second, PeerHandoutLimit: []int{2, 2, 2, 1, 3, 4}[tp.Draw(6)]}
	c := cluster.New(s, p)
	w := &World{S: s, C: c, P: p, PeerOfIP: map[string]string{}, NodeSince: map[string]time.Duration{}, Stopped: map[string]bool{}, Reloading: map[string]bool{}}
	w.Wire = wire.Attach(s, c.NW)
	if h.Setup != nil {
		h.Setup(w)
	}
	c.StartOrigins(1)
	o := c.Origins[0]
	w.PeerOfIP[o.IP] = o.PCtx.PeerID.String()
	w.hookPeer(o.Node, true, o.Events, h)
	c.StartTracker()
	blob := kit.Bytes(s, int(p.PieceLength)*(40+tp.Draw(80))-tp.Draw(int(p.PieceLength)))
	d := c.Seed(o, blob)
	w.Blobs, w.Digests = [][]byte{blob}, []core.Digest{d}
	mi, err := core.NewMetaInfo(d, bytes.NewReader(blob), p.PieceLength)
	if err != nil {
		s.InfraError("metainfo: %v", err)
	}
	w.InfoHash = []core.InfoHash{mi.InfoHash()}
	start := func(i int) *cluster.Agent {
		a := c.StartAgent(i)
		w.PeerOfIP[a.IP] = a.PCtx.PeerID.String()
		w.NodeSince[a.Node.Name] = s.Now()
		w.hookPeer(a.Node, false, a.Events, h)
		return a
	}
	pull := func(a *cluster.Agent, delay time.Duration, done *int) {
		s.GoNode(a.Node, "client", func() {
			simrt.Sleep(delay)
			err := a.Sched.Download(cluster.Namespace, d)
			s.Logf("%s Download -> %v", a.Name, err)
			*done++
		})
	}
	// phase 1: the future seeder pulls the blob over fast links
	v, done := start(1), 0
	pull(v, 0, &done)
	for dl := s.Now() + 5*time.Minute; s.Now() < dl && done < 1; {
		simrt.Sleep(time.Second)
	}
	if done < 1 {
		s.Probe("restartburst_seed_download_failed")
		return
	}
	// phase 2: it is restarted on its directories
	simrt.Sleep(time.Duration(2+tp.Draw(5)) * time.Second)
	s.Fault("crash")
	s.KillNode(v.Node)
	simrt.Sleep(time.Duration(tp.Draw(2000)) * time.Millisecond)
	v = start(1)
	nPauses := 1 + tp.Draw(3)
	for i := 0; i < nPauses; i++ {
		s.ArmPauseAt("establishIncomingHandshake&baseEventLoop).send", v.Node, 0, time.Duration(6+tp.Draw(12))*time.Second)
	}
	// phase 3: leechers arrive in a burst, over slow links
	c.NW.MaxLatency = time.Duration(10+tp.Draw(70)) * time.Millisecond
	// two leechers arrive at once, the others a little later (by then they
	// find the first two in the tracker's handouts and connect to them too)
	n, ldone := []int{3, 3, 3, 4, 5}[tp.Draw(5)], 0
	for i := 0; i < n; i++ {
		delay := time.Duration(tp.Draw(800)) * time.Millisecond
		if i >= 2 {
			delay = time.Duration(1200+tp.Draw(3000)) * time.Millisecond
		}
		pull(start(2+i), delay, &ldone)
	}
	for dl := s.Now() + 6*time.Minute; s.Now() < dl && ldone < n; {
		simrt.Sleep(time.Second)
	}
	simrt.Sleep(time.Duration(tp.Draw(10)) * time.Second)
	if h.End != nil {
		h.End(w)
	}
	s.Probe("restartburst_run")
	kit.SetSample(map[string]any{"scenario": "restart_burst", "leechers": n, "pieces": mi.NumPieces(), "piece_length": p.PieceLength,
		"max_conns": sc.ConnState.MaxOpenConnectionsPerTorrent, "max_mutual": sc.ConnState.MaxMutualConnections, "handout_limit": p.PeerHandoutLimit,
		"slow_acceptances_armed": nPauses, "frames_on_wire": len(w.Wire.Frames)})
}
