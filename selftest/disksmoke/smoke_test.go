package disksmoke

import (
	"fmt"
	"testing"

	"github.com/uber-go/tally"
	"github.com/uber/kraken/lib/store/disk"

	"kverif/kit"
	simrt "kverif/sim"
)

func script(dir string) func() {
	return func() {
		st, err := disk.NewStore(&disk.Config{RootDir: dir, CapacityBytes: 1000, ShardLength: 1}, tally.NoopScope)
		if err != nil {
			panic(err)
		}
		f, err := st.Create("aaaa", 10)
		if err != nil {
			panic(err)
		}
		f.Write([]byte("0123456789"))
		f.Close()
		if err := st.MarkComplete("aaaa"); err != nil {
			panic(err)
		}
		st.Delete("aaaa")
	}
}

func body(s *simrt.Sim, tier string) {
	s.Disk().OpLogOn = true
	d0 := kit.TempDir(s)
	_, ops := kit.RunNode(s, "count", 0, script(d0))
	s.Logf("ops=%d", ops)
	if s.Tracing() {
		for _, l := range s.Disk().OpLog {
			s.Logf("op %s", l)
		}
	}
	for k := 1; k <= ops; k++ {
		d := kit.TempDir(s)
		crashed, _ := kit.RunNode(s, fmt.Sprintf("n%d", k), k, script(d))
		if !crashed {
			s.Fail("no_crash", "crash point %d did not fire", k)
		}
		_, err := disk.NewStore(&disk.Config{RootDir: d, CapacityBytes: 1000, ShardLength: 1, RebootIncompleteBlobs: true}, tally.NoopScope)
		if err != nil {
			s.Fail("reopen_failed", "crash at %d (%s): %v", k, s.Disk().OpLog[k-1], err)
		}
	}
}

func TestSmoke(t *testing.T) {
	kit.Main(t, kit.Spec{Property: "SMOKE", Body: body, Config: func(string) simrt.Config { return simrt.Config{PanicIsFailure: true} }})
}
