package netsmoke

import (
	"bytes"
	"fmt"
	"io"
	"net/http"
	"path/filepath"
	"testing"
	"time"

	"github.com/uber/kraken/lib/persistedretry/writeback"
	"github.com/uber/kraken/utils/httputil"

	"kverif/kit"
	snet "kverif/shim/net"
	"kverif/simhttp"
	"kverif/simnet"
	"kverif/simsql"
	simrt "kverif/sim"
)

func body(s *simrt.Sim, tier string) {
	hn := simhttp.Install(s)
	srv := s.NewNode("srv")
	got := 0
	hn.Register("srv:80", srv, http.HandlerFunc(func(w http.ResponseWriter, r *http.Request) {
		b, _ := io.ReadAll(r.Body)
		got++
		if got < 2 {
			w.WriteHeader(503)
			return
		}
		fmt.Fprintf(w, "len=%d", len(b))
	}))
	resp, err := httputil.Post("http://srv:80/x", httputil.SendBody(bytes.NewReader([]byte("hello"))), httputil.SendRetry())
	if err != nil {
		s.Logf("post err %v", err)
	} else {
		b, _ := io.ReadAll(resp.Body)
		s.Logf("post ok %s attempts=%d", b, len(hn.Log))
	}
	// sql
	dir := kit.TempDir(s)
	db, err := simsql.Open(s, filepath.Join(dir, "db.sqlite"))
	if err != nil {
		s.InfraError("sql open: %v", err)
	}
	st := writeback.NewStore(db)
	task := writeback.NewTask("ns", "name", 0)
	if err := st.AddPending(task); err != nil {
		s.InfraError("add: %v", err)
	}
	if err := st.MarkFailed(task); err != nil {
		s.InfraError("markfailed: %v", err)
	}
	simrt.Sleep(45 * time.Second)
	fs, err := st.GetFailed()
	if err != nil || len(fs) != 1 {
		s.InfraError("getfailed: %v %d", err, len(fs))
	}
	s.Logf("since last attempt: %v", time.Since(fs[0].GetLastAttempt()).Round(time.Second))
	// net
	nw := simnet.Install(s)
	a, b := s.NewNode("a"), s.NewNode("b")
	simnet.SetIP(a, "10.0.0.1")
	simnet.SetIP(b, "10.0.0.2")
	done := make(chan struct{})
	s.GoNode(b, "server", func() {
		l, err := snet.Listen("tcp", ":7000")
		if err != nil {
			s.InfraError("listen %v", err)
		}
		c, err := l.Accept()
		if err != nil {
			s.InfraError("accept %v", err)
		}
		buf := make([]byte, 5)
		io.ReadFull(c, buf)
		c.Write(bytes.ToUpper(buf))
		c.Close()
		l.Close()
		close(done)
	})
	s.GoNode(a, "client", func() {
		simrt.Sleep(time.Second)
		c, err := snet.DialTimeout("tcp", "10.0.0.2:7000", time.Second)
		if err != nil {
			s.InfraError("dial %v", err)
		}
		c.Write([]byte("hello"))
		buf := make([]byte, 5)
		c.SetReadDeadline(time.Now().Add(5 * time.Second))
		_, err = io.ReadFull(c, buf)
		s.Logf("client got %s %v dials=%d", buf, err, len(nw.Dials))
		_, err = c.Read(buf)
		s.Logf("client eof: %v", err)
	})
	simrt.Recv(done)
	simrt.Sleep(time.Second)
}

func TestSmoke(t *testing.T) {
	kit.Main(t, kit.Spec{Property: "SMOKE", Body: body, Config: func(string) simrt.Config { return simrt.Config{Trace: true} }})
}
