package selftest

import (
	"fmt"
	"testing"
	"time"

	"kverif/kit"
	ssync "kverif/shim/sync"
	uatomic "kverif/shim/uatomic"
	simrt "kverif/sim"
)

// a toy system: event loop + ticker + producers + lost-update counter
func body(s *simrt.Sim, tier string) {
	var mu ssync.Mutex
	var wg ssync.WaitGroup
	ch := make(chan int)
	done := make(chan struct{})
	cnt := uatomic.NewInt32(0)
	total := 0
	simrt.Go(func() { // event loop
		tk := time.NewTicker(3 * time.Second)
		defer tk.Stop()
		for {
			a, b, c := simrt.RecvCase(ch), simrt.RecvCase(tk.C), simrt.RecvCase(done)
			switch simrt.Select(false, a, b, c) {
			case 0:
				mu.Lock()
				total += a.V
				mu.Unlock()
				s.Logf("got %d", a.V)
			case 1:
				s.Logf("tick")
			case 2:
				return
			}
		}
	})
	for i := 0; i < 3; i++ {
		wg.Add(1)
		i := i
		simrt.Go(func() {
			defer wg.Done()
			for k := 0; k < 4; k++ {
				simrt.Sleep(time.Duration(1+s.Tape.Draw(5)) * time.Second)
				simrt.SendTo(ch)(i*10 + k)
				v := cnt.Load() // non-atomic increment: lost update possible
				cnt.Store(v + 1)
			}
		})
	}
	wg.Wait()
	close(done)
	if cnt.Load() != 12 {
		s.Fail("lost_update", "cnt=%d", cnt.Load())
	}
	s.Logf("total %d", total)
}

func TestCore(t *testing.T) {
	kit.Main(t, kit.Spec{Property: "SELF", Body: body, Config: func(string) simrt.Config { return simrt.Config{MaxSteps: 100000} }})
}

func TestDeterminism(t *testing.T) {
	for seed := uint64(1); seed < 40; seed++ {
		var h uint64
		for rep := 0; rep < 3; rep++ {
			r := kit.RunBubble(t, simrt.NewTape(seed), simrt.Config{}, func(s *simrt.Sim) { body(s, "quick") })
			if r.Infra != "" {
				t.Fatal(r.Infra)
			}
			if rep == 0 {
				h = r.Hash
			} else if h != r.Hash {
				t.Fatalf("seed %d diverged", seed)
			}
		}
	}
	fmt.Println("ok")
}
