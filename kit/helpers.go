package kit

import (
	"crypto/sha256"
	"encoding/hex"
	"fmt"
	"os"
	"sync/atomic"
	"syscall"

	"github.com/uber/kraken/utils/log"
	"go.uber.org/zap"

	sos "kverif/shim/os"
	simrt "kverif/sim"
)

func init() {
	// kraken logs through a global zap logger; silence it (and never let it
	// touch a real clock-dependent sink inside a bubble).
	if os.Getenv("KSIM_KRAKENLOG") == "" {
		log.SetGlobalLogger(zap.NewNop().Sugar())
	}
}

var dirSeq atomic.Int64

// TempDir creates a per-run directory on tmpfs, removed when the run ends.
// The name is not deterministic; never log it (simrt shortens paths below it).
func TempDir(s *simrt.Sim) string {
	// fixed-width name: the length of paths must not vary between processes
	d := fmt.Sprintf("/dev/shm/ksim-%08d-%08d", os.Getpid()%100000000, dirSeq.Add(1)%100000000)
	os.RemoveAll(d)
	if err := os.Mkdir(d, 0o755); err != nil {
		panic(err)
	}
	s.AtEnd(func() { os.RemoveAll(d) })
	return d
}

// SHA returns the hex sha256 of b.
func SHA(b []byte) string {
	h := sha256.Sum256(b)
	return hex.EncodeToString(h[:])
}

// Bytes returns n deterministic pseudo-random bytes drawn from the run's
// seeded generator (one tape draw on first use).
func Bytes(s *simrt.Sim, n int) []byte {
	b := make([]byte, n)
	s.RandBytes(b)
	return b
}

// RunNode runs fn as the only initial task of a fresh node that crashes when
// its disk-op counter reaches crashAt (0 = never), waits until every task of
// the node is gone, and reports whether the crash fired and how many disk ops
// the node performed.
func RunNode(s *simrt.Sim, name string, crashAt int, fn func()) (crashed bool, ops int) {
	n := s.NewNode(name)
	n.CrashAt = crashAt
	s.GoNode(n, name, fn)
	s.JoinNode(n)
	return n.Dead, n.DiskOps
}

// DiskFaultRates configures tape-driven disk error injection (per mille per
// mutating op). Faults fire only for nodes accepted by Only (nil = all).
type DiskFaultRates struct {
	EIO, ENOSPC, Short int
	Only               func(n *simrt.Node) bool
	// Match restricts injection to ops whose kind/path it accepts (nil = all).
	Match func(kind, path string) bool
}

// InjectDiskFaults installs the injector; returns a func that stops injection
// ("faults stop").
func InjectDiskFaults(s *simrt.Sim, r DiskFaultRates) (stop func()) {
	d := s.Disk()
	d.FaultFn = func(n *simrt.Node, kind, path string) error {
		if r.Only != nil && !r.Only(n) {
			return nil
		}
		if r.Match != nil && !r.Match(kind, path) {
			return nil
		}
		if r.EIO > 0 && s.Tape.Chance(r.EIO) {
			return syscall.EIO
		}
		if r.ENOSPC > 0 && s.Tape.Chance(r.ENOSPC) {
			return syscall.ENOSPC
		}
		if r.Short > 0 && (kind == "write" || kind == "writeat") && s.Tape.Chance(r.Short) {
			return sos.ErrShort
		}
		return nil
	}
	return func() { d.FaultFn = nil }
}
