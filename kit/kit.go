// Package kit is the harness kit shared by all property harnesses: bubble
// runner, seeded search loop, tape shrinker, replay and the worker protocol
// spoken with the ./check driver.
package kit

import (
	"encoding/json"
	"fmt"
	"os"
	"runtime/debug"
	"sort"
	"strconv"
	"strings"
	"testing"
	"testing/synctest"
	"time"

	simrt "kverif/sim"
)

// Spec describes one property harness.
type Spec struct {
	Property string
	// Body is the main task of one run. tier is "quick" or "thorough".
	Body func(s *simrt.Sim, tier string)
	// Config returns the run bounds for a tier.
	Config func(tier string) simrt.Config
	// Sample, if set, returns a JSON-able description of the run that just
	// finished (workload/config), used for evidence samples and replay files.
	Real []string // components that ran real kraken code
	Stub []string // components that were harness stubs
	// Assumptions listed in evidence.
	Assumptions []string
	// Rule describes how cases are generated and what makes one non-trivial.
	Rule string
	// PerRun, if set, is called (outside the bubble) before every run.
	PerRun func()
}

// RunBubble executes one simulated run inside a fresh synctest bubble.
func RunBubble(t *testing.T, tape *simrt.Tape, cfg simrt.Config, body func(*simrt.Sim)) (res *simrt.Result) {
	defer func() {
		if r := recover(); r != nil {
			msg := fmt.Sprint(r)
			if res != nil && strings.Contains(msg, "deadlock") {
				// goroutines of untransformed code left blocked at bubble end
				res.Zombies++
				return
			}
			if res == nil {
				res = &simrt.Result{Infra: "bubble panic: " + msg + "\n" + string(debug.Stack())}
			}
		}
	}()
	synctest.Test(t, func(t *testing.T) {
		res = simrt.Run(tape, cfg, body)
	})
	return res
}

// FailureRec is a violation found by a worker.
type FailureRec struct {
	Oracle   string   `json:"oracle"`
	Msg      string   `json:"message"`
	RunIndex uint64   `json:"run_index"`
	Seed     uint64   `json:"seed"`
	Tape     []uint64 `json:"tape"`
	OrigLen  int      `json:"orig_tape_len"`
	Trace    []string `json:"steps"`
	Sample   any      `json:"config,omitempty"`
	Shrinks  int      `json:"shrink_executions"`
	Variant  uint64   `json:"variant"`
}

// WorkerOut is what a worker writes for the driver.
type WorkerOut struct {
	Property     string            `json:"property"`
	Tier         string            `json:"tier"`
	Seed         uint64            `json:"seed"`
	Runs         int               `json:"runs"`
	Inconclusive int               `json:"inconclusive"`
	InconclWhy   map[string]int    `json:"inconclusive_reasons"`
	Infra        []string          `json:"infra"`
	Failures     []FailureRec      `json:"failures"`
	Hashes       []uint64          `json:"hashes"`     // fingerprint per run, index-aligned with RunIdx
	RunIdx       []uint64          `json:"run_idx"`    // run indices executed
	Nontrivial   []bool            `json:"nontrivial"` // per run: contested decision or fault occurred
	States       []uint64          `json:"states"`     // distinct oracle-visible state hashes
	Steps        int64             `json:"steps"`
	Contested    int64             `json:"contested"`
	SimTimeS     float64           `json:"sim_time_s"`
	Faults       map[string]int    `json:"faults"`
	Probes       map[string]int    `json:"probes"`
	Strategies   map[string]int    `json:"strategies"`
	KrakenPanics int               `json:"kraken_panics"`
	Zombies      int               `json:"zombies"`
	Samples      []json.RawMessage `json:"samples"`
	WallS        float64           `json:"wall_s"`
	Real         []string          `json:"components_real"`
	Stub         []string          `json:"components_stub"`
	Assumptions  []string          `json:"assumptions"`
	Rule         string            `json:"rule"`
	Extra        map[string]int64  `json:"extra"`
	FailCounts   map[string]int    `json:"fail_counts"` // failing runs per oracle (all of them, not only the recorded ones)
}

func envInt(name string, def int64) int64 {
	if v := os.Getenv(name); v != "" {
		n, err := strconv.ParseInt(v, 10, 64)
		if err == nil {
			return n
		}
		u, err := strconv.ParseUint(v, 10, 64)
		if err == nil {
			return int64(u)
		}
	}
	return def
}

// sampleHolder lets a Body publish a description of the current run.
var curSample any

// SetSample records a JSON-able description of the current run's workload and
// configuration (evidence samples, replay files).
func SetSample(v any) { curSample = v }

// Extra counters a harness may bump (aggregated into evidence).
var Extra = map[string]int64{}

// Main is the body of the single Test function of every harness binary.
//
//	KSIM_TIER      quick|thorough
//	KSIM_SEED      base seed
//	KSIM_START     first run index          KSIM_STRIDE  index stride
//	KSIM_RUNS      max number of runs       KSIM_BUDGET_S wall-clock budget
//	KSIM_OUT       path of the worker JSON
//	KSIM_REPLAY    replay file: run exactly that tape, print verdict
func Main(t *testing.T, spec Spec) {
	tier := os.Getenv("KSIM_TIER")
	if tier == "" {
		tier = "quick"
	}
	if rp := os.Getenv("KSIM_REPLAY"); rp != "" {
		replay(t, spec, tier, rp)
		return
	}
	seed := uint64(envInt("KSIM_SEED", 1))
	start := uint64(envInt("KSIM_START", 0))
	stride := uint64(envInt("KSIM_STRIDE", 1))
	maxRuns := int(envInt("KSIM_RUNS", 200))
	budget := time.Duration(envInt("KSIM_BUDGET_S", 60)) * time.Second
	maxFail := int(envInt("KSIM_MAXFAIL", 3))
	out := WorkerOut{Property: spec.Property, Tier: tier, Seed: seed, Faults: map[string]int{}, Probes: map[string]int{},
		Strategies: map[string]int{}, InconclWhy: map[string]int{}, Real: spec.Real, Stub: spec.Stub,
		Assumptions: spec.Assumptions, Rule: spec.Rule}
	states := map[uint64]struct{}{}
	seenOracles := map[string]int{}
	t0 := time.Now()
	for i := 0; i < maxRuns && time.Since(t0) < budget; i++ {
		idx := start + uint64(i)*stride
		runSeed := simrt.Mix(seed, idx)
		tape := simrt.NewTape(runSeed)
		tape.Variant = simrt.Mix(runSeed, 0x5eed) >> 8
		cfg := spec.Config(tier)
		curSample = nil
		if spec.PerRun != nil {
			spec.PerRun()
		}
		res := RunBubble(t, tape, cfg, func(s *simrt.Sim) { spec.Body(s, tier) })
		out.Runs++
		out.RunIdx = append(out.RunIdx, idx)
		out.Hashes = append(out.Hashes, res.Hash)
		nf := 0
		for k, v := range res.Faults {
			out.Faults[k] += v
			nf += v
		}
		out.Nontrivial = append(out.Nontrivial, res.Contested > 0 || nf > 0)
		for k, v := range res.Probes {
			out.Probes[k] += v
		}
		for k := range res.States {
			states[k] = struct{}{}
		}
		out.Strategies[res.Strategy]++
		out.Steps += int64(res.Steps)
		out.Contested += int64(res.Contested)
		out.SimTimeS += res.SimTime.Seconds()
		out.Zombies += res.Zombies
		for _, p := range res.Panics {
			if p.InKraken {
				out.KrakenPanics++
			}
		}
		if len(out.Samples) < 2 && curSample != nil {
			if b, err := json.Marshal(curSample); err == nil {
				out.Samples = append(out.Samples, b)
			}
		}
		if res.Infra != "" {
			out.Infra = append(out.Infra, fmt.Sprintf("run %d: %s", idx, res.Infra))
			if len(out.Infra) >= 3 {
				break
			}
			continue
		}
		if res.Failure != nil {
			if seenOracles[res.Failure.Oracle] >= 1 && len(out.Failures) >= 1 {
				// same oracle already minimised once in this worker: record
				// the raw failure without shrinking again (cheap), up to a cap
				if seenOracles[res.Failure.Oracle] < 4 {
					out.Failures = append(out.Failures, FailureRec{Oracle: res.Failure.Oracle, Msg: res.Failure.Msg,
						RunIndex: idx, Seed: seed, Tape: res.Tape, OrigLen: len(res.Tape), Sample: curSample, Variant: tape.Variant})
				}
				seenOracles[res.Failure.Oracle]++
				continue
			}
			seenOracles[res.Failure.Oracle]++
			if envInt("KSIM_SHRINK_S", 45) == 0 {
				continue
			}
			fr := shrink(t, spec, tier, res, idx, seed, tape.Variant)
			out.Failures = append(out.Failures, fr)
			if maxFail > 0 && len(seenOracles) >= maxFail {
				break
			}
			continue
		}
		if res.Inconcl != "" {
			out.Inconclusive++
			key := res.Inconcl
			if len(key) > 60 {
				key = key[:60]
			}
			out.InconclWhy[key]++
		}
	}
	out.FailCounts = seenOracles
	for k := range states {
		out.States = append(out.States, k)
	}
	sort.Slice(out.States, func(i, j int) bool { return out.States[i] < out.States[j] })
	out.WallS = time.Since(t0).Seconds()
	out.Extra = Extra
	b, _ := json.Marshal(out)
	if p := os.Getenv("KSIM_OUT"); p != "" {
		if err := os.WriteFile(p, b, 0o644); err != nil {
			t.Fatalf("write %s: %v", p, err)
		}
	} else {
		fmt.Printf("runs=%d failures=%d inconclusive=%d infra=%d steps=%d wall=%.1fs\n", out.Runs, len(out.Failures), out.Inconclusive, len(out.Infra), out.Steps, out.WallS)
		for _, f := range out.Failures {
			fmt.Printf("FAILURE oracle=%s run=%d tape=%d: %s\n", f.Oracle, f.RunIndex, len(f.Tape), f.Msg)
		}
		for _, e := range out.Infra {
			fmt.Println("INFRA", e)
		}
		for k, v := range out.InconclWhy {
			fmt.Println("INCONCLUSIVE", v, k)
		}
	}
}

func runForced(t *testing.T, spec Spec, tier string, vals []uint64, variant uint64, trace bool) *simrt.Result {
	cfg := spec.Config(tier)
	cfg.Trace = trace
	curSample = nil
	if spec.PerRun != nil {
		spec.PerRun()
	}
	ft := simrt.ForcedTape(vals)
	ft.Variant = variant
	return RunBubble(t, ft, cfg, func(s *simrt.Sim) { spec.Body(s, tier) })
}

// shrink minimises the tape while the same oracle fires.
func shrink(t *testing.T, spec Spec, tier string, res *simrt.Result, idx, seed, variant uint64) FailureRec {
	oracle := res.Failure.Oracle
	best := append([]uint64(nil), res.Tape...)
	orig := len(best)
	execs := 0
	deadline := time.Now().Add(time.Duration(envInt("KSIM_SHRINK_S", 45)) * time.Second)
	try := func(cand []uint64) bool {
		if time.Now().After(deadline) || execs > 4000 {
			return false
		}
		execs++
		r := runForced(t, spec, tier, cand, variant, false)
		if r != nil && r.Failure != nil && r.Failure.Oracle == oracle && r.Infra == "" {
			// keep what was actually consumed (may be shorter)
			c := r.Tape
			if len(c) > len(cand) {
				c = c[:len(cand)]
			}
			best = append([]uint64(nil), c...)
			for len(best) > 0 && best[len(best)-1] == 0 {
				best = best[:len(best)-1]
			}
			return true
		}
		return false
	}
	// confirm reproducibility first
	if !try(best) {
		return FailureRec{Oracle: oracle, Msg: "NOT REPRODUCIBLE on forced tape: " + res.Failure.Msg, RunIndex: idx, Seed: seed, Tape: res.Tape, OrigLen: orig, Variant: variant}
	}
	improved := true
	for improved && time.Now().Before(deadline) {
		improved = false
		// 1. truncate (binary search on prefix length)
		lo, hi := 0, len(best)
		for lo < hi {
			mid := (lo + hi) / 2
			if try(append([]uint64(nil), best[:mid]...)) {
				hi = len(best)
				if hi > mid {
					hi = mid
				}
				improved = true
			} else {
				lo = mid + 1
			}
		}
		// 2. zero blocks, then 3. delete blocks
		for size := len(best) / 2; size >= 1; size /= 2 {
			for off := 0; off+size <= len(best); off += size {
				allZero := true
				for _, v := range best[off : off+size] {
					if v != 0 {
						allZero = false
					}
				}
				if !allZero {
					c := append([]uint64(nil), best...)
					for k := off; k < off+size; k++ {
						c[k] = 0
					}
					if try(c) {
						improved = true
					}
				}
				if off+size <= len(best) {
					c := append([]uint64(nil), best[:off]...)
					c = append(c, best[off+size:]...)
					if try(c) {
						improved = true
					}
				}
			}
		}
		// 4. lower individual values
		for i := 0; i < len(best); i++ {
			if best[i] > 1 {
				for _, nv := range []uint64{1, best[i] % 1000, best[i] % 8} {
					if nv < best[i] {
						c := append([]uint64(nil), best...)
						c[i] = nv
						if try(c) {
							improved = true
							break
						}
					}
				}
			}
		}
	}
	final := runForced(t, spec, tier, best, variant, true)
	fr := FailureRec{Oracle: oracle, RunIndex: idx, Seed: seed, Tape: best, OrigLen: orig, Shrinks: execs, Sample: curSample, Variant: variant}
	if final != nil && final.Failure != nil && final.Failure.Oracle == oracle {
		fr.Msg = final.Failure.Msg
		fr.Trace = final.Trace
	} else {
		fr.Msg = res.Failure.Msg
		fr.Tape = res.Tape
	}
	if len(fr.Trace) > 400 {
		fr.Trace = append(fr.Trace[:100:100], fr.Trace[len(fr.Trace)-300:]...)
	}
	return fr
}

// ReplayFile is the on-disk replay format.
type ReplayFile struct {
	Property string   `json:"property"`
	Oracle   string   `json:"oracle"`
	Seed     uint64   `json:"seed"`
	RunIndex uint64   `json:"run_index"`
	Tier     string   `json:"tier"`
	Config   any      `json:"config,omitempty"`
	Tape     []uint64 `json:"tape"`
	Variant  uint64   `json:"variant"`
	Steps    []string `json:"steps"`
	Message  string   `json:"message"`
	Tree     string   `json:"kraken_tree"`
}

func replay(t *testing.T, spec Spec, tier, path string) {
	b, err := os.ReadFile(path)
	if err != nil {
		fmt.Printf("REPLAY-ERROR %v\n", err)
		os.Exit(2)
	}
	var rf ReplayFile
	if err := json.Unmarshal(b, &rf); err != nil {
		fmt.Printf("REPLAY-ERROR %v\n", err)
		os.Exit(2)
	}
	if rf.Tier != "" {
		tier = rf.Tier
	}
	res := runForced(t, spec, tier, rf.Tape, rf.Variant, true)
	if res.Infra != "" {
		fmt.Printf("REPLAY-INFRA %s\n", res.Infra)
		os.Exit(2)
	}
	if res.Failure != nil {
		fmt.Printf("REPLAY-FAIL oracle=%s hash=%x msg=%s\n", res.Failure.Oracle, res.Hash, strings.ReplaceAll(res.Failure.Msg, "\n", " | "))
		if os.Getenv("KSIM_VERBOSE") != "" {
			for _, l := range res.Trace {
				fmt.Println("  ", l)
			}
		}
		return
	}
	fmt.Printf("REPLAY-PASS hash=%x inconclusive=%q\n", res.Hash, res.Inconcl)
	if os.Getenv("KSIM_VERBOSE") != "" {
		for _, l := range res.Trace {
			fmt.Println("  ", l)
		}
	}
}
