// Package cluster assembles simulated kraken services (tracker, origins,
// agents) from kraken's public constructors — the wiring of */cmd with
// listeners, nginx, TLS, metrics and config files removed and the I/O edges
// replaced: HTTP -> simhttp, p2p TCP -> simnet (DESIGN.md appendix D).
package cluster

import (
	"bytes"
	"encoding/json"
	"fmt"
	"io"
	"os"
	"path/filepath"
	"time"

	"github.com/c2h5oh/datasize"
	"github.com/uber-go/tally"
	"github.com/uber/kraken/core"
	"github.com/uber/kraken/lib/backend"
	"github.com/uber/kraken/lib/backend/backenderrors"
	"github.com/uber/kraken/lib/blobrefresh"
	"github.com/uber/kraken/lib/hashring"
	"github.com/uber/kraken/lib/healthcheck"
	"github.com/uber/kraken/lib/hostlist"
	"github.com/uber/kraken/lib/metainfogen"
	"github.com/uber/kraken/lib/persistedretry"
	"github.com/uber/kraken/lib/store"
	"github.com/uber/kraken/lib/torrent/networkevent"
	"github.com/uber/kraken/lib/torrent/scheduler"
	"github.com/uber/kraken/origin/blobclient"
	"github.com/uber/kraken/origin/blobserver"
	"github.com/uber/kraken/tracker/announceclient"
	"github.com/uber/kraken/tracker/originstore"
	"github.com/uber/kraken/tracker/peerhandoutpolicy"
	"github.com/uber/kraken/tracker/peerstore"
	"github.com/uber/kraken/tracker/trackerserver"
	"github.com/uber/kraken/utils/log"
	"go.uber.org/zap/zapcore"

	"kverif/kit"
	sclock "kverif/shim/clock"
	simrt "kverif/sim"
	"kverif/simhttp"
	"kverif/simnet"
)

const Namespace = "ns"

// Params are the tape-drawn knobs of one cluster.
type Params struct {
	PieceLength      int64
	Sched            scheduler.Config
	AnnounceInterval time.Duration
	PeerHandoutLimit int
	PeerTTL          time.Duration
	HandoutPolicy    string // "default" | "completeness"
	TorrentLog       bool   // write kraken's torrent log (JSON lines) per peer
}

// Cluster is the set of simulated services of one run.
type Cluster struct {
	S       *simrt.Sim
	HN      *simhttp.Net
	NW      *simnet.Network
	Dir     string
	P       Params
	Tracker *Tracker
	Origins []*Origin
	Agents  []*Agent
	origins hostlist.List
}

// Tracker node.
type Tracker struct {
	Node      *simrt.Node
	Addr      string
	PeerStore *peerstore.LocalStore
	Server    *trackerserver.Server
}

// Origin node.
type Origin struct {
	Node     *simrt.Node
	Name     string
	IP       string
	Addr     string // http addr
	CAS      *store.CAStore
	Sched    scheduler.ReloadableScheduler
	Events   *Events
	PCtx     core.PeerContext
	Gen      *metainfogen.Generator
	Backends *backend.Manager
	Server   *blobserver.Server
}

// Agent node.
type Agent struct {
	Node   *simrt.Node
	Name   string
	IP     string
	CADS   *store.CADownloadStore
	Sched  scheduler.ReloadableScheduler
	Events *Events
	PCtx   core.PeerContext
	Dir    string
	idx    int
	// TorrentLogPath is the JSON-lines torrent log of this agent (Params.TorrentLog).
	TorrentLogPath string
}

// Events records the network events of one peer (harness monitors read it).
type Events struct {
	All  []*networkevent.Event
	Hook func(ev *networkevent.Event) // called synchronously from kraken's producer call
}

func (e *Events) Produce(ev *networkevent.Event) {
	e.All = append(e.All, ev)
	if e.Hook != nil {
		e.Hook(ev)
	}
}
func (e *Events) Close() error { return nil }

// nopManager is a write-back manager that accepts and forgets (write-back is
// not part of the swarm properties).
type nopManager struct{}

func (nopManager) Add(persistedretry.Task) error                   { return nil }
func (nopManager) SyncExec(persistedretry.Task) error              { return nil }
func (nopManager) Close()                                          {}
func (nopManager) Find(interface{}) ([]persistedretry.Task, error) { return nil, nil }

// emptyBackend is a storage backend that holds nothing (every lookup is
// "blob not found"), so that unknown digests are reported as not found, as a
// deployment with a configured backend would.
type emptyBackend struct{}

func (emptyBackend) Stat(namespace, name string) (*core.BlobInfo, error) {
	return nil, backenderrors.ErrBlobNotFound
}
func (emptyBackend) Upload(namespace, name string, src io.Reader) error {
	_, err := io.Copy(io.Discard, src)
	return err
}
func (emptyBackend) Download(namespace, name string, dst io.Writer) error {
	return backenderrors.ErrBlobNotFound
}
func (emptyBackend) List(prefix string, opts ...backend.ListOption) (*backend.ListResult, error) {
	return &backend.ListResult{}, nil
}
func (emptyBackend) Close() error { return nil }

// DefaultSched returns a scheduler configuration with kraken's logs disabled.
func DefaultSched() scheduler.Config {
	verbose := os.Getenv("KSIM_KRAKENLOG") != ""
	return scheduler.Config{
		TorrentLog: log.Config{Disable: true},
		Log:        log.Config{Disable: !verbose},
	}
}

// New prepares an empty cluster (installs simhttp and simnet).
func New(s *simrt.Sim, p Params) *Cluster {
	if p.PieceLength == 0 {
		p.PieceLength = 4096
	}
	if p.HandoutPolicy == "" {
		p.HandoutPolicy = "completeness"
	}
	c := &Cluster{S: s, P: p, Dir: kit.TempDir(s)}
	c.HN = simhttp.Install(s)
	c.NW = simnet.Install(s)
	return c
}

func must(err error, what string) {
	if err != nil {
		panic(fmt.Sprintf("cluster assembly: %s: %v", what, err))
	}
}

// inNode runs fn as a task of node and waits for it, so that goroutines started
// by kraken constructors belong to that node.
func (c *Cluster) inNode(n *simrt.Node, name string, fn func()) {
	t := c.S.GoNode(n, name, fn)
	c.S.Wait(t)
}

// OriginAddrs lists the HTTP addresses of the origins declared so far.
func (c *Cluster) originAddrs(n int) []string {
	var out []string
	for i := 1; i <= n; i++ {
		out = append(out, fmt.Sprintf("origin%d:15002", i))
	}
	return out
}

// StartOrigins creates n origins (named origin1..n) forming one hash ring.
func (c *Cluster) StartOrigins(n int) {
	c.origins = hostlist.Fixture(c.originAddrs(n)...)
	for i := 1; i <= n; i++ {
		c.Origins = append(c.Origins, c.startOrigin(i, nil))
	}
}

// RestartOrigin builds a fresh origin process on the directories of o.
func (c *Cluster) RestartOrigin(i int) *Origin {
	o := c.startOrigin(i, c.Origins[i-1])
	c.Origins[i-1] = o
	return o
}

func (c *Cluster) startOrigin(i int, prev *Origin) *Origin {
	s := c.S
	name := fmt.Sprintf("origin%d", i)
	gen := 0
	if prev != nil {
		gen, _ = prev.Node.Data["gen"].(int)
		gen++
	}
	node := s.NewNode(fmt.Sprintf("%s.%d", name, gen))
	node.Data["gen"] = gen
	o := &Origin{Node: node, Name: name, IP: fmt.Sprintf("10.0.1.%d", i), Addr: fmt.Sprintf("%s:15002", name), Events: &Events{}}
	simnet.SetIP(node, o.IP)
	dir := filepath.Join(c.Dir, name)
	c.inNode(node, name+"-boot", func() {
		stats := tally.NoopScope
		cas, err := store.NewCAStore(store.CAStoreConfig{
			UploadDir: filepath.Join(dir, "upload"), CacheDir: filepath.Join(dir, "cache"),
			UploadCleanup: store.CleanupConfig{Disabled: true}, CacheCleanup: store.CleanupConfig{Disabled: true},
		}, stats)
		must(err, "castore")
		o.CAS = cas
		pctx, err := core.NewPeerContext(core.AddrHashPeerIDFactory, "zone1", "cluster1", o.IP, 16001, true)
		must(err, "pctx")
		o.PCtx = pctx
		backends, err := backend.NewManager(backend.ManagerConfig{}, nil, backend.AuthConfig{}, stats)
		must(err, "backend manager")
		must(backends.Register(".*", emptyBackend{}, false), "register backend")
		o.Backends = backends
		mig, err := metainfogen.New(metainfogen.Config{PieceLengths: map[datasize.ByteSize]datasize.ByteSize{0: datasize.ByteSize(c.P.PieceLength)}}, cas)
		must(err, "metainfogen")
		o.Gen = mig
		refresher := blobrefresh.New(blobrefresh.Config{}, stats, cas, backends, mig)
		sched, err := scheduler.NewOriginScheduler(c.P.Sched, stats, pctx, cas, o.Events, refresher)
		must(err, "origin scheduler")
		o.Sched = sched
		ring := hashring.New(hashring.Config{MaxReplica: 3}, c.origins, healthcheck.IdentityFilter{}, stats)
		srv, err := blobserver.New(blobserver.Config{}, stats, sclock.New(), o.Addr, ring, cas,
			blobclient.NewProvider(), blobclient.NewClusterProvider(), pctx, backends, refresher, mig, nopManager{})
		must(err, "blobserver")
		o.Server = srv
		c.HN.Register(o.Addr, node, srv.Handler())
	})
	return o
}

// StartTracker creates the tracker.
func (c *Cluster) StartTracker() {
	s := c.S
	node := s.NewNode("tracker")
	t := &Tracker{Node: node, Addr: "tracker:15003"}
	c.inNode(node, "tracker-boot", func() {
		stats := tally.NoopScope
		clk := sclock.New()
		t.PeerStore = peerstore.NewLocalStore(peerstore.LocalConfig{TTL: c.P.PeerTTL}, clk)
		ostore := originstore.New(originstore.Config{}, clk, c.origins, blobclient.NewProvider())
		policy, err := peerhandoutpolicy.NewPriorityPolicy(stats, c.P.HandoutPolicy)
		must(err, "policy")
		oc := blobclient.NewClusterClient(blobclient.NewClientResolver(blobclient.NewProvider(), c.origins))
		t.Server = trackerserver.New(trackerserver.Config{AnnounceInterval: c.P.AnnounceInterval, PeerHandoutLimit: c.P.PeerHandoutLimit},
			stats, policy, t.PeerStore, ostore, oc)
		c.HN.Register(t.Addr, node, t.Server.Handler())
	})
	c.Tracker = t
}

// StartAgent creates agent number i (1-based) on a fresh or existing directory.
func (c *Cluster) StartAgent(i int) *Agent {
	s := c.S
	name := fmt.Sprintf("agent%d", i)
	gen := 0
	for _, a := range c.Agents {
		if a.idx == i {
			g, _ := a.Node.Data["gen"].(int)
			if g >= gen {
				gen = g + 1
			}
		}
	}
	node := s.NewNode(fmt.Sprintf("%s.%d", name, gen))
	node.Data["gen"] = gen
	a := &Agent{Node: node, Name: name, IP: fmt.Sprintf("10.0.2.%d", i), Events: &Events{}, Dir: filepath.Join(c.Dir, name), idx: i}
	simnet.SetIP(node, a.IP)
	c.inNode(node, name+"-boot", func() {
		stats := tally.NoopScope
		cads, err := store.NewCADownloadStore(store.CADownloadStoreConfig{
			DownloadDir: filepath.Join(a.Dir, "download"), CacheDir: filepath.Join(a.Dir, "cache"),
			DownloadCleanup: store.CleanupConfig{Disabled: true}, CacheCleanup: store.CleanupConfig{Disabled: true},
		}, stats)
		must(err, "cads")
		a.CADS = cads
		pctx, err := core.NewPeerContext(core.AddrHashPeerIDFactory, "zone1", "cluster1", a.IP, 16001, false)
		must(err, "pctx")
		a.PCtx = pctx
		trackers := hashring.NoopPassiveRing(hostlist.Fixture(c.Tracker.Addr))
		ac := announceclient.New(pctx, trackers, nil)
		sc := c.P.Sched
		if c.P.TorrentLog {
			a.TorrentLogPath = filepath.Join(c.Dir, fmt.Sprintf("%s-torrent-%d.log", name, gen))
			sc.TorrentLog = log.Config{Path: a.TorrentLogPath, Level: zapcore.DebugLevel, Encoding: "json"}
		}
		sched, err := scheduler.NewAgentScheduler(sc, stats, pctx, cads, a.Events, trackers, ac, nil)
		must(err, "agent scheduler")
		a.Sched = sched
	})
	c.Agents = append(c.Agents, a)
	return a
}

// Seed stores blob in origin o's cache (with metainfo), as an upload would.
func (c *Cluster) Seed(o *Origin, blob []byte) core.Digest {
	d, err := core.NewDigester().FromBytes(blob)
	must(err, "digest")
	c.inNode(o.Node, "seed", func() {
		must(o.CAS.CreateCacheFile(d.Hex(), bytes.NewReader(blob)), "create cache file")
		must(o.Gen.Generate(d), "generate metainfo")
	})
	return d
}

// ReadCache returns the bytes of d in the agent's cache, or an error.
func (a *Agent) ReadCache(d core.Digest) ([]byte, error) {
	r, err := a.CADS.Cache().GetFileReader(d.Hex())
	if err != nil {
		return nil, err
	}
	defer r.Close()
	var buf bytes.Buffer
	_, err = buf.ReadFrom(r)
	return buf.Bytes(), err
}

// TorrentLogRec is one record of kraken's torrent log.
type TorrentLogRec struct {
	At       time.Duration // fake time since the run started
	Message  string
	Name     string
	InfoHash string
}

// ReadTorrentLog parses the agent's torrent log.
func (a *Agent) ReadTorrentLog(s *simrt.Sim) []TorrentLogRec {
	if a.TorrentLogPath == "" {
		return nil
	}
	b, err := os.ReadFile(a.TorrentLogPath)
	if err != nil {
		return nil
	}
	var out []TorrentLogRec
	for _, line := range bytes.Split(b, []byte("\n")) {
		if len(line) == 0 {
			continue
		}
		var r struct {
			TS       string `json:"ts"`
			Message  string `json:"message"`
			Name     string `json:"name"`
			InfoHash string `json:"info_hash"`
		}
		if json.Unmarshal(line, &r) != nil {
			continue
		}
		t, err := time.Parse("2006-01-02T15:04:05.000Z0700", r.TS)
		if err != nil {
			continue
		}
		out = append(out, TorrentLogRec{At: t.Sub(s.StartTime()), Message: r.Message, Name: r.Name, InfoHash: r.InfoHash})
	}
	return out
}
