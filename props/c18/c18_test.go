// C18: idle timeouts follow real activity and never delete completed blobs.
//
// Real agents, origin and tracker. A first agent completes a blob and seeds it;
// leechers arrive with tape-drawn gaps (some inside, some beyond the seeder idle
// limit), are slowed by stalls, or lose their sources for longer than the
// leecher idle limit. kraken's own torrent log (written by the real torrentlog
// package, timestamps on the fake clock) tells when a torrent was dropped as an
// idle seeder / idle leecher; network events tell when pieces were received
// and from whom.
package c18

import (
	"bytes"
	"errors"
	"os"
	"path/filepath"
	"testing"
	"time"

	"github.com/uber/kraken/core"
	"github.com/uber/kraken/gen/go/proto/p2p"
	"github.com/uber/kraken/lib/torrent/networkevent"
	"github.com/uber/kraken/lib/torrent/scheduler"
	"github.com/uber/kraken/lib/torrent/scheduler/connstate"
	"github.com/uber/kraken/utils/bandwidth"

	"kverif/cluster"
	"kverif/kit"
	simrt "kverif/sim"
	"kverif/wire"
)

type dlRes struct {
	done bool
	err  error
	at   time.Duration
}

func body(s *simrt.Sim, tier string) {
	tp := s.Tape
	sc := cluster.DefaultSched()
	sc.SeederTTI = time.Duration(6+tp.Draw(25)) * time.Second
	sc.LeecherTTI = time.Duration(6+tp.Draw(25)) * time.Second
	sc.PreemptionInterval = time.Duration(1+tp.Draw(4)) * time.Second
	sc.ConnTTI = time.Duration(4+tp.Draw(20)) * time.Second
	sc.EmitStatsInterval = time.Minute
	sc.ConnState = connstate.Config{MaxOpenConnectionsPerTorrent: 2 + tp.Draw(3), BlacklistDuration: time.Duration(6+tp.Draw(6)) * time.Second}
	pieceLen := int64(1024 << tp.Draw(3))
	p := cluster.Params{PieceLength: pieceLen, Sched: sc, TorrentLog: true,
		AnnounceInterval: time.Duration(1+tp.Draw(2)) * time.Second, PeerHandoutLimit: 3 + tp.Draw(3)}
	c := cluster.New(s, p)
	wl := wire.Attach(s, c.NW) // piece payloads as the sender writes them
	c.StartOrigins(1)
	if v := s.Tape.Variant; v%3 == 1 {
		// egress bandwidth limit for the agents (the scheduler's own limiter,
		// 256-byte tokens; the origin stays unlimited so that the first download
		// is not starved): 1-3 pieces per second, so that payloads queue behind
		// each other at the serving end and a piece goes onto the wire well
		// after it was requested
		const token = 8 * 256
		perPiece := uint64(pieceLen / 256)
		c.P.Sched.Conn.Bandwidth = bandwidth.Config{Enable: true, TokenSize: token,
			EgressBitsPerSec: token * perPiece * (1 + (v/3)%3), IngressBitsPerSec: token * perPiece * 1000}
		s.Probe("egress_limited")
	}
	c.StartTracker()
	nPieces := 2 + tp.Draw(14)
	size := int(p.PieceLength)*nPieces - tp.Draw(int(p.PieceLength))
	blob := kit.Bytes(s, size)
	d := c.Seed(c.Origins[0], blob)
	mi, err := core.NewMetaInfo(d, bytes.NewReader(blob), p.PieceLength)
	if err != nil {
		s.InfraError("metainfo: %v", err)
	}
	ih := mi.InfoHash().String()
	nLeech := 1 + tp.Draw(3)
	kit.SetSample(map[string]any{"seeder_tti": sc.SeederTTI.String(), "leecher_tti": sc.LeecherTTI.String(), "preemption": sc.PreemptionInterval.String(),
		"blob": size, "pieces": nPieces, "leechers": nLeech})

	download := func(a *cluster.Agent, res *dlRes) {
		s.GoNode(a.Node, "download", func() {
			err := a.Sched.Download(cluster.Namespace, d)
			res.done, res.err, res.at = true, err, s.Now()
			s.Logf("%s download -> %v", a.Name, err)
		})
	}
	// --- seeder: agent1 completes first
	seeder := c.StartAgent(1)
	var r0 dlRes
	download(seeder, &r0)
	for i := 0; i < 600 && !r0.done; i++ {
		simrt.Sleep(100 * time.Millisecond)
	}
	if !r0.done || r0.err != nil {
		s.Fail("no_convergence", "fault-free first download did not succeed: done=%v err=%v", r0.done, r0.err)
	}
	// --- leechers arrive with gaps relative to the seeder idle limit
	scenario := tp.Draw(3) // 0: arrivals only, 1: + stalls, 2: + a leecher loses its sources
	if scenario == 2 {
		// slow links, so that the loss of sources lands in the middle of a transfer
		c.NW.MaxLatency = time.Duration(100+tp.Draw(900)) * time.Millisecond
	}
	// The completion notice of a finished download is sent by a task of its
	// own; in some runs it is slow (site-armed pause), so that preemption ticks
	// are applied between the last piece and the notice.
	if tp.Chance(400) {
		for i := 0; i < nLeech; i++ {
			s.ArmPauseAt("liftedEventLoop).DispatcherComplete", nil, 0, time.Duration(1+tp.Draw(2*int(sc.PreemptionInterval/time.Second)+2))*time.Second)
		}
		s.Probe("slow_completion_notice_armed")
	}
	agents := []*cluster.Agent{seeder}
	results := []*dlRes{&r0}
	var cutAt time.Duration = -1
	for i := 0; i < nLeech; i++ {
		// gaps: mostly below the idle limit so that serving should keep the seeder alive
		gap := time.Duration(tp.Draw(int(sc.SeederTTI/time.Millisecond))) * time.Millisecond
		if tp.Chance(250) {
			gap = sc.SeederTTI + time.Duration(tp.Draw(8000))*time.Millisecond
		}
		simrt.Sleep(gap)
		a := c.StartAgent(i + 2)
		r := &dlRes{}
		agents = append(agents, a)
		results = append(results, r)
		download(a, r)
		if scenario >= 1 && tp.Chance(500) {
			// slow the transfer: stall this agent's connections for a while (below the leecher limit)
			simrt.Sleep(time.Duration(tp.Draw(300)) * time.Millisecond)
			for _, cn := range c.NW.Conns() {
				if cn.Node() == a.Node && tp.Chance(600) {
					cn := cn
					cn.Stall(true)
					dur := time.Duration(tp.Draw(int(sc.LeecherTTI/time.Millisecond)/2)) * time.Millisecond
					simrt.Go(func() { simrt.Sleep(dur); cn.Stall(false) })
				}
			}
		}
		if scenario == 2 && i == nLeech-1 && tp.Chance(700) {
			// the last leecher loses every source mid-transfer, for longer than its idle limit
			simrt.Sleep(time.Duration(tp.Draw(6000)) * time.Millisecond)
			for _, o := range append([]*cluster.Agent{}, agents[:len(agents)-1]...) {
				c.NW.Partition(a.Node, o.Node, true)
			}
			c.NW.Partition(a.Node, c.Origins[0].Node, true)
			cutAt = s.Now()
			s.Logf("%s loses all sources", a.Name)
		}
	}
	// let every timeout that is going to fire, fire
	simrt.Sleep(2*(sc.SeederTTI+sc.LeecherTTI) + 4*sc.PreemptionInterval + 20*time.Second)

	// --- oracle
	// A piece counts as served when its payload goes onto the wire at the
	// serving end: the read time the scheduler records for it is never earlier
	// (the piece reader is closed after the write). The receiver's own event is
	// not used for this — link latency and stalled connections delay it by an
	// unbounded amount (see DESIGN.md, false alarms). The torrent log has
	// millisecond resolution.
	const slack = time.Second
	const logRes = 2 * time.Millisecond
	for ai, a := range agents {
		recs := a.ReadTorrentLog(s)
		// pieces this agent received (own events) and pieces others received from it
		var received, servedSeenAt []time.Duration
		for _, ev := range a.Events.All {
			if ev.Name == networkevent.ReceivePiece && ev.Torrent == ih {
				received = append(received, ev.Time.Sub(s.StartTime()))
			}
		}
		for _, f := range wl.Frames {
			if f.From == a.Node.Name && f.Msg != nil && f.Msg.Type == p2p.Message_PIECE_PAYLOAD && f.InfoHash == ih {
				servedSeenAt = append(servedSeenAt, f.At)
			}
		}
		if len(servedSeenAt) > 0 {
			s.Probe("payload_frames_seen_on_wire")
		}
		for _, r := range recs {
			if r.InfoHash != ih {
				continue
			}
			switch r.Message {
			case "Seed timeout":
				s.Probe("seed_timeout")
				for _, at := range servedSeenAt {
					// the piece was served no earlier than at; it must keep the torrent for a full idle limit
					if at <= r.At && r.At+logRes < at+sc.SeederTTI {
						s.Fail("seeder_dropped_while_serving", "%s dropped its completed torrent as idle at %v although it put a piece on the wire at %v (seeder idle limit %v)", a.Name, r.At, at, sc.SeederTTI)
					}
				}
				if got, err := a.ReadCache(d); err != nil || !bytes.Equal(got, blob) {
					s.Fail("completed_blob_deleted", "%s: cached blob missing or changed after its completed torrent was dropped as idle (err=%v)", a.Name, err)
				}
			case "Leech timeout":
				s.Probe("leech_timeout")
				for _, at := range received {
					if at <= r.At && r.At < at-slack+sc.LeecherTTI {
						s.Fail("leecher_dropped_while_receiving", "%s dropped its in-progress torrent as idle at %v although it received a piece at %v (leecher idle limit %v)", a.Name, r.At, at, sc.LeecherTTI)
					}
				}
			}
		}
		res := results[ai]
		if res.done && errors.Is(res.err, scheduler.ErrTorrentTimeout) {
			s.Probe("download_timed_out")
			if cutAt < 0 {
				s.Probe("timeout_without_source_loss")
			}
			// cancelling an in-progress download deletes its partial file
			if partialExists(filepath.Join(a.Dir, "download"), d) {
				s.Fail("partial_file_left", "%s: download timed out as idle but its partial file is still in the download directory", a.Name)
			}
		}
		if res.done && res.err == nil {
			if got, err := a.ReadCache(d); err != nil || !bytes.Equal(got, blob) {
				s.Fail("completed_blob_deleted", "%s: download succeeded but the cached blob is missing or wrong at the end of the run (err=%v); idle drops must not delete completed blobs", a.Name, err)
			}
		}
	}
}

func partialExists(dir string, d core.Digest) bool {
	found := false
	filepath.Walk(dir, func(p string, fi os.FileInfo, err error) error {
		if err == nil && (fi.Name() == d.Hex() || (fi.Name() == "data" && filepath.Base(filepath.Dir(p)) == d.Hex())) {
			found = true
		}
		return nil
	})
	return found
}

func TestC18(t *testing.T) {
	kit.Main(t, kit.Spec{Property: "C18", Body: body,
		Config: func(string) simrt.Config { return simrt.Config{MaxSteps: 20_000_000, Horizon: 6 * time.Hour} },
		Real: []string{"lib/torrent/scheduler (preemption tick, torrent access watcher, removeTorrent)", "lib/torrent/scheduler/torrentlog (real log file, fake-clock timestamps)",
			"agentstorage / originstorage, stores, tracker, origin blobserver metainfo endpoints"},
		Stub: []string{"TCP (simnet) and HTTP (simhttp) transports", "write-back manager (no-op)", "health-check filter (identity)"},
		Rule: "one run = a seeder that completed a blob plus 1-3 leechers arriving with tape-drawn gaps around the seeder idle limit, optional connection stalls and loss of all sources for longer than the leecher idle limit; idle limits 6-30 s, preemption 1-4 s; non-trivial = >=1 contested scheduling decision or fired fault",
		Assumptions: []string{"a piece counts as served at the instant its payload frame is written at the serving end (observed on the simulated wire)", "drops later than the limit are accepted (the statement bounds drops from below only)"},
	})
}
