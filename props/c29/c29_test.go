// C29: request deduplication runs at most one execution per key.
package c29

import (
	"errors"
	"fmt"
	"testing"
	"time"

	"github.com/uber-go/tally"
	"github.com/uber/kraken/utils/dedup"

	"kverif/kit"
	sclock "kverif/shim/clock"
	ssync "kverif/shim/sync"
	simrt "kverif/sim"
)

const ms = time.Millisecond

// All client operations start on the grid k*1s+500ms; bodies last k*1s+250ms,
// TTLs and timeouts are whole seconds, so "expired" vs "fresh" comparisons in
// the oracle never see equal instants (neither < nor <= is asserted).

type exec struct {
	key      string
	start    time.Duration
	end      time.Duration // -1 while running
	err      error
	ttl      time.Duration
	out      int
	starter  int
}

type world struct {
	s        *simrt.Sim
	inflight map[string]int
	execs    []*exec
}

func (w *world) enter(key string, starter int) *exec {
	e := &exec{key: key, start: w.s.Now(), end: -1, starter: starter, out: len(w.execs) + 1}
	w.execs = append(w.execs, e)
	w.inflight[key]++
	if w.inflight[key] > 1 {
		w.s.Fail("two_in_flight", "key %s has %d executions in flight at t=%v", key, w.inflight[key], w.s.Now())
	}
	simrt.Yield()
	return e
}

func (w *world) leave(e *exec) {
	simrt.Yield()
	w.inflight[e.key]--
	e.end = w.s.Now()
}

// align sleeps until the next instant of the form k*1s+500ms.
func align(s *simrt.Sim) {
	rem := s.Now() % time.Second
	d := (1500*ms - rem) % time.Second
	if d > 0 {
		simrt.Sleep(d)
	}
}

var errBoom = errors.New("boom")
var errNotFound = errors.New("not found")

func requestCache(s *simrt.Sim, tier string) {
	w := &world{s: s, inflight: map[string]int{}}
	tp := s.Tape
	cfg := dedup.RequestCacheConfig{
		NotFoundTTL:     time.Duration(1+tp.Draw(6)) * time.Second,
		ErrorTTL:        time.Duration(1+tp.Draw(6)) * time.Second,
		CleanupInterval: time.Duration(1+tp.Draw(8)) * time.Second,
		NumWorkers:      1 + tp.Draw(3),
		BusyTimeout:     time.Duration(1+tp.Draw(3)) * time.Second,
	}
	nKeys := 1 + tp.Draw(3)
	nTasks := 2 + tp.Draw(4)
	nOps := 2 + tp.Draw(5)
	if tier == "thorough" {
		nTasks += tp.Draw(3)
		nOps += tp.Draw(6)
	}
	if tp.Chance(400) {
		s.InjectPauses(1+tp.Draw(3), 400, 90*time.Second)
	}
	rc := dedup.NewRequestCache(cfg, sclock.New(), tally.NoopScope)
	rc.SetNotFound(func(err error) bool { return err == errNotFound })
	type startRec struct {
		key        string
		t          time.Duration
		tret       time.Duration
		res        error
		ran        *exec
		id         int
	}
	var starts []*startRec
	var wg ssync.WaitGroup
	simrt.Sleep(500 * ms)
	for ti := 0; ti < nTasks; ti++ {
		wg.Add(1)
		simrt.Go(func() {
			defer wg.Done()
			for op := 0; op < nOps; op++ {
				simrt.Sleep(time.Duration(tp.Draw(6)) * time.Second)
				align(s)
				key := fmt.Sprintf("k%d", tp.Draw(nKeys))
				dur := time.Duration(tp.Draw(5))*time.Second + 250*ms
				outcome := tp.Draw(3)
				rec := &startRec{key: key, t: s.Now(), id: len(starts)}
				starts = append(starts, rec)
				res := rc.Start(key, func() error {
					e := w.enter(key, rec.id)
					if rec.ran != nil {
						s.Fail("ran_twice", "request of start #%d ran twice", rec.id)
					}
					rec.ran = e
					simrt.Sleep(dur)
					switch outcome {
					case 1:
						e.err, e.ttl = errBoom, cfg.ErrorTTL
					case 2:
						e.err, e.ttl = errNotFound, cfg.NotFoundTTL
					}
					w.leave(e)
					return e.err
				})
				rec.res, rec.tret = res, s.Now()
				s.Logf("start %s -> %v", key, res)
				// ---- per-call oracle ----
				switch {
				case res == nil:
					// body will run (checked at the end); a cached fresh error must
					// have prevented it
					if e := freshError(w, rec.key, rec.t, rec.tret, nil, true); e != nil {
						s.Fail("ran_despite_cached_error", "Start(%s) at %v accepted although error of execution ending %v (ttl %v) is still cached", key, rec.t, e.end, e.ttl)
					}
				case res == dedup.ErrRequestPending:
					ok := false
					for _, o := range starts {
						if o == rec || o.key != key || o.t > rec.tret {
							continue
						}
						// o was accepted (or still deciding) and its body had not finished when we were invoked
						if o.res == nil && o.tret != 0 && (o.ran == nil || o.ran.end < 0 || o.ran.end >= rec.t || s.PausedDuring(o.ran.end, rec.tret)) {
							ok = true
						}
						if o.tret == 0 { // still inside Start (waiting for a worker)
							ok = true
						}
						if o.res == dedup.ErrWorkersBusy && (o.tret >= rec.t || s.PausedDuring(o.tret, rec.tret)) {
							ok = true // it held the reservation while waiting for a worker
						}
					}
					if !ok {
						s.Fail("pending_without_request", "Start(%s) at %v reported pending but no request for the key is in flight", key, rec.t)
					}
				case res == dedup.ErrWorkersBusy:
					if rec.tret-rec.t < cfg.BusyTimeout {
						s.Fail("busy_before_timeout", "ErrWorkersBusy after %v < BusyTimeout %v", rec.tret-rec.t, cfg.BusyTimeout)
					}
				case res == errBoom || res == errNotFound:
					if e := freshError(w, key, rec.t, rec.tret, res, false); e == nil {
						s.Fail("stale_or_foreign_error", "Start(%s) at %v returned cached %v but no unexpired execution error explains it", key, rec.t, res)
					}
				default:
					s.Fail("unexpected_result", "Start returned %v", res)
				}
			}
		})
	}
	wg.Wait()
	simrt.Sleep(30 * time.Minute) // let accepted requests finish
	for _, r := range starts {
		if r.res == nil && (r.ran == nil || r.ran.end < 0) {
			s.Fail("accepted_not_run", "Start #%d(%s) at %v was accepted but its request never completed", r.id, r.key, r.t)
		}
		if r.res != nil && r.ran != nil {
			s.Fail("rejected_but_ran", "Start #%d(%s) returned %v but its request ran", r.id, r.key, r.res)
		}
	}
	kit.SetSample(map[string]any{"scenario": "request_cache", "config": fmt.Sprintf("%+v", cfg), "keys": nKeys, "tasks": nTasks, "ops_per_task": nOps, "starts": len(starts), "executions": len(w.execs)})
}

// freshError looks for an execution of key that ended with an error (equal to
// want when non-nil) whose TTL covers the call [t,tret]. With strict=true it
// answers "must the Start report the cached error": the latest execution that
// ended before t failed, its TTL outlasts tret, nothing else about the key
// happened during the call and no injected pause blurs when the error was
// stored. With strict=false it answers "may the Start report it": equal
// instants and injected pauses count in favour of the implementation.
func freshError(w *world, key string, t, tret time.Duration, want error, strict bool) *exec {
	var last *exec
	for _, e := range w.execs {
		if e.key != key {
			continue
		}
		if strict && (e.end < 0 || e.end >= t) {
			return nil // something about the key is/was in flight during the call
		}
		if e.end < 0 {
			continue
		}
		if !strict && e.end <= tret && (want == nil || e.err == want) && e.err != nil {
			if t <= e.end+e.ttl || w.s.PausedDuring(e.end, tret) {
				return e
			}
		}
		if strict && (last == nil || e.end > last.end) {
			last = e
		}
	}
	if !strict || last == nil || last.err == nil {
		return nil
	}
	if tret < last.end+last.ttl && !w.s.PausedDuring(last.end, tret) {
		return last
	}
	return nil
}

type runner struct {
	w  *world
	tp *simrt.Tape
}

func (r *runner) Run(input interface{}) (interface{}, time.Duration) {
	e := r.w.enter(input.(string), -1)
	simrt.Sleep(time.Duration(r.tp.Draw(4))*time.Second + 250*ms)
	e.ttl = time.Duration(r.tp.Draw(5)) * time.Second
	r.w.leave(e)
	return e.out, e.ttl
}

func limiter(s *simrt.Sim, tier string) {
	w := &world{s: s, inflight: map[string]int{}}
	tp := s.Tape
	if tp.Chance(500) {
		s.InjectPauses(1+tp.Draw(3), 300, 90*time.Second)
	}
	l := dedup.NewLimiter(sclock.New(), &runner{w, tp})
	nKeys := 1 + tp.Draw(2)
	nTasks := 2 + tp.Draw(4)
	nOps := 2 + tp.Draw(5)
	if tier == "thorough" {
		nTasks += tp.Draw(3)
		nOps += tp.Draw(6)
	}
	var wg ssync.WaitGroup
	simrt.Sleep(500 * ms)
	calls := 0
	for ti := 0; ti < nTasks; ti++ {
		wg.Add(1)
		simrt.Go(func() {
			defer wg.Done()
			for op := 0; op < nOps; op++ {
				gap := time.Duration(tp.Draw(5)) * time.Second
				if tp.Chance(200) {
					gap = time.Duration(58+tp.Draw(6)) * time.Second // around the GC interval
				}
				simrt.Sleep(gap)
				align(s)
				key := fmt.Sprintf("k%d", tp.Draw(nKeys))
				t0 := s.Now()
				out := l.Run(key)
				calls++
				s.Logf("run %s -> %v", key, out)
				id, _ := out.(int)
				if id < 1 || id > len(w.execs) {
					s.Fail("bogus_output", "Run(%s) returned %v which no execution produced", key, out)
				}
				e := w.execs[id-1]
				if e.key != key {
					s.Fail("foreign_output", "Run(%s) returned the output of an execution for %s", key, e.key)
				}
				if e.end < 0 {
					s.Fail("output_before_end", "Run(%s) returned the output of an unfinished execution", key)
				}
				if !(e.end >= t0 || t0 <= e.end+e.ttl || s.PausedDuring(e.end, s.Now())) {
					s.Fail("expired_output_reused", "Run(%s) at %v reused output of execution ended %v ttl %v", key, t0, e.end, e.ttl)
				}
			}
		})
	}
	wg.Wait()
	kit.SetSample(map[string]any{"scenario": "limiter", "keys": nKeys, "tasks": nTasks, "ops_per_task": nOps, "calls": calls, "executions": len(w.execs)})
}

type trapTask struct {
	s       *simrt.Sim
	runs    []time.Duration
	running int
}

func (t *trapTask) Run() {
	t.running++
	if t.running > 1 {
		t.s.Fail("trap_overlap", "interval task runs concurrently")
	}
	simrt.Yield()
	t.runs = append(t.runs, t.s.Now())
	simrt.Yield()
	t.running--
}

func trap(s *simrt.Sim, tier string) {
	tp := s.Tape
	interval := time.Duration(2+tp.Draw(6)) * time.Second
	if tp.Chance(400) {
		s.InjectPauses(1+tp.Draw(3), 200, 30*time.Second)
	}
	tt := &trapTask{s: s}
	created := s.Now()
	it := dedup.NewIntervalTrap(interval, sclock.New(), tt)
	nTasks := 2 + tp.Draw(4)
	nOps := 3 + tp.Draw(8)
	var wg ssync.WaitGroup
	simrt.Sleep(500 * ms)
	for ti := 0; ti < nTasks; ti++ {
		wg.Add(1)
		simrt.Go(func() {
			defer wg.Done()
			for op := 0; op < nOps; op++ {
				simrt.Sleep(time.Duration(tp.Draw(5)) * time.Second)
				align(s)
				it.Trap()
			}
		})
	}
	wg.Wait()
	prev := created
	for _, r := range tt.runs {
		if r-prev < interval {
			s.Fail("trap_too_soon", "interval task ran at %v, %v after the previous run/creation (interval %v)", r, r-prev, interval)
		}
		prev = r
	}
	kit.SetSample(map[string]any{"scenario": "interval_trap", "interval": interval.String(), "tasks": nTasks, "traps_per_task": nOps, "runs": len(tt.runs)})
}

func body(s *simrt.Sim, tier string) {
	switch s.Tape.Draw(3) {
	case 0:
		requestCache(s, tier)
	case 1:
		limiter(s, tier)
	case 2:
		trap(s, tier)
	}
}

func TestC29(t *testing.T) {
	kit.Main(t, kit.Spec{
		Property: "C29",
		Body:     body,
		Config: func(tier string) simrt.Config {
			return simrt.Config{MaxSteps: 200000, Horizon: 2 * time.Hour, PanicIsFailure: true}
		},
		Real: []string{"utils/dedup.RequestCache", "utils/dedup.Limiter", "utils/dedup.IntervalTrap"},
		Stub: []string{"request bodies / TaskRunner / IntervalTask (instrumented harness closures)", "tally.NoopScope"},
		Rule: "one run = one scenario (request cache | limiter | interval trap) with tape-drawn config, keys, tasks, op timing, body durations/outcomes, scheduling strategy; non-trivial = run with >=1 contested scheduling decision; distinct = distinct event-log hash (schedule + ops + results)",
		Assumptions: []string{"fake clock: all operation instants lie on a grid that avoids TTL-boundary equality"},
	})
}
