// C30: retried tasks run until they succeed, across failures and restarts.
//
// Real: persistedretry.Manager (NewManager, Add, Close, workers, retry poller),
// writeback.Store / tagreplication.Store on a real sqlite file (simsql: kraken's
// migrations, CURRENT_TIMESTAMP = fake clock), tagreplication.Remotes validator.
//
// Stub: the Executor (outcome, duration and "process dies in the middle of the
// execution" per (task, attempt) come from the tape) and a pass-through Store
// decorator that only observes the calls the manager makes (sequence stamps)
// and offers crash points at store-call boundaries.
//
// Model (DESIGN.md A.9): a row of the store is an "incarnation" of a task,
// created by a successful insert and closed by Remove.
//
//	safety   removed_without_success   Remove is issued only for an incarnation
//	                                    that has a completed successful execution
//	         row_vanished / phantom_row the sqlite table and the set of open
//	                                    incarnations agree at every observation
//	         readd_*                    Add of a stored task returns nil, makes no
//	                                    other store call, and arms no execution
//	         extra_execution            within one manager process every execution
//	                                    of an incarnation is licensed by its insert
//	                                    as pending or by one MarkPending (the retry
//	                                    schedule)
//	         accepted_not_stored        Add returned nil but the task was neither
//	                                    inserted nor found stored
//	liveness accepted_not_succeeded     after faults stop (executor succeeds, no
//	                                    crashes) every acknowledged Add has a
//	                                    successful execution within the bound
//	         store_not_empty            ... and the table is empty
package c30

import (
	"fmt"
	"path/filepath"
	"sort"
	"strings"
	"testing"
	"time"

	"github.com/jmoiron/sqlx"
	"github.com/uber-go/tally"
	"github.com/uber/kraken/core"
	"github.com/uber/kraken/lib/persistedretry"
	"github.com/uber/kraken/lib/persistedretry/tagreplication"
	"github.com/uber/kraken/lib/persistedretry/writeback"

	"kverif/kit"
	simrt "kverif/sim"
	"kverif/simsql"
)

const ms = time.Millisecond

// ---------------------------------------------------------------------------
// model

type taskRec struct {
	key   string
	delay time.Duration
	mk    func() persistedretry.Task
	adds  []*addRec
	incs  []*incRec
	cur   *incRec // open incarnation (row present) or nil
	execs []*execRec
}

type incRec struct {
	t        *taskRec
	id       int
	success  *execRec
	removed  bool
	armed    map[int]int // generation -> licences (insert as pending, MarkPending)
	started  map[int]int // generation -> executions started
	ackedAdd bool
}

type addRec struct {
	t          *taskRec
	gen        int
	done       bool
	err        error
	inner      string // "", "inserted", "exists", "error"
	inc        *incRec
	otherCalls int
}

type execRec struct {
	t       *taskRec
	gen     int
	inc     *incRec
	attempt int
	outcome string // running, ok, err, aborted
}

type gen struct {
	id   int
	node *simrt.Node
	db   *sqlx.DB
	m    persistedretry.Manager
}

type world struct {
	s           *simrt.Sim
	kind        int // 0 writeback, 1 tagreplication
	dbPath      string
	cfg         persistedretry.Config
	remotes     tagreplication.Remotes
	tasks       []*taskRec
	byKey       map[string]*taskRec
	gens        []*gen
	gen         *gen
	byNode      map[int]*gen
	addBy       map[int]*addRec // simulator task id -> Add in progress
	lastPending map[int]string  // simulator task id -> key of its latest MarkPending
	faultsOn    bool
	failPm      int
	crashExecPm,
	crashStorePm int
	nExec int
	nIncs int
}

func keyOf(t persistedretry.Task) string {
	switch x := t.(type) {
	case *writeback.Task:
		return "wb|" + x.Namespace + "|" + x.Name
	case *tagreplication.Task:
		return "tr|" + x.Tag + "|" + x.Destination
	}
	return fmt.Sprintf("?%T", t)
}

func (w *world) curGen() *gen {
	if n := simrt.CurNode(); n != nil {
		if g := w.byNode[n.ID]; g != nil {
			return g
		}
	}
	return w.gen
}

// ---------------------------------------------------------------------------
// observing pass-through store

type obsStore struct {
	inner persistedretry.Store
	w     *world
}

func (o *obsStore) crashPoint(where string) {
	w := o.w
	if !w.faultsOn || w.crashStorePm == 0 {
		return
	}
	if w.s.Tape.Chance(w.crashStorePm) {
		w.s.Fault("crash_at_store_call")
		w.s.Logf("crash at %s", where)
		w.s.KillNode(simrt.CurNode()) // does not return
	}
}

func (o *obsStore) curAdd() *addRec {
	_, t := simrt.Cur()
	if t == nil {
		return nil
	}
	return o.w.addBy[t.ID]
}

func (o *obsStore) note(name string) {
	if a := o.curAdd(); a != nil {
		a.otherCalls++
	}
}

func (o *obsStore) add(t persistedretry.Task, pending bool) error {
	w := o.w
	name := "AddFailed"
	if pending {
		name = "AddPending"
	}
	o.crashPoint("before " + name)
	var err error
	if pending {
		err = o.inner.AddPending(t)
	} else {
		err = o.inner.AddFailed(t)
	}
	tr := w.byKey[keyOf(t)]
	a := o.curAdd()
	g := w.curGen()
	switch {
	case tr == nil:
		w.s.Fail("foreign_task", "store %s of unknown task %s", name, keyOf(t))
	case err == nil:
		if tr.cur != nil {
			w.s.Fail("row_vanished", "insert of %s succeeded although incarnation #%d was never removed", tr.key, tr.cur.id)
		}
		w.nIncs++
		inc := &incRec{t: tr, id: w.nIncs, armed: map[int]int{}, started: map[int]int{}}
		if pending {
			inc.armed[g.id]++
		}
		tr.incs = append(tr.incs, inc)
		tr.cur = inc
		if a != nil {
			a.inner, a.inc = "inserted", inc
		}
		w.s.Logf("store %s %s -> inserted inc#%d", name, tr.key, inc.id)
	case err == persistedretry.ErrTaskExists:
		if tr.cur == nil {
			w.s.Fail("phantom_row", "insert of %s reports an existing row but no incarnation is open", tr.key)
		}
		if a != nil {
			a.inner, a.inc = "exists", tr.cur
		}
		w.s.Probe("readd_of_stored_task")
		w.s.Logf("store %s %s -> exists", name, tr.key)
	default:
		if a != nil {
			a.inner = "error"
		}
		w.s.Logf("store %s %s -> error %v", name, tr.key, err)
	}
	o.crashPoint("after " + name)
	return err
}

func (o *obsStore) AddPending(t persistedretry.Task) error { return o.add(t, true) }
func (o *obsStore) AddFailed(t persistedretry.Task) error  { return o.add(t, false) }

func (o *obsStore) MarkPending(t persistedretry.Task) error {
	o.note("MarkPending")
	o.crashPoint("before MarkPending")
	err := o.inner.MarkPending(t)
	w := o.w
	if _, me := simrt.Cur(); me != nil {
		w.lastPending[me.ID] = keyOf(t)
	}
	if tr := w.byKey[keyOf(t)]; tr != nil && err == nil && tr.cur != nil {
		tr.cur.armed[w.curGen().id]++
	}
	w.s.Logf("store MarkPending %s -> %v", keyOf(t), err)
	o.crashPoint("after MarkPending")
	return err
}

func (o *obsStore) MarkFailed(t persistedretry.Task) error {
	o.note("MarkFailed")
	if o.curAdd() != nil {
		o.w.s.Probe("incoming_queue_overflow")
	}
	if _, me := simrt.Cur(); me != nil && o.w.lastPending[me.ID] == keyOf(t) {
		o.w.s.Probe("retry_queue_overflow")
	}
	o.crashPoint("before MarkFailed")
	err := o.inner.MarkFailed(t)
	o.w.s.Logf("store MarkFailed %s -> %v", keyOf(t), err)
	o.crashPoint("after MarkFailed")
	return err
}

func (o *obsStore) GetPending() ([]persistedretry.Task, error) {
	o.note("GetPending")
	ts, err := o.inner.GetPending()
	o.crashPoint("after GetPending")
	return ts, err
}

func (o *obsStore) GetFailed() ([]persistedretry.Task, error) {
	o.note("GetFailed")
	ts, err := o.inner.GetFailed()
	o.crashPoint("after GetFailed")
	return ts, err
}

func (o *obsStore) Remove(t persistedretry.Task) error {
	o.note("Remove")
	w := o.w
	o.crashPoint("before Remove")
	tr := w.byKey[keyOf(t)]
	if tr != nil && tr.cur != nil {
		if tr.cur.success == nil {
			w.s.Fail("removed_without_success", "Remove(%s) issued by %s although incarnation #%d of the task has no completed successful execution (executions so far: %s)",
				tr.key, w.curGen().node.Name, tr.cur.id, execSummary(tr))
		}
	}
	err := o.inner.Remove(t)
	if tr != nil && err == nil && tr.cur != nil {
		tr.cur.removed = true
		tr.cur = nil
	}
	w.s.Logf("store Remove %s -> %v", keyOf(t), err)
	o.crashPoint("after Remove")
	return err
}

func (o *obsStore) Find(q interface{}) ([]persistedretry.Task, error) { return o.inner.Find(q) }

func execSummary(tr *taskRec) string {
	var b []string
	for _, e := range tr.execs {
		inc := 0
		if e.inc != nil {
			inc = e.inc.id
		}
		b = append(b, fmt.Sprintf("gen%d/inc%d:%s", e.gen, inc, e.outcome))
	}
	if len(b) == 0 {
		return "none"
	}
	return strings.Join(b, ",")
}

// ---------------------------------------------------------------------------
// executor stub

type stubExec struct{ w *world }

func (e *stubExec) Name() string { return "stub" }

func (e *stubExec) Exec(t persistedretry.Task) error {
	w := e.w
	s := w.s
	tr := w.byKey[keyOf(t)]
	if tr == nil {
		s.Fail("foreign_task", "executor got unknown task %s", keyOf(t))
	}
	g := w.curGen()
	rec := &execRec{t: tr, gen: g.id, inc: tr.cur, attempt: len(tr.execs) + 1, outcome: "running"}
	tr.execs = append(tr.execs, rec)
	w.nExec++
	if rec.inc == nil {
		s.Probe("exec_without_row")
	} else {
		rec.inc.started[g.id]++
		if rec.inc.started[g.id] > rec.inc.armed[g.id] {
			s.Fail("extra_execution", "execution #%d of %s (incarnation #%d) in %s: %d executions started but the task was made pending only %d times in this process (adds of the task: %d)",
				rec.attempt, tr.key, rec.inc.id, g.node.Name, rec.inc.started[g.id], rec.inc.armed[g.id], len(tr.adds))
		}
	}
	if !w.faultsOn {
		simrt.Sleep(5 * ms)
		return e.finish(rec, true)
	}
	tp := s.Tape
	dur := []time.Duration{0, 5 * ms, 200 * ms, 2 * time.Second, 7 * time.Second}[tp.Draw(5)]
	fail := tp.Chance(w.failPm)
	crash := 0
	if w.crashExecPm > 0 && tp.Chance(w.crashExecPm) {
		crash = 1 + tp.Draw(2) // 1: before the work, 2: after the work, before returning
	}
	s.Logf("exec %s attempt %d start dur=%v fail=%v crash=%d", tr.key, rec.attempt, dur, fail, crash)
	if crash == 1 {
		e.die(rec)
	}
	simrt.Sleep(dur)
	if crash == 2 && w.faultsOn { // a death decided before faults stopped does not fire afterwards
		e.die(rec)
	}
	return e.finish(rec, !fail)
}

func (e *stubExec) die(rec *execRec) {
	s := e.w.s
	rec.outcome = "aborted"
	s.Fault("crash_mid_execution")
	s.Probe("crash_mid_execution")
	s.KillNode(simrt.CurNode())
}

var errExec = fmt.Errorf("stub executor failure")

func (e *stubExec) finish(rec *execRec, ok bool) error {
	s := e.w.s
	if ok {
		rec.outcome = "ok"
		if rec.inc != nil && rec.inc.success == nil && !rec.inc.removed {
			rec.inc.success = rec
		}
		s.Logf("exec %s attempt %d -> ok", rec.t.key, rec.attempt)
		return nil
	}
	rec.outcome = "err"
	s.Fault("executor_error")
	s.Logf("exec %s attempt %d -> error", rec.t.key, rec.attempt)
	return errExec
}

// ---------------------------------------------------------------------------
// process lifecycle

func (w *world) startGen() {
	s := w.s
	for tries := 0; ; tries++ {
		if tries > 50 {
			s.InfraError("manager did not come up in 50 attempts")
		}
		g := &gen{id: len(w.gens) + 1}
		g.node = s.NewNode(fmt.Sprintf("mgr%d", g.id))
		db, err := simsql.Open(s, w.dbPath)
		if err != nil {
			s.InfraError("simsql.Open: %v", err)
		}
		g.db = db
		w.gens = append(w.gens, g)
		w.byNode[g.node.ID] = g
		w.gen = g
		tk := s.GoNode(g.node, "boot", func() {
			var inner persistedretry.Store
			if w.kind == 0 {
				inner = writeback.NewStore(db)
			} else {
				st, err := tagreplication.NewStore(db, w.remotes)
				if err != nil {
					s.Fail("start_error", "tagreplication.NewStore: %v", err)
				}
				inner = st
			}
			m, err := persistedretry.NewManager(w.cfg, tally.NoopScope, &obsStore{inner, w}, &stubExec{w})
			if err != nil {
				s.Fail("start_error", "NewManager on the existing database: %v", err)
			}
			g.m = m
		})
		s.Wait(tk)
		if g.m != nil && !g.node.Dead {
			s.Logf("manager %s up", g.node.Name)
			return
		}
		s.Probe("crash_during_start")
		w.reap(g)
	}
}

func (w *world) reap(g *gen) {
	s := w.s
	if !g.node.Dead {
		s.KillNode(g.node)
	}
	s.JoinNode(g.node)
	g.db.Close()
	for _, tr := range w.tasks {
		for _, e := range tr.execs {
			if e.gen == g.id && e.outcome == "running" {
				e.outcome = "aborted"
			}
		}
	}
}

func (w *world) crashAndRestart(why string) {
	w.s.Fault("crash_" + why)
	w.reap(w.gen)
	w.startGen()
}

// ensureUp restarts the manager process if something killed it.
func (w *world) ensureUp() {
	if w.gen.node.Dead {
		w.s.Probe("restart_after_injected_crash")
		w.reap(w.gen)
		w.startGen()
	}
}

func (w *world) addAsync(tr *taskRec) (*addRec, *simrt.Task) {
	s := w.s
	g := w.gen
	a := &addRec{t: tr, gen: g.id}
	tr.adds = append(tr.adds, a)
	task := tr.mk()
	tk := s.GoNode(g.node, "add", func() {
		_, me := simrt.Cur()
		w.addBy[me.ID] = a
		err := g.m.Add(task)
		delete(w.addBy, me.ID)
		a.err, a.done = err, true
		s.Logf("add %s -> %v (inner=%s)", tr.key, err, a.inner)
		w.judgeAdd(a)
	})
	return a, tk
}

func (w *world) judgeAdd(a *addRec) {
	s := w.s
	if a.inner == "exists" {
		if a.err != nil {
			s.Fail("readd_error", "Add of the already stored task %s returned %v", a.t.key, a.err)
		}
		if a.otherCalls > 0 {
			s.Fail("readd_side_effect", "Add of the already stored task %s made %d further store calls", a.t.key, a.otherCalls)
		}
	}
	if a.err == nil {
		if a.inc == nil {
			s.Fail("accepted_not_stored", "Add(%s) returned nil but the task was neither inserted nor found in the store (inner=%q)", a.t.key, a.inner)
		}
		a.inc.ackedAdd = true
		s.Probe("add_acked")
	} else {
		if a.err == persistedretry.ErrManagerClosed {
			s.Probe("add_refused_manager_closed")
		} else {
			s.Probe("add_error_other")
		}
	}
}

// ---------------------------------------------------------------------------
// observation of the sqlite table

type row struct {
	K1       string `db:"k1"`
	K2       string `db:"k2"`
	Status   string `db:"status"`
	Failures int    `db:"failures"`
}

func (w *world) rows() []row {
	var rs []row
	q := `SELECT namespace AS k1, name AS k2, status, failures FROM writeback_task ORDER BY namespace, name`
	pre := "wb|"
	if w.kind == 1 {
		q = `SELECT tag AS k1, destination AS k2, status, failures FROM replicate_tag_task ORDER BY tag, destination`
		pre = "tr|"
	}
	if err := w.gen.db.Select(&rs, q); err != nil {
		w.s.InfraError("observe table: %v", err)
	}
	for i := range rs {
		rs[i].K1 = pre + rs[i].K1
	}
	return rs
}

// observe compares the table with the open incarnations.
func (w *world) observe() []row {
	s := w.s
	rs := w.rows()
	seen := map[string]int{}
	h := uint64(1469598103934665603)
	for _, r := range rs {
		k := r.K1 + "|" + r.K2
		seen[k]++
		tr := w.byKey[k]
		if tr == nil || tr.cur == nil {
			s.Fail("phantom_row", "table holds a row for %s (status %s) but no incarnation of it is open", k, r.Status)
		}
		if seen[k] > 1 {
			s.Fail("second_row", "table holds %d rows for %s", seen[k], k)
		}
		if r.Status != "pending" && r.Status != "failed" {
			s.Fail("bad_status", "row %s has status %q", k, r.Status)
		}
		for _, c := range []byte(k + r.Status) {
			h = (h ^ uint64(c)) * 1099511628211
		}
	}
	for _, tr := range w.tasks {
		if tr.cur != nil && seen[tr.key] == 0 {
			s.Fail("row_vanished", "task %s (incarnation #%d, acked=%v) is gone from the table without a Remove; successful execution: %v; executions: %s",
				tr.key, tr.cur.id, tr.cur.ackedAdd, tr.cur.success != nil, execSummary(tr))
		}
	}
	s.State(h)
	return rs
}

// ---------------------------------------------------------------------------
// body

func digest(s string) core.Digest {
	d, err := core.NewDigester().FromBytes([]byte(s))
	if err != nil {
		panic(err)
	}
	return d
}

func body(s *simrt.Sim, tier string) {
	tp := s.Tape
	w := &world{s: s, byKey: map[string]*taskRec{}, byNode: map[int]*gen{}, addBy: map[int]*addRec{}, lastPending: map[int]string{}}
	w.kind = tp.Draw(2)
	w.cfg = persistedretry.Config{
		IncomingBuffer:               1 + tp.Draw(3),
		RetryBuffer:                  1 + tp.Draw(3),
		NumIncomingWorkers:           1 + tp.Draw(2),
		NumRetryWorkers:              1 + tp.Draw(2),
		MaxTaskThroughput:            []time.Duration{ms, 20 * ms, 300 * ms, 1500 * ms}[tp.Draw(4)],
		RetryInterval:                time.Duration(1+tp.Draw(5)) * time.Second,
		PollRetriesInterval:          time.Duration(1+tp.Draw(4)) * time.Second,
		WorkqueueMetricsEmitInterval: 20 * time.Second,
	}
	// worker counts left to the manager's defaults in some runs (out of band)
	switch (s.Tape.Variant / 3) % 4 {
	case 1:
		w.cfg.NumRetryWorkers = 0
		s.Probe("retry_workers_defaulted")
	case 2:
		w.cfg.NumIncomingWorkers, w.cfg.NumRetryWorkers = 0, 0
		s.Probe("all_workers_defaulted")
	}
	w.failPm = []int{0, 300, 600, 850}[tp.Draw(4)]
	w.crashExecPm = []int{0, 0, 40, 150}[tp.Draw(4)]
	w.crashStorePm = []int{0, 0, 10, 40}[tp.Draw(4)]
	nTasks := 1 + tp.Draw(8)
	nSteps := 3 + tp.Draw(10)
	if tier == "thorough" {
		nTasks += tp.Draw(5)
		nSteps += tp.Draw(14)
	}
	nPauses := 0
	const maxPause = 20 * time.Second
	if tp.Chance(300) {
		nPauses = 1 + tp.Draw(3)
		s.InjectPauses(nPauses, 2500, maxPause)
	}
	// Workload variant (out of band): the retry poller is slow — stalled for a
	// few seconds at a drawn scheduling point inside its polling function —
	// while workers go on executing and failing tasks.
	if s.Tape.Variant%3 == 1 {
		k := 1 + tp.Draw(3)
		for i := 0; i < k; i++ {
			s.ArmPauseAt("persistedretry.(*manager).pollRetries", nil, tp.Draw(8), time.Duration(500+tp.Draw(4000))*time.Millisecond)
		}
		nPauses += k
		s.Probe("slow_poller_armed")
	}
	dests := []string{"bi-remote-a:80", "bi-remote-b:80"}
	if w.kind == 1 {
		rs, err := tagreplication.RemotesConfig{dests[0]: {".*"}, dests[1]: {"repo/.*"}}.Build()
		if err != nil {
			s.InfraError("remotes: %v", err)
		}
		w.remotes = rs
	}
	var maxDelay time.Duration
	for i := 0; i < nTasks; i++ {
		delay := []time.Duration{0, 0, 0, 2 * time.Second, 6 * time.Second}[tp.Draw(5)]
		if delay > maxDelay {
			maxDelay = delay
		}
		tr := &taskRec{delay: delay}
		if w.kind == 0 {
			ns, name := fmt.Sprintf("ns%d", i%2), digest(fmt.Sprintf("blob%d", i)).Hex()
			tr.key = "wb|" + ns + "|" + name
			tr.mk = func() persistedretry.Task { return writeback.NewTask(ns, name, delay) }
		} else {
			tag, dst := fmt.Sprintf("repo/img%d:v1", i/2), dests[i%2]
			d := digest(fmt.Sprintf("manifest%d", i/2))
			deps := core.DigestList{d, digest(fmt.Sprintf("layer%d", i))}
			tr.key = "tr|" + tag + "|" + dst
			tr.mk = func() persistedretry.Task { return tagreplication.NewTask(tag, d, deps, dst, delay) }
		}
		w.tasks = append(w.tasks, tr)
		w.byKey[tr.key] = tr
	}
	w.dbPath = filepath.Join(kit.TempDir(s), "kraken.db")
	w.faultsOn = true
	w.startGen()

	nextNew := 0
	pickNew := func() *taskRec {
		if nextNew < len(w.tasks) {
			nextNew++
			return w.tasks[nextNew-1]
		}
		return w.tasks[tp.Draw(len(w.tasks))]
	}
	for step := 0; step < nSteps; step++ {
		w.ensureUp()
		w.observe()
		switch k := tp.Draw(8); k {
		case 0, 1: // add one task (new while there are new ones)
			_, tk := w.addAsync(pickNew())
			s.Wait(tk)
		case 2: // burst of concurrent adds: queue overflow
			n := 2 + tp.Draw(5)
			var tks []*simrt.Task
			for i := 0; i < n; i++ {
				_, tk := w.addAsync(pickNew())
				tks = append(tks, tk)
			}
			for _, tk := range tks {
				s.Wait(tk)
			}
			s.Probe("burst_add")
		case 3: // re-add of a task that was added before
			if nextNew == 0 {
				continue
			}
			_, tk := w.addAsync(w.tasks[tp.Draw(nextNew)])
			s.Wait(tk)
		case 4: // let time pass
			simrt.Sleep([]time.Duration{100 * ms, time.Second, 3 * time.Second, 10 * time.Second}[tp.Draw(4)])
		case 5: // crash between steps
			w.crashAndRestart("between_steps")
		case 6: // crash racing with an Add
			_, tk := w.addAsync(pickNew())
			for i, n := 0, tp.Draw(6); i < n; i++ {
				simrt.Yield()
			}
			_ = tk
			w.crashAndRestart("during_add")
		case 7: // graceful restart: Close, then a new process on the same file
			g := w.gen
			tk := s.GoNode(g.node, "close", func() { g.m.Close() })
			if tp.Chance(500) {
				_, tk2 := w.addAsync(pickNew()) // Add racing with Close
				s.Wait(tk2)
			}
			s.Wait(tk)
			s.Probe("graceful_restart")
			w.reap(g)
			w.startGen()
		}
		simrt.Sleep([]time.Duration{0, 50 * ms, 700 * ms, 2 * time.Second}[tp.Draw(4)])
	}

	// ---- faults stop: executor succeeds, no more crashes, no more adds
	w.faultsOn = false
	w.ensureUp()
	s.Logf("faults stop")
	t0 := s.Now()
	workers := w.cfg.NumIncomingWorkers + w.cfg.NumRetryWorkers
	if w.cfg.NumIncomingWorkers == 0 || w.cfg.NumRetryWorkers == 0 {
		workers += 16 // defaulted: any plausible default; more workers only loosen the bound
	}
	limit := w.cfg.MaxTaskThroughput * time.Duration(workers)
	const execFault = 7 * time.Second // longest execution started before faults stopped
	per := w.cfg.RetryInterval + w.cfg.PollRetriesInterval + 2*time.Second + limit + execFault
	n := len(w.tasks)
	rounds := (n+w.cfg.RetryBuffer-1)/w.cfg.RetryBuffer + 2
	bound := 3 * (time.Duration(rounds)*per + time.Duration(n)*(limit+execFault) + maxDelay + time.Duration(nPauses)*maxPause)
	satisfied := func() (bool, string) {
		for _, tr := range w.tasks {
			for _, a := range tr.adds {
				if a.done && a.err == nil && a.inc != nil && a.inc.success == nil {
					return false, fmt.Sprintf("task %s: Add acknowledged (inner=%s) but incarnation #%d has no successful execution; executions: %s", tr.key, a.inner, a.inc.id, execSummary(tr))
				}
			}
		}
		return true, ""
	}
	var rs []row
	for {
		w.ensureUpQuiet()
		rs = w.observe()
		ok, _ := satisfied()
		if ok && len(rs) == 0 {
			break
		}
		if s.Now()-t0 > bound {
			break
		}
		simrt.Sleep(per / 2)
	}
	if ok, why := satisfied(); !ok {
		s.Fail("accepted_not_succeeded", "%v after faults stopped (bound %v): %s; table rows: %s", s.Now()-t0, bound, why, rowSummary(rs))
	}
	if len(rs) != 0 {
		s.Fail("store_not_empty", "%v after faults stopped (bound %v) the table still holds %s", s.Now()-t0, bound, rowSummary(rs))
	}
	for _, tr := range w.tasks {
		for _, inc := range tr.incs {
			if !inc.removed {
				s.Fail("row_vanished", "incarnation #%d of %s was never removed through the store but the table is empty", inc.id, tr.key)
			}
		}
	}
	acked, execs, okExecs := 0, 0, 0
	for _, tr := range w.tasks {
		for _, a := range tr.adds {
			if a.done && a.err == nil {
				acked++
			}
		}
		for _, e := range tr.execs {
			execs++
			if e.outcome == "ok" {
				okExecs++
			}
		}
	}
	if len(w.gens) > 1 {
		s.Probe("runs_with_restart")
	}
	// stop the live manager so that its goroutines end
	g := w.gen
	tk := s.GoNode(g.node, "close", func() { g.m.Close() })
	s.Wait(tk)
	kit.SetSample(map[string]any{"store": []string{"writeback", "tagreplication"}[w.kind], "config": fmt.Sprintf("%+v", w.cfg),
		"tasks": n, "steps": nSteps, "fail_pm": w.failPm, "crash_exec_pm": w.crashExecPm, "crash_store_pm": w.crashStorePm,
		"pauses": nPauses, "processes": len(w.gens), "adds_acked": acked, "executions": execs, "successful": okExecs,
		"incarnations": w.nIncs, "bound": bound.String(), "settled_after": (s.Now() - t0).String()})
}

// ensureUpQuiet is ensureUp for the phase in which nothing may kill the node.
func (w *world) ensureUpQuiet() {
	if w.gen.node.Dead {
		w.s.Fail("died_without_fault", "manager process %s died after faults stopped", w.gen.node.Name)
	}
}

func rowSummary(rs []row) string {
	var b []string
	for _, r := range rs {
		b = append(b, fmt.Sprintf("%s|%s:%s/%d", r.K1, r.K2, r.Status, r.Failures))
	}
	sort.Strings(b)
	if len(b) == 0 {
		return "no rows"
	}
	return strings.Join(b, " ")
}

func TestC30(t *testing.T) {
	kit.Main(t, kit.Spec{
		Property: "C30",
		Body:     body,
		Config: func(tier string) simrt.Config {
			return simrt.Config{MaxSteps: 400000, Horizon: 6 * time.Hour, PanicIsFailure: true}
		},
		Real: []string{"lib/persistedretry.Manager", "lib/persistedretry/writeback.Store", "lib/persistedretry/tagreplication.Store (+Remotes validator)",
			"localdb migrations on sqlite (simsql driver: CURRENT_TIMESTAMP = fake clock)"},
		Stub: []string{"persistedretry.Executor (tape-driven outcome / duration / death in mid-execution)",
			"pass-through persistedretry.Store decorator (call log, crash points at call boundaries)", "tally.NoopScope"},
		Rule: "one run = one store kind (writeback | tagreplication), tape-drawn manager config (buffers 1-3, workers 1-2, pacing, retry and poll intervals), 1-8 tasks (some delayed), 3-12 steps of add / burst add / re-add / sleep / crash / crash racing an Add / graceful restart, executor failure rate, crash rates inside executions and at store calls, optional task pauses; then faults stop and the run waits for the config-derived bound",
		Assumptions: []string{
			"sqlite statement atomicity is trusted: crashes happen at store-call / executor / scheduling-point boundaries, never inside one SQL statement",
			"tagreplication remotes configuration does not change between restarts (NewStore's deleteInvalidTasks never fires)",
			"created_at defaults to the instant the database file was created (simsql rewrites CURRENT_TIMESTAMP in the CREATE TABLE text), so a delayed task re-read from the table is Ready no later than in production; the liveness bound includes the largest delay",
			"liveness bound = 3 x ((ceil(tasks/RetryBuffer)+2) x (RetryInterval + PollRetriesInterval + 2s + pacing + 7s) + tasks x (pacing + 7s) + max delay + pauses)",
		},
	})
}
