// C24: passive health filtering follows its failure-window rule.
//
// Real: healthcheck.PassiveFilter and healthcheck.Passive on the fake clock
// (+ the real static hostlist in half of the runs).
//
// Oracle = reference model A.5, written from the statement: at instant now a
// host is filtered out iff there is a recorded failure u, no more than
// FailTimeout old, such that at least Fails recorded failures v lie in
// (u-FailTimeout, u]. Every comparison against FailTimeout is evaluated twice,
// strictly and non-strictly; when the two disagree (an instant lies exactly on
// a boundary) both answers are accepted. With concurrent callers a failure that
// overlaps the query may or may not be counted.
package c24

import (
	"fmt"
	"sort"
	"strings"
	"testing"
	"time"

	"github.com/uber/kraken/lib/healthcheck"
	"github.com/uber/kraken/lib/hostlist"
	"github.com/uber/kraken/utils/stringset"

	"kverif/kit"
	sclock "kverif/shim/clock"
	ssync "kverif/shim/sync"
	simrt "kverif/sim"
)

const ms = time.Millisecond

type failRec struct {
	host   string
	t0, t1 time.Duration // fake time at invoke / return
	s0, s1 int64         // sequence stamps at invoke / return
}

type world struct {
	s      *simrt.Sim
	fails  int
	ft     time.Duration
	recs   []*failRec
	taint  map[string]bool // hosts with a Failed call that took fake time (instant unknown)
	nQuery int
	nFilt  int
	nBoth  int
}

// verdict for host h for a query spanning sequence stamps [q0,q1] at fake
// time now: must = every admissible reading filters h, may = some does.
func (w *world) verdict(h string, now time.Duration, q0, q1 int64) (must, may bool) {
	// A Failed call that took fake time (its task was stalled inside it)
	// recorded its failure at an unknown instant of [t0,t1]. The rule is
	// monotone — more failures never un-filter a host — so "must" is judged
	// without such failures, and "must not" is only asserted when none of them
	// can matter any more (the whole interval is older than 2 x FailTimeout).
	var before, all []time.Duration
	vague := false
	for _, r := range w.recs {
		if r.host != h {
			continue
		}
		instant := r.s1 != 0 && r.t1 == r.t0
		if !instant {
			end := r.t1
			if r.s1 == 0 {
				end = now
			}
			if r.s0 < q1 && end+2*w.ft >= now {
				vague = true
			}
			continue
		}
		if r.s1 < q0 {
			before = append(before, r.t0)
		}
		if r.s0 < q1 {
			all = append(all, r.t0)
		}
	}
	defer func() {
		if vague {
			may = true
		}
	}()
	eval := func(ts []time.Duration, strict bool) bool {
		for _, u := range ts {
			if u > now {
				continue
			}
			age := now - u
			if strict && !(age < w.ft) || !strict && !(age <= w.ft) {
				continue
			}
			n := 0
			for _, v := range ts {
				if v > u {
					continue
				}
				d := u - v
				if strict && d < w.ft || !strict && d <= w.ft {
					n++
				}
			}
			if n >= w.fails {
				return true
			}
		}
		return false
	}
	return eval(before, true), eval(all, false)
}

func (w *world) failed(call func(string), h string) {
	s := w.s
	r := &failRec{host: h, t0: s.Now(), s0: s.NextSeq()}
	w.recs = append(w.recs, r)
	call(h)
	r.t1, r.s1 = s.Now(), s.NextSeq()
	if r.t1 != r.t0 {
		s.Probe("failed_call_took_fake_time")
	}
	s.Logf("failed %s", h)
}

func sorted(set stringset.Set) []string {
	l := set.ToSlice()
	sort.Strings(l)
	return l
}

// checkRun judges one PassiveFilter.Run(in) = out.
func (w *world) checkRun(in []string, out stringset.Set, t0, t1 time.Duration, q0, q1 int64) {
	s := w.s
	w.nQuery++
	inSet := stringset.New(in...)
	for _, h := range sorted(out) {
		if !inSet.Has(h) {
			s.Fail("result_outside_input", "Run(%v) returned %s", in, h)
		}
	}
	if t0 != t1 {
		s.Probe("query_took_fake_time")
		return
	}
	for _, h := range in {
		must, may := w.verdict(h, t0, q0, q1)
		if must != may {
			w.nBoth++
		}
		if must {
			w.nFilt++
		}
		if must && out.Has(h) {
			s.Fail("unhealthy_host_not_filtered", "at %v Run(%v) kept %s although >= %d of its failures %s lie within %v of a failure younger than %v", t0, in, h, w.fails, w.timeline(h), w.ft, w.ft)
		}
		if !may && !out.Has(h) {
			s.Fail("healthy_host_filtered", "at %v Run(%v) dropped %s although its failures %s do not satisfy the window rule (Fails=%d FailTimeout=%v)", t0, in, h, w.timeline(h), w.fails, w.ft)
		}
	}
}

// checkResolve judges one Passive.Resolve() = out over list.
func (w *world) checkResolve(list []string, out stringset.Set, t0, t1 time.Duration, q0, q1 int64) {
	s := w.s
	w.nQuery++
	if len(list) > 0 && len(out) == 0 {
		s.Fail("resolve_empty", "at %v Passive.Resolve() is empty although the list has hosts %v", t0, list)
	}
	inSet := stringset.New(list...)
	for _, h := range sorted(out) {
		if !inSet.Has(h) {
			s.Fail("result_outside_input", "Resolve() over %v returned %s", list, h)
		}
	}
	if t0 != t1 {
		s.Probe("query_took_fake_time")
		return
	}
	nMust, nMay := 0, 0
	var mustL []bool
	var mayL []bool
	for _, h := range list {
		must, may := w.verdict(h, t0, q0, q1)
		mustL, mayL = append(mustL, must), append(mayL, may)
		if must {
			nMust++
		}
		if may {
			nMay++
		}
	}
	if len(out) == len(list) {
		// either nothing was filtered or everything was (fallback to the whole list)
		if nMust > 0 && nMay < len(list) {
			s.Fail("resolve_kept_unhealthy", "at %v Resolve() returned the whole list %v although some hosts must be filtered and not all may be (must=%v may=%v)", t0, list, mustL, mayL)
		}
		if nMay == len(list) && len(list) > 0 {
			s.Probe("resolve_all_unhealthy_fallback_possible")
		}
		return
	}
	for i, h := range list {
		if mustL[i] && out.Has(h) {
			s.Fail("resolve_kept_unhealthy", "at %v Resolve() over %v kept %s, failures %s (Fails=%d FailTimeout=%v)", t0, list, h, w.timeline(h), w.fails, w.ft)
		}
		if !mayL[i] && !out.Has(h) {
			s.Fail("resolve_dropped_healthy", "at %v Resolve() over %v dropped %s, failures %s (Fails=%d FailTimeout=%v)", t0, list, h, w.timeline(h), w.fails, w.ft)
		}
	}
}

func (w *world) timeline(h string) string {
	var l []string
	for _, r := range w.recs {
		if r.host == h {
			l = append(l, r.t0.String())
		}
	}
	return "[" + strings.Join(l, " ") + "]"
}

type stubList struct{ hosts []string }

func (l *stubList) Resolve() stringset.Set { return stringset.New(l.hosts...) }

func body(s *simrt.Sim, tier string) {
	tp := s.Tape
	w := &world{s: s, taint: map[string]bool{}}
	w.fails = 1 + tp.Draw(4)
	w.ft = time.Duration(2+tp.Draw(6)) * time.Second
	if tp.Chance(300) {
		w.ft += 250 * ms // no instant difference can equal FailTimeout
	}
	nHosts := 1 + tp.Draw(4)
	var hosts []string
	for i := 0; i < nHosts; i++ {
		hosts = append(hosts, fmt.Sprintf("h%d:80", i))
	}
	concurrent := tp.Draw(2) == 1
	nTasks := 1
	if concurrent {
		nTasks = 2 + tp.Draw(3)
	}
	nOps := 6 + tp.Draw(30)
	if concurrent {
		nOps = 4 + tp.Draw(14)
		if tp.Chance(400) {
			// a caller is descheduled in the middle of a call while the clock moves on
			s.InjectPauses(1+tp.Draw(3), 40*nTasks*nOps, 2*w.ft)
			s.Probe("pauses_armed")
		}
	}
	if tier == "thorough" {
		nOps += tp.Draw(20)
	}
	pf := healthcheck.NewPassiveFilter(healthcheck.PassiveFilterConfig{Fails: w.fails, FailTimeout: w.ft}, sclock.New())
	// the Passive wrapper over a list: real static hostlist or a stub subset
	var list []string
	var hl hostlist.List
	if tp.Draw(2) == 0 {
		list = hosts
		hl = hostlist.Fixture(hosts...)
	} else {
		for _, h := range hosts {
			if tp.Chance(600) {
				list = append(list, h)
			}
		}
		if len(list) == 0 {
			list = hosts[:1]
		}
		hl = &stubList{list}
	}
	p := healthcheck.NewPassive(hl, pf)

	step := 500 * ms
	runTask := func(id int) {
		for op := 0; op < nOps; op++ {
			// clock advance: mostly short, sometimes around / beyond FailTimeout
			switch k := tp.Draw(8); {
			case k <= 2:
			case k <= 5:
				simrt.Sleep(time.Duration(1+tp.Draw(4)) * step)
			case k == 6:
				simrt.Sleep(w.ft - time.Second + time.Duration(tp.Draw(5))*step)
			default:
				simrt.Sleep(w.ft + time.Duration(1+tp.Draw(6))*step)
			}
			switch k := tp.Draw(10); {
			case k <= 3:
				w.failed(pf.Failed, hosts[tp.Draw(nHosts)])
			case k == 4:
				w.failed(p.Failed, hosts[tp.Draw(nHosts)])
			case k <= 7:
				var in []string
				for _, h := range hosts {
					if tp.Draw(4) != 3 {
						in = append(in, h)
					}
				}
				t0, q0 := s.Now(), s.NextSeq()
				out := pf.Run(stringset.New(in...))
				t1, q1 := s.Now(), s.NextSeq()
				s.Logf("t%d run %v -> %v", id, in, sorted(out))
				w.checkRun(in, out, t0, t1, q0, q1)
			default:
				t0, q0 := s.Now(), s.NextSeq()
				out := p.Resolve()
				t1, q1 := s.Now(), s.NextSeq()
				s.Logf("t%d resolve -> %v", id, sorted(out))
				w.checkResolve(list, out, t0, t1, q0, q1)
			}
		}
	}
	if !concurrent {
		runTask(0)
	} else {
		var wg ssync.WaitGroup
		for i := 0; i < nTasks; i++ {
			wg.Add(1)
			id := i
			simrt.Go(func() {
				defer wg.Done()
				runTask(id)
			})
		}
		wg.Wait()
	}
	if w.nFilt > 0 {
		s.Probe("host_filtered")
	}
	if w.nBoth > 0 {
		s.Probe("boundary_or_overlap_both_accepted")
	}
	if concurrent {
		s.Probe("concurrent_callers")
	} else {
		s.Probe("sequential_timeline")
	}
	kit.SetSample(map[string]any{"concurrent": concurrent, "tasks": nTasks, "ops_per_task": nOps, "hosts": nHosts, "list": list,
		"fails": w.fails, "fail_timeout": w.ft.String(), "failed_calls": len(w.recs), "queries": w.nQuery,
		"must_filter_verdicts": w.nFilt, "either_accepted_verdicts": w.nBoth})
}

func TestC24(t *testing.T) {
	kit.Main(t, kit.Spec{
		Property: "C24",
		Body:     body,
		Config: func(tier string) simrt.Config {
			return simrt.Config{MaxSteps: 200000, Horizon: 6 * time.Hour, PanicIsFailure: true}
		},
		Real: []string{"lib/healthcheck.PassiveFilter", "lib/healthcheck.Passive", "lib/hostlist (static list, half of the runs)", "utils/stringset"},
		Stub: []string{"hostlist.List stub returning a drawn fixed subset (other half of the runs)", "fake clock (shim clock over the synctest bubble)"},
		Rule: "one run = Fails 1..4, FailTimeout 2..7s (+250ms in 30%), 1..4 hosts; a timeline of <=36 operations (Failed via filter or via Passive, Run over a drawn subset, Passive.Resolve) separated by drawn clock advances (0, short, around FailTimeout, beyond it); second configuration: 2..4 caller tasks each with its own timeline; non-trivial = >=1 contested scheduling decision; distinct = distinct event-log hash",
		Assumptions: []string{"where an age or distance equals FailTimeout exactly, or a Failed call overlaps the query, both outcomes are accepted"},
	})
}
