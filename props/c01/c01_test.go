// C01: content-addressed stores never serve bytes that do not hash to their name.
//
// One run = one origin (real CAStore + refresher + metainfogen + blobserver
// handlers + originstorage) with a tape-drawn configuration, <=6 digests whose
// pre-image the harness knows (plus one digest nobody can produce content
// for), 2-3 writer tasks pushing matching and non-matching bytes through every
// public write path, 1-2 reader tasks checking every public read path, and one
// slow client whose handles (file reader, HTTP download, piece reader) stay
// open across drain ticks, TTL expiry and later writes of other blobs.
package c01

import (
	"bytes"
	"errors"
	"fmt"
	"io"
	"net/http"
	"net/http/httptest"
	"os"
	"sort"
	"strconv"
	"testing"
	"time"

	"github.com/c2h5oh/datasize"
	"github.com/uber/kraken/core"
	"github.com/uber/kraken/lib/backend"
	"github.com/uber/kraken/lib/backend/backenderrors"
	"github.com/uber/kraken/lib/store"
	"github.com/uber/kraken/lib/store/metadata"
	"github.com/uber/kraken/lib/torrent/storage/originstorage"

	"kverif/kit"
	ssync "kverif/shim/sync"
	simrt "kverif/sim"
)

const ns = "ns"
const ms = time.Millisecond

// variants of a byte stream relative to the true pre-image
const (
	vCorrect = iota
	vFlip
	vTruncate
	vExtend
	vEmpty
	vOther
	nVariants
)

var variantName = []string{"correct", "flip", "truncate", "extend", "empty", "other"}

type blob struct {
	hex  string
	d    core.Digest
	data []byte // nil for the phantom digest (no pre-image known to anybody)
	// phantom: the harness never produces bytes hashing to hex.
	phantom bool
	// validStarted: some write whose byte stream equals data has been invoked.
	validStarted bool
}

type world struct {
	s     *simrt.Sim
	tp    *simrt.Tape
	tier  string
	rig   *rig
	arch  *originstorage.TorrentArchive
	blobs []*blob
	byHex map[string]*blob
	cfg   store.CAStoreConfig
	pls   []int64 // configured piece lengths
	seq   int
	be    *advBackend

	nWrites, nReads, nServed int
}

// variant returns a byte stream for b of the requested kind and whether it
// hashes to b.hex.
func (w *world) variant(b *blob, kind int) ([]byte, bool, int) {
	tp := w.tp
	if b.phantom {
		n := tp.Draw(200)
		return kit.Bytes(w.s, n), false, vOther
	}
	src := b.data
	var out []byte
	switch kind {
	case vCorrect:
		return append([]byte(nil), src...), true, vCorrect
	case vFlip:
		if len(src) == 0 {
			kind = vExtend
			out = []byte{byte(1 + tp.Draw(255))}
			break
		}
		out = append([]byte(nil), src...)
		out[tp.Draw(len(src))] ^= byte(1 + tp.Draw(255))
	case vTruncate:
		if len(src) == 0 {
			kind = vExtend
			out = []byte{byte(1 + tp.Draw(255))}
			break
		}
		k := 1 + tp.Draw(min(len(src), 40))
		out = append([]byte(nil), src[:len(src)-k]...)
	case vExtend:
		out = append(append([]byte(nil), src...), kit.Bytes(w.s, 1+tp.Draw(40))...)
	case vEmpty:
		if len(src) == 0 {
			kind = vExtend
			out = []byte{0}
			break
		}
		out = []byte{}
	case vOther:
		o := w.blobs[tp.Draw(len(w.blobs))]
		if o == b || o.phantom {
			kind = vExtend
			out = append(append([]byte(nil), src...), 0)
			break
		}
		out = append([]byte(nil), o.data...)
	}
	if kit.SHA(out) == b.hex {
		return out, true, vCorrect
	}
	return out, false, kind
}

// drawKind: 0 (the boring choice) is the correct stream.
func (w *world) drawKind() int {
	if !w.tp.Chance(450) {
		return vCorrect
	}
	return 1 + w.tp.Draw(nVariants-1)
}

// ---------------------------------------------------------------------------
// adversarial backend

var errBackend = errors.New("backend stream broke")

type advBackend struct {
	w *world
}

func (c *advBackend) Stat(namespace, name string) (*core.BlobInfo, error) {
	w := c.w
	b := w.byHex[name]
	if b == nil {
		return nil, backenderrors.ErrBlobNotFound
	}
	tp := w.tp
	simrt.Yield()
	switch {
	case tp.Chance(40):
		w.s.Logf("backend stat %s -> notfound", short(name))
		return nil, backenderrors.ErrBlobNotFound
	case tp.Chance(30):
		w.s.Logf("backend stat %s -> error", short(name))
		return nil, errBackend
	}
	size := int64(len(b.data))
	if b.phantom {
		size = int64(tp.Draw(300))
	}
	if tp.Chance(300) {
		switch tp.Draw(4) {
		case 0:
			size += int64(1 + tp.Draw(64))
		case 1:
			size -= int64(1 + tp.Draw(64))
			if size < 0 {
				size = 0
			}
		case 2:
			size = 0
		case 3:
			size = size*2 + 1000
		}
		w.s.Fault("backend_stat_size_lies")
	}
	w.s.Logf("backend stat %s -> %d", short(name), size)
	return core.NewBlobInfo(size), nil
}

func (c *advBackend) Download(namespace, name string, dst io.Writer) error {
	w := c.w
	b := w.byHex[name]
	if b == nil {
		return backenderrors.ErrBlobNotFound
	}
	tp := w.tp
	simrt.Yield()
	if tp.Chance(30) {
		w.s.Logf("backend download %s -> notfound", short(name))
		return backenderrors.ErrBlobNotFound
	}
	stream, valid, kind := w.variant(b, w.drawKind())
	breakAt := -1 // error after that many bytes
	if tp.Chance(150) {
		breakAt = tp.Draw(len(stream) + 1)
		w.s.Fault("backend_error_midstream")
	}
	if !valid {
		w.s.Fault("backend_stream_" + variantName[kind])
	}
	if valid && (breakAt < 0 || breakAt == len(stream)) {
		// the complete true pre-image is handed to the store
		b.validStarted = true
	}
	w.s.Logf("backend download %s kind=%s len=%d break=%d", short(name), variantName[kind], len(stream), breakAt)
	chunk := 1 + tp.Draw(4)*97
	if chunk == 1 {
		chunk = len(stream) + 1
	}
	sent := 0
	for sent < len(stream) {
		n := min(chunk, len(stream)-sent)
		if breakAt >= 0 && sent+n > breakAt {
			n = breakAt - sent
		}
		if n > 0 {
			if _, err := dst.Write(stream[sent : sent+n]); err != nil {
				return err
			}
			sent += n
		}
		if breakAt >= 0 && sent >= breakAt {
			return errBackend
		}
		simrt.Yield()
	}
	if breakAt >= 0 {
		return errBackend
	}
	return nil
}

func (c *advBackend) Upload(namespace, name string, src io.Reader) error { return nil }
func (c *advBackend) List(prefix string, opts ...backend.ListOption) (*backend.ListResult, error) {
	return nil, errors.New("not supported")
}
func (c *advBackend) Close() error { return nil }

func short(hex string) string {
	if len(hex) > 8 {
		return hex[:8]
	}
	return hex
}

// ---------------------------------------------------------------------------
// oracle helpers

func (w *world) failWrongBytes(path string, b *blob, got []byte) {
	w.s.Fail("wrong_bytes_served", "%s served %d bytes under %s that hash to %s (true pre-image: %s)",
		path, len(got), short(b.hex), short(kit.SHA(got)), preDesc(b))
}

func preDesc(b *blob) string {
	if b.phantom {
		return "none was ever produced"
	}
	return fmt.Sprintf("%d bytes", len(b.data))
}

// served is called for every successful read under b through path.
func (w *world) served(path string, b *blob) {
	w.nServed++
	w.s.Probe("served_" + path)
	if b.phantom {
		w.s.Fail("visible_without_valid_write", "%s succeeded under %s although no content hashing to it was ever written", path, short(b.hex))
	}
	if !b.validStarted {
		w.s.Fail("visible_without_valid_write", "%s succeeded under %s although only non-matching writes were attempted", path, short(b.hex))
	}
}

func (w *world) checkBytes(path string, b *blob, got []byte) {
	if b.phantom || !bytes.Equal(got, b.data) {
		w.failWrongBytes(path, b, got)
	}
	w.served(path, b)
}

func (w *world) checkSize(path string, b *blob, size int64) {
	if b.phantom || size != int64(len(b.data)) {
		w.s.Fail("wrong_size_served", "%s reports size %d under %s (true pre-image: %s)", path, size, short(b.hex), preDesc(b))
	}
	w.served(path, b)
}

// checkReaderSize judges FileReader.Size(), which has no error result: a
// disk-backed reader stats the entry path and answers 0 once the entry was
// deleted or evicted after the handle was opened.
func (w *world) checkReaderSize(path string, b *blob, size int64) {
	if size == 0 && !b.phantom && len(b.data) != 0 {
		w.s.Probe("reader_size_zero_entry_gone")
		return
	}
	w.checkSize(path, b, size)
}

func (w *world) checkMetaInfo(path string, b *blob, mi *core.MetaInfo) {
	if mi == nil {
		w.s.Fail("wrong_metainfo_served", "%s returned nil metainfo under %s", path, short(b.hex))
	}
	if b.phantom {
		w.s.Fail("wrong_metainfo_served", "%s returned metainfo under %s which has no content", path, short(b.hex))
	}
	pl := mi.PieceLength()
	if mi.Digest().Hex() != b.hex || mi.Length() != int64(len(b.data)) || pl <= 0 {
		w.s.Fail("wrong_metainfo_served", "%s under %s: digest=%s length=%d piece_length=%d (true length %d)",
			path, short(b.hex), short(mi.Digest().Hex()), mi.Length(), pl, len(b.data))
	}
	want, err := core.NewMetaInfo(b.d, bytes.NewReader(b.data), pl)
	if err != nil {
		w.s.InfraError("recompute metainfo: %v", err)
	}
	ws, _ := want.Serialize()
	gs, _ := mi.Serialize()
	if !bytes.Equal(ws, gs) || want.InfoHash() != mi.InfoHash() {
		w.s.Fail("wrong_metainfo_served", "%s under %s: metainfo %s does not describe the true pre-image (want %s)", path, short(b.hex), clip(gs), clip(ws))
	}
	known := false
	for _, p := range w.pls {
		if p == pl {
			known = true
		}
	}
	if !known {
		w.s.Probe("metainfo_piece_length_not_configured")
	}
	w.served(path, b)
}

func clip(b []byte) string {
	if len(b) > 160 {
		return string(b[:160]) + "..."
	}
	return string(b)
}

// wrote is called when a synchronous write path returned.
func (w *world) wrote(path string, b *blob, valid bool, kind int, err error) {
	w.nWrites++
	cls := "ok"
	if err != nil {
		cls = "err"
		if os.IsExist(err) {
			cls = "exists"
		}
	}
	w.s.Logf("write %s %s kind=%s -> %s", path, short(b.hex), variantName[kind], cls)
	if !valid && err == nil {
		w.s.Fail("invalid_write_accepted", "%s of %s bytes under %s returned success", path, variantName[kind], short(b.hex))
	}
	if valid && err != nil && !os.IsExist(err) {
		w.s.Probe("valid_write_failed_" + path)
	}
	if valid && err == nil {
		w.s.Probe("valid_write_ok_" + path)
	}
	if !valid {
		w.s.Probe("invalid_write_rejected_" + path)
	}
}

// ---------------------------------------------------------------------------
// writers

func (w *world) writeChunks(dst io.Writer, data []byte) error {
	n := 1 + w.tp.Draw(3)
	step := len(data)/n + 1
	for off := 0; off < len(data); off += step {
		end := min(off+step, len(data))
		if _, err := dst.Write(data[off:end]); err != nil {
			return err
		}
		simrt.Yield()
	}
	return nil
}

func (w *world) opUploadStore(b *blob) {
	data, valid, kind := w.variant(b, w.drawKind())
	if valid {
		b.validStarted = true
	}
	w.seq++
	uid := fmt.Sprintf("up-%d", w.seq)
	cas := w.rig.cas
	if err := cas.CreateUploadFile(uid, 0); err != nil {
		w.s.Logf("create upload file -> err")
		return
	}
	rw, err := cas.GetUploadFileReadWriter(uid)
	if err != nil {
		w.s.Logf("upload rw -> err")
		return
	}
	werr := w.writeChunks(rw, data)
	rw.Close()
	if werr != nil {
		w.s.Logf("upload write -> err")
		cas.DeleteUploadFile(uid)
		return
	}
	err = cas.MoveUploadFileToCache(uid, b.hex)
	w.wrote("upload_move", b, valid, kind, err)
}

func (w *world) opCreateCacheFile(b *blob) {
	data, valid, kind := w.variant(b, w.drawKind())
	if valid {
		b.validStarted = true
	}
	var err error
	if w.tp.Chance(500) {
		err = w.rig.cas.CreateCacheFile(b.hex, bytes.NewReader(data))
		w.wrote("create_cache_file", b, valid, kind, err)
		return
	}
	err = w.rig.cas.WriteCacheFile(b.hex, func(fw store.FileReadWriter) error {
		return w.writeChunks(fw, data)
	})
	w.wrote("write_cache_file", b, valid, kind, err)
}

func (w *world) lieSize(n int) uint64 {
	tp := w.tp
	if !tp.Chance(300) {
		return uint64(n)
	}
	w.s.Fault("declared_size_lies")
	switch tp.Draw(3) {
	case 0:
		return uint64(n + 1 + tp.Draw(64))
	case 1:
		return uint64(max(0, n-1-tp.Draw(64)))
	}
	return 0
}

func (w *world) opWriteThrough(b *blob) {
	data, valid, kind := w.variant(b, w.drawKind())
	if valid {
		b.validStarted = true
	}
	size := w.lieSize(len(data))
	pl := w.pls[w.tp.Draw(len(w.pls))]
	calls := 0
	err := w.rig.cas.WriteBlobToCacheWithMetaInfo(b.hex, size, func(fw store.FileReadWriter) error {
		calls++
		return w.writeChunks(fw, data)
	}, pl)
	if calls > 1 {
		w.s.Probe("write_fn_called_twice")
	}
	w.wrote("write_through", b, valid, kind, err)
}

func (w *world) opRefresh(b *blob) {
	err := w.rig.refresher.Refresh(ns, b.d)
	cls := "err"
	if err == nil {
		cls = "started"
		w.s.Probe("refresh_started")
	}
	w.s.Logf("refresh %s -> %s", short(b.hex), cls)
}

func digestPath(b *blob) string { return "sha256:" + b.hex }

// opHTTPUpload drives the real chunked upload handlers (cluster or internal
// transfer flavour).
func (w *world) opHTTPUpload(b *blob) {
	data, valid, kind := w.variant(b, w.drawKind())
	if valid {
		b.validStarted = true
	}
	internal := w.tp.Chance(400)
	base := "/namespace/" + ns + "/blobs/" + digestPath(b) + "/uploads"
	path := "http_cluster_upload"
	if internal {
		base = "/internal/blobs/" + digestPath(b) + "/uploads"
		path = "http_transfer"
	}
	rec := w.rig.do("POST", base, nil, nil)
	if rec.Code != http.StatusOK {
		w.s.Logf("%s start %s -> %d", path, short(b.hex), rec.Code)
		return
	}
	uid := rec.Header().Get("Location")
	n := 1 + w.tp.Draw(3)
	step := len(data)/n + 1
	for off := 0; off < len(data); off += step {
		end := min(off+step, len(data))
		rec = w.rig.do("PATCH", base+"/"+uid, data[off:end], map[string]string{"Content-Range": fmt.Sprintf("%d-%d", off, end)})
		if rec.Code != http.StatusOK {
			w.s.Logf("%s patch %s -> %d", path, short(b.hex), rec.Code)
			return
		}
		simrt.Yield()
	}
	// A chunk may be sent again — a retransmission, or a client rewriting part
	// of what it sent — with the same or with other bytes. What counts is what
	// the upload file holds at commit: the stream is valid iff THAT hashes to the
	// digest.
	if len(data) > 0 && w.tp.Chance(250) {
		off := w.tp.Draw(len(data))
		end := off + 1 + w.tp.Draw(len(data)-off)
		again := append([]byte(nil), data[off:end]...)
		switch w.tp.Draw(3) {
		case 0: // identical retransmission
		case 1: // other bytes
			again[w.tp.Draw(len(again))] ^= byte(1 + w.tp.Draw(255))
		case 2: // the true bytes of that range, where the blob has them
			if !b.phantom && end <= len(b.data) {
				copy(again, b.data[off:end])
			}
		}
		rec = w.rig.do("PATCH", base+"/"+uid, again, map[string]string{"Content-Range": fmt.Sprintf("%d-%d", off, end)})
		if rec.Code != http.StatusOK {
			w.s.Logf("%s re-patch %s -> %d", path, short(b.hex), rec.Code)
			return
		}
		copy(data[off:end], again)
		nowValid := !b.phantom && kit.SHA(data) == b.hex
		if nowValid != valid {
			w.s.Probe("http_upload_validity_changed_by_resent_chunk")
			kind = vOther
		}
		valid = nowValid
		if valid {
			b.validStarted = true
		}
		w.s.Probe("http_upload_chunk_resent")
	}
	rec = w.rig.do("PUT", base+"/"+uid, nil, nil)
	var err error
	switch {
	case rec.Code == http.StatusConflict:
		err = os.ErrExist
	case rec.Code < 200 || rec.Code > 299:
		err = fmt.Errorf("status %d", rec.Code)
	}
	w.wrote(path, b, valid, kind, err)
}

func (w *world) opOverwriteMetaInfo(b *blob) {
	pl := w.pls[w.tp.Draw(len(w.pls))]
	if w.tp.Chance(300) {
		pl = int64(1 + w.tp.Draw(500))
	}
	rec := w.rig.do("POST", "/internal/blobs/"+digestPath(b)+"/metainfo?piece_length="+strconv.FormatInt(pl, 10), nil, nil)
	w.s.Logf("overwrite metainfo %s pl=%d -> %d", short(b.hex), pl, rec.Code)
	if rec.Code == 200 {
		w.s.Probe("metainfo_overwritten")
	}
}

func (w *world) opDelete(b *blob) {
	var cls string
	if w.tp.Chance(500) {
		err := w.rig.cas.DeleteCacheFile(b.hex)
		cls = fmt.Sprint(err == nil)
	} else {
		rec := w.rig.do("DELETE", "/internal/blobs/"+digestPath(b), nil, nil)
		cls = strconv.Itoa(rec.Code)
	}
	w.s.Logf("delete %s -> %s", short(b.hex), cls)
}

// ---------------------------------------------------------------------------
// readers

func (w *world) readAll(r io.Reader) ([]byte, error) {
	if !w.tp.Chance(300) {
		return io.ReadAll(r)
	}
	// slow reader: other tasks run between the chunks
	var out []byte
	buf := make([]byte, 1+w.tp.Draw(300))
	for {
		n, err := r.Read(buf)
		out = append(out, buf[:n]...)
		if err == io.EOF {
			return out, nil
		}
		if err != nil {
			return out, err
		}
		simrt.Yield()
	}
}

func (w *world) rdReader(b *blob) {
	w.nReads++
	f, err := w.rig.cas.GetCacheFileReader(b.hex)
	if err != nil {
		w.s.Logf("read %s -> err", short(b.hex))
		return
	}
	defer f.Close()
	size := f.Size()
	got, err := w.readAll(f)
	if err != nil {
		w.s.Logf("read %s -> read err", short(b.hex))
		return
	}
	w.s.Logf("read %s -> %d bytes", short(b.hex), len(got))
	if w.cfg.MemoryCache.Enabled && w.rig.cas.CheckInMemCache(b.hex) {
		w.s.Probe("read_while_entry_in_memory")
	}
	w.checkBytes("cache_file_reader", b, got)
	if size == 0 && len(got) != 0 {
		// FileReader.Size has no error result and reports 0 when the entry can
		// no longer be stat'ed, i.e. when it was evicted or deleted while this
		// handle was open (the bytes above came through the open descriptor).
		// That is "no size", not a wrong size; it is accepted only if the
		// entry is indeed gone now.
		if _, serr := w.rig.cas.GetCacheFileStat(b.hex); serr != nil {
			w.s.Probe("reader_size_unavailable_after_eviction")
		} else {
			w.checkReaderSize("cache_file_reader_size", b, size)
		}
	} else {
		w.checkReaderSize("cache_file_reader_size", b, size)
	}
	if len(got) > 0 && w.tp.Chance(300) {
		off := w.tp.Draw(len(got))
		p := make([]byte, 1+w.tp.Draw(len(got)-off))
		n, err := f.ReadAt(p, int64(off))
		if err != nil && err != io.EOF {
			return
		}
		if b.phantom || !bytes.Equal(p[:n], b.data[off:off+n]) {
			w.failWrongBytes("cache_file_reader_readat", b, p[:n])
		}
	}
}

func (w *world) rdStat(b *blob) {
	w.nReads++
	fi, err := w.rig.cas.GetCacheFileStat(b.hex)
	if err != nil {
		w.s.Logf("stat %s -> err", short(b.hex))
		return
	}
	w.s.Logf("stat %s -> %d", short(b.hex), fi.Size())
	w.checkSize("cache_file_stat", b, fi.Size())
}

func (w *world) rdMeta(b *blob) {
	w.nReads++
	var tm metadata.TorrentMeta
	err := w.rig.cas.GetCacheFileMetadata(b.hex, &tm)
	if err != nil {
		w.s.Logf("metadata %s -> err", short(b.hex))
		return
	}
	w.s.Logf("metadata %s -> ok", short(b.hex))
	w.checkMetaInfo("cache_file_metadata", b, tm.MetaInfo)
}

func (w *world) rdList() {
	w.nReads++
	names, err := w.rig.cas.ListCacheFiles()
	if err != nil {
		w.s.Logf("list -> err")
		return
	}
	sort.Strings(names)
	w.s.Logf("list -> %d", len(names))
	for _, n := range names {
		b := w.byHex[n]
		if b == nil {
			w.s.Probe("listed_unknown_name")
			continue
		}
		w.rdReader(b)
	}
}

func (w *world) rdHTTPBlob(b *blob) {
	w.nReads++
	rec := w.rig.do("GET", "/namespace/"+ns+"/blobs/"+digestPath(b), nil, nil)
	w.s.Logf("http get blob %s -> %d", short(b.hex), rec.Code)
	if rec.Code == http.StatusOK {
		w.checkBytes("http_get_blob", b, rec.Body.Bytes())
	}
}

func (w *world) rdHTTPMetaInfo(b *blob) {
	w.nReads++
	rec := w.rig.do("GET", "/internal/namespace/"+ns+"/blobs/"+digestPath(b)+"/metainfo", nil, nil)
	w.s.Logf("http get metainfo %s -> %d", short(b.hex), rec.Code)
	if rec.Code == http.StatusOK {
		mi, err := core.DeserializeMetaInfo(rec.Body.Bytes())
		if err != nil {
			w.s.Fail("wrong_metainfo_served", "http metainfo under %s does not parse: %v", short(b.hex), err)
		}
		w.checkMetaInfo("http_get_metainfo", b, mi)
	}
}

func (w *world) rdHTTPStat(b *blob) {
	w.nReads++
	rec := w.rig.do("HEAD", "/internal/namespace/"+ns+"/blobs/"+digestPath(b)+"?local=true", nil, nil)
	w.s.Logf("http stat %s -> %d", short(b.hex), rec.Code)
	if rec.Code == http.StatusOK {
		n, err := strconv.ParseInt(rec.Header().Get("Content-Length"), 10, 64)
		if err != nil {
			return
		}
		w.checkSize("http_stat_local", b, n)
	}
}

func (w *world) rdTorrent(b *blob) {
	w.nReads++
	t, err := w.arch.GetTorrent(ns, b.d)
	if err != nil {
		w.s.Logf("torrent %s -> err", short(b.hex))
		return
	}
	w.s.Logf("torrent %s -> %d pieces", short(b.hex), t.NumPieces())
	if b.phantom || t.Length() != int64(len(b.data)) {
		w.s.Fail("wrong_size_served", "origin torrent under %s has length %d (true pre-image: %s)", short(b.hex), t.Length(), preDesc(b))
	}
	w.served("origin_torrent", b)
	np := t.NumPieces()
	if np == 0 {
		return
	}
	simrt.Yield()
	pi := w.tp.Draw(np)
	pr, err := t.GetPieceReader(pi)
	if err != nil {
		return
	}
	defer pr.Close()
	got, err := io.ReadAll(pr)
	if err != nil {
		w.s.Logf("piece %s/%d -> err", short(b.hex), pi)
		return
	}
	off := t.MaxPieceLength() * int64(pi)
	end := min(off+t.PieceLength(pi), int64(len(b.data)))
	if off > int64(len(b.data)) || !bytes.Equal(got, b.data[off:end]) || pr.Length() != len(got) {
		w.s.Fail("wrong_bytes_served", "piece %d of %s: %d bytes (declared %d) differ from bytes [%d,%d) of the true pre-image", pi, short(b.hex), len(got), pr.Length(), off, end)
	}
	w.served("origin_piece_reader", b)
}

// ---------------------------------------------------------------------------

var gaps = []time.Duration{0, 0, 0, 20 * ms, 60 * ms, 110 * ms, 350 * ms, 1100 * ms, 21 * time.Second}

func (w *world) pause() {
	d := gaps[w.tp.Draw(len(gaps))]
	if d == 0 {
		simrt.Yield()
		return
	}
	simrt.Sleep(d + time.Duration(w.tp.Draw(7))*ms)
}

func (w *world) pickBlob() *blob { return w.blobs[w.tp.Draw(len(w.blobs))] }

func (w *world) writerOp() {
	b := w.pickBlob()
	switch w.tp.Draw(10) {
	case 0, 1, 2:
		w.opRefresh(b)
	case 3:
		w.opUploadStore(b)
	case 4:
		w.opCreateCacheFile(b)
	case 5, 6:
		w.opWriteThrough(b)
	case 7:
		w.opHTTPUpload(b)
	case 8:
		w.opOverwriteMetaInfo(b)
	case 9:
		w.opDelete(b)
	}
}

func (w *world) readerOp() {
	b := w.pickBlob()
	switch w.tp.Draw(8) {
	case 0:
		w.rdReader(b)
	case 1:
		w.rdStat(b)
	case 2:
		w.rdMeta(b)
	case 3:
		w.rdHTTPBlob(b)
	case 4:
		w.rdHTTPMetaInfo(b)
	case 5:
		w.rdTorrent(b)
	case 6:
		w.rdHTTPStat(b)
	case 7:
		w.rdList()
	}
}

// ---------------------------------------------------------------------------
// long-lived readers: a handle obtained under digest A must return A's bytes
// for its whole life, however long the client takes: across the drain of the
// memory entry to disk, TTL expiry, eviction, and later writes of other blobs.

var spans = []time.Duration{30 * ms, 120 * ms, 250 * ms, 450 * ms, 1200 * ms, 3 * time.Second, 35 * time.Second}

func (w *world) checkRange(path string, b *blob, off int64, got []byte, age time.Duration) {
	end := off + int64(len(got))
	if b.phantom || off < 0 || end > int64(len(b.data)) || !bytes.Equal(got, b.data[off:end]) {
		w.s.Fail("wrong_bytes_served", "%s: bytes [%d,%d) returned under %s by a handle opened %v ago differ from the true pre-image (%s); they hash to %s",
			path, off, end, short(b.hex), age, preDesc(b), short(kit.SHA(got)))
	}
}

// prime makes b a memory entry (a matching write through the memory path).
func (w *world) prime(b *blob) {
	if !w.cfg.MemoryCache.Enabled || b.phantom || !w.tp.Chance(600) {
		return
	}
	b.validStarted = true
	pl := w.pls[w.tp.Draw(len(w.pls))]
	err := w.rig.cas.WriteBlobToCacheWithMetaInfo(b.hex, uint64(len(b.data)), func(fw store.FileReadWriter) error {
		_, err := fw.Write(b.data)
		return err
	}, pl)
	w.wrote("write_through", b, true, vCorrect, err)
}

// hold keeps the caller's handle open for a tape-drawn fake duration spanning
// zero or more drain ticks, and may push another blob (one that fits the
// buffer of b) through the memory path meanwhile.
func (w *world) hold(b *blob) {
	d := spans[w.tp.Draw(len(spans))] + time.Duration(w.tp.Draw(9))*ms
	simrt.Sleep(d)
	if !w.cfg.MemoryCache.Enabled || !w.tp.Chance(600) {
		return
	}
	var cands []*blob
	for _, o := range w.blobs {
		if o != b && (o.phantom || len(o.data) <= len(b.data)) {
			cands = append(cands, o)
		}
	}
	if len(cands) == 0 {
		cands = w.blobs
	}
	o := cands[w.tp.Draw(len(cands))]
	if w.tp.Chance(300) {
		w.opRefresh(o)
		simrt.Sleep(time.Duration(1+w.tp.Draw(40)) * ms)
	} else {
		w.opWriteThrough(o)
	}
	if w.tp.Chance(300) {
		simrt.Sleep(spans[w.tp.Draw(4)])
	}
}

func (w *world) memState(b *blob) bool {
	return w.cfg.MemoryCache.Enabled && w.rig.cas.CheckInMemCache(b.hex)
}

func (w *world) spanProbe(kind string, b *blob, wasInMem bool) {
	if wasInMem {
		w.s.Probe(kind + "_opened_on_memory_entry")
		if !w.memState(b) {
			w.s.Probe(kind + "_outlived_memory_entry")
		}
	}
}

func (w *world) rdLongReader(b *blob) {
	w.nReads++
	w.prime(b)
	f, err := w.rig.cas.GetCacheFileReader(b.hex)
	if err != nil {
		w.s.Logf("long read %s -> err", short(b.hex))
		return
	}
	defer f.Close()
	t0 := w.s.Now()
	inMem := w.memState(b)
	w.checkReaderSize("long_reader_size", b, f.Size())
	total := len(b.data)
	k := w.tp.Draw(total + 1)
	pre := make([]byte, k)
	n, err := io.ReadFull(f, pre)
	if err != nil && err != io.EOF && err != io.ErrUnexpectedEOF {
		w.s.Logf("long read %s -> read err", short(b.hex))
		return
	}
	w.checkRange("long_reader_prefix", b, 0, pre[:n], w.s.Now()-t0)
	if n < k {
		w.s.Fail("wrong_bytes_served", "long reader under %s hit EOF after %d bytes (true pre-image: %s)", short(b.hex), n, preDesc(b))
	}
	w.s.Logf("long read %s prefix %d/%d inmem=%v", short(b.hex), n, total, inMem)
	w.hold(b)
	rest, err := w.readAll(f)
	if err != nil {
		w.s.Logf("long read %s -> rest err", short(b.hex))
		return
	}
	age := w.s.Now() - t0
	w.checkRange("long_reader_rest", b, int64(n), rest, age)
	if n+len(rest) != total {
		w.s.Fail("wrong_bytes_served", "long reader under %s delivered %d bytes in total (true pre-image: %s)", short(b.hex), n+len(rest), preDesc(b))
	}
	// go back to ranges that were already delivered
	if total > 0 {
		off := w.tp.Draw(total)
		p := make([]byte, 1+w.tp.Draw(total-off))
		if m, err := f.ReadAt(p, int64(off)); err == nil || err == io.EOF {
			w.checkRange("long_reader_readat", b, int64(off), p[:m], age)
		}
		if _, err := f.Seek(0, io.SeekStart); err == nil {
			if again, err := io.ReadAll(f); err == nil {
				w.checkRange("long_reader_reread", b, 0, again, age)
				if len(again) != total {
					w.s.Fail("wrong_bytes_served", "long reader under %s re-read %d bytes (true pre-image: %s)", short(b.hex), len(again), preDesc(b))
				}
			}
		}
	}
	// FileReader.Size has no error result: a disk-backed reader stats the entry
	// path and answers 0 once the entry was deleted or evicted.
	if sz := f.Size(); sz == 0 && total != 0 {
		w.s.Probe("reader_size_zero_entry_gone")
	} else if sz != int64(total) {
		w.s.Fail("wrong_size_served", "long reader under %s reports size %d after %v (true pre-image: %s)", short(b.hex), sz, age, preDesc(b))
	}
	w.s.Logf("long read %s done after %v", short(b.hex), age)
	w.served("long_reader", b)
	w.spanProbe("long_reader", b, inMem)
}

// slowResponse is a client connection that drains slowly: the handler's Write
// blocks half-way (TCP back-pressure) and the rest of the slice it was given is
// consumed only afterwards.
type slowResponse struct {
	w    *world
	b    *blob
	hdr  http.Header
	code int
	body []byte
	held bool
}

func (r *slowResponse) Header() http.Header { return r.hdr }
func (r *slowResponse) WriteHeader(c int) {
	if r.code == 0 {
		r.code = c
	}
}
func (r *slowResponse) Write(p []byte) (int, error) {
	if r.code == 0 {
		r.code = http.StatusOK
	}
	if r.held || len(p) == 0 {
		r.body = append(r.body, p...)
		return len(p), nil
	}
	r.held = true
	k := r.w.tp.Draw(len(p) + 1)
	r.body = append(r.body, p[:k]...)
	r.w.hold(r.b)
	r.body = append(r.body, p[k:]...)
	return len(p), nil
}

func (w *world) rdSlowHTTPBlob(b *blob) {
	w.nReads++
	w.prime(b)
	inMem := w.memState(b)
	rw := &slowResponse{w: w, b: b, hdr: http.Header{}}
	req := httptest.NewRequest("GET", "/namespace/"+ns+"/blobs/"+digestPath(b), nil)
	w.rig.handler.ServeHTTP(rw, req)
	w.s.Logf("slow http get blob %s -> %d (%d bytes)", short(b.hex), rw.code, len(rw.body))
	if rw.code == http.StatusOK {
		w.checkBytes("slow_http_get_blob", b, rw.body)
		if rw.held {
			w.spanProbe("slow_http", b, inMem)
		}
	}
}

func (w *world) rdSlowPiece(b *blob) {
	w.nReads++
	w.prime(b)
	t, err := w.arch.GetTorrent(ns, b.d)
	if err != nil || t.NumPieces() == 0 {
		w.s.Logf("slow piece %s -> no torrent", short(b.hex))
		return
	}
	if b.phantom || t.Length() != int64(len(b.data)) {
		w.s.Fail("wrong_size_served", "origin torrent under %s has length %d (true pre-image: %s)", short(b.hex), t.Length(), preDesc(b))
	}
	pi := w.tp.Draw(t.NumPieces())
	pr, err := t.GetPieceReader(pi)
	if err != nil {
		return
	}
	defer pr.Close()
	t0 := w.s.Now()
	off := t.MaxPieceLength() * int64(pi)
	plen := int(t.PieceLength(pi))
	k := w.tp.Draw(plen + 1)
	pre := make([]byte, k)
	n, err := io.ReadFull(pr, pre) // the first Read opens the cache file
	if err != nil && err != io.EOF && err != io.ErrUnexpectedEOF {
		w.s.Logf("slow piece %s/%d -> err", short(b.hex), pi)
		return
	}
	inMem := w.memState(b)
	w.checkRange("slow_piece_prefix", b, off, pre[:n], 0)
	w.hold(b)
	rest, err := io.ReadAll(pr)
	if err != nil {
		return
	}
	w.checkRange("slow_piece_rest", b, off+int64(n), rest, w.s.Now()-t0)
	if n+len(rest) != plen {
		w.s.Fail("wrong_bytes_served", "piece %d of %s delivered %d bytes, declared %d", pi, short(b.hex), n+len(rest), plen)
	}
	w.s.Logf("slow piece %s/%d done", short(b.hex), pi)
	w.served("slow_piece_reader", b)
	w.spanProbe("slow_piece", b, inMem)
}

func (w *world) longReaderOp() {
	b := w.pickBlob()
	switch w.tp.Draw(4) {
	case 0, 1:
		w.rdLongReader(b)
	case 2:
		w.rdSlowHTTPBlob(b)
	case 3:
		w.rdSlowPiece(b)
	}
}

func (w *world) sweep() {
	for _, b := range w.blobs {
		w.rdReader(b)
		w.rdStat(b)
		w.rdMeta(b)
		w.rdTorrent(b)
	}
}

var sizeClasses = []int{0, 1, 7, 64, 100, 255, 256, 257, 700, 1024, 1500, 3000}

func body(s *simrt.Sim, tier string) {
	tp := s.Tape
	w := &world{s: s, tp: tp, tier: tier, byHex: map[string]*blob{}}
	dir := kit.TempDir(s)

	// ---- configuration
	cfg := store.CAStoreConfig{
		UploadDir:     dir + "/upload",
		CacheDir:      dir + "/cache",
		UploadCleanup: store.CleanupConfig{Disabled: true},
		CacheCleanup:  store.CleanupConfig{Disabled: true},
	}
	if tp.Chance(200) {
		cfg.Capacity = 1 + tp.Draw(3) // LRU eviction of cached blobs
	}
	if tp.Chance(300) {
		cfg.ReadPartSize = 1 + tp.Draw(128)
		cfg.WritePartSize = 1 + tp.Draw(128)
	}
	memOn := !tp.Chance(300)
	p0 := int64([]int{64, 16, 256}[tp.Draw(3)])
	thr := int64([]int{512, 200, 1200}[tp.Draw(3)])
	w.pls = []int64{p0, p0 * 4}
	pieceLengths := map[datasize.ByteSize]datasize.ByteSize{0: datasize.ByteSize(p0), datasize.ByteSize(thr): datasize.ByteSize(p0 * 4)}

	// ---- digests
	nb := 1 + tp.Draw(5)
	total := 0
	maxLen := 0
	for i := 0; i < nb; i++ {
		n := sizeClasses[tp.Draw(len(sizeClasses))] + tp.Draw(3)
		if tier == "thorough" && tp.Chance(100) {
			n = 4096 + tp.Draw(60*1024)
		}
		data := kit.Bytes(s, n)
		hex := kit.SHA(data)
		if w.byHex[hex] != nil {
			continue
		}
		d, err := core.NewSHA256DigestFromHex(hex)
		if err != nil {
			s.InfraError("digest: %v", err)
		}
		b := &blob{hex: hex, d: d, data: data}
		w.blobs = append(w.blobs, b)
		w.byHex[hex] = b
		total += n
		maxLen = max(maxLen, n)
	}
	{
		// the digest nobody has a pre-image for
		hex := kit.SHA(append([]byte("phantom:"), kit.Bytes(s, 16)...))
		hex = hex[:63] + string("0123456789abcdef"[(int(hex[63])+1)%16])
		d, _ := core.NewSHA256DigestFromHex(hex)
		b := &blob{hex: hex, d: d, phantom: true}
		w.blobs = append(w.blobs, b)
		w.byHex[hex] = b
	}
	if memOn {
		var maxSize uint64
		switch tp.Draw(4) {
		case 0:
			maxSize = uint64(total*2 + 4096) // larger than everything
		case 1:
			maxSize = uint64(max(1, maxLen/2)) // smaller than the largest blob
		case 2:
			maxSize = uint64(maxLen + tp.Draw(total+1))
		case 3:
			maxSize = uint64(1 + tp.Draw(total+64))
		}
		cfg.MemoryCache = store.MemoryCacheConfig{
			Enabled:         true,
			MaxSize:         maxSize,
			DrainWorkers:    1 + tp.Draw(4),
			DrainMaxRetries: 1 + tp.Draw(3),
			TTL:             []time.Duration{5 * time.Minute, 150 * ms, 2 * time.Second, 30 * time.Second}[tp.Draw(4)],
			TTLInterval:     []time.Duration{time.Minute, 70 * ms, time.Second}[tp.Draw(3)],
		}
	}
	w.cfg = cfg
	w.be = &advBackend{w: w}
	r, err := newRig(cfg, pieceLengths, ns, w.be)
	if err != nil {
		s.InfraError("rig: %v", err)
	}
	w.rig = r
	w.arch = originstorage.NewTorrentArchive(r.cas, r.refresher)

	nWriters := 2 + tp.Draw(2)
	nReaders := 1 + tp.Draw(2)
	nLong := 1 // one client that is slow to consume what it opened
	nOps := 3 + tp.Draw(5)
	if tier == "thorough" {
		nOps += tp.Draw(6)
	}
	var wg ssync.WaitGroup
	for i := 0; i < nWriters; i++ {
		wg.Add(1)
		simrt.Go(func() {
			defer wg.Done()
			for k := 0; k < nOps; k++ {
				w.pause()
				w.writerOp()
			}
		})
	}
	for i := 0; i < nReaders; i++ {
		wg.Add(1)
		simrt.Go(func() {
			defer wg.Done()
			for k := 0; k < nOps+2; k++ {
				w.pause()
				w.readerOp()
			}
		})
	}
	for i := 0; i < nLong; i++ {
		wg.Add(1)
		simrt.Go(func() {
			defer wg.Done()
			for k := 0; k < 2+nOps/2; k++ {
				w.pause()
				w.longReaderOp()
			}
		})
	}
	wg.Wait()
	// reads before, during and after the drain of whatever is still in memory
	w.sweep()
	simrt.Sleep(130 * ms)
	w.sweep()
	simrt.Sleep(3 * time.Second)
	w.sweep()
	if w.nServed > 0 {
		s.Probe("run_with_successful_read")
	}
	r.cas.Close()
	kit.SetSample(map[string]any{
		"memory_cache": fmt.Sprintf("%+v", cfg.MemoryCache), "capacity": cfg.Capacity, "read_part": cfg.ReadPartSize,
		"piece_lengths": w.pls, "piece_threshold": thr, "digests": len(w.blobs), "writers": nWriters, "readers": nReaders, "slow_readers": nLong,
		"ops_per_task": nOps, "writes": w.nWrites, "reads": w.nReads, "successful_reads": w.nServed,
	})
}

func TestC01(t *testing.T) {
	kit.Main(t, kit.Spec{
		Property: "C01",
		Body:     body,
		Config: func(tier string) simrt.Config {
			return simrt.Config{MaxSteps: 400000, Horizon: 3 * time.Hour, PanicIsFailure: true}
		},
		Real: []string{"lib/store.CAStore (upload store, cache store, memory write-through cache, drain + TTL workers)", "utils/cache.BlobMemoryCache",
			"lib/blobrefresh.Refresher (+ utils/dedup.RequestCache)", "lib/metainfogen.Generator", "lib/backend.Manager",
			"origin/blobserver handlers (upload/transfer start-patch-commit, GET blob, GET metainfo, HEAD stat, overwrite metainfo, DELETE) through the real chi router",
			"lib/torrent/storage/originstorage.TorrentArchive/Torrent + piecereader"},
		Stub: []string{"backend.Client (adversarial: stream correct/corrupted/truncated/extended/empty/foreign, error mid-stream, Stat size may lie)",
			"hashring.Ring (single origin, no replicas)", "blobclient providers (never called)", "persistedretry.Manager (in-memory)",
			"HTTP transport: requests are delivered to Server.Handler().ServeHTTP with httptest (no sockets)"},
		Rule: "one run = tape-drawn store config (memory cache off/on, MaxSize below one blob..above all, TTL, drain workers 1-4, retries, LRU capacity, part sizes), 1-5 digests with known pre-image + 1 digest without, 2-3 writer, 1-2 reader and 1 slow-client task (handles held open across drain ticks / TTL / later memory-path writes), tape-drawn op kinds, byte-stream variants, backend behaviour, sleeps around the 100ms drain tick, scheduling strategy",
		Assumptions: []string{"sha256 collisions do not occur", "readers are judged only on successful reads; a failing read is always acceptable",
			"a backend stream that delivered the complete true pre-image and then reported an error counts as a valid write attempt (the store may keep or drop it)"},
	})
}
