// C05: an origin or proxy crash at any point leaves its blob cache consistent.
//
// Fault enumeration. One run = one tape-drawn origin configuration and script
// (chunked uploads committed through the real handlers incl. persist flag and
// write-back registration, refreshes from a backend (honest, or in a third of the runs delivering wrong bytes for one blob) with the memory
// write-through cache off or on, metainfo overwrites, occasional deletes). The
// script is executed once to count its M mutating disk operations (syscall
// granularity), then once more for EVERY k in 1..M on a fresh directory with
// the origin process dying just before its k-th disk operation. After each
// crash the origin is restarted on the same directories and the recovery
// oracle runs.
package c05

import (
	"bytes"
	"errors"
	"fmt"
	"io"
	"net/http"
	"os"
	"sort"
	"strconv"
	"strings"
	"testing"
	"time"

	"github.com/c2h5oh/datasize"
	"github.com/uber/kraken/core"
	"github.com/uber/kraken/lib/backend"
	"github.com/uber/kraken/lib/backend/backenderrors"
	"github.com/uber/kraken/lib/store"
	"github.com/uber/kraken/lib/store/metadata"

	"kverif/kit"
	simrt "kverif/sim"
)

const ns = "ns"
const ms = time.Millisecond

type blob struct {
	hex  string
	d    core.Digest
	data []byte
}

func digestPath(b *blob) string { return "sha256:" + b.hex }

func short(hex string) string {
	if len(hex) > 8 {
		return hex[:8]
	}
	return hex
}

// honest backend: holds every blob it was given, never lies.
type honestBackend struct {
	blobs map[string]*blob
	// lie: blobs for which Download delivers bytes of the right length that do
	// not hash to the name (only the backend of the script phase, and only in
	// the workload variant that has one; the backend after restart is honest)
	lie map[string]bool
}

func (c *honestBackend) Stat(namespace, name string) (*core.BlobInfo, error) {
	b := c.blobs[name]
	if b == nil {
		return nil, backenderrors.ErrBlobNotFound
	}
	return core.NewBlobInfo(int64(len(b.data))), nil
}

func (c *honestBackend) Download(namespace, name string, dst io.Writer) error {
	b := c.blobs[name]
	if b == nil {
		return backenderrors.ErrBlobNotFound
	}
	data := b.data
	if c.lie[name] && len(data) > 0 {
		data = append([]byte(nil), data...)
		data[0] ^= 0xff
	}
	half := len(data) / 2
	if _, err := dst.Write(data[:half]); err != nil {
		return err
	}
	simrt.Yield()
	_, err := dst.Write(data[half:])
	return err
}

func (c *honestBackend) Upload(namespace, name string, src io.Reader) error { return nil }
func (c *honestBackend) List(prefix string, opts ...backend.ListOption) (*backend.ListResult, error) {
	return nil, errors.New("not supported")
}
func (c *honestBackend) Close() error { return nil }

// script steps
const (
	stUploadCluster     = iota // start, patch*, commit (persist flag, write-back task, metainfo)
	stUploadTransfer           // internal transfer: start, patch*, commit (metainfo)
	stRefreshMetaInfo          // GET metainfo -> 202 -> backend download -> poll until served
	stRefreshBlob              // GET blob -> 202 -> backend download -> poll until served
	stOverwriteMetaInfo        // POST metainfo?piece_length=
	stDelete                   // DELETE blob
	nStepKinds
)

var stepName = []string{"upload_cluster", "upload_transfer", "refresh_via_metainfo", "refresh_via_blob", "overwrite_metainfo", "delete"}

type step struct {
	kind   int
	blob   int
	chunks int
	pl     int64
}

type world struct {
	s       *simrt.Sim
	blobs   []*blob
	steps   []step
	memOn   bool
	mem     store.MemoryCacheConfig
	pls     map[datasize.ByteSize]datasize.ByteSize
	backend *honestBackend // what the backend holds while the script runs
	full    *honestBackend // healthy backend after restart: holds every blob

	violations []violation
	points     int
}

type violation struct {
	oracle string
	msg    string
}

// priorities: rarer / more severe first, so that a new kind of violation is
// never hidden behind an already known one in the same run.
var oraclePrio = []string{"script_failed", "reopen_failed", "list_failed", "blob_hash_mismatch", "blob_wrong_bytes_served", "metainfo_invalid", "metainfo_wrong_served", "metainfo_corrupt", "metainfo_permanently_unavailable"}

func (w *world) violate(oracle, format string, args ...any) {
	w.violations = append(w.violations, violation{oracle, fmt.Sprintf(format, args...)})
	w.s.Probe("violation_" + oracle)
}

func (w *world) cfg(dir string) store.CAStoreConfig {
	c := store.CAStoreConfig{
		UploadDir:     dir + "/upload",
		CacheDir:      dir + "/cache",
		UploadCleanup: store.CleanupConfig{Disabled: true},
		CacheCleanup:  store.CleanupConfig{Disabled: true},
	}
	if w.memOn {
		c.MemoryCache = w.mem
	}
	return c
}

// script returns the origin's life: open the store, serve the scripted
// requests. It runs as a task of the node that is going to crash.
func (w *world) script(dir string, log bool) func() {
	return func() {
		s := w.s
		r, err := newRig(w.cfg(dir), w.pls, ns, w.backend)
		if err != nil {
			w.violate("script_failed", "origin did not start on an empty directory: %v", err)
			return
		}
		for i, st := range w.steps {
			b := w.blobs[st.blob]
			code := w.runStep(r, st, b)
			if log {
				s.Logf("step %d %s %s -> %d", i, stepName[st.kind], short(b.hex), code)
			}
		}
		simrt.Sleep(time.Second) // background work (drain) settles
		r.cas.Close()
	}
}

func (w *world) runStep(r *rig, st step, b *blob) int {
	switch st.kind {
	case stUploadCluster, stUploadTransfer:
		base := "/namespace/" + ns + "/blobs/" + digestPath(b) + "/uploads"
		if st.kind == stUploadTransfer {
			base = "/internal/blobs/" + digestPath(b) + "/uploads"
		}
		rec := r.do("POST", base, nil, nil)
		if rec.Code != http.StatusOK {
			return rec.Code
		}
		uid := rec.Header().Get("Location")
		n := len(b.data)
		sz := n/st.chunks + 1
		for off := 0; off < n; off += sz {
			end := min(off+sz, n)
			rec = r.do("PATCH", base+"/"+uid, b.data[off:end], map[string]string{"Content-Range": fmt.Sprintf("%d-%d", off, end)})
			if rec.Code != http.StatusOK {
				return rec.Code
			}
		}
		rec = r.do("PUT", base+"/"+uid, nil, nil)
		return rec.Code
	case stRefreshMetaInfo, stRefreshBlob:
		target := "/internal/namespace/" + ns + "/blobs/" + digestPath(b) + "/metainfo"
		if st.kind == stRefreshBlob {
			target = "/namespace/" + ns + "/blobs/" + digestPath(b)
		}
		code := 0
		for try := 0; try < 6; try++ {
			code = r.do("GET", target, nil, nil).Code
			if code != http.StatusAccepted {
				break
			}
			simrt.Sleep(60 * ms) // lands before, during and after the 100ms drain tick
		}
		return code
	case stOverwriteMetaInfo:
		return r.do("POST", "/internal/blobs/"+digestPath(b)+"/metainfo?piece_length="+strconv.FormatInt(st.pl, 10), nil, nil).Code
	case stDelete:
		return r.do("DELETE", "/internal/blobs/"+digestPath(b), nil, nil).Code
	}
	return 0
}

func validMetaInfo(b *blob, mi *core.MetaInfo) string {
	if mi == nil {
		return "nil metainfo"
	}
	pl := mi.PieceLength()
	if mi.Digest().Hex() != b.hex || mi.Length() != int64(len(b.data)) || pl <= 0 {
		return fmt.Sprintf("digest=%s length=%d piece_length=%d, blob has %d bytes", short(mi.Digest().Hex()), mi.Length(), pl, len(b.data))
	}
	want, err := core.NewMetaInfo(b.d, bytes.NewReader(b.data), pl)
	if err != nil {
		return "recompute: " + err.Error()
	}
	ws, _ := want.Serialize()
	gs, _ := mi.Serialize()
	if !bytes.Equal(ws, gs) || want.InfoHash() != mi.InfoHash() {
		return "piece sums do not describe the blob"
	}
	return ""
}

// recover restarts the origin on dir (store.NewCAStore on the same
// directories, fresh server) and evaluates the oracle. where describes the
// crash point.
func (w *world) recover(dir, where string) {
	s := w.s
	r, err := newRig(w.cfg(dir), w.pls, ns, w.full)
	if err != nil {
		w.violate("reopen_failed", "%s: store does not open after the crash: %v", where, err)
		return
	}
	defer r.cas.Close()
	names, err := r.cas.ListCacheFiles()
	if err != nil {
		w.violate("list_failed", "%s: ListCacheFiles: %v", where, err)
		return
	}
	sort.Strings(names)
	byHex := map[string]*blob{}
	for _, b := range w.blobs {
		byHex[b.hex] = b
	}
	for _, name := range names {
		f, err := r.cas.GetCacheFileReader(name)
		if err != nil {
			if os.IsNotExist(err) {
				s.Probe("dangling_entry") // listed, but there is no data file
			} else {
				s.Probe("unreadable_entry")
			}
			continue
		}
		data, err := io.ReadAll(f)
		f.Close()
		if err != nil {
			s.Probe("unreadable_entry")
			continue
		}
		s.Probe("cached_blob_after_crash")
		if kit.SHA(data) != name {
			w.violate("blob_hash_mismatch", "%s: cache lists %s whose %d bytes hash to %s", where, short(name), len(data), short(kit.SHA(data)))
			continue
		}
		d, _ := core.NewSHA256DigestFromHex(name)
		cb := &blob{hex: name, d: d, data: data}
		var tm metadata.TorrentMeta
		err = r.cas.GetCacheFileMetadata(name, &tm)
		switch {
		case err == nil:
			s.Probe("metainfo_present_after_crash")
			if why := validMetaInfo(cb, tm.MetaInfo); why != "" {
				w.violate("metainfo_invalid", "%s: stored metainfo of %s is not valid for the blob: %s", where, short(name), why)
			}
		case os.IsNotExist(err):
			s.Probe("metainfo_absent_after_crash")
		default:
			w.violate("metainfo_corrupt", "%s: blob %s is cached and intact but its metainfo is neither absent nor readable: %v", where, short(name), err)
		}
		var p metadata.Persist
		if err := r.cas.GetCacheFileMetadata(name, &p); err != nil && !os.IsNotExist(err) {
			s.Probe("persist_flag_unreadable")
		}
	}
	// Every blob of the script is requested again through the real handlers,
	// with a healthy backend that holds it: the request may be answered 202
	// while the origin re-fetches, but it must succeed eventually.
	waits := []time.Duration{150 * ms, 150 * ms, 300 * ms, 600 * ms, time.Second, 2 * time.Second, 16 * time.Second, 16 * time.Second, 31 * time.Second}
	for _, b := range w.blobs {
		target := "/internal/namespace/" + ns + "/blobs/" + digestPath(b) + "/metainfo"
		last, lastBody := 0, ""
		ok := false
		for try := 0; try <= len(waits); try++ {
			rec := r.do("GET", target, nil, nil)
			last, lastBody = rec.Code, strings.TrimSpace(rec.Body.String())
			if rec.Code == http.StatusOK {
				ok = true
				mi, err := core.DeserializeMetaInfo(rec.Body.Bytes())
				if err != nil {
					w.violate("metainfo_wrong_served", "%s: GET metainfo of %s answered 200 with a body that does not parse: %v", where, short(b.hex), err)
				} else if why := validMetaInfo(b, mi); why != "" {
					w.violate("metainfo_wrong_served", "%s: GET metainfo of %s: %s", where, short(b.hex), why)
				}
				if try > 0 {
					s.Probe("metainfo_regenerated_after_crash")
				}
				break
			}
			if try < len(waits) {
				simrt.Sleep(waits[try])
			}
		}
		if !ok {
			if len(lastBody) > 200 {
				lastBody = lastBody[:200]
			}
			w.violate("metainfo_permanently_unavailable", "%s: GET metainfo of %s still answers %d (%s) after %d attempts over 67s with a healthy backend holding the blob", where, short(b.hex), last, lastBody, len(waits)+1)
			continue
		}
		rec := r.do("GET", "/namespace/"+ns+"/blobs/"+digestPath(b), nil, nil)
		if rec.Code == http.StatusOK && !bytes.Equal(rec.Body.Bytes(), b.data) {
			w.violate("blob_wrong_bytes_served", "%s: GET blob %s returned %d bytes hashing to %s", where, short(b.hex), rec.Body.Len(), short(kit.SHA(rec.Body.Bytes())))
		}
	}
}

func body(s *simrt.Sim, tier string) {
	tp := s.Tape
	w := &world{s: s}
	// ---- configuration and script (drawn once, replayed for every crash point)
	w.memOn = tp.Chance(400)
	p0 := int64([]int{64, 16, 256}[tp.Draw(3)])
	w.pls = map[datasize.ByteSize]datasize.ByteSize{0: datasize.ByteSize(p0), 600: datasize.ByteSize(p0 * 4)}
	nb := 1 + tp.Draw(3)
	total := 0
	seen := map[string]bool{}
	for i := 0; i < nb; i++ {
		n := []int{40, 0, 1, 300, 700, 1500}[tp.Draw(6)] + tp.Draw(10)
		if tp.Chance(60) {
			n = 5000 + tp.Draw(12000) // sidecars and data beyond one page (torn writes)
		}
		data := kit.Bytes(s, n)
		hex := kit.SHA(data)
		if seen[hex] {
			continue
		}
		seen[hex] = true
		d, _ := core.NewSHA256DigestFromHex(hex)
		w.blobs = append(w.blobs, &blob{hex, d, data})
		total += n
	}
	if w.memOn {
		w.mem = store.MemoryCacheConfig{Enabled: true, MaxSize: uint64(total + 1024), DrainWorkers: 1 + tp.Draw(2), DrainMaxRetries: 1 + tp.Draw(3), TTL: time.Minute, TTLInterval: time.Second}
		if tp.Chance(200) {
			w.mem.MaxSize = uint64(1 + tp.Draw(total+1)) // some refreshes take the disk path
		}
	}
	w.backend = &honestBackend{blobs: map[string]*blob{}}
	if v := s.Tape.Variant; v%3 == 1 && len(w.blobs) > 0 {
		// the backend delivers wrong bytes for one blob while the script runs
		w.backend.lie = map[string]bool{w.blobs[int(v/3)%len(w.blobs)].hex: true}
		s.Probe("backend_delivers_wrong_bytes")
	}
	w.full = &honestBackend{blobs: map[string]*blob{}}
	for _, b := range w.blobs {
		w.full.blobs[b.hex] = b
	}
	nSteps := 1 + tp.Draw(4)
	if tier == "thorough" {
		nSteps += tp.Draw(4)
	}
	uploaded := map[int]bool{}
	for i := 0; i < nSteps; i++ {
		st := step{blob: tp.Draw(len(w.blobs)), chunks: 1 + tp.Draw(3)}
		switch k := tp.Draw(10); {
		case k <= 2:
			st.kind = stUploadCluster
		case k == 3:
			st.kind = stUploadTransfer
		case k <= 5:
			st.kind = stRefreshMetaInfo
		case k == 6:
			st.kind = stRefreshBlob
		case k <= 8:
			st.kind = stOverwriteMetaInfo
			st.pl = []int64{p0 * 2, 32, 1000, 7}[tp.Draw(4)]
			if !uploaded[st.blob] {
				st.kind = stUploadCluster // nothing to overwrite yet
			}
		default:
			st.kind = stDelete
			if !uploaded[st.blob] {
				st.kind = stRefreshMetaInfo
			}
		}
		if st.kind == stRefreshMetaInfo || st.kind == stRefreshBlob {
			w.backend.blobs[w.blobs[st.blob].hex] = w.blobs[st.blob] // the backend has it
		}
		uploaded[st.blob] = true
		w.steps = append(w.steps, st)
	}
	s.Disk().TornOK = tp.Chance(300)
	s.Disk().OpLogOn = true

	// ---- count run (no crash); its end state must satisfy the oracle too
	d0 := kit.TempDir(s)
	_, m := kit.RunNode(s, "count", 0, w.script(d0, true))
	oplog := append([]string(nil), s.Disk().OpLog...)
	s.Disk().OpLogOn = false
	s.Disk().OpLog = nil
	s.Logf("script of %d steps: %d disk ops", len(w.steps), m)
	w.recover(d0, "no crash")
	if len(w.violations) > 0 {
		s.Probe("violation_without_crash")
	}
	// ---- every crash point
	for k := 1; k <= m; k++ {
		d := kit.TempDir(s)
		crashed, _ := kit.RunNode(s, fmt.Sprintf("origin-k%d", k), k, w.script(d, false))
		if !crashed {
			// the schedule of this execution needed fewer ops (background
			// workers interleave differently): nothing to recover from
			s.Probe("crash_point_not_reached")
			os.RemoveAll(d)
			continue
		}
		w.points++
		kit.Extra["crash_points_executed"]++
		where := fmt.Sprintf("crash before disk op %d/%d", k, m)
		if k-1 < len(oplog) {
			where += " (" + describeOp(oplog[k-1]) + ")"
		}
		w.recover(d, where)
		os.RemoveAll(d)
		s.State(uint64(k)<<32 | uint64(len(w.violations)))
	}
	kit.Extra["scripts_executed"]++
	var names []string
	for _, st := range w.steps {
		names = append(names, fmt.Sprintf("%s(b%d)", stepName[st.kind], st.blob))
	}
	kit.SetSample(map[string]any{"script": names, "blob_sizes": sizes(w.blobs), "memory_cache": w.memOn, "torn_writes": s.Disk().TornOK,
		"disk_ops": m, "crash_points_executed": w.points, "violations": len(w.violations)})
	if len(w.violations) > 0 {
		for _, o := range oraclePrio {
			for _, v := range w.violations {
				if v.oracle == o {
					s.Fail(v.oracle, "%s [script %v; %d of %d crash points violate]", v.msg, names, countPoints(w.violations), w.points)
				}
			}
		}
		v := w.violations[0]
		s.Fail(v.oracle, "%s", v.msg)
	}
}

func countPoints(vs []violation) int {
	seen := map[string]bool{}
	for _, v := range vs {
		if i := strings.Index(v.msg, ":"); i > 0 {
			seen[v.msg[:i]] = true
		}
	}
	return len(seen)
}

func sizes(bs []*blob) []int {
	var out []int
	for _, b := range bs {
		out = append(out, len(b.data))
	}
	return out
}

// describeOp turns "node#k kind /dev/shm/ksim-.../cache/ab/cd/<hex>/_torrentmeta"
// into "kind cache/../_torrentmeta" (no run-specific names).
func describeOp(l string) string {
	f := strings.Fields(l)
	if len(f) < 3 {
		return l
	}
	p := f[2]
	if i := strings.Index(p, "/ksim-"); i >= 0 {
		p = p[i+1:]
		if j := strings.Index(p, "/"); j >= 0 {
			p = p[j+1:]
		}
	}
	parts := strings.Split(p, "/")
	if len(parts) > 2 {
		p = parts[0] + "/../" + parts[len(parts)-1]
	}
	if len(parts[len(parts)-1]) > 40 {
		p = parts[0] + "/../<name>"
	}
	return f[1] + " " + p
}

func TestC05(t *testing.T) {
	kit.Main(t, kit.Spec{
		Property: "C05",
		Body:     body,
		Config: func(tier string) simrt.Config {
			return simrt.Config{MaxSteps: 20_000_000, Horizon: 2000 * time.Hour, PanicIsFailure: true}
		},
		Real: []string{"lib/store.CAStore incl. NewCAStore on existing directories (upload wipe, cache reload), memory write-through cache + drain", "lib/store/base file entries / sidecar metadata",
			"origin/blobserver handlers (cluster upload + internal transfer start/patch/commit, write-back flagging, GET metainfo, GET blob, overwrite metainfo, DELETE) through the real chi router",
			"lib/metainfogen.Generator", "lib/blobrefresh.Refresher", "lib/backend.Manager"},
		Stub: []string{"backend.Client (honest; after restart it holds every blob)", "persistedretry.Manager (in-memory write-back task list)", "hashring.Ring (single origin)", "HTTP transport: handler invoked directly with httptest (no sockets)"},
		Rule: "one run = one tape-drawn (config, script); the script's M mutating disk ops are counted, then the script is re-executed M times, crashing before op k for every k in 1..M (process-crash model: completed syscalls persist, optional torn last write >4KiB); after each crash: restart on the same directories + recovery oracle. crash_points_executed counts recovered crash points",
		Assumptions: []string{"process-crash model (no power loss: completed syscalls are durable, renames atomic)", "a metainfo request counts as permanently failing when 10 attempts spread over 67s of fake time against a healthy backend holding the blob all fail",
			"a listed name without a data file is a probe (dangling_entry), not a violation", "write-back task persistence (sqlite) is out of scope: in-memory stub"},
	})
}
