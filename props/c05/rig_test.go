package c05

// Origin rig: a real CAStore + metainfogen + blobrefresh.Refresher +
// blobserver.Server wired with harness stubs for everything that is not the
// store (hash ring of one, no replicas, in-memory write-back manager, and a
// harness storage backend registered in a real backend.Manager).

import (
	"bytes"
	"errors"
	"io"
	"net/http"
	"net/http/httptest"

	"github.com/c2h5oh/datasize"
	"github.com/uber-go/tally"
	"github.com/uber/kraken/core"
	"github.com/uber/kraken/lib/backend"
	"github.com/uber/kraken/lib/blobrefresh"
	"github.com/uber/kraken/lib/metainfogen"
	"github.com/uber/kraken/lib/persistedretry"
	"github.com/uber/kraken/lib/store"
	"github.com/uber/kraken/origin/blobclient"
	"github.com/uber/kraken/origin/blobserver"
	"github.com/uber/kraken/utils/stringset"

	sclock "kverif/shim/clock"
)

const originAddr = "origin1:15002"

type stubRing struct{}

func (stubRing) Locations(d core.Digest) []string { return []string{originAddr} }
func (stubRing) Contains(addr string) bool        { return addr == originAddr }
func (stubRing) WaitForContains(string) error     { return nil }
func (stubRing) Members() stringset.Set           { return stringset.New(originAddr) }
func (stubRing) Monitor(stop <-chan struct{})     {}
func (stubRing) Refresh()                         {}

type stubProvider struct{}

func (stubProvider) Provide(addr string) blobclient.Client { return nil }

type stubCluster struct{}

func (stubCluster) Provide(dns string) (blobclient.ClusterClient, error) {
	return nil, errors.New("no remote cluster in this rig")
}

// stubWriteBack is an in-memory persistedretry.Manager.
type stubWriteBack struct{ tasks []persistedretry.Task }

func (m *stubWriteBack) Add(t persistedretry.Task) error      { m.tasks = append(m.tasks, t); return nil }
func (m *stubWriteBack) SyncExec(t persistedretry.Task) error { return nil }
func (m *stubWriteBack) Close()                               {}
func (m *stubWriteBack) Find(q interface{}) ([]persistedretry.Task, error) {
	return nil, nil
}

// The real backend.Manager is built once per process: NewManager constructs a
// zap logger whose sampler allocates ~0.5 MB, which dominated the cost of a
// restart. The manager holds no goroutines, locks or clocks, only the
// namespace -> client table; the registered client forwards to the backend of
// the rig that was built last (rigs are used strictly one after the other).
var (
	sharedMgr    *backend.Manager
	sharedClient = &switchClient{}
)

type switchClient struct{ target backend.Client }

func (c *switchClient) Stat(namespace, name string) (*core.BlobInfo, error) {
	return c.target.Stat(namespace, name)
}
func (c *switchClient) Upload(namespace, name string, src io.Reader) error {
	return c.target.Upload(namespace, name, src)
}
func (c *switchClient) Download(namespace, name string, dst io.Writer) error {
	return c.target.Download(namespace, name, dst)
}
func (c *switchClient) List(prefix string, opts ...backend.ListOption) (*backend.ListResult, error) {
	return c.target.List(prefix, opts...)
}
func (c *switchClient) Close() error { return nil }

func sharedManager(ns string) (*backend.Manager, error) {
	if sharedMgr != nil {
		return sharedMgr, nil
	}
	bm, err := backend.NewManager(backend.ManagerConfig{}, nil, backend.AuthConfig{}, tally.NoopScope)
	if err != nil {
		return nil, err
	}
	if err := bm.Register(ns, sharedClient, false); err != nil {
		return nil, err
	}
	sharedMgr = bm
	return bm, nil
}

type rig struct {
	cas       *store.CAStore
	gen       *metainfogen.Generator
	refresher *blobrefresh.Refresher
	backends  *backend.Manager
	server    *blobserver.Server
	handler   http.Handler
	wb        *stubWriteBack
}

func newRig(cfg store.CAStoreConfig, pieceLengths map[datasize.ByteSize]datasize.ByteSize, ns string, bc backend.Client) (*rig, error) {
	cas, err := store.NewCAStore(cfg, tally.NoopScope)
	if err != nil {
		return nil, err
	}
	gen, err := metainfogen.New(metainfogen.Config{PieceLengths: pieceLengths}, cas)
	if err != nil {
		return nil, err
	}
	bm, err := sharedManager(ns)
	if err != nil {
		return nil, err
	}
	sharedClient.target = bc
	ref := blobrefresh.New(blobrefresh.Config{}, tally.NoopScope, cas, bm, gen)
	wb := &stubWriteBack{}
	srv, err := blobserver.New(blobserver.Config{}, tally.NoopScope, sclock.New(), originAddr, stubRing{}, cas,
		stubProvider{}, stubCluster{}, core.PeerContext{}, bm, ref, gen, wb)
	if err != nil {
		return nil, err
	}
	return &rig{cas: cas, gen: gen, refresher: ref, backends: bm, server: srv, handler: srv.Handler(), wb: wb}, nil
}

// do performs one request against the real chi router of the blob server,
// synchronously on the calling task (no sockets).
func (r *rig) do(method, target string, body []byte, hdr map[string]string) *httptest.ResponseRecorder {
	var req *http.Request
	if body != nil {
		req = httptest.NewRequest(method, target, bytes.NewReader(body))
	} else {
		req = httptest.NewRequest(method, target, nil)
	}
	for k, v := range hdr {
		req.Header.Set(k, v)
	}
	rec := httptest.NewRecorder()
	r.handler.ServeHTTP(rec, req)
	return rec
}
