// C15: piece request bookkeeping respects pipeline limits and peer removal.
//
// The real piecerequest.Manager (both selection policies, fake clock) is driven
// with tape-generated histories over 4 peers x 12 pieces and compared with
// reference model A.2 (model_test.go). Configuration "sequential": one task,
// every operation is judged immediately and followed by a full observation
// (PendingPieces of every peer + GetFailedRequests). Configuration
// "concurrent": the same operations from 2-4 tasks (the dispatcher calls the
// manager from several goroutines); the recorded history must be linearizable
// with respect to the same model (porcupine).
package c15

import (
	"fmt"
	"hash/fnv"
	"strings"
	"testing"
	"time"

	"github.com/anishathalye/porcupine"
	"github.com/uber/kraken/core"
	"github.com/uber/kraken/lib/torrent/scheduler/dispatch/piecerequest"
	"github.com/uber/kraken/utils/syncutil"
	"github.com/willf/bitset"

	"kverif/kit"
	sclock "kverif/shim/clock"
	ssync "kverif/shim/sync"
	simrt "kverif/sim"
)

const (
	nPeers  = 4
	nPieces = 12
)

type world struct {
	s        *simrt.Sim
	m        *piecerequest.Manager
	T        time.Duration
	peers    [nPeers]core.PeerID
	peerIdx  map[core.PeerID]int
	origin   [nPeers]bool
	limits   [2]int // agent, origin
	counters syncutil.Counters
	nOps     int
}

func (w *world) limit(p int) int {
	if w.origin[p] {
		return w.limits[1]
	}
	return w.limits[0]
}

// exec performs one model-relevant operation on the real manager.
func (w *world) exec(in opIn) opOut {
	w.nOps++
	switch in.kind {
	case opReserve:
		bs := bitset.New(nPieces)
		for i := 0; i < nPieces; i++ {
			if in.cands&(1<<uint(i)) != 0 {
				bs.Set(uint(i))
			}
		}
		ps, err := w.m.ReservePieces(w.peers[in.peer], w.origin[in.peer], bs, w.counters, in.endgame)
		if err != nil {
			return opOut{err: err.Error()}
		}
		return opOut{pieces: append([]int{}, ps...)}
	case opUnsent:
		w.m.MarkUnsent(w.peers[in.peer], in.piece)
	case opInvalid:
		w.m.MarkInvalid(w.peers[in.peer], in.piece)
	case opClear:
		w.m.Clear(in.piece)
	case opClearPeer:
		w.m.ClearPeer(w.peers[in.peer])
	case opPending:
		return opOut{pieces: append([]int{}, w.m.PendingPieces(w.peers[in.peer])...)}
	case opFailed:
		out := opOut{failed: []fr{}}
		for _, r := range w.m.GetFailedRequests() {
			st := -1
			switch r.Status {
			case piecerequest.StatusPending:
				st = stPending
			case piecerequest.StatusExpired:
				st = stExpired
			case piecerequest.StatusUnsent:
				st = stUnsent
			case piecerequest.StatusInvalid:
				st = stInvalid
			}
			p, ok := w.peerIdx[r.PeerID]
			if !ok || st < 0 {
				return opOut{err: fmt.Sprintf("report contains unknown peer or status: %+v", r)}
			}
			out.failed = append(out.failed, fr{p, r.Piece, st})
		}
		// canonical order (the report is judged as a set)
		for i := 1; i < len(out.failed); i++ {
			for j := i; j > 0 && less(out.failed[j], out.failed[j-1]); j-- {
				out.failed[j], out.failed[j-1] = out.failed[j-1], out.failed[j]
			}
		}
		return out
	}
	return opOut{}
}

func less(a, b fr) bool {
	if a.peer != b.peer {
		return a.peer < b.peer
	}
	if a.piece != b.piece {
		return a.piece < b.piece
	}
	return a.st < b.st
}

func stateHash(m *mstate) uint64 {
	f := fnv.New64a()
	f.Write([]byte(m.key))
	return f.Sum64()
}

// drawOp draws the next mutating operation. ms (may be nil) is the model state
// used to aim mark operations at existing requests.
func (w *world) drawOp(ms *mstate, endgameMode int, done *uint16, threshold int) (in opIn, sleep time.Duration, tweak bool) {
	tp := w.s.Tape
	pick := func() (int, int) {
		if ms != nil && len(ms.reqs) > 0 && !tp.Chance(200) {
			r := ms.reqs[tp.Draw(len(ms.reqs))]
			return r.peer, r.piece
		}
		return tp.Draw(nPeers), tp.Draw(nPieces)
	}
	switch k := tp.Draw(14); {
	case k < 5:
		p := tp.Draw(nPeers)
		in = opIn{kind: opReserve, peer: p, limit: w.limit(p), cands: uint16(tp.Draw(1 << nPieces))}
		if endgameMode == 0 {
			in.endgame = tp.Chance(250)
		} else {
			// the dispatcher's rule: endgame when few pieces remain; completed
			// (cleared) pieces are no candidates
			in.cands &^= *done
			remaining := nPieces
			for i := 0; i < nPieces; i++ {
				if *done&(1<<uint(i)) != 0 {
					remaining--
				}
			}
			in.endgame = remaining <= threshold
		}
	case k < 8:
		// clock advance: whole seconds, so that request ages are never equal to
		// the timeout (k+0.5 s)
		sleep = time.Duration(1+tp.Draw(int(w.T/time.Second)+2)) * time.Second
	case k == 8:
		p, i := pick()
		in = opIn{kind: opUnsent, peer: p, piece: i}
	case k == 9:
		p, i := pick()
		in = opIn{kind: opInvalid, peer: p, piece: i}
	case k == 10 || k == 11:
		_, i := pick()
		in = opIn{kind: opClear, piece: i}
		if endgameMode == 1 {
			*done |= 1 << uint(i)
		}
	case k == 12:
		p, _ := pick()
		in = opIn{kind: opClearPeer, peer: p}
	default:
		tweak = true
	}
	return
}

func (w *world) tweakCounters() {
	tp := w.s.Tape
	i := tp.Draw(nPieces)
	switch tp.Draw(3) {
	case 0:
		w.counters.Increment(i)
	case 1:
		w.counters.Decrement(i)
	case 2:
		w.counters.Set(i, tp.Draw(6))
	}
	w.s.Logf("counters[%d] -> %d", i, w.counters.Get(i))
}

func setup(s *simrt.Sim) *world {
	tp := s.Tape
	w := &world{s: s, peerIdx: map[core.PeerID]int{}}
	policy := piecerequest.DefaultPolicy
	if tp.Draw(2) == 1 {
		policy = piecerequest.RarestFirstPolicy
	}
	w.T = time.Duration(2+tp.Draw(4))*time.Second + 500*time.Millisecond
	w.limits = [2]int{1 + tp.Draw(3), 1 + tp.Draw(5)}
	for i := 0; i < nPeers; i++ {
		id, err := core.HashedPeerID(fmt.Sprintf("peer%d", i))
		if err != nil {
			s.InfraError("peer id: %v", err)
		}
		w.peers[i] = id
		w.peerIdx[id] = i
		w.origin[i] = tp.Draw(3) == 2
	}
	w.counters = syncutil.NewCounters(nPieces)
	for i := 0; i < nPieces; i++ {
		w.counters.Set(i, tp.Draw(5))
	}
	m, err := piecerequest.NewManager(sclock.New(), w.T, policy, w.limits[0], w.limits[1])
	if err != nil {
		s.InfraError("NewManager: %v", err)
	}
	w.m = m
	s.Logf("config policy=%s timeout=%v limits=%v origin=%v", policy, w.T, w.limits, w.origin)
	kit.SetSample(map[string]any{"policy": policy, "timeout": w.T.String(), "agent_limit": w.limits[0], "origin_limit": w.limits[1], "origin_peers": w.origin})
	return w
}

func sequential(s *simrt.Sim, tier string) {
	w := setup(s)
	tp := s.Tape
	endgameMode := tp.Draw(2)
	threshold := tp.Draw(nPieces + 1)
	var done uint16
	n := 10 + tp.Draw(91)
	if tier == "thorough" {
		n += tp.Draw(100)
	}
	ms := newState(nil)
	var hist []string
	obs := "" // compact rendering of the observation that follows a step
	judge := func(in opIn) {
		in.now = s.Now()
		out := w.exec(in)
		line := fmt.Sprintf("%v -> %v", in, out)
		s.Logf("%s", line)
		switch in.kind {
		case opPending:
			obs += fmt.Sprintf(" p%d=%v", in.peer, out)
		case opFailed:
			hist = append(hist, fmt.Sprintf("    observed: pending%s failed=%v", obs, out))
			obs = ""
		default:
			hist = append(hist, line)
		}
		next, v := ms.apply(w.T, in, out)
		if v != nil {
			if obs != "" {
				hist = append(hist, "    observed: pending"+obs)
			}
			h := hist
			if len(h) > 40 {
				h = h[len(h)-40:]
			}
			s.Fail(v.oracle, "%s\nhistory:\n  %s", v.msg, strings.Join(h, "\n  "))
		}
		ms = next
	}
	for i := 0; i < n; i++ {
		in, sleep, tweak := w.drawOp(ms, endgameMode, &done, threshold)
		switch {
		case tweak:
			w.tweakCounters()
			continue
		case sleep > 0:
			simrt.Sleep(sleep)
			hist = append(hist, fmt.Sprintf("t=%v (clock advanced by %v)", s.Now(), sleep))
			s.Logf("sleep %v", sleep)
			s.Probe("clock_advance")
		default:
			judge(in)
			s.Probe([]string{"op_reserve", "op_unsent", "op_invalid", "op_clear", "op_clear_peer"}[in.kind])
		}
		// full observation after every step
		for p := 0; p < nPeers; p++ {
			judge(opIn{kind: opPending, peer: p})
		}
		judge(opIn{kind: opFailed})
		s.State(stateHash(ms))
	}
	probesFromModel(s, ms, s.Now(), w.T)
	kit.SetSample(map[string]any{"configuration": "sequential", "steps": n, "manager_calls": w.nOps, "endgame_mode": []string{"arbitrary flag", "threshold on uncleared pieces"}[endgameMode]})
}

func probesFromModel(s *simrt.Sim, ms *mstate, now, T time.Duration) {
	for _, r := range ms.reqs {
		if r.sup {
			s.Probe("rereserved_after_failure")
		}
		if r.st == stPending && !live(r, now, T) {
			s.Probe("expired_request_at_end")
		}
	}
}

type rec struct {
	in        opIn
	out       opOut
	call, ret int64
	task      int
}

func concurrent(s *simrt.Sim, tier string) {
	w := setup(s)
	tp := s.Tape
	nTasks := 2 + tp.Draw(3)
	total := 12 + tp.Draw(29) // <= 40 model-relevant operations
	if tier == "thorough" {
		total += tp.Draw(16)
	}
	var recs []*rec
	var wg ssync.WaitGroup
	left := total
	spanned := false
	for t := 0; t < nTasks; t++ {
		wg.Add(1)
		simrt.Go(func() {
			defer wg.Done()
			var dummy uint16
			for left > 0 {
				left--
				var in opIn
				switch k := tp.Draw(10); {
				case k >= 8:
					in = opIn{kind: opPending, peer: tp.Draw(nPeers)}
				case k == 7:
					in = opIn{kind: opFailed}
				default:
					var sleep time.Duration
					var tweak bool
					in, sleep, tweak = w.drawOp(nil, 0, &dummy, 0)
					if tweak {
						w.tweakCounters()
						continue
					}
					if sleep > 0 {
						simrt.Sleep(sleep)
						s.Probe("clock_advance")
						continue
					}
				}
				in.now = s.Now()
				r := &rec{in: in, task: t, call: s.NextSeq()}
				recs = append(recs, r)
				r.out = w.exec(in)
				r.ret = s.NextSeq()
				if s.Now() != in.now {
					spanned = true
				}
				s.Logf("task%d %v -> %v", t, in, r.out)
			}
		})
	}
	wg.Wait()
	// final observation from the main task
	simrt.Sleep(time.Duration(tp.Draw(8)) * time.Second)
	for p := 0; p <= nPeers; p++ {
		in := opIn{kind: opPending, peer: p, now: s.Now()}
		if p == nPeers {
			in = opIn{kind: opFailed, now: s.Now()}
		}
		r := &rec{in: in, task: -1, call: s.NextSeq()}
		r.out = w.exec(in)
		r.ret = s.NextSeq()
		recs = append(recs, r)
		s.Logf("final %v -> %v", in, r.out)
	}
	kit.SetSample(map[string]any{"configuration": "concurrent", "tasks": nTasks, "manager_calls": len(recs)})
	if spanned {
		// cannot happen without injected pauses; never judge such a history
		s.Probe("op_spanned_fake_time_skipped")
		return
	}
	overlaps := 0
	for i, a := range recs {
		for _, b := range recs[i+1:] {
			if a.call < b.ret && b.call < a.ret {
				overlaps++
			}
		}
	}
	if overlaps > 0 {
		s.Probe("history_with_overlapping_ops")
	}
	model := porcupine.Model{
		Init: func() interface{} { return newState(nil) },
		Step: func(state, input, output interface{}) (bool, interface{}) {
			next, v := state.(*mstate).apply(w.T, input.(opIn), output.(opOut))
			return v == nil, next
		},
		Equal: func(a, b interface{}) bool { return a.(*mstate).key == b.(*mstate).key },
	}
	var ops []porcupine.Operation
	for _, r := range recs {
		ops = append(ops, porcupine.Operation{ClientId: r.task + 1, Input: r.in, Call: r.call, Output: r.out, Return: r.ret})
	}
	switch porcupine.CheckOperationsTimeout(model, ops, 0) {
	case porcupine.Ok:
		s.Probe("linearizable")
	case porcupine.Unknown:
		s.Probe("linearizability_unknown")
	case porcupine.Illegal:
		// diagnosis: replay in completion order and show the first objection
		ms := newState(nil)
		hint := ""
		var lines []string
		for _, r := range recs {
			lines = append(lines, fmt.Sprintf("[%d..%d] task%d %v -> %v", r.call, r.ret, r.task, r.in, r.out))
		}
		byRet := append([]*rec(nil), recs...)
		for i := 1; i < len(byRet); i++ {
			for j := i; j > 0 && byRet[j].ret < byRet[j-1].ret; j-- {
				byRet[j], byRet[j-1] = byRet[j-1], byRet[j]
			}
		}
		for _, r := range byRet {
			next, v := ms.apply(w.T, r.in, r.out)
			if v != nil {
				hint = fmt.Sprintf("%s: %s", v.oracle, v.msg)
				break
			}
			ms = next
		}
		s.Fail("not_linearizable", "the concurrent history has no linearization allowed by the request-table model (%d overlapping pairs); first objection in completion order: %s\nhistory [call..return]:\n  %s", overlaps, hint, strings.Join(lines, "\n  "))
	}
}

func body(s *simrt.Sim, tier string) {
	if s.Tape.Draw(3) == 2 {
		s.Probe("configuration_concurrent")
		concurrent(s, tier)
	} else {
		s.Probe("configuration_sequential")
		sequential(s, tier)
	}
}

func TestC15(t *testing.T) {
	kit.Main(t, kit.Spec{
		Property: "C15",
		Body:     body,
		Config: func(tier string) simrt.Config {
			return simrt.Config{MaxSteps: 400000, Horizon: 12 * time.Hour, PanicIsFailure: true}
		},
		Real: []string{"lib/torrent/scheduler/dispatch/piecerequest.Manager (default and rarest_first policies)", "utils/syncutil.Counters", "utils/heap.PriorityQueue"},
		Stub: []string{"the dispatcher (callers are harness tasks drawing operations from the tape)", "clock: synctest fake clock through shim/clock"},
		Rule: "one run = one history: policy, timeout (k+0.5 s), agent/origin pipeline limits, origin flags and rarity counters drawn per run; sequential configuration: 10-100 steps (reserve with drawn candidate set and endgame flag or threshold rule, mark unsent/invalid, clear, clear-peer, clock advance of whole seconds, counter tweaks), each followed by PendingPieces of all peers and GetFailedRequests, judged against the reference model; concurrent configuration: <=40 (thorough 56) operations from 2-4 tasks, history checked for linearizability against the same model; distinct = distinct event-log hash",
		Assumptions: []string{
			"all operation instants are whole seconds and the timeout is k+0.5 s: no comparison at the expiry boundary is asserted",
			"a failed request that was superseded by a newer request to the same peer for the same piece may or may not stay in the failed report (both accepted)",
			"PendingPieces may or may not list expired pending requests (both accepted); it must list every unexpired one",
			"no operation of the manager takes fake time (no injected pauses in this harness)",
		},
	})
}
