package c15

import (
	"fmt"
	"sort"
	"strings"
	"time"
)

// Reference model A.2 (piece-request table), written from the property
// statement. The state is an immutable value (every step returns a new one) so
// that the same code serves the sequential oracle and the linearizability
// check of the concurrent configuration.
//
// A request is (peer, piece, status, sentAt). live(r) ⇔ pending ∧ now-sentAt < T
// (instants are kept off the boundary by the workload: whole seconds vs. a
// timeout of k+0.5 s).
//
// One point the statement leaves open: when a peer is asked again for a piece
// whose earlier request to the same peer has failed, the earlier request may
// stay in the failed report or be considered replaced. Both are accepted: the
// earlier request is marked `sup` (superseded) and is optional in the report.

const (
	stPending = iota
	stUnsent
	stInvalid
	stExpired // only in reports
)

var stName = []string{"pending", "unsent", "invalid", "expired"}

type rq struct {
	peer, piece int
	st          int
	at          time.Duration
	sup         bool
}

type mstate struct {
	reqs []rq
	key  string
	// gone remembers, for diagnosis only (not part of the state identity), how
	// the requests of a (peer, piece) pair were last removed.
	gone map[[2]int]int
}

const (
	goneClear = iota + 1
	goneClearPeer
)

func (m *mstate) with(reqs []rq, gone map[[2]int]int) *mstate {
	n := newState(reqs)
	if gone == nil {
		gone = m.gone
	}
	n.gone = gone
	return n
}

func (m *mstate) goneCopy() map[[2]int]int {
	g := make(map[[2]int]int, len(m.gone)+4)
	for k, v := range m.gone {
		g[k] = v
	}
	return g
}

func newState(reqs []rq) *mstate {
	sort.Slice(reqs, func(i, j int) bool {
		a, b := reqs[i], reqs[j]
		if a.peer != b.peer {
			return a.peer < b.peer
		}
		if a.piece != b.piece {
			return a.piece < b.piece
		}
		if a.at != b.at {
			return a.at < b.at
		}
		if a.st != b.st {
			return a.st < b.st
		}
		return !a.sup && b.sup
	})
	var sb strings.Builder
	for _, r := range reqs {
		fmt.Fprintf(&sb, "%d/%d/%d/%d/%t;", r.peer, r.piece, r.st, r.at/time.Millisecond, r.sup)
	}
	return &mstate{reqs: reqs, key: sb.String()}
}

func (m *mstate) String() string {
	var sb strings.Builder
	for _, r := range m.reqs {
		fmt.Fprintf(&sb, "(p%d,#%d,%s,sent@%v", r.peer, r.piece, stName[r.st], r.at)
		if r.sup {
			sb.WriteString(",superseded")
		}
		sb.WriteString(") ")
	}
	return "{" + strings.TrimSpace(sb.String()) + "}"
}

func live(r rq, now, T time.Duration) bool { return r.st == stPending && now-r.at < T }

type verdict struct{ oracle, msg string }

func bad(oracle, format string, a ...any) *verdict {
	return &verdict{oracle, fmt.Sprintf(format, a...)}
}

// fr is one entry of a failed-request report.
type fr struct{ peer, piece, st int }

type opIn struct {
	kind    int
	peer    int
	piece   int
	cands   uint16
	endgame bool
	limit   int
	now     time.Duration
}

const (
	opReserve = iota
	opUnsent
	opInvalid
	opClear
	opClearPeer
	opPending
	opFailed
)

type opOut struct {
	pieces []int // reserve, pending
	failed []fr
	err    string
}

func (in opIn) String() string {
	switch in.kind {
	case opReserve:
		return fmt.Sprintf("t=%v reserve(p%d limit=%d cands=%012b endgame=%t)", in.now, in.peer, in.limit, in.cands, in.endgame)
	case opUnsent:
		return fmt.Sprintf("t=%v markUnsent(p%d,#%d)", in.now, in.peer, in.piece)
	case opInvalid:
		return fmt.Sprintf("t=%v markInvalid(p%d,#%d)", in.now, in.peer, in.piece)
	case opClear:
		return fmt.Sprintf("t=%v clear(#%d)", in.now, in.piece)
	case opClearPeer:
		return fmt.Sprintf("t=%v clearPeer(p%d)", in.now, in.peer)
	case opPending:
		return fmt.Sprintf("t=%v pendingPieces(p%d)", in.now, in.peer)
	case opFailed:
		return fmt.Sprintf("t=%v failedRequests()", in.now)
	}
	return "?"
}

func (o opOut) String() string {
	if o.err != "" {
		return "error " + o.err
	}
	if o.failed != nil {
		var p []string
		for _, f := range o.failed {
			p = append(p, fmt.Sprintf("(p%d,#%d,%s)", f.peer, f.piece, stName[f.st]))
		}
		return "[" + strings.Join(p, " ") + "]"
	}
	return fmt.Sprint(o.pieces)
}

// apply judges the result of one operation against the model and returns the
// successor state. T is the request timeout.
func (m *mstate) apply(T time.Duration, in opIn, out opOut) (*mstate, *verdict) {
	now := in.now
	switch in.kind {
	case opReserve:
		if out.err != "" {
			return m, bad("reserve_error", "%v returned error %s", in, out.err)
		}
		liveOfPeer := 0
		for _, r := range m.reqs {
			if r.peer == in.peer && live(r, now, T) {
				liveOfPeer++
			}
		}
		seen := map[int]bool{}
		for _, p := range out.pieces {
			if seen[p] {
				return m, bad("reserve_duplicate", "%v returned piece #%d twice: %v", in, p, out.pieces)
			}
			seen[p] = true
			if p < 0 || p >= 16 || in.cands&(1<<uint(p)) == 0 {
				return m, bad("reserve_not_candidate", "%v returned #%d which is not a candidate", in, p)
			}
			for _, r := range m.reqs {
				if r.piece != p || !live(r, now, T) {
					continue
				}
				if r.peer == in.peer {
					return m, bad("piece_requested_twice_from_peer", "%v returned #%d although an unexpired request for it to the same peer (sent at %v) is outstanding", in, p, r.at)
				}
				if !in.endgame {
					return m, bad("duplicate_request_outside_endgame", "%v returned #%d although peer p%d has an unexpired request for it (sent at %v) and this is not endgame", in, p, r.peer, r.at)
				}
			}
		}
		if len(out.pieces) > 0 && len(out.pieces)+liveOfPeer > in.limit {
			return m, bad("pipeline_limit_exceeded", "%v returned %d pieces while the peer already has %d unexpired requests (limit %d)", in, len(out.pieces), liveOfPeer, in.limit)
		}
		if len(out.pieces) == 0 {
			return m, nil
		}
		reqs := append([]rq(nil), m.reqs...)
		for i := range reqs {
			if reqs[i].peer == in.peer && seen[reqs[i].piece] {
				reqs[i].sup = true
			}
		}
		gone := m.goneCopy()
		for _, p := range out.pieces {
			reqs = append(reqs, rq{peer: in.peer, piece: p, st: stPending, at: now})
			delete(gone, [2]int{in.peer, p})
		}
		return m.with(reqs, gone), nil
	case opUnsent, opInvalid:
		st := stUnsent
		if in.kind == opInvalid {
			st = stInvalid
		}
		reqs := append([]rq(nil), m.reqs...)
		for i := range reqs {
			if reqs[i].peer == in.peer && reqs[i].piece == in.piece {
				reqs[i].st = st
			}
		}
		return m.with(reqs, nil), nil
	case opClear, opClearPeer:
		var reqs []rq
		gone := m.goneCopy()
		for _, r := range m.reqs {
			if in.kind == opClear && r.piece == in.piece {
				gone[[2]int{r.peer, r.piece}] = goneClear
				continue
			}
			if in.kind == opClearPeer && r.peer == in.peer {
				gone[[2]int{r.peer, r.piece}] = goneClearPeer
				continue
			}
			reqs = append(reqs, r)
		}
		return m.with(reqs, gone), nil
	case opPending:
		// must contain every piece with an unexpired pending request of the peer
		// and nothing without a pending (unexpired or expired) request
		may, must := map[int]bool{}, map[int]bool{}
		for _, r := range m.reqs {
			if r.peer == in.peer && r.st == stPending {
				may[r.piece] = true
				if live(r, now, T) {
					must[r.piece] = true
				}
			}
		}
		if !sort.IntsAreSorted(out.pieces) {
			return m, bad("pending_report_wrong", "%v returned unsorted %v", in, out.pieces)
		}
		got := map[int]bool{}
		for _, p := range out.pieces {
			got[p] = true
			if !may[p] {
				pairKnown := false
				for _, r := range m.reqs {
					pairKnown = pairKnown || (r.peer == in.peer && r.piece == p)
				}
				switch {
				case !pairKnown && m.gone[[2]int{in.peer, p}] == goneClearPeer:
					return m, bad("request_pending_after_clear_peer", "%v reports #%d although the peer was removed (clear-peer) and has not been asked for #%d since; model %v", in, p, p, m)
				case !pairKnown && m.gone[[2]int{in.peer, p}] == goneClear:
					return m, bad("request_pending_after_clear", "%v reports #%d although the piece was cleared and not requested from that peer since; model %v", in, p, m)
				}
				return m, bad("pending_report_wrong", "%v reports #%d which has no pending request to that peer; model %v", in, p, m)
			}
		}
		for _, r := range m.reqs { // deterministic order
			if p := r.piece; r.peer == in.peer && must[p] && !got[p] {
				return m, bad("pending_report_wrong", "%v = %v omits #%d which has an unexpired pending request; model %v", in, out.pieces, p, m)
			}
		}
		return m, nil
	case opFailed:
		must, may := map[fr]bool{}, map[fr]bool{}
		for _, r := range m.reqs {
			st := r.st
			if st == stPending {
				if live(r, now, T) {
					continue
				}
				st = stExpired
			}
			f := fr{r.peer, r.piece, st}
			may[f] = true
			if !r.sup {
				must[f] = true
			}
		}
		got := map[fr]bool{}
		for _, f := range out.failed {
			got[f] = true
			if f.st == stPending {
				return m, bad("failed_report_extra", "%v lists a pending request (p%d,#%d)", in, f.peer, f.piece)
			}
			if may[f] {
				continue
			}
			pairKnown := false
			for _, r := range m.reqs {
				pairKnown = pairKnown || (r.peer == f.peer && r.piece == f.piece)
			}
			switch {
			case !pairKnown && m.gone[[2]int{f.peer, f.piece}] == goneClearPeer:
				return m, bad("request_reported_after_clear_peer", "%v lists (p%d,#%d,%s) although peer p%d was removed (clear-peer) after it was last asked for #%d: a request of the removed peer survived; model %v", in, f.peer, f.piece, stName[f.st], f.peer, f.piece, m)
			case !pairKnown && m.gone[[2]int{f.peer, f.piece}] == goneClear:
				return m, bad("request_reported_after_clear", "%v lists (p%d,#%d,%s) although piece #%d was cleared after it was last requested from p%d; model %v", in, f.peer, f.piece, stName[f.st], f.piece, f.peer, m)
			default:
				return m, bad("failed_report_extra", "%v lists (p%d,#%d,%s) but no request of p%d for #%d expired / was marked unsent / invalid that way; model %v", in, f.peer, f.piece, stName[f.st], f.peer, f.piece, m)
			}
		}
		for _, r := range m.reqs { // deterministic order
			st := r.st
			if st == stPending {
				st = stExpired
			}
			if f := (fr{r.peer, r.piece, st}); must[f] && !got[f] {
				return m, bad("failed_report_missing", "%v = %v omits (p%d,#%d,%s); model %v", in, out, f.peer, f.piece, stName[f.st], m)
			}
		}
		return m, nil
	}
	return m, bad("harness_bug", "unknown op")
}
