// C26: tracker handouts never include the announcer and respect priority and limits.
//
// Real: trackerserver announce handlers (v1 GET /announce, v2 POST
// /announce/{infohash}) behind the real chi router, peerhandoutpolicy (both
// policies), peerstore.LocalStore on the fake clock, and (second configuration)
// the real originstore over stubbed origin clients.
// Stub: HTTP transport (requests are built exactly as announceclient builds
// them and handed to the handler with a ResponseRecorder), origin store (first
// configuration) / origin blob clients (second configuration).
//
// Oracle = model A.8 on every response P to announcer a for blob d:
// a.id not in ids(P); ids distinct; #agents(P) <= limit; origins(P) are origins
// of d; a.complete => P empty; priorities along P non-decreasing under the
// configured policy (completeness: seeder < origin < incomplete).
package c26

import (
	"bytes"
	"crypto/sha256"
	"encoding/hex"
	"encoding/json"
	"errors"
	"fmt"
	"net/http"
	"net/http/httptest"
	"strings"
	"testing"
	"time"

	"github.com/uber-go/tally"
	"github.com/uber/kraken/core"
	"github.com/uber/kraken/lib/hostlist"
	"github.com/uber/kraken/origin/blobclient"
	"github.com/uber/kraken/tracker/announceclient"
	"github.com/uber/kraken/tracker/originstore"
	"github.com/uber/kraken/tracker/peerhandoutpolicy"
	"github.com/uber/kraken/tracker/peerstore"
	"github.com/uber/kraken/tracker/trackerserver"

	"kverif/kit"
	sclock "kverif/shim/clock"
	ssync "kverif/shim/sync"
	simrt "kverif/sim"
)

type peer struct {
	name string
	id   core.PeerID
	ip   string
	port int
}

type torrent struct {
	name    string
	d       core.Digest
	h       core.InfoHash
	origins []*peer // origins of the blob
	// announcements per peer name: completion flags announced so far (invoked)
	flags map[string][]bool
}

type world struct {
	s        *simrt.Sim
	tp       *simrt.Tape
	policy   string
	limit    int
	peers    []*peer
	origins  []*peer
	torrents []*torrent
	byID     map[core.PeerID]*peer
	isOrigin map[core.PeerID]bool
	selfHandout string // first response that listed its own announcer
	nResp    int
	nErr     int
	nOrigins int
	nSeeders int
	nMixed   int
}

func mkPeer(name, ip string, port int) *peer {
	id, err := core.HashedPeerID(name)
	if err != nil {
		panic(err)
	}
	return &peer{name: name, id: id, ip: ip, port: port}
}

// ---- origin store, first configuration: a stub drawing a subset per call ----

type stubOriginStore struct{ w *world }

func (o *stubOriginStore) GetOrigins(d core.Digest) ([]*core.PeerInfo, error) {
	w := o.w
	for _, t := range w.torrents {
		if t.d != d {
			continue
		}
		if len(t.origins) == 0 || w.tp.Draw(8) == 7 {
			return nil, errors.New("all origins unavailable")
		}
		var res []*core.PeerInfo
		for _, p := range t.origins {
			if w.tp.Draw(6) != 5 {
				res = append(res, core.NewPeerInfo(p.id, p.ip, p.port, true, true))
			}
		}
		if len(res) == 0 {
			return nil, errors.New("all origins unavailable")
		}
		return res, nil
	}
	return nil, errors.New("unknown digest")
}

// ---- second configuration: real originstore over stub origin clients ----

type stubProvider struct{ w *world }

type stubClient struct {
	blobclient.Client // nil: every other method is outside the announce path
	w                 *world
	addr              string
}

func (p *stubProvider) Provide(addr string) blobclient.Client {
	return &stubClient{w: p.w, addr: addr}
}

func (c *stubClient) Addr() string { return c.addr }

func (c *stubClient) Locations(d core.Digest) ([]string, error) {
	w := c.w
	if w.tp.Draw(10) == 9 {
		return nil, errors.New("origin unreachable")
	}
	for _, t := range w.torrents {
		if t.d == d {
			var l []string
			for _, o := range t.origins {
				l = append(l, fmt.Sprintf("%s:%d", o.ip, o.port))
			}
			return l, nil
		}
	}
	return nil, errors.New("unknown digest")
}

func (c *stubClient) GetPeerContext() (core.PeerContext, error) {
	w := c.w
	if w.tp.Draw(8) == 7 {
		return core.PeerContext{}, errors.New("origin unreachable")
	}
	for _, o := range w.origins {
		if fmt.Sprintf("%s:%d", o.ip, o.port) == c.addr {
			return core.PeerContext{IP: o.ip, Port: o.port, PeerID: o.id, Zone: "z", Cluster: "c", Origin: true}, nil
		}
	}
	return core.PeerContext{}, errors.New("no such origin")
}

// announce sends one announce the way announceclient.Announce does and judges
// the response.
func (w *world) announce(handler http.Handler, who string, p *peer, t *torrent, complete bool, version int) {
	s := w.s
	d := t.d
	body, err := json.Marshal(&announceclient.Request{
		Name:     d.Hex(),
		Digest:   &d,
		InfoHash: t.h,
		Peer:     core.NewPeerInfo(p.id, p.ip, p.port, false, complete),
	})
	if err != nil {
		panic(err)
	}
	method, url := "POST", fmt.Sprintf("http://tracker:80/announce/%s", t.h.String())
	if version == announceclient.V1 {
		method, url = "GET", "http://tracker:80/announce"
	}
	t.flags[p.name] = append(t.flags[p.name], complete)
	req := httptest.NewRequest(method, url, bytes.NewReader(body))
	rec := httptest.NewRecorder()
	handler.ServeHTTP(rec, req)
	w.nResp++
	if rec.Code != http.StatusOK {
		w.nErr++
		s.Logf("%s announce v%d %s %s complete=%v -> status %d", who, version, p.name, t.name, complete, rec.Code)
		if complete {
			s.Fail("complete_announce_rejected", "announce of %s for %s with complete=true answered %d: %s", p.name, t.name, rec.Code, strings.TrimSpace(rec.Body.String()))
		}
		if rec.Code < 500 {
			s.Fail("announce_bad_request", "well-formed announce of %s for %s answered %d: %s", p.name, t.name, rec.Code, strings.TrimSpace(rec.Body.String()))
		}
		// 5xx "no peers available": admissible when nothing can be handed out
		s.Probe("announce_5xx")
		return
	}
	var resp announceclient.Response
	if err := json.NewDecoder(rec.Body).Decode(&resp); err != nil {
		s.Fail("response_undecodable", "announce response does not decode: %v", err)
	}
	var desc []string
	for _, q := range resp.Peers {
		name := "?"
		if k, ok := w.byID[q.PeerID]; ok {
			name = k.name
		}
		f := ""
		if q.Origin {
			f += "O"
		}
		if q.Complete {
			f += "C"
		}
		desc = append(desc, name+f)
	}
	s.Logf("%s announce v%d %s %s complete=%v -> [%s]", who, version, p.name, t.name, complete, strings.Join(desc, " "))
	P := resp.Peers
	if complete && len(P) != 0 {
		s.Fail("handout_for_complete_announcer", "%s announced %s as complete and was handed %d peers [%s]", p.name, t.name, len(P), strings.Join(desc, " "))
	}
	seen := map[core.PeerID]bool{}
	agents := 0
	prevPrio := -1
	kinds := map[int]bool{}
	for i, q := range P {
		if q == nil {
			s.Fail("nil_peer_in_handout", "handout entry %d is null", i)
		}
		if q.PeerID == p.id && w.selfHandout == "" {
			// Reported at the end of the run so that the other oracles keep
			// judging the remaining responses of this run.
			w.selfHandout = fmt.Sprintf("%s announced %s (complete=%v, v%d) and the handout [%s] lists the announcer itself at position %d", p.name, t.name, complete, version, strings.Join(desc, " "), i)
			s.Logf("VIOLATION (reported at end of run) announcer_in_handout: %s", w.selfHandout)
		}
		if seen[q.PeerID] {
			s.Fail("duplicate_peer_in_handout", "handout to %s for %s lists peer %s twice: [%s]", p.name, t.name, w.name(q.PeerID), strings.Join(desc, " "))
		}
		seen[q.PeerID] = true
		known, ok := w.byID[q.PeerID]
		if !ok {
			s.Fail("unknown_peer_in_handout", "handout to %s for %s lists a peer id nobody announced: %s", p.name, t.name, q.PeerID.String())
		}
		if q.IP != known.ip || q.Port != known.port {
			s.Fail("wrong_peer_address", "handout lists %s at %s:%d, it announced %s:%d", known.name, q.IP, q.Port, known.ip, known.port)
		}
		if q.Origin {
			isOrig := false
			for _, o := range t.origins {
				if o.id == q.PeerID {
					isOrig = true
				}
			}
			if !isOrig {
				s.Fail("foreign_origin_in_handout", "handout to %s for %s lists %s as origin, which is not an origin of the blob", p.name, t.name, known.name)
			}
			w.nOrigins++
		} else {
			agents++
			if w.isOrigin[q.PeerID] {
				s.Fail("origin_listed_as_agent", "handout lists origin %s without the origin flag", known.name)
			}
			fl := t.flags[known.name]
			if len(fl) == 0 {
				s.Fail("peer_of_other_torrent_in_handout", "handout to %s for %s lists %s which never announced that torrent", p.name, t.name, known.name)
			}
			okFlag := false
			for _, f := range fl {
				if f == q.Complete {
					okFlag = true
				}
			}
			if !okFlag {
				s.Fail("completion_flag_never_announced", "handout lists %s with complete=%v, it only ever announced %v for %s", known.name, q.Complete, fl, t.name)
			}
			if q.Complete {
				w.nSeeders++
			}
		}
		prio := 0
		if w.policy == "completeness" {
			switch {
			case q.Origin:
				prio = 1
			case q.Complete:
				prio = 0
			default:
				prio = 2
			}
		}
		kinds[prio] = true
		if prio < prevPrio {
			s.Fail("priority_order_violated", "handout to %s for %s under policy %s is not ordered seeders, origins, incomplete peers: [%s]", p.name, t.name, w.policy, strings.Join(desc, " "))
		}
		prevPrio = prio
	}
	if agents > w.limit {
		s.Fail("handout_limit_exceeded", "handout to %s for %s lists %d agents, limit is %d: [%s]", p.name, t.name, agents, w.limit, strings.Join(desc, " "))
	}
	if len(kinds) > 1 {
		w.nMixed++
	}
}

func (w *world) name(id core.PeerID) string {
	if p, ok := w.byID[id]; ok {
		return p.name
	}
	return id.String()
}

func body(s *simrt.Sim, tier string) {
	tp := s.Tape
	w := &world{s: s, tp: tp, byID: map[core.PeerID]*peer{}, isOrigin: map[core.PeerID]bool{}}
	w.policy = []string{"completeness", "default"}[tp.Draw(2)]
	w.limit = 1 + tp.Draw(6)
	nPeers := 2 + tp.Draw(7)
	nTorrents := 1 + tp.Draw(2)
	nOrigins := tp.Draw(4)
	// Large swarms (a quarter of the runs; out-of-band workload variant): more
	// candidates than any small-slice special case of a sorting routine
	// handles, a handout limit that lets most of them through, and a prelude in
	// which every peer announces once.
	large := s.Tape.Variant%4 == 1
	if large {
		nPeers = 10 + tp.Draw(17)
		w.limit = 8 + tp.Draw(20)
		nOrigins = 1 + tp.Draw(4)
		s.Probe("large_swarm")
	}
	ttl := []time.Duration{30 * time.Second, 2 * time.Minute, 7 * time.Minute, 90 * time.Minute}[tp.Draw(4)]
	for i := 0; i < nPeers; i++ {
		p := mkPeer(fmt.Sprintf("p%d", i), fmt.Sprintf("10.0.0.%d", i+1), 7000+i)
		w.peers = append(w.peers, p)
		w.byID[p.id] = p
	}
	for i := 0; i < nOrigins; i++ {
		p := mkPeer(fmt.Sprintf("o%d", i), fmt.Sprintf("10.1.0.%d", i+1), 9000+i)
		w.origins = append(w.origins, p)
		w.byID[p.id] = p
		w.isOrigin[p.id] = true
	}
	for i := 0; i < nTorrents; i++ {
		sum := sha256.Sum256([]byte(fmt.Sprintf("blob-%d", i)))
		d, err := core.NewSHA256DigestFromHex(hex.EncodeToString(sum[:]))
		if err != nil {
			panic(err)
		}
		t := &torrent{name: fmt.Sprintf("t%d", i), d: d, h: core.NewInfoHashFromBytes([]byte(fmt.Sprintf("torrent-%d", i))), flags: map[string][]bool{}}
		for _, o := range w.origins {
			if tp.Draw(4) != 3 {
				t.origins = append(t.origins, o)
			}
		}
		w.torrents = append(w.torrents, t)
	}
	realOriginStore := nOrigins > 0 && tp.Draw(3) == 2
	var os originstore.Store = &stubOriginStore{w}
	if realOriginStore {
		var addrs []string
		for _, o := range w.origins {
			addrs = append(addrs, fmt.Sprintf("%s:%d", o.ip, o.port))
		}
		os = originstore.New(originstore.Config{}, sclock.New(), hostlist.Fixture(addrs...), &stubProvider{w})
	}
	policy, err := peerhandoutpolicy.NewPriorityPolicy(tally.NoopScope, w.policy)
	if err != nil {
		panic(err)
	}
	store := peerstore.NewLocalStore(peerstore.LocalConfig{TTL: ttl}, sclock.New())
	defer store.Close()
	srv := trackerserver.New(trackerserver.Config{PeerHandoutLimit: w.limit, AnnounceInterval: time.Duration(1+tp.Draw(5)) * time.Second},
		tally.NoopScope, policy, store, os, nil)
	handler := srv.Handler()

	concurrent := tp.Draw(3) == 2
	nTasks := 1
	nOps := 6 + tp.Draw(30)
	if concurrent {
		nTasks = 2 + tp.Draw(3)
		nOps = 4 + tp.Draw(12)
	}
	if tier == "thorough" {
		nOps += tp.Draw(20)
	}
	// Harness tasks run on the grid k*1s+500ms, the store's cleanup tickers fire
	// (a few ns after) whole multiples of 5 minutes after its creation:
	// announces never share an instant with a cleanup pass (interleavings with
	// cleanup are C27's subject).
	simrt.Sleep(500 * time.Millisecond)
	sleep := simrt.Sleep
	runTask := func(who string) {
		for op := 0; op < nOps; op++ {
			// pause between announces: mostly short, sometimes around the TTL or a cleanup period
			switch k := tp.Draw(10); {
			case k <= 3:
			case k <= 6:
				sleep(time.Duration(1+tp.Draw(20)) * time.Second)
			case k == 7:
				sleep(ttl - 2*time.Second + time.Duration(tp.Draw(5))*time.Second)
			case k == 8:
				sleep(5*time.Minute - 2*time.Second + time.Duration(tp.Draw(5))*time.Second)
			default:
				sleep(time.Hour + time.Duration(tp.Draw(3))*time.Second)
			}
			p := w.peers[tp.Draw(nPeers)]
			t := w.torrents[tp.Draw(nTorrents)]
			complete := tp.Draw(3) == 2
			version := announceclient.V2
			if tp.Draw(3) == 2 {
				version = announceclient.V1
			}
			w.announce(handler, who, p, t, complete, version)
		}
	}
	if large {
		t := w.torrents[0]
		for _, p := range w.peers {
			w.announce(handler, "prelude", p, t, tp.Draw(5) >= 2, announceclient.V2)
		}
	}
	if !concurrent {
		runTask("m")
	} else {
		var wg ssync.WaitGroup
		for i := 0; i < nTasks; i++ {
			wg.Add(1)
			who := fmt.Sprintf("a%d", i)
			simrt.Go(func() {
				defer wg.Done()
				runTask(who)
			})
		}
		wg.Wait()
	}
	if w.nOrigins > 0 {
		s.Probe("origin_in_handout")
	}
	if w.nSeeders > 0 {
		s.Probe("seeder_in_handout")
	}
	if w.nMixed > 0 {
		s.Probe("handout_with_several_priority_classes")
	}
	if realOriginStore {
		s.Probe("real_originstore")
	}
	if concurrent {
		s.Probe("concurrent_announcers")
	}
	kit.SetSample(map[string]any{"policy": w.policy, "limit": w.limit, "peers": nPeers, "torrents": nTorrents, "origins": nOrigins,
		"peer_ttl": ttl.String(), "real_originstore": realOriginStore, "concurrent": concurrent, "tasks": nTasks, "announces_per_task": nOps,
		"responses": w.nResp, "error_responses": w.nErr})
	if w.selfHandout != "" {
		s.Fail("announcer_in_handout", "%s", w.selfHandout)
	}
}

func TestC26(t *testing.T) {
	kit.Main(t, kit.Spec{
		Property: "C26",
		Body:     body,
		Config: func(tier string) simrt.Config {
			return simrt.Config{MaxSteps: 400000, Horizon: 200 * time.Hour, PanicIsFailure: true}
		},
		Real: []string{"tracker/trackerserver announce handlers v1+v2 behind the real router", "tracker/peerhandoutpolicy (default, completeness)", "tracker/peerstore.LocalStore (fake clock, real cleanup tickers)", "tracker/originstore over stub origin clients (a third of the runs with origins)", "announceclient request/response encoding"},
		Stub: []string{"HTTP transport: requests built like announceclient.Announce and passed to Handler().ServeHTTP with a ResponseRecorder (no sockets, no network faults)", "originstore.Store stub drawing an available subset of the blob's origins per call, or blobclient origin clients with drawn failures under the real originstore"},
		Rule: "one run = policy, handout limit 1..6, 2..8 peers, 1..2 torrents, 0..3 origins with a drawn origin set per blob, peer TTL in {30s,2m,7m,90m}; 6..35 announces (peer, torrent, completion flag, protocol version drawn) separated by drawn pauses (none, seconds, around the TTL, around the 5-min and 1-h cleanup periods); a third of the runs use 2..4 concurrently announcing tasks; non-trivial = >=1 contested scheduling decision (cleanup task or concurrent announcers); distinct = distinct event-log hash",
		Assumptions: []string{"the HTTP layer is bypassed: handler invoked in-process, so transport errors are out of scope", "origins never announce themselves (announceclient.Disabled on origins), so origin ids and agent ids are disjoint"},
	})
}
