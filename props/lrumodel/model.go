// Package lrumodel is the reference model of a capacity-bounded LRU blob store
// (DESIGN.md Appendix A.1), written from the statements of properties C06/C07
// and the documented contract of disk.Store -- not from its implementation.
//
// State: capacity; per key {reserved, complete, banned, bytes, metadata};
// recency stamps per blob. used = sum of reserved sizes of live blobs.
//
// Recency is kept as an interval [Lo, Hi] per blob: Lo is the stamp of the last
// operation that is documented to be a "use" (completion, Open, re-admission
// by UnbanEviction); Hi is the stamp of the last operation that touched the
// blob at all (Stat, Has, metadata calls, idempotent no-ops: the documentation
// is silent about them, so both readings are admitted). Blob a is
// unambiguously older than blob b iff a.Hi < b.Lo; eviction order is only
// judged between such pairs.
package lrumodel

import (
	"fmt"
	"sort"
)

// Class is the result class of an operation.
type Class int

const (
	OK Class = iota
	Exists
	NotExist
	OutOfScope
	Other // any other error (no space, "metadata does not exist", I/O error)
)

func (c Class) String() string {
	return [...]string{"ok", "exists", "not_exist", "out_of_scope", "other_error"}[c]
}

// Scope mirrors store.BlobScope (same numeric values).
type Scope int

const (
	Any Scope = iota
	OnlyComplete
	OnlyIncomplete
)

func (s Scope) String() string { return [...]string{"any", "complete", "incomplete"}[s] }

// Blob is the model state of one key.
type Blob struct {
	Reserved uint64
	Complete bool
	Banned   bool
	Data     []byte
	MD       map[string][]byte
	Lo, Hi   int64
}

func (b *Blob) clone() *Blob {
	c := *b
	c.Data = append([]byte(nil), b.Data...)
	c.MD = map[string][]byte{}
	for k, v := range b.MD {
		c.MD[k] = append([]byte(nil), v...)
	}
	return &c
}

// Evictable: complete and not banned.
func (b *Blob) Evictable() bool { return b.Complete && !b.Banned }

// Violation is a disagreement between an observed outcome and the model.
type Violation struct {
	Oracle string
	Msg    string
}

func viol(oracle, f string, a ...any) *Violation { return &Violation{oracle, fmt.Sprintf(f, a...)} }

// Model is the reference store.
type Model struct {
	Cap       uint64
	Blobs     map[string]*Blob
	Immovable map[string]bool // metadata suffix -> not movable (dropped on completion)
	clock     int64
}

func New(capacity uint64, immovable map[string]bool) *Model {
	return &Model{Cap: capacity, Blobs: map[string]*Blob{}, Immovable: immovable}
}

func (m *Model) Clone() *Model {
	c := &Model{Cap: m.Cap, Blobs: map[string]*Blob{}, Immovable: m.Immovable, clock: m.clock}
	for k, b := range m.Blobs {
		c.Blobs[k] = b.clone()
	}
	return c
}

// Keys returns the live keys, sorted.
func (m *Model) Keys() []string {
	ks := make([]string, 0, len(m.Blobs))
	for k := range m.Blobs {
		ks = append(ks, k)
	}
	sort.Strings(ks)
	return ks
}

// Used is the reserved space: the sum of the reserved sizes of live blobs.
func (m *Model) Used() uint64 {
	var u uint64
	for _, b := range m.Blobs {
		u += b.Reserved
	}
	return u
}

func (m *Model) tick() int64 { m.clock++; return m.clock }

func (m *Model) use(b *Blob)   { t := m.tick(); b.Lo, b.Hi = t, t }
func (m *Model) touch(b *Blob) { b.Hi = m.tick() }

// Lookup applies the scope rule: scoped views hide exactly the blobs of the
// other completeness.
func (m *Model) Lookup(k string, sc Scope) (*Blob, Class) {
	b, ok := m.Blobs[k]
	if !ok {
		return nil, NotExist
	}
	if (b.Complete && sc == OnlyIncomplete) || (!b.Complete && sc == OnlyComplete) {
		// A scoped view hides the blob: the refused call must have no effect on
		// it, in particular it is not a use (strengthened after seeded change
		// seeded/C07: out-of-scope Open refreshed the LRU position).
		return nil, OutOfScope
	}
	return b, OK
}

func (m *Model) Has(k string, sc Scope) (inStore, inScope bool) {
	b, c := m.Lookup(k, sc)
	if b != nil {
		m.touch(b)
	}
	return c != NotExist, c == OK
}

func (m *Model) List(sc Scope) []string {
	var out []string
	for _, k := range m.Keys() {
		b := m.Blobs[k]
		if (b.Complete && sc == OnlyIncomplete) || (!b.Complete && sc == OnlyComplete) {
			continue
		}
		out = append(out, k)
	}
	return out
}

// Open is a use.
func (m *Model) Open(k string, sc Scope) (Class, []byte) {
	b, c := m.Lookup(k, sc)
	if c != OK {
		return c, nil
	}
	m.use(b)
	return OK, b.Data
}

func (m *Model) Stat(k string, sc Scope) (Class, int) {
	b, c := m.Lookup(k, sc)
	if c != OK {
		return c, 0
	}
	m.touch(b)
	return OK, len(b.Data)
}

// WriteAt applies file semantics to the bytes of k (through an open handle).
func (m *Model) WriteAt(k string, off int, p []byte) {
	b := m.Blobs[k]
	if b == nil {
		return
	}
	b.Data = ApplyWrite(b.Data, off, p)
	m.touch(b)
}

// ApplyWrite returns old with p written at off (zero filled hole if needed).
func ApplyWrite(old []byte, off int, p []byte) []byte {
	n := len(old)
	if off+len(p) > n {
		n = off + len(p)
	}
	out := make([]byte, n)
	copy(out, old)
	copy(out[off:], p)
	return out
}

func (m *Model) MarkComplete(k string) Class {
	b, ok := m.Blobs[k]
	if !ok {
		return NotExist
	}
	if b.Complete {
		m.touch(b)
		return OK
	}
	b.Complete = true
	for s := range b.MD {
		if m.Immovable[s] {
			delete(b.MD, s)
		}
	}
	m.use(b)
	return OK
}

func (m *Model) Delete(k string, sc Scope) Class {
	_, c := m.Lookup(k, sc)
	if c != OK {
		return c
	}
	delete(m.Blobs, k)
	return OK
}

// Remove drops k unconditionally (eviction / resynchronisation).
func (m *Model) Remove(k string) { delete(m.Blobs, k) }

func (m *Model) Ban(k string, sc Scope) Class {
	b, c := m.Lookup(k, sc)
	if c != OK {
		return c
	}
	b.Banned = true
	m.touch(b)
	return OK
}

func (m *Model) Unban(k string, sc Scope) Class {
	b, c := m.Lookup(k, sc)
	if c != OK {
		return c
	}
	if b.Banned {
		b.Banned = false
		m.use(b) // re-admission to the eviction order
	} else {
		m.touch(b)
	}
	return OK
}

func (m *Model) SetMD(k, suffix string, v []byte, sc Scope) Class {
	b, c := m.Lookup(k, sc)
	if c != OK {
		return c
	}
	b.MD[suffix] = append([]byte(nil), v...)
	m.touch(b)
	return OK
}

func (m *Model) GetMD(k, suffix string, sc Scope) (Class, bool, []byte) {
	b, c := m.Lookup(k, sc)
	if c != OK {
		return c, false, nil
	}
	m.touch(b)
	v, ok := b.MD[suffix]
	return OK, ok, v
}

func (m *Model) DelMD(k, suffix string, sc Scope) Class {
	b, c := m.Lookup(k, sc)
	if c != OK {
		return c
	}
	delete(b.MD, suffix)
	m.touch(b)
	return OK
}

func (m *Model) ListMD(k string, sc Scope) (Class, []string) {
	b, c := m.Lookup(k, sc)
	if c != OK {
		return c, nil
	}
	m.touch(b)
	var out []string
	for s := range b.MD {
		out = append(out, s)
	}
	sort.Strings(out)
	return OK, out
}

// WriteAtMD overwrites part of an existing metadata value in place.
func (m *Model) WriteAtMD(k, suffix string, p []byte, off int, sc Scope) Class {
	b, c := m.Lookup(k, sc)
	if c != OK {
		return c
	}
	m.touch(b)
	v, ok := b.MD[suffix]
	if !ok {
		return Other
	}
	b.MD[suffix] = ApplyWrite(v, off, p)
	return OK
}

// Evictable returns the keys that may be evicted (complete, not banned), sorted.
func (m *Model) Evictable() []string {
	var out []string
	for _, k := range m.Keys() {
		if m.Blobs[k].Evictable() {
			out = append(out, k)
		}
	}
	return out
}

func (m *Model) sum(keys []string) uint64 {
	var s uint64
	for _, k := range keys {
		if b := m.Blobs[k]; b != nil {
			s += b.Reserved
		}
	}
	return s
}

func inSet(set []string, k string) bool {
	for _, x := range set {
		if x == k {
			return true
		}
	}
	return false
}

// lruPrefix: no surviving evictable blob is unambiguously older than a victim.
func (m *Model) lruPrefix(victims []string) *Violation {
	for _, v := range victims {
		bv := m.Blobs[v]
		for _, w := range m.Evictable() {
			if inSet(victims, w) {
				continue
			}
			if bw := m.Blobs[w]; bw.Hi < bv.Lo {
				return viol("eviction_not_lru", "%s was evicted although %s was used less recently (last possible use of %s at stamp %d, last certain use of %s at stamp %d)", v, w, w, bw.Hi, v, bv.Lo)
			}
		}
	}
	return nil
}

// Admit validates the observed outcome of Create(k, n) for a key that is not in
// the store -- accepted or refused, and which keys vanished -- and applies it.
// checkOrder=false skips the LRU-order and minimality rules (fault-injecting
// runs, where a failed eviction may leave things half done).
func (m *Model) Admit(k string, n uint64, accepted bool, vanished []string, checkOrder bool) *Violation {
	for _, v := range vanished {
		b := m.Blobs[v]
		if b == nil {
			return viol("model_bug", "vanished key %s is not in the model", v)
		}
		if !b.Evictable() {
			return viol("evicted_unevictable", "Create(%s,%d) made %s disappear, which is %s", k, n, v, describe(b))
		}
	}
	used := m.Used()
	need := used+n > m.Cap
	evictableBytes := m.sum(m.Evictable())
	fits := used-evictableBytes+n <= m.Cap
	gone := m.sum(vanished)
	var v *Violation
	switch {
	case !need:
		if len(vanished) > 0 {
			v = viol("evicted_without_need", "Create(%s,%d): used %d + %d <= capacity %d, yet %v were evicted", k, n, used, n, m.Cap, vanished)
		} else if !accepted {
			v = viol("admission_refused_despite_space", "Create(%s,%d) refused although used %d + %d <= capacity %d", k, n, used, n, m.Cap)
		}
	case accepted:
		if used-gone+n > m.Cap {
			v = viol("admission_exceeds_capacity", "Create(%s,%d) accepted: reserved %d - evicted %d + %d > capacity %d", k, n, used, gone, n, m.Cap)
		} else if checkOrder {
			if v = m.lruPrefix(vanished); v == nil {
				// minimality: before its last victim was taken there was not enough room
				ok := false
				for _, c := range vanished {
					last := true
					for _, u := range vanished {
						if u != c && m.Blobs[u].Lo > m.Blobs[c].Hi {
							last = false
						}
					}
					if last && used-gone+m.Blobs[c].Reserved+n > m.Cap {
						ok = true
					}
				}
				if !ok {
					v = viol("evicted_more_than_needed", "Create(%s,%d): evicting %v freed %d although used %d, capacity %d", k, n, vanished, gone, used, m.Cap)
				}
			}
		}
	default: // needed room and was refused
		if fits && checkOrder {
			v = viol("admission_refused_despite_space", "Create(%s,%d) refused although evicting %v would make room (used %d, evictable %d, capacity %d)", k, n, m.Evictable(), used, evictableBytes, m.Cap)
		} else if checkOrder {
			v = m.lruPrefix(vanished)
		}
	}
	if v != nil {
		return v
	}
	for _, x := range vanished {
		delete(m.Blobs, x)
	}
	if accepted {
		b := &Blob{Reserved: n, MD: map[string][]byte{}}
		m.touch(b)
		m.Blobs[k] = b
	}
	return nil
}

func describe(b *Blob) string {
	s := "incomplete"
	if b.Complete {
		s = "complete"
	}
	if b.Banned {
		s += ", banned from eviction"
	}
	return s
}

// Clean validates the observed outcome of Clean(target, respectBan) by its
// post-condition only (the deletion order among incomplete/banned blobs is
// documented as random) and applies it.
func (m *Model) Clean(target int, respectBan bool, removed []string, failed bool) *Violation {
	if target < 0 || target >= 100 {
		if !failed {
			return viol("clean_accepted_bad_target", "Clean(%d) did not fail", target)
		}
		if len(removed) > 0 {
			return viol("clean_postcondition", "Clean(%d) failed but removed %v", target, removed)
		}
		return nil
	}
	if failed {
		return viol("clean_postcondition", "Clean(%d,%v) failed without faults", target, respectBan)
	}
	targetSize := m.Cap * uint64(target) / 100
	for _, r := range removed {
		b := m.Blobs[r]
		if b == nil {
			return viol("model_bug", "removed key %s is not in the model", r)
		}
		if b.Banned && respectBan {
			return viol("clean_removed_banned", "Clean(%d,respectBan) removed %s, which is banned from eviction", target, r)
		}
	}
	// class priority: evictable complete first, then unbanned incomplete, then banned
	class := func(b *Blob) int {
		switch {
		case b.Banned:
			return 2
		case !b.Complete:
			return 1
		}
		return 0
	}
	for _, r := range removed {
		for _, k := range m.Keys() {
			if !inSet(removed, k) && class(m.Blobs[k]) < class(m.Blobs[r]) {
				return viol("clean_order", "Clean(%d,%v) removed %s (%s) while %s (%s) was kept", target, respectBan, r, describe(m.Blobs[r]), k, describe(m.Blobs[k]))
			}
		}
	}
	var evicted []string
	for _, r := range removed {
		if class(m.Blobs[r]) == 0 {
			evicted = append(evicted, r)
		}
	}
	if v := m.lruPrefix(evicted); v != nil {
		return v
	}
	after := m.Used() - m.sum(removed)
	if after > targetSize {
		for _, k := range m.Keys() {
			if inSet(removed, k) {
				continue
			}
			if b := m.Blobs[k]; !b.Banned || !respectBan {
				return viol("clean_postcondition", "Clean(%d,%v) left %d > target %d bytes although %s (%s) could be removed", target, respectBan, after, targetSize, k, describe(b))
			}
		}
	}
	// not more than asked: the store was above the target before the last removal of the highest class
	if len(removed) > 0 {
		ok := false
		top := 0
		for _, r := range removed {
			if c := class(m.Blobs[r]); c > top {
				top = c
			}
		}
		for _, r := range removed {
			if class(m.Blobs[r]) == top && after+m.Blobs[r].Reserved > targetSize {
				ok = true
			}
		}
		if !ok {
			return viol("clean_removed_more_than_needed", "Clean(%d,%v) removed %v leaving %d, target %d", target, respectBan, removed, after, targetSize)
		}
	}
	for _, r := range removed {
		delete(m.Blobs, r)
	}
	return nil
}
