// C03: an agent commits a blob only after every piece is verified.
//
// Real: store.CADownloadStore, agentstorage.TorrentArchive / Torrent,
// piecereader. Stub: the metainfo client (returns the true metainfo).
//
// One run = one blob, one torrent and 2..5 concurrent writer tasks that call
// Torrent.WritePiece with correct, corrupted, short, long, misplaced, zeroed
// payloads and wrong indices, in any interleaving. The oracle is a reference
// model kept by the harness: the set of pieces for which a correct-payload
// write has returned nil.
package c03

import (
	"bytes"
	"fmt"
	"io"
	"os"
	"path/filepath"
	"strings"
	"sync/atomic"
	"testing"
	"time"

	"github.com/uber-go/tally"
	"github.com/uber/kraken/core"
	"github.com/uber/kraken/lib/store"
	"github.com/uber/kraken/lib/torrent/storage"
	"github.com/uber/kraken/lib/torrent/storage/agentstorage"
	"github.com/uber/kraken/lib/torrent/storage/piecereader"

	"kverif/kit"
	ssync "kverif/shim/sync"
	simrt "kverif/sim"
)

const namespace = "c03-namespace"

// metaInfoStub is the harness stand-in for the tracker's metainfo client.
type metaInfoStub struct{ mi *core.MetaInfo }

func (c metaInfoStub) Download(ns string, d core.Digest) (*core.MetaInfo, error) {
	return c.mi, nil
}

const (
	kCorrect = iota
	kCorrupt
	kShort
	kLong
	kWrongIndex
	kMisplaced
	kZero
)

var kindName = []string{"correct", "corrupt", "short", "long", "wrongindex", "misplaced", "zero"}

type call struct {
	kind    int
	idx     int
	payload []byte
}

type world struct {
	s      *simrt.Sim
	cads   *store.CADownloadStore
	tor    storage.Torrent
	hex    string
	root   string
	blob   []byte
	n      int
	pl     int64
	faulty bool

	// reference model
	acked         []bool // a correct-payload write of piece i has returned nil
	inflightValid []int  // correct-payload writes of piece i invoked, not yet returned
	inflightAny   []int  // any in-range write of piece i invoked, not yet returned
	started       []int  // in-range writes of piece i ever invoked
	maybe         []bool // fault runs: a correct write of i failed; its effects may or may not be there

	quiescent   bool
	cacheChecks int
	calls       int
	accepted    int
}

func (w *world) pieceRange(i int) (int64, int64) {
	lo := int64(i) * w.pl
	hi := lo + w.pl
	if hi > int64(len(w.blob)) {
		hi = int64(len(w.blob))
	}
	return lo, hi
}

func (w *world) piece(i int) []byte {
	lo, hi := w.pieceRange(i)
	return w.blob[lo:hi]
}

// observe evaluates the structural clauses of the property between any two
// scheduling steps (observer mode: kraken locks are no-ops, nothing can run in
// between, so the snapshot is atomic).
func observe(s *simrt.Sim) {
	w, _ := s.Ext["c03"].(*world)
	if w == nil || w.tor == nil {
		return
	}
	bf := w.tor.Bitfield()
	complete := w.tor.Complete()
	bd := w.tor.BytesDownloaded()
	h := uint64(1469598103934665603)
	var lower, upperPieces int64
	allIn := true
	for i := 0; i < w.n; i++ {
		bit := bf.Test(uint(i))
		h = (h ^ b2u(bit)) * 1099511628211
		loose := w.inflightValid[i] > 0 || w.maybe[i]
		switch {
		case bit && !w.acked[i] && !loose:
			s.Fail("bitfield_unverified_piece", "piece %d is reported complete but no correct-payload write of it has returned nil or is in flight (pieces=%d)", i, w.n)
			return
		case !bit && w.acked[i]:
			s.Fail("bitfield_lost_piece", "piece %d is reported incomplete although a correct-payload write of it returned nil", i)
			return
		}
		if w.acked[i] {
			lo, hi := w.pieceRange(i)
			lower += hi - lo
		}
		if w.acked[i] || loose {
			upperPieces++
		} else {
			allIn = false
		}
	}
	h = (h ^ b2u(complete)) * 1099511628211
	s.State(h)
	if uint(w.n) != bf.Len() {
		s.Fail("bitfield_length", "bitfield has %d bits for %d pieces", bf.Len(), w.n)
		return
	}
	if complete && !allIn {
		s.Fail("complete_before_all_verified", "Complete()=true while some piece has neither an acknowledged nor an in-flight correct write (acked=%v)", w.acked)
		return
	}
	upper := upperPieces * w.pl
	if upper > int64(len(w.blob)) {
		upper = int64(len(w.blob))
	}
	if bd < lower || bd > upper {
		s.Fail("bytes_downloaded_inconsistent", "BytesDownloaded=%d outside [%d,%d] implied by the verified pieces (length=%d piece_length=%d acked=%v)", bd, lower, upper, len(w.blob), w.pl, w.acked)
		return
	}
	if w.quiescent {
		if (lower == int64(len(w.blob))) != (bd == int64(len(w.blob))) && !w.faulty {
			s.Fail("bytes_downloaded_inconsistent", "at quiescence BytesDownloaded=%d, length=%d, verified bytes=%d", bd, len(w.blob), lower)
		}
	}
}

func b2u(b bool) uint64 {
	if b {
		return 1
	}
	return 0
}

// checkCache: whenever the cache directory serves the blob its bytes must be
// the blob; when the torrent reports complete the cache must serve it.
func (w *world) checkCache(when string) {
	s := w.s
	complete := w.tor.Complete()
	r, err := w.cads.Cache().GetFileReader(w.hex)
	if err != nil {
		if complete && !w.faulty {
			s.Fail("complete_not_in_cache", "%s: Complete()=true but the cache does not serve the blob: %s", when, w.clean(err))
		}
		return
	}
	defer r.Close()
	w.cacheChecks++
	buf := make([]byte, len(w.blob)+8)
	n, err := io.ReadFull(r, buf)
	if err != nil && err != io.EOF && err != io.ErrUnexpectedEOF {
		if !w.faulty {
			s.Fail("cache_read_error", "%s: reading the cached blob: %s", when, w.clean(err))
		}
		return
	}
	if !bytes.Equal(buf[:n], w.blob) {
		s.Fail("committed_file_differs", "%s: cache serves %d bytes that differ from the %d-byte blob (first difference at %d, Complete()=%v)", when, n, len(w.blob), firstDiff(buf[:n], w.blob), complete)
	}
	s.Probe("cache_file_verified")
}

func firstDiff(a, b []byte) int {
	for i := 0; i < len(a) && i < len(b); i++ {
		if a[i] != b[i] {
			return i
		}
	}
	if len(a) < len(b) {
		return len(a)
	}
	return len(b)
}

func (w *world) write(who int, c call) {
	s := w.s
	i := c.idx
	inRange := i >= 0 && i < w.n
	valid := inRange && bytes.Equal(c.payload, w.piece(i))
	var startedBefore, othersAtInvoke int
	if inRange {
		startedBefore = w.started[i]
		othersAtInvoke = w.inflightAny[i]
		w.started[i]++
		w.inflightAny[i]++
		if valid {
			w.inflightValid[i]++
		}
	}
	w.calls++
	faultsBefore := w.faultCount()
	err := w.tor.WritePiece(piecereader.NewBuffer(c.payload), i)
	// no scheduling point between the return above and the bookkeeping below
	if inRange {
		w.inflightAny[i]--
		if valid {
			w.inflightValid[i]--
		}
	}
	cls := "nil"
	switch {
	case err == storage.ErrPieceComplete:
		cls = "piece_complete"
	case err != nil:
		cls = "error"
	}
	s.Logf("w%d write %s idx=%d len=%d valid=%v -> %s", who, kindName[c.kind], i, len(c.payload), valid, cls)
	if !valid {
		if err == nil {
			s.Fail("invalid_write_accepted", "WritePiece(%s payload of %d bytes, index %d) returned nil (pieces=%d, piece length=%d, expected payload length=%d)", kindName[c.kind], len(c.payload), i, w.n, w.pl, w.expLen(i))
		}
		s.Probe("rejected_" + kindName[c.kind])
		return
	}
	if err == nil {
		if w.acked[i] {
			s.Probe("second_accept_same_piece")
		}
		w.acked[i] = true
		w.accepted++
		s.Probe("accepted_correct")
	} else {
		overlapped := othersAtInvoke > 0 || w.started[i] != startedBefore+1 || w.inflightAny[i] > 0
		switch {
		case w.faulty && w.faultCount() != faultsBefore:
			// a disk fault fired while this call was running: its
			// un-acknowledged effects may be present or absent
			w.maybe[i] = true
			s.Probe("correct_write_failed_under_fault")
		case w.faulty && w.maybe[i]:
		case w.acked[i]:
			s.Probe("duplicate_rejected")
		case overlapped:
			s.Probe("conflict_rejected")
		default:
			s.Fail("valid_write_rejected", "WritePiece(correct payload, index %d) failed with %q although the piece was not verified yet, no other write of it overlapped and no fault was injected", i, w.clean(err))
		}
	}
	if w.tor.Complete() && w.cacheChecks < 6 {
		w.checkCache("after a returned write")
	}
}

// clean removes the (process-specific) directory name from kraken error texts.
func (w *world) clean(err error) string {
	return strings.ReplaceAll(err.Error(), w.root, "$DIR")
}

func (w *world) faultCount() int {
	n := 0
	for k, v := range w.s.Faults {
		if len(k) > 5 && k[:5] == "disk_" {
			n += v
		}
	}
	return n
}

func (w *world) expLen(i int) int {
	if i < 0 || i >= w.n {
		return -1
	}
	return len(w.piece(i))
}

// readPiece: a piece served by GetPieceReader must be verified content.
func (w *world) readPiece(i int) {
	s := w.s
	pr, err := w.tor.GetPieceReader(i)
	if err != nil {
		return
	}
	ok := w.acked[i] || w.inflightValid[i] > 0 || w.maybe[i]
	b, rerr := io.ReadAll(pr)
	pr.Close()
	if !ok {
		s.Fail("served_unverified_piece", "GetPieceReader(%d) succeeded for a piece that was never verified", i)
	}
	if rerr != nil {
		s.Probe("piece_read_error")
		return
	}
	if !bytes.Equal(b, w.piece(i)) {
		s.Fail("served_piece_differs", "GetPieceReader(%d) returned %d bytes that differ from the blob's piece (%d bytes)", i, len(b), len(w.piece(i)))
	}
	s.Probe("piece_read_verified")
}

func genCall(s *simrt.Sim, w *world, idx int, allowNeg bool) call {
	tp := s.Tape
	k := tp.Draw(16)
	kind := kCorrect
	switch k {
	case 8, 9:
		kind = kCorrupt
	case 10:
		kind = kShort
	case 11:
		kind = kLong
	case 12:
		kind = kWrongIndex
	case 13:
		kind = kMisplaced
	case 14:
		kind = kZero
	}
	if w.n == 0 {
		kind = kWrongIndex
	}
	c := call{kind: kind, idx: idx}
	var good []byte
	if w.n > 0 {
		good = w.piece(idx)
	}
	switch kind {
	case kCorrect:
		c.payload = good
	case kCorrupt:
		p := append([]byte(nil), good...)
		p[tp.Draw(len(p))] ^= byte(1 + tp.Draw(255))
		c.payload = p
	case kShort:
		cut := 1 + tp.Draw(3)
		if cut > len(good) {
			cut = len(good)
		}
		c.payload = good[:len(good)-cut]
	case kLong:
		c.payload = append(append([]byte(nil), good...), kit.Bytes(s, 1+tp.Draw(3))...)
	case kWrongIndex:
		choices := []int{w.n, 1<<31 - 1, w.n + 1 + tp.Draw(1000)}
		if allowNeg {
			choices = append(choices, -1, -1-tp.Draw(5))
		}
		c.idx = choices[tp.Draw(len(choices))]
		// payload: what a piece would look like (or empty: the length kraken
		// itself reports for an out-of-range piece)
		if w.n > 0 && tp.Chance(700) {
			c.payload = w.piece(tp.Draw(w.n))
		}
	case kMisplaced:
		j := tp.Draw(w.n)
		c.payload = w.piece(j)
		if len(c.payload) == len(good) && !bytes.Equal(c.payload, good) && core.PieceSum(c.payload) == core.PieceSum(good) {
			c.payload = good // checksum collision: out of the property's scope
		}
	case kZero:
		c.payload = make([]byte, len(good))
	}
	return c
}

func body(s *simrt.Sim, tier string) {
	tp := s.Tape
	// ---- blob and piece length -------------------------------------------
	n := 1 + tp.Draw(41)
	if n == 41 {
		n = 0
	}
	var pl, length int64
	if n == 0 {
		pl = int64(1 + tp.Draw(4096))
	} else {
		maxPl := 65536 / n
		caps := []int{4, 64, 2048, 65536}
		c := caps[tp.Draw(4)]
		if c > maxPl {
			c = maxPl
		}
		pl = int64(1 + tp.Draw(c))
		if tp.Chance(300) {
			length = int64(n) * pl // exact multiple
		} else {
			length = int64(n-1)*pl + int64(1+tp.Draw(int(pl)))
		}
	}
	blob := kit.Bytes(s, int(length))
	switch tp.Draw(4) {
	case 1: // all zero: an unwritten region looks like content
		for i := range blob {
			blob[i] = 0
		}
	case 2: // periodic: every full piece has the same content
		for i := range blob {
			blob[i] = blob[i%int(pl)]
		}
	}
	d, err := core.NewDigester().FromBytes(blob)
	if err != nil {
		s.InfraError("digest: %v", err)
	}
	mi, err := core.NewMetaInfo(d, bytes.NewReader(blob), pl)
	if err != nil {
		s.InfraError("metainfo: %v", err)
	}
	if mi.NumPieces() != n || mi.Length() != length {
		s.InfraError("generator: wanted %d pieces/%d bytes, metainfo has %d/%d", n, length, mi.NumPieces(), mi.Length())
	}
	faulty := tp.Chance(200)
	allowNeg := tp.Chance(250)
	if tp.Chance(300) {
		s.InjectPauses(1+tp.Draw(3), 3000, 10*time.Minute)
	}

	// ---- system under test ------------------------------------------------
	root := tempDir(s)
	cads, err := store.NewCADownloadStore(store.CADownloadStoreConfig{
		DownloadDir:     filepath.Join(root, "download"),
		CacheDir:        filepath.Join(root, "cache"),
		DownloadCleanup: store.CleanupConfig{Disabled: true},
		CacheCleanup:    store.CleanupConfig{Disabled: true},
		WritePartSize:   []int{0, 0, 1000, 4096}[tp.Draw(4)],
		ReadPartSize:    []int{0, 0, 777}[tp.Draw(3)],
	}, tally.NoopScope)
	if err != nil {
		s.Fail("setup_failed", "NewCADownloadStore: %s", strings.ReplaceAll(err.Error(), root, "$DIR"))
	}
	archive := agentstorage.NewTorrentArchive(tally.NoopScope, cads, metaInfoStub{mi})
	tor, err := archive.CreateTorrent(namespace, d)
	if err != nil {
		s.Fail("setup_failed", "CreateTorrent: %s", strings.ReplaceAll(err.Error(), root, "$DIR"))
	}
	w := &world{s: s, cads: cads, tor: tor, hex: d.Hex(), root: root, blob: blob, n: n, pl: pl, faulty: faulty,
		acked: make([]bool, n), inflightValid: make([]int, n), inflightAny: make([]int, n), started: make([]int, n), maybe: make([]bool, n)}
	if tor.NumPieces() != n || tor.Length() != length {
		s.Fail("torrent_shape", "torrent has %d pieces / %d bytes, blob has %d / %d", tor.NumPieces(), tor.Length(), n, length)
	}
	s.Ext["c03"] = w
	s.Logf("blob len=%d pl=%d pieces=%d faulty=%v", length, pl, n, faulty)

	// ---- workload ----------------------------------------------------------
	nWriters := 2 + tp.Draw(4)
	budget := 120
	if tier == "thorough" {
		budget = 200
	}
	lists := make([][]call, nWriters)
	remaining := budget
	for wi := 0; wi < nWriters; wi++ {
		share := budget / nWriters
		if share > remaining {
			share = remaining
		}
		var idxs []int
		mode := tp.Draw(3)
		if wi == 0 && !tp.Chance(350) {
			mode = 0 // usually somebody downloads the whole blob
		}
		switch {
		case n == 0:
			for k := 0; k < 1+tp.Draw(4); k++ {
				idxs = append(idxs, 0)
			}
		case mode == 0: // one pass over every piece from a drawn start, drawn direction
			start, dir := tp.Draw(n), 1
			if tp.Chance(300) {
				dir = n - 1
			}
			for k := 0; k < n && k < remaining; k++ {
				idxs = append(idxs, (start+k*dir)%n)
			}
		case mode == 1: // random pieces
			for k, m := 0, tp.Draw(share+1); k < m; k++ {
				idxs = append(idxs, tp.Draw(n))
			}
		default: // hammer a few pieces
			hot := []int{tp.Draw(n), tp.Draw(n)}
			for k, m := 0, tp.Draw(share/2+1); k < m; k++ {
				idxs = append(idxs, hot[tp.Draw(2)])
			}
		}
		remaining -= len(idxs)
		for _, ix := range idxs {
			c := genCall(s, w, ix, allowNeg)
			lists[wi] = append(lists[wi], c)
			if mode == 0 && n > 0 && c.kind != kCorrect && remaining > 0 {
				// a downloader asks again after a bad payload
				lists[wi] = append(lists[wi], call{kind: kCorrect, idx: ix, payload: w.piece(ix)})
				remaining--
			}
		}
	}
	stopFaults := func() {}
	if faulty {
		stopFaults = kit.InjectDiskFaults(s, kit.DiskFaultRates{EIO: 8, ENOSPC: 8, Short: 8})
	}
	var wg ssync.WaitGroup
	for wi := 0; wi < nWriters; wi++ {
		wg.Add(1)
		simrt.Go(func() {
			defer wg.Done()
			for _, c := range lists[wi] {
				w.write(wi, c)
			}
		})
	}
	if n > 0 && tp.Chance(400) {
		nReads := 1 + tp.Draw(20)
		wg.Add(1)
		simrt.Go(func() {
			defer wg.Done()
			for k := 0; k < nReads; k++ {
				w.readPiece(tp.Draw(n))
				simrt.Yield()
			}
		})
	}
	wg.Wait()
	stopFaults()

	// ---- quiescence --------------------------------------------------------
	w.quiescent = true
	simrt.Yield() // one observer evaluation with nothing in flight
	w.finalChecks("at quiescence")
	if w.tor.Complete() {
		s.Probe("run_completed")
		// the committed file stays the blob whatever is written afterwards
		for k := 0; k < 1+tp.Draw(4); k++ {
			ix := 0
			if n > 0 {
				ix = tp.Draw(n)
			}
			w.write(99, genCall(s, w, ix, false))
		}
		simrt.Sleep(time.Minute)
		w.finalChecks("after completion")
	} else {
		s.Probe("run_incomplete")
	}
	nAcked := 0
	for _, a := range w.acked {
		if a {
			nAcked++
		}
	}
	kit.SetSample(map[string]any{"blob_bytes": length, "piece_length": pl, "pieces": n, "writers": nWriters, "write_calls": w.calls,
		"accepted_correct": w.accepted, "pieces_verified": nAcked, "complete": w.tor.Complete(), "disk_faults": faulty})
}

func (w *world) finalChecks(when string) {
	s := w.s
	bf := w.tor.Bitfield()
	all := true
	for i := 0; i < w.n; i++ {
		bit := bf.Test(uint(i))
		if bit != w.acked[i] && !w.maybe[i] {
			s.Fail("bitfield_mismatch_at_quiescence", "%s: piece %d reported complete=%v, correct write acknowledged=%v", when, i, bit, w.acked[i])
		}
		if !w.acked[i] {
			all = false
		}
		if bit {
			w.readPiece(i)
		}
	}
	complete := w.tor.Complete()
	if all && !complete && !w.faulty {
		s.Fail("all_verified_not_complete", "%s: every piece was written with a correct payload and acknowledged, but Complete()=false", when)
	}
	w.cacheChecks = 0
	w.checkCache(when)
	st := w.tor.Stat()
	if st.Bitfield().Count() != bf.Count() && !w.faulty {
		s.Fail("stat_mismatch", "%s: Stat() bitfield has %d pieces, Bitfield() %d", when, st.Bitfield().Count(), bf.Count())
	}
	if len(w.tor.MissingPieces())+int(bf.Count()) != w.n {
		s.Fail("missing_pieces_mismatch", "%s: MissingPieces()=%v with %d pieces complete of %d", when, w.tor.MissingPieces(), bf.Count(), w.n)
	}
}

var dirSeq atomic.Int64

// tempDir is kit.TempDir with a fixed-width name: the simulator's event-log
// hash covers the length of every path reaching the disk shim, so the name
// must have the same length in every process.
func tempDir(s *simrt.Sim) string {
	for {
		d := fmt.Sprintf("/dev/shm/ksim-%08d-%07d-c03", os.Getpid(), dirSeq.Add(1)%10000000)
		if err := os.Mkdir(d, 0o700); err == nil {
			s.AtEnd(func() { os.RemoveAll(d) })
			return d
		} else if !os.IsExist(err) {
			panic(err)
		}
	}
}

func TestC03(t *testing.T) {
	kit.Main(t, kit.Spec{
		Property: "C03",
		Body:     body,
		Config: func(tier string) simrt.Config {
			return simrt.Config{MaxSteps: 400000, Horizon: 24 * time.Hour, PanicIsFailure: true, Observe: observe}
		},
		Real:        []string{"lib/store.CADownloadStore", "lib/store/base (FileOp, FileEntry, FileMap)", "agentstorage.TorrentArchive", "agentstorage.Torrent", "piecereader.Buffer / FileReader", "core.MetaInfo"},
		Stub:        []string{"metainfoclient.Client (returns the true metainfo)", "tally.NoopScope", "store cleanup jobs disabled"},
		Rule:        "one run = one blob (0..64 KiB; random / all-zero / periodic content), piece length drawn so that there are 0..40 pieces incl. exact multiples, 2..5 writer tasks with tape-drawn lists of WritePiece calls (correct, corrupted, short, long, misplaced, zeroed payloads, wrong indices), optional reader task, optional injected pauses, optional disk faults (EIO/ENOSPC/short writes), tape-drawn scheduling strategy; " + fmt.Sprint("bounds: <=120 write calls (200 thorough)"),
		Assumptions: []string{"PieceReader.Length() is honest (piecereader.Buffer); checksum collisions of different payloads are out of scope", "process does not crash (see C04)"},
	})
}
