// C04: an agent crash at any point never yields a wrong cached blob
// (fault_enumeration).
//
// One run = one download script drawn from the tape (create the torrent
// through the archive, write the pieces in a drawn order with a few bad
// payloads; the last good piece commits the blob). The script is executed once
// to count its M mutating file-system operations, then re-executed on a fresh
// directory for EVERY k in 1..M with the process killed when op k is about to
// happen. After each crash the agent is "restarted" (new CADownloadStore + new
// TorrentArchive on the same directories) and judged.
package c04

import (
	"bytes"
	"fmt"
	"io"
	"os"
	"path/filepath"
	"sort"
	"strings"
	"sync/atomic"
	"testing"
	"time"

	"github.com/uber-go/tally"
	"github.com/uber/kraken/core"
	"github.com/uber/kraken/lib/store"
	"github.com/uber/kraken/lib/torrent/storage"
	"github.com/uber/kraken/lib/torrent/storage/agentstorage"
	"github.com/uber/kraken/lib/torrent/storage/piecereader"

	"kverif/kit"
	simrt "kverif/sim"
)

const namespace = "c04-namespace"

type metaInfoStub struct{ mi *core.MetaInfo }

func (c metaInfoStub) Download(ns string, d core.Digest) (*core.MetaInfo, error) {
	return c.mi, nil
}

type step struct {
	idx     int
	payload []byte
	valid   bool
	kind    string
}

type script struct {
	blob      []byte
	n         int
	pl        int64
	mi        *core.MetaInfo
	d         core.Digest
	steps     []step
	writePart int
	probeMask int // which read-only probes run after a restart, before the download is started again
	// abortAfter > 0: after that many writes the downloader gives the torrent
	// up (TorrentArchive.DeleteTorrent) and starts it again from scratch, so
	// the removal of a partial download is part of the enumerated history.
	abortAfter int
	// evictMode: how the blob is removed after the recovery and downloaded
	// again (bit0: through the store's cache scope, as the cleanup job does,
	// instead of TorrentArchive.DeleteTorrent; bit1: in a new process; bit2:
	// another new process between the removal and the new download).
	evictMode int
	// evictEarly: remove the torrent right after the restart, while it may
	// still be a partial download, instead of completing it first.
	evictEarly bool
}

func (sc *script) piece(i int) []byte {
	lo := int64(i) * sc.pl
	hi := lo + sc.pl
	if hi > int64(len(sc.blob)) {
		hi = int64(len(sc.blob))
	}
	return sc.blob[lo:hi]
}

func genScript(s *simrt.Sim, tier string, small, bigPieces bool) *script {
	tp := s.Tape
	maxN := 12
	if tier == "thorough" {
		maxN = 40
	}
	if small {
		maxN = 5
	}
	if bigPieces && maxN > 6 {
		maxN = 6
	}
	n := 1 + tp.Draw(maxN)
	maxPl := 65536 / n
	caps := []int{4, 64, 2048, 65536}
	c := caps[tp.Draw(4)]
	if c > maxPl {
		c = maxPl
	}
	pl := int64(1 + tp.Draw(c))
	if bigPieces { // pieces longer than a page, so that a write can be torn
		pl = int64(4097 + tp.Draw(maxPl-4097))
	}
	var length int64
	if tp.Chance(300) {
		length = int64(n) * pl
	} else {
		length = int64(n-1)*pl + int64(1+tp.Draw(int(pl)))
	}
	blob := kit.Bytes(s, int(length))
	switch tp.Draw(4) {
	case 1: // first byte of every piece is zero-free: a zero-filled file is wrong in every piece
		for i := range blob {
			if blob[i] == 0 {
				blob[i] = 1
			}
		}
	case 2: // periodic content
		for i := range blob {
			blob[i] = blob[i%int(pl)]
		}
	}
	d, err := core.NewDigester().FromBytes(blob)
	if err != nil {
		s.InfraError("digest: %v", err)
	}
	mi, err := core.NewMetaInfo(d, bytes.NewReader(blob), pl)
	if err != nil {
		s.InfraError("metainfo: %v", err)
	}
	if mi.NumPieces() != n || mi.Length() != length {
		s.InfraError("generator: wanted %d pieces/%d bytes, metainfo has %d/%d", n, length, mi.NumPieces(), mi.Length())
	}
	sc := &script{blob: blob, n: n, pl: pl, mi: mi, d: d}
	sc.writePart = []int{0, 0, 1000, 4096}[tp.Draw(4)]
	sc.probeMask = 7 - tp.Draw(8)
	sc.evictMode = tp.Draw(8)
	sc.evictEarly = tp.Chance(300)
	abort := tp.Chance(300)
	// piece order: Fisher-Yates from the tape (all-zero tape = in order)
	order := make([]int, n)
	for i := range order {
		order[i] = i
	}
	for i := 0; i < n-1; i++ {
		j := i + tp.Draw(n-i)
		order[i], order[j] = order[j], order[i]
	}
	for _, ix := range order {
		if tp.Chance(150) {
			good := sc.piece(ix)
			bad := step{idx: ix}
			switch tp.Draw(5) {
			case 0:
				p := append([]byte(nil), good...)
				p[tp.Draw(len(p))] ^= byte(1 + tp.Draw(255))
				bad.payload, bad.kind = p, "corrupt"
			case 1:
				bad.payload, bad.kind = good[:len(good)-1], "short"
			case 2:
				bad.idx, bad.payload, bad.kind = n, good, "wrongindex"
			case 3:
				bad.payload, bad.kind = make([]byte, len(good)), "zero"
			case 4:
				bad.idx, bad.payload, bad.kind = 1<<31-1, good, "wrongindex"
			}
			bad.valid = bad.idx < n && bytes.Equal(bad.payload, sc.piece(bad.idx))
			sc.steps = append(sc.steps, bad)
		}
		sc.steps = append(sc.steps, step{idx: ix, payload: sc.piece(ix), valid: true, kind: "correct"})
		if tp.Chance(60) { // duplicate delivery
			sc.steps = append(sc.steps, step{idx: ix, payload: sc.piece(ix), valid: true, kind: "correct"})
		}
	}
	if abort {
		sc.abortAfter = 1 + tp.Draw(len(sc.steps))
	}
	return sc
}

func storeConfig(dir string, sc *script) store.CADownloadStoreConfig {
	return store.CADownloadStoreConfig{
		DownloadDir:     filepath.Join(dir, "download"),
		CacheDir:        filepath.Join(dir, "cache"),
		DownloadCleanup: store.CleanupConfig{Disabled: true},
		CacheCleanup:    store.CleanupConfig{Disabled: true},
		WritePartSize:   sc.writePart,
	}
}

// progress is what the harness knows about a (possibly interrupted) execution.
type progress struct {
	stepsDone int
	finished  bool
	err       string
}

// download is the agent process before the crash.
func download(dir string, sc *script, pr *progress) func() {
	return func() {
		cads, err := store.NewCADownloadStore(storeConfig(dir, sc), tally.NoopScope)
		if err != nil {
			pr.err = "NewCADownloadStore: " + err.Error()
			return
		}
		arch := agentstorage.NewTorrentArchive(tally.NoopScope, cads, metaInfoStub{sc.mi})
		tor, err := arch.CreateTorrent(namespace, sc.d)
		if err != nil {
			pr.err = "CreateTorrent: " + err.Error()
			return
		}
		steps := sc.steps
		if sc.abortAfter > 0 {
			steps = append(append([]step(nil), sc.steps[:sc.abortAfter]...), step{kind: "abort"})
			steps = append(steps, sc.steps...)
		}
		for _, st := range steps {
			if st.kind == "abort" {
				if tor.Complete() {
					continue // a finished download is not given up (eviction is judged after the recovery)
				}
				if err := arch.DeleteTorrent(sc.d); err != nil {
					pr.err = "DeleteTorrent of the partial download: " + err.Error()
					return
				}
				if tor, err = arch.CreateTorrent(namespace, sc.d); err != nil {
					pr.err = "CreateTorrent after DeleteTorrent: " + err.Error()
					return
				}
				pr.stepsDone++
				continue
			}
			err := tor.WritePiece(piecereader.NewBuffer(st.payload), st.idx)
			if !st.valid && err == nil {
				pr.err = fmt.Sprintf("WritePiece(%s payload, index %d) returned nil", st.kind, st.idx)
				return
			}
			if st.valid && err != nil && err != storage.ErrPieceComplete {
				pr.err = fmt.Sprintf("WritePiece(correct payload, index %d): %v", st.idx, err)
				return
			}
			pr.stepsDone++
		}
		if !tor.Complete() {
			pr.err = "every piece written but Complete()=false"
			return
		}
		pr.finished = true
	}
}

type violation struct {
	oracle string
	msg    string
}

type enum struct {
	s    *simrt.Sim
	sc   *script
	viol []violation
}

func (e *enum) report(oracle, where, format string, args ...any) {
	e.viol = append(e.viol, violation{oracle, where + ": " + fmt.Sprintf(format, args...)})
	e.s.Logf("violating crash point: %s: %s", oracle, e.viol[len(e.viol)-1].msg)
}

// readAll reads a store.FileReader fully (few scheduling points).
func readAll(r io.Reader, want int) ([]byte, error) {
	buf := make([]byte, want+8)
	n, err := io.ReadFull(r, buf)
	if err != nil && err != io.EOF && err != io.ErrUnexpectedEOF {
		return nil, err
	}
	return buf[:n], nil
}

func firstDiff(a, b []byte) int {
	for i := 0; i < len(a) && i < len(b); i++ {
		if a[i] != b[i] {
			return i
		}
	}
	if len(a) < len(b) {
		return len(a)
	}
	return len(b)
}

// cacheServes: does the cache directory serve the blob, and if so correctly?
func (e *enum) cacheServes(cads *store.CADownloadStore, where, what string) (served, ok bool) {
	r, err := cads.Cache().GetFileReader(e.sc.d.Hex())
	if err != nil {
		return false, true
	}
	defer r.Close()
	b, err := readAll(r, len(e.sc.blob))
	if err != nil {
		return false, true // could not be served
	}
	if !bytes.Equal(b, e.sc.blob) {
		e.report("wrong_bytes_served", where, "%s: the cache serves %d bytes that differ from the %d-byte blob (first difference at offset %d)", what, len(b), len(e.sc.blob), firstDiff(b, e.sc.blob))
		return true, false
	}
	return true, true
}

// checkTorrent judges what a Torrent handed out after a restart claims.
func (e *enum) checkTorrent(cads *store.CADownloadStore, t storage.Torrent, where, what string) bool {
	sc := e.sc
	if t.Complete() {
		served, ok := e.cacheServes(cads, where, what+" reports Complete()")
		if !ok {
			return false
		}
		if !served {
			e.report("complete_not_served", where, "%s reports Complete() but the cache does not serve the blob", what)
			return false
		}
	}
	if t.NumPieces() != sc.n || t.Length() != int64(len(sc.blob)) || t.Digest() != sc.d || t.InfoHash() != sc.mi.InfoHash() {
		e.report("torrent_misdescribed", where, "%s: torrent has %d pieces / %d bytes / digest %s, blob has %d / %d / %s", what, t.NumPieces(), t.Length(), t.Digest().Hex()[:8], sc.n, len(sc.blob), sc.d.Hex()[:8])
		return false
	}
	bf := t.Bitfield()
	if bf.Len() != uint(sc.n) {
		e.report("torrent_misdescribed", where, "%s: bitfield has %d bits for %d pieces", what, bf.Len(), sc.n)
		return false
	}
	for i := 0; i < sc.n; i++ {
		if !bf.Test(uint(i)) {
			continue
		}
		pr, err := t.GetPieceReader(i)
		if err != nil {
			e.report("complete_piece_unreadable", where, "%s: piece %d is reported complete but GetPieceReader fails: %s", what, i, e.clean(err.Error()))
			return false
		}
		b, err := io.ReadAll(pr)
		pr.Close()
		if err != nil {
			e.report("complete_piece_unreadable", where, "%s: piece %d is reported complete but reading it fails: %s", what, i, e.clean(err.Error()))
			return false
		}
		if !bytes.Equal(b, sc.piece(i)) {
			e.report("wrong_piece_reported_complete", where, "%s: piece %d is reported complete after the restart but its %d bytes on disk differ from the blob's piece", what, i, len(b))
			return false
		}
	}
	return true
}

var curDir string

func (e *enum) clean(msg string) string {
	if curDir != "" {
		msg = strings.ReplaceAll(msg, curDir, "$DIR")
	}
	return msg
}

// restart is the agent process after the crash: new store and archive on the
// same directories, read-only probes, then the download is started again and
// must complete with the right bytes. It may itself run in a node that crashes
// (second crash).
func (e *enum) restart(dir string, where string) func() {
	return func() {
		sc := e.sc
		cads, arch := e.newProcess(dir, where)
		if cads == nil {
			return
		}
		if sc.probeMask&1 != 0 {
			if info, err := arch.Stat(namespace, sc.d); err == nil {
				e.s.Probe("stat_after_restart_ok")
				if info.Digest() != sc.d || info.InfoHash() != sc.mi.InfoHash() || info.Bitfield().Len() != uint(sc.n) {
					e.report("torrent_misdescribed", where, "Stat: digest %s, %d-bit bitfield; the torrent has digest %s and %d pieces", info.Digest().Hex()[:8], info.Bitfield().Len(), sc.d.Hex()[:8], sc.n)
					return
				}
			} else {
				e.s.Probe("stat_after_restart_err")
			}
		}
		if sc.probeMask&2 != 0 {
			if served, ok := e.cacheServes(cads, where, "right after the restart"); !ok {
				return
			} else if served {
				e.s.Probe("cache_serves_after_restart")
			}
		}
		if sc.probeMask&4 != 0 {
			if t, err := arch.GetTorrent(namespace, sc.d); err == nil {
				e.s.Probe("get_torrent_after_restart_ok")
				if !e.checkTorrent(cads, t, where, "GetTorrent") {
					return
				}
			} else {
				e.s.Probe("get_torrent_after_restart_err")
			}
		}
		if !sc.evictEarly {
			if !e.completeDownload(cads, arch, where, "after the restart") {
				return
			}
		}
		// ---- the blob is removed and the same digest is downloaded again ------
		if sc.evictMode&2 != 0 {
			if cads, arch = e.newProcess(dir, where); cads == nil {
				return
			}
		}
		var derr error
		if sc.evictMode&1 != 0 && !sc.evictEarly {
			derr = cads.Cache().DeleteFile(sc.d.Hex())
		} else {
			derr = arch.DeleteTorrent(sc.d)
		}
		if derr != nil {
			e.s.Probe("evict_error")
		} else {
			e.s.Probe("evicted")
		}
		if sc.evictMode&4 != 0 {
			if cads, arch = e.newProcess(dir, where); cads == nil {
				return
			}
		}
		if _, ok := e.cacheServes(cads, where, "after the blob was removed"); !ok {
			return
		}
		e.completeDownload(cads, arch, where, "after the blob was removed and its download started from scratch")
	}
}

func (e *enum) newProcess(dir, where string) (*store.CADownloadStore, *agentstorage.TorrentArchive) {
	cads, err := store.NewCADownloadStore(storeConfig(dir, e.sc), tally.NoopScope)
	if err != nil {
		e.report("restart_failed", where, "NewCADownloadStore on the old directories: %s", e.clean(err.Error()))
		return nil, nil
	}
	return cads, agentstorage.NewTorrentArchive(tally.NoopScope, cads, metaInfoStub{e.sc.mi})
}

// completeDownload starts the download (again) through the public path and
// drives it to completion: CreateTorrent, a correct WritePiece for every piece
// reported missing, Complete(), byte-identical cache file. Everything the
// torrent claims on the way is judged by checkTorrent.
func (e *enum) completeDownload(cads *store.CADownloadStore, arch *agentstorage.TorrentArchive, where, phase string) bool {
	sc := e.sc
	t, err := arch.CreateTorrent(namespace, sc.d)
	if err != nil {
		e.report("download_cannot_restart", where, "CreateTorrent %s fails: %s", phase, e.clean(err.Error()))
		return false
	}
	if !e.checkTorrent(cads, t, where, "CreateTorrent "+phase) {
		return false
	}
	missing := t.MissingPieces()
	// oracle-visible state: which pieces survived, committed or not
	h := uint64(1469598103934665603)
	for _, v := range append([]int{sc.n, len(sc.blob) & 0xfff, b2i(t.Complete())}, missing...) {
		h = (h ^ uint64(v)) * 1099511628211
	}
	e.s.State(h)
	if len(missing) < sc.n {
		e.s.Probe("progress_kept")
	}
	for _, i := range missing {
		if i < 0 || i >= sc.n {
			e.report("torrent_misdescribed", where, "%s: MissingPieces() contains %d (pieces=%d)", phase, i, sc.n)
			return false
		}
		if err := t.WritePiece(piecereader.NewBuffer(sc.piece(i)), i); err != nil {
			e.report("download_cannot_restart", where, "%s WritePiece(correct payload, missing piece %d) fails: %s", phase, i, e.clean(err.Error()))
			return false
		}
	}
	if !t.Complete() {
		e.report("download_cannot_restart", where, "%s every piece reported missing (%v) was written successfully but Complete()=false", phase, missing)
		return false
	}
	served, ok := e.cacheServes(cads, where, "download completed "+phase)
	if !ok {
		return false
	}
	if !served {
		e.report("complete_not_served", where, "download %s reports Complete() but the cache does not serve the blob", phase)
		return false
	}
	return true
}

func b2i(b bool) int {
	if b {
		return 1
	}
	return 0
}

func newDir(s *simrt.Sim) string {
	d := tempDir(s)
	curDir = d
	return d
}

func opName(s *simrt.Sim, dir string) string {
	l := s.Disk().OpLog
	if len(l) == 0 {
		return "?"
	}
	op := l[len(l)-1]
	s.Disk().OpLog = l[:0]
	if i := strings.Index(op, " "); i >= 0 {
		op = op[i+1:]
	}
	return strings.ReplaceAll(op, dir, "")
}

func body(s *simrt.Sim, tier string) {
	tp := s.Tape
	pick := tp.Draw(6)
	double := tier == "thorough" && tp.Chance(300)
	torn := tier == "thorough" && tp.Chance(400)
	sc := genScript(s, tier, double, torn)
	s.Disk().TornOK = torn
	s.Disk().OpLogOn = true
	e := &enum{s: s, sc: sc}
	s.Logf("script pieces=%d pl=%d len=%d steps=%d mask=%d abort=%d evict=%d early=%v", sc.n, sc.pl, len(sc.blob), len(sc.steps), sc.probeMask, sc.abortAfter, sc.evictMode, sc.evictEarly)

	// ---- reference execution: count the mutating disk ops -----------------
	d0 := newDir(s)
	var p0 progress
	_, m := kit.RunNode(s, "count", 0, download(d0, sc, &p0))
	s.Disk().OpLog = s.Disk().OpLog[:0]
	if !p0.finished {
		s.Fail("script_failed", "the download script fails without any crash: %s", e.clean(p0.err))
	}
	if served, ok := e.cacheServes(mustStore(s, d0, sc), "no crash", "reference execution"); !ok || !served {
		s.Fail("script_failed", "reference execution did not leave the blob in the cache (served=%v)", served)
	}
	// crash point M+1: the process dies right after its last disk operation
	curDir = d0
	kit.RunNode(s, "restart-after-commit", 0, e.restart(d0, fmt.Sprintf("process exit after all %d disk ops", m)))
	s.Disk().OpLog = s.Disk().OpLog[:0]
	kit.Extra["crash_points_executed"]++
	os.RemoveAll(d0)

	// ---- every crash point --------------------------------------------------
	points, doubles := 0, 0
	for k := 1; k <= m; k++ {
		dir := newDir(s)
		var p progress
		crashed, _ := kit.RunNode(s, fmt.Sprintf("agent-k%d", k), k, download(dir, sc, &p))
		op := "none"
		if crashed {
			op = opName(s, dir)
		} else {
			s.Disk().OpLog = s.Disk().OpLog[:0]
			s.Probe("crash_point_not_reached")
			if !p.finished {
				e.report("script_failed", fmt.Sprintf("k=%d", k), "download failed without a crash: %s", e.clean(p.err))
			}
		}
		where := fmt.Sprintf("crash before disk op %d/%d (%s) after %d/%d writes", k, m, op, p.stepsDone, len(sc.steps))
		s.Logf("k=%d op=%s steps=%d", k, op, p.stepsDone)
		points++
		kit.Extra["crash_points_executed"]++
		nviol := len(e.viol)
		_, mrec := kit.RunNode(s, fmt.Sprintf("restart-k%d", k), 0, e.restart(dir, where))
		s.Disk().OpLog = s.Disk().OpLog[:0]
		os.RemoveAll(dir)
		if len(e.viol) != nviol || mrec == 0 {
			continue
		}
		// ---- second crash: at every op of the recovery run (thorough, 30% of the
		// scripts), otherwise at one drawn op of it per first crash point --------
		jFrom, jTo := 1, mrec
		if !double {
			jFrom = 1 + tp.Draw(mrec)
			jTo = jFrom
			s.Probe("second_crash_sampled")
		}
		for j := jFrom; j <= jTo; j++ {
			dir := newDir(s)
			var p progress
			kit.RunNode(s, fmt.Sprintf("agent-k%d-j%d", k, j), k, download(dir, sc, &p))
			op1 := opName(s, dir)
			crashed2, _ := kit.RunNode(s, fmt.Sprintf("restart-k%d-j%d", k, j), j, e.restart(dir, "first restart of "+where))
			op2 := "none"
			if crashed2 {
				op2 = opName(s, dir)
			}
			s.Disk().OpLog = s.Disk().OpLog[:0]
			doubles++
			kit.Extra["double_crash_points_executed"]++
			nv := len(e.viol)
			where2 := fmt.Sprintf("crash before disk op %d/%d (%s), restart, second crash before recovery disk op %d/%d (%s)", k, m, op1, j, mrec, op2)
			kit.RunNode(s, fmt.Sprintf("restart2-k%d-j%d", k, j), 0, e.restart(dir, where2))
			s.Disk().OpLog = s.Disk().OpLog[:0]
			os.RemoveAll(dir)
			if len(e.viol) != nv {
				break // one report per first crash point is enough
			}
		}
	}
	kit.SetSample(map[string]any{"pieces": sc.n, "piece_length": sc.pl, "blob_bytes": len(sc.blob), "script_writes": len(sc.steps),
		"mutating_disk_ops": m, "abort_after_writes": sc.abortAfter, "evict_mode": sc.evictMode, "evict_before_completion": sc.evictEarly, "crash_points_executed": points, "double_crash_points_executed": doubles, "torn_writes": s.Disk().TornOK, "violating_crash_points": len(e.viol)})
	if len(e.viol) == 0 {
		return
	}
	// Several crash points may violate; which class is reported is a tape
	// choice so that every class gets reported (and minimised) by some run.
	var ids []string
	first := map[string]violation{}
	count := map[string]int{}
	for _, v := range e.viol {
		if _, ok := first[v.oracle]; !ok {
			first[v.oracle] = v
			ids = append(ids, v.oracle)
		}
		count[v.oracle]++
	}
	sort.Strings(ids)
	id := ids[pick%len(ids)]
	var summary []string
	for _, x := range ids {
		summary = append(summary, fmt.Sprintf("%s x%d", x, count[x]))
	}
	s.Fail(id, "%s [script: %d pieces of %d bytes, blob %d bytes, %d disk ops; violating crash points in this script: %s]", first[id].msg, sc.n, sc.pl, len(sc.blob), m, strings.Join(summary, ", "))
}

func mustStore(s *simrt.Sim, dir string, sc *script) *store.CADownloadStore {
	cads, err := store.NewCADownloadStore(storeConfig(dir, sc), tally.NoopScope)
	if err != nil {
		s.Fail("restart_failed", "NewCADownloadStore: %s", strings.ReplaceAll(err.Error(), dir, "$DIR"))
	}
	return cads
}

var dirSeq atomic.Int64

// tempDir is kit.TempDir with a fixed-width name: the simulator's event-log
// hash covers the length of every path reaching the disk shim, so the name
// must have the same length in every process.
func tempDir(s *simrt.Sim) string {
	for {
		d := fmt.Sprintf("/dev/shm/ksim-%08d-%07d-c04", os.Getpid(), dirSeq.Add(1)%10000000)
		if err := os.Mkdir(d, 0o700); err == nil {
			s.AtEnd(func() { os.RemoveAll(d) })
			return d
		} else if !os.IsExist(err) {
			panic(err)
		}
	}
}

func TestC04(t *testing.T) {
	kit.Main(t, kit.Spec{
		Property: "C04",
		Body:     body,
		Config: func(tier string) simrt.Config {
			return simrt.Config{MaxSteps: 20_000_000, Horizon: 24 * time.Hour, PanicIsFailure: true}
		},
		PerRun:      func() { curDir = "" },
		Real:        []string{"lib/store.CADownloadStore", "lib/store/base (FileOp, FileEntry, FileMap, compareAndWriteFile)", "agentstorage.TorrentArchive", "agentstorage.Torrent", "piecereader", "core.MetaInfo", "lib/store/metadata"},
		Stub:        []string{"metainfoclient.Client (returns the true metainfo)", "tally.NoopScope", "store cleanup jobs disabled", "file system = tmpfs through shim/os, process-crash model (completed system calls persist)"},
		Rule:        "one run = one download script (1..12 pieces quick / 1..40 thorough, blob <=64 KiB, drawn piece order, ~15% bad payloads, duplicates) executed M+1 times: once to count the M mutating disk ops, then once per crash point k=1..M (process killed before op k), each followed by restart + read-only probes (Stat, cache read, GetTorrent per drawn mask) + restarted download to completion + removal of the blob through the public API (drawn: DeleteTorrent or cache-scope DeleteFile, same or new process, before or after completing) + a new download of the same digest from scratch; 30% of scripts give a partial download up (DeleteTorrent) and start over inside the enumerated history; after every first crash point one drawn second crash point of the recovery run (restart, removal, new download included) is executed too; thorough adds, for 30% of (smaller) scripts, every second crash point of the recovery run, and torn (page-prefix) writes; evaluations = scripts, extra.crash_points_executed = crash points",
		Assumptions: []string{"process-crash model: every completed system call persists, no reordering, no power loss", "the metainfo service answers after the restart", "single sequential downloader per agent process (concurrency is C03)"},
	})
}
