package origincluster

import (
	"errors"
	"fmt"
	"net/http"
	"os"
	"path/filepath"

	"github.com/jmoiron/sqlx"
	"github.com/uber-go/tally"
	"github.com/uber/kraken/build-index/tagclient"
	"github.com/uber/kraken/build-index/tagserver"
	"github.com/uber/kraken/build-index/tagstore"
	"github.com/uber/kraken/build-index/tagtype"
	"github.com/uber/kraken/lib/backend"
	"github.com/uber/kraken/lib/persistedretry"
	"github.com/uber/kraken/lib/persistedretry/tagreplication"
	"github.com/uber/kraken/lib/persistedretry/writeback"
	"github.com/uber/kraken/lib/store"
	"go.opentelemetry.io/otel"

	simrt "kverif/sim"
	"kverif/simhttp"
	"kverif/simsql"
)

// TagRoot is the backend root under which build-indexes store tags.
const TagRoot = "tags"

// IndexConfig describes one build-index.
type IndexConfig struct {
	Addr        string
	Dir         string // durable root: <Dir>/cache, <Dir>/upload, <Dir>/kraken.db
	BackendAddr string
	Origins     []string // origin cluster addresses
	Store       store.SimpleStoreConfig
	WriteBack   persistedretry.Config
	TagStore    tagstore.Config
	Server      tagserver.Config
	Resolver    tagtype.DependencyResolver // harness stub: tag -> dependency digests
}

// Index is one incarnation of a build-index process.
type Index struct {
	Cfg       IndexConfig
	Node      *simrt.Node
	Store     *store.SimpleStore
	Backends  *backend.Manager
	DB        *sqlx.DB
	WriteBack persistedretry.Manager
	TagStore  tagstore.Store
	Server    *tagserver.Server
	Handler   http.Handler
}

// noReplication stands in for the tag replication manager: the harnesses never
// configure remotes, so it must never be asked to do anything.
type noReplication struct{}

func (noReplication) Add(persistedretry.Task) error {
	return errors.New("tag replication not configured")
}
func (noReplication) SyncExec(persistedretry.Task) error {
	return errors.New("tag replication not configured")
}
func (noReplication) Close() {}
func (noReplication) Find(interface{}) ([]persistedretry.Task, error) {
	return nil, errors.New("tag replication not configured")
}

// BuildIndex runs build-index/cmd's constructor chain (minus listeners, nginx,
// TLS, metrics, remotes / tag replication). Must run in a task of the node.
func BuildIndex(s *simrt.Sim, cfg IndexConfig) (*Index, error) {
	x := &Index{Cfg: cfg, Node: simrt.CurNode()}
	cfg.Store.CacheDir = CacheDir(cfg.Dir)
	cfg.Store.UploadDir = UploadDir(cfg.Dir)
	ss, err := store.NewSimpleStore(cfg.Store, tally.NoopScope)
	if err != nil {
		return nil, fmt.Errorf("simplestore: %w", err)
	}
	x.Store = ss
	if x.Backends, err = NewBackendManager(".*", cfg.BackendAddr, TagRoot); err != nil {
		return nil, fmt.Errorf("backends: %w", err)
	}
	if x.DB, err = simsql.Open(s, DBPath(cfg.Dir)); err != nil {
		return nil, fmt.Errorf("localdb: %w", err)
	}
	x.WriteBack, err = persistedretry.NewManager(cfg.WriteBack, tally.NoopScope,
		writeback.NewStore(x.DB), writeback.NewExecutor(tally.NoopScope, ss, x.Backends))
	if err != nil {
		return nil, fmt.Errorf("write-back manager: %w", err)
	}
	x.TagStore = tagstore.New(cfg.TagStore, ss, x.Backends, x.WriteBack)
	x.Server = tagserver.New(cfg.Server, tally.NoopScope, x.Backends, "origins.local:80", ClusterClient(0, cfg.Origins...),
		StaticList(nil), x.TagStore, tagreplication.Remotes{}, noReplication{}, tagclient.NewProvider(nil), cfg.Resolver,
		otel.Tracer("kraken-build-index"))
	x.Handler = x.Server.Handler()
	return x, nil
}

// StartIndex is Start for a build-index.
func StartIndex(s *simrt.Sim, hn *simhttp.Net, name string, cfg IndexConfig, crashAt int) (*simrt.Node, *Index, error) {
	n := s.NewNode(name)
	n.CrashAt = crashAt
	var x *Index
	var berr error
	t := s.GoNode(n, name+":boot", func() {
		x, berr = BuildIndex(s, cfg)
		if berr == nil {
			hn.Register(cfg.Addr, n, x.Handler)
		}
	})
	s.Wait(t)
	if n.Dead {
		return n, nil, nil
	}
	if berr != nil {
		s.KillNode(n)
		return n, nil, errors.New(shorten(berr))
	}
	return n, x, nil
}

// Close releases the sqlite connection of a dead incarnation.
func (x *Index) Close() {
	if x != nil && x.DB != nil {
		x.DB.Close()
	}
}

// LocalTag reads the build-index's cached tag file straight from disk.
func LocalTag(dir, tag string) ([]byte, bool) {
	b, err := os.ReadFile(filepath.Join(CacheDir(dir), tag, "data"))
	if err != nil {
		return nil, false
	}
	return b, true
}
