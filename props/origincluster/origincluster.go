// Package origincluster assembles real kraken nodes for the cluster-level
// harnesses (C31, C32) from public constructors only, following DESIGN.md
// Appendix D: a real origin (CAStore, backend manager with the real testfs
// client, write-back manager + executor on simsql, metainfogen, blobrefresh,
// hash ring, blobserver) whose handler is served through simhttp, and the real
// testfs server as storage backend.
package origincluster

import (
	"bytes"
	"errors"
	"fmt"
	"net/http"
	"net/http/httptest"
	"os"
	"path/filepath"
	"reflect"
	"strings"

	"github.com/c2h5oh/datasize"
	"github.com/jmoiron/sqlx"
	"github.com/uber-go/tally"
	"github.com/uber/kraken/core"
	"github.com/uber/kraken/lib/backend"
	"github.com/uber/kraken/lib/backend/testfs"
	"github.com/uber/kraken/lib/blobrefresh"
	"github.com/uber/kraken/lib/hashring"
	"github.com/uber/kraken/lib/healthcheck"
	"github.com/uber/kraken/lib/hostlist"
	"github.com/uber/kraken/lib/metainfogen"
	"github.com/uber/kraken/lib/persistedretry"
	"github.com/uber/kraken/lib/persistedretry/writeback"
	"github.com/uber/kraken/lib/store"
	"github.com/uber/kraken/origin/blobclient"
	"github.com/uber/kraken/origin/blobserver"
	"github.com/uber/kraken/utils/stringset"

	sclock "kverif/shim/clock"
	simrt "kverif/sim"
	"kverif/simhttp"
	"kverif/simsql"
)

// ---------------------------------------------------------------------------
// testfs backend

// Backend is the real testfs server behind simhttp.
type Backend struct {
	Addr    string
	Node    *simrt.Node
	Server  *testfs.Server
	Handler http.Handler
	Host    *simhttp.Host
	// Dir is the server's storage directory (read through reflection from the
	// unexported field; "" when unavailable: Get then goes through the handler).
	Dir string
}

// StartBackend creates the real testfs server (testfs.NewServer; its
// os.MkdirTemp("/tmp", ...) is redirected by the disk shim to the run's private
// temp root) on its own node and registers its real handler under addr.
func StartBackend(s *simrt.Sim, hn *simhttp.Net, addr string) *Backend {
	srv := testfs.NewServer()
	s.AtEnd(srv.Cleanup)
	b := &Backend{Addr: addr, Node: s.NewNode("backend"), Server: srv, Handler: srv.Handler()}
	// Read-only peek at the unexported storage directory so that the observer
	// can inspect backend contents with plain file reads; without it Get goes
	// through the real handler.
	if f := reflect.ValueOf(srv).Elem().FieldByName("dir"); f.IsValid() && f.Kind() == reflect.String {
		if st, err := os.Stat(f.String()); err == nil && st.IsDir() {
			b.Dir = f.String()
		}
	}
	b.Host = hn.Register(addr, b.Node, b.Handler)
	return b
}

// Get returns the bytes stored under the backend path p (as produced by the
// client's pather, e.g. "blobs/<hex>"), without going through the simulated
// network (no faults, not logged). Safe in observer mode.
func (b *Backend) Get(p string) ([]byte, bool) {
	if b.Dir != "" {
		data, err := os.ReadFile(filepath.Join(b.Dir, strings.ReplaceAll(p, ":", "/")))
		if err != nil {
			return nil, false
		}
		return data, true
	}
	rec := httptest.NewRecorder()
	b.Handler.ServeHTTP(rec, httptest.NewRequest("GET", "http://"+b.Addr+"/files/"+p, nil))
	if rec.Code != 200 {
		return nil, false
	}
	return rec.Body.Bytes(), true
}

// Remove deletes what is stored under p directly (the backend's owner removed
// the object; no network). Reports whether the storage directory is known.
func (b *Backend) Remove(p string) bool {
	if b.Dir == "" {
		return false
	}
	os.Remove(filepath.Join(b.Dir, strings.ReplaceAll(p, ":", "/")))
	return true
}

// Put stores data under p directly (harness seeding, no network).
func (b *Backend) Put(p string, data []byte) error {
	rec := httptest.NewRecorder()
	b.Handler.ServeHTTP(rec, httptest.NewRequest("POST", "http://"+b.Addr+"/files/"+p, bytes.NewReader(data)))
	if rec.Code != 200 {
		return fmt.Errorf("testfs put: status %d", rec.Code)
	}
	return nil
}

// NewBackendManager returns a backend.Manager with the real testfs client
// for backendAddr registered under the namespace regexp.
func NewBackendManager(namespace, backendAddr, root string) (*backend.Manager, error) {
	bm, err := backend.NewManager(backend.ManagerConfig{}, nil, backend.AuthConfig{}, tally.NoopScope)
	if err != nil {
		return nil, err
	}
	c, err := testfs.NewClient(testfs.Config{Addr: backendAddr, Root: root, NamePath: "identity"}, tally.NoopScope)
	if err != nil {
		return nil, err
	}
	if err := bm.Register(namespace, c, false); err != nil {
		return nil, err
	}
	return bm, nil
}

// ---------------------------------------------------------------------------
// origin

// BlobRoot is the backend root under which origins store blobs.
const BlobRoot = "blobs"

// Config describes one origin.
type Config struct {
	Addr        string   // this origin's address, e.g. "origin1:80"
	Cluster     []string // all origin addresses (including Addr)
	Dir         string   // durable root: <Dir>/cache, <Dir>/upload, <Dir>/kraken.db
	Namespace   string   // namespace regexp served by the backend
	BackendAddr string
	Store       store.CAStoreConfig // UploadDir / CacheDir are filled in
	WriteBack   persistedretry.Config
	Server      blobserver.Config
	Ring        hashring.Config
	// ClusterProvider resolves remote origin clusters (replicate-to-remote);
	// nil = blobclient.NewClusterProvider(), which needs DNS.
	ClusterProvider blobclient.ClusterProvider
}

// Origin is one incarnation of an origin process.
type Origin struct {
	Cfg       Config
	Node      *simrt.Node
	CAS       *store.CAStore
	Backends  *backend.Manager
	DB        *sqlx.DB
	WriteBack persistedretry.Manager
	Generator *metainfogen.Generator
	Refresher *blobrefresh.Refresher
	Ring      hashring.Ring
	Server    *blobserver.Server
	Handler   http.Handler
}

// CacheDir / UploadDir / DBPath of an origin rooted at dir.
func CacheDir(dir string) string  { return filepath.Join(dir, "cache") }
func UploadDir(dir string) string { return filepath.Join(dir, "upload") }
func DBPath(dir string) string    { return filepath.Join(dir, "kraken.db") }

// Build runs origin/cmd's constructor chain (minus listeners, nginx, TLS,
// metrics, torrent scheduler). It must run in a task of the origin's node so
// that every goroutine the constructors start belongs to that node.
func Build(s *simrt.Sim, cfg Config) (*Origin, error) {
	o := &Origin{Cfg: cfg, Node: simrt.CurNode()}
	cfg.Store.CacheDir = CacheDir(cfg.Dir)
	cfg.Store.UploadDir = UploadDir(cfg.Dir)
	cas, err := store.NewCAStore(cfg.Store, tally.NoopScope)
	if err != nil {
		return nil, fmt.Errorf("castore: %w", err)
	}
	o.CAS = cas
	if o.Backends, err = NewBackendManager(cfg.Namespace, cfg.BackendAddr, BlobRoot); err != nil {
		return nil, fmt.Errorf("backends: %w", err)
	}
	if o.DB, err = simsql.Open(s, DBPath(cfg.Dir)); err != nil {
		return nil, fmt.Errorf("localdb: %w", err)
	}
	o.WriteBack, err = persistedretry.NewManager(cfg.WriteBack, tally.NoopScope,
		writeback.NewStore(o.DB), writeback.NewExecutor(tally.NoopScope, cas, o.Backends))
	if err != nil {
		return nil, fmt.Errorf("write-back manager: %w", err)
	}
	o.Generator, err = metainfogen.New(metainfogen.Config{PieceLengths: map[datasize.ByteSize]datasize.ByteSize{0: 32}}, cas)
	if err != nil {
		return nil, fmt.Errorf("metainfogen: %w", err)
	}
	o.Refresher = blobrefresh.New(blobrefresh.Config{}, tally.NoopScope, cas, o.Backends, o.Generator)
	cluster, err := hostlist.New(hostlist.Config{Static: cfg.Cluster})
	if err != nil {
		return nil, fmt.Errorf("hostlist: %w", err)
	}
	o.Ring = hashring.New(cfg.Ring, cluster, healthcheck.IdentityFilter{}, tally.NoopScope)
	if !o.Ring.Contains(cfg.Addr) {
		return nil, errors.New("origin not in its own ring")
	}
	var clusters blobclient.ClusterProvider = blobclient.NewClusterProvider()
	if cfg.ClusterProvider != nil {
		clusters = cfg.ClusterProvider
	}
	o.Server, err = blobserver.New(cfg.Server, tally.NoopScope, sclock.New(), cfg.Addr, o.Ring, cas,
		blobclient.NewProvider(), clusters, core.PeerContext{}, o.Backends,
		o.Refresher, o.Generator, o.WriteBack)
	if err != nil {
		return nil, fmt.Errorf("blobserver: %w", err)
	}
	o.Handler = o.Server.Handler()
	return o, nil
}

// Start creates a new node named name, builds an origin on it (crashing at
// the node's crashAt-th mutating disk op when crashAt > 0) and registers its
// handler under cfg.Addr. The origin is nil when the node died during
// start-up (err nil) or when a constructor failed on a live node (err set; the
// node is then killed: a process that exits because it cannot start).
func Start(s *simrt.Sim, hn *simhttp.Net, name string, cfg Config, crashAt int) (*simrt.Node, *Origin, error) {
	n := s.NewNode(name)
	n.CrashAt = crashAt
	var o *Origin
	var berr error
	t := s.GoNode(n, name+":boot", func() {
		o, berr = Build(s, cfg)
		if berr == nil {
			hn.Register(cfg.Addr, n, o.Handler)
		}
	})
	s.Wait(t)
	if n.Dead {
		return n, nil, nil
	}
	if berr != nil {
		s.KillNode(n)
		return n, nil, errors.New(shorten(berr))
	}
	return n, o, nil
}

func shorten(err error) string {
	m := err.Error()
	if i := strings.Index(m, "/ksim-"); i >= 0 {
		if j := strings.LastIndex(m[:i], " "); j >= 0 {
			return m[:j] + " <path>"
		}
		return "<path>"
	}
	return m
}

// Close releases what a dead incarnation still holds outside the simulator
// (its sqlite connection). Call after JoinNode.
func (o *Origin) Close() {
	if o != nil && o.DB != nil {
		o.DB.Close()
	}
}

// CachePath is the on-disk location of blob name's data file in an origin
// rooted at dir (content-addressable layout of lib/store/base).
func CachePath(dir, name string) string {
	return filepath.Join(CacheDir(dir), name[0:2], name[2:4], name, "data")
}

// LocalCopy reads the origin's cache file for name straight from disk
// (works whether or not the origin process is alive).
func LocalCopy(dir, name string) ([]byte, bool) {
	b, err := os.ReadFile(CachePath(dir, name))
	if err != nil {
		return nil, false
	}
	return b, true
}

// Persisted reports the on-disk persist flag of a cache file ("", "true", "false", or "?" if unreadable garbage).
func Persisted(dir, name string) string {
	b, err := os.ReadFile(filepath.Join(filepath.Dir(CachePath(dir, name)), "_persist"))
	if err != nil {
		return ""
	}
	switch string(b) {
	case "true", "false":
		return string(b)
	}
	return "?"
}

// StaticList is a hostlist.List over a fixed (possibly empty) address set.
type StaticList []string

// Resolve implements hostlist.List.
func (l StaticList) Resolve() stringset.Set { return stringset.FromSlice(l) }

// ClusterClient returns the real blobclient cluster client over origins.
func ClusterClient(chunk uint64, origins ...string) blobclient.ClusterClient {
	var opts []blobclient.Option
	if chunk > 0 {
		opts = append(opts, blobclient.WithChunkSize(chunk))
	}
	return blobclient.NewClusterClient(blobclient.NewClientResolver(blobclient.NewProvider(opts...), StaticList(origins)))
}
