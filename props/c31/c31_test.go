// C31: an acknowledged origin upload reaches the backend before local deletion.
//
// A real origin (origin/cmd's constructor chain, see props/origincluster)
// serves the real blobclient through simhttp; its storage backend is the real
// testfs server behind the real testfs client. The workload uploads a few
// blobs through the cluster upload path, retries after lost responses, reads,
// force-cleans and deletes blobs while periodic cleanup and LRU eviction run on
// the fake clock, the backend suffers outages / 5xx / lost responses /
// truncated uploads, and the origin process is killed (at call boundaries and
// at disk-op points) and rebuilt on the same directories and sqlite file.
//
//go:debug randseednop=0
package c31

import (
	"bytes"
	"context"
	"errors"
	"fmt"
	"hash/fnv"
	"math/rand"
	"path/filepath"
	"strings"
	"testing"
	"time"

	"github.com/uber/kraken/core"
	"github.com/uber/kraken/lib/hashring"
	"github.com/uber/kraken/lib/persistedretry"
	"github.com/uber/kraken/lib/store"
	"github.com/uber/kraken/origin/blobclient"
	"github.com/uber/kraken/origin/blobserver"
	"github.com/uber/kraken/utils/httputil"

	"kverif/kit"
	oc "kverif/props/origincluster"
	ssync "kverif/shim/sync"
	simrt "kverif/sim"
	"kverif/simhttp"
)

const (
	originAddr  = "origin1:80"
	backendAddr = "backend:80"
	namespace   = "ns1"
	ms          = time.Millisecond
)

type blob struct {
	idx    int
	data   []byte
	d      core.Digest
	hex    string
	acked  bool // some client saw UploadBlob succeed
	ackAt  time.Duration
	backed bool // the backend was observed holding exactly the blob
	local  bool // local copy present at the previous observation
	// tasklessPin: an injected SQL error failed the insert of a write-back task
	// for this blob after its persist flag had been written (time of the last one)
	tasklessPin   bool
	tasklessPinAt time.Duration
}

type flags struct {
	outage, backendErrs, trunc, crashes, clientNet, slow bool
	errPm, truncPm, netPm                                int
}

type world struct {
	// dups: workload variant in which some uploads are duplicate uploads with a
	// write-back delay; maxDelay is the longest delay acknowledged
	dups     bool
	maxDelay time.Duration
	// forced cleanup requests: in flight now / time the last one returned
	forceInFlight int
	lastForceEnd  time.Duration

	s   *simrt.Sim
	hn  *simhttp.Net
	be  *oc.Backend
	dir string
	cfg oc.Config
	fl  flags

	blobs []*blob

	node     *simrt.Node
	cur      *oc.Origin
	restarts int

	ready     bool // world fully built: the observer may run
	outage    bool // backend refuses connections
	stop      bool // chaos task must finish
	lastOps   int
	observed  int
	lastState uint64
}

func (w *world) backendPath(b *blob) string { return oc.BlobRoot + "/" + b.hex }

// observe is the safety oracle. It runs between scheduling steps (observer
// mode) whenever the disk changed: for every acknowledged blob the backend does
// not hold yet, the origin's local copy must exist and hash to its name.
func (w *world) observe(s *simrt.Sim) {
	ops := s.Disk().Ops
	if ops == w.lastOps {
		return
	}
	w.lastOps = ops
	w.check(s)
}

func (w *world) check(s *simrt.Sim) {
	w.observed++
	h := fnv.New64a()
	for _, b := range w.blobs {
		remote, rok := w.be.Get(w.backendPath(b))
		local, lok := oc.LocalCopy(w.dir, b.hex)
		pf := oc.Persisted(w.dir, b.hex)
		fmt.Fprintf(h, "%d:%v:%v:%v:%v:%s|", b.idx, b.acked, rok, rok && bytes.Equal(remote, b.data), lok, pf)
		if pf == "true" && b.acked {
			s.Probe("persist_flag_on_acked_blob")
		}
		if b.local && !lok && b.backed {
			s.Probe("local_copy_deleted_after_writeback")
		}
		b.local = lok
		if !b.acked || b.backed {
			continue
		}
		if rok && bytes.Equal(remote, b.data) {
			b.backed = true
			s.Probe("written_back")
			s.Logf("observed: backend holds blob %d", b.idx)
			if w.restarts > 0 {
				s.Probe("written_back_after_restart")
			}
			continue
		}
		if !lok {
			if rok {
				s.Fail("local_copy_lost_backend_partial", "blob %d (%d bytes) was acknowledged at %v; at %v the origin has no local copy and the backend holds %d different bytes (not the blob)",
					b.idx, len(b.data), b.ackAt, s.Now(), len(remote))
			} else {
				if b.tasklessPin && (w.forceInFlight > 0 || w.lastForceEnd >= b.tasklessPinAt) {
					// The recorded finding (DESIGN.md §11, known_findings.json): forced
					// cleanup treats a pinned blob without a write-back task as leaked
					// and deletes it, racing the conflict path that re-adds the task
					// and acknowledges. Classified separately so that every other loss
					// of a local copy is still reported under the general name.
					s.Fail("local_copy_lost_forced_cleanup_of_taskless_pin", "blob %d (%d bytes) was acknowledged at %v; at %v the origin has no local copy although the backend does not hold the blob; the insert of its write-back task had failed at %v (persist flag already written) and a forced cleanup ran after that",
						b.idx, len(b.data), b.ackAt, s.Now(), b.tasklessPinAt)
				}
				s.Fail("local_copy_lost_before_writeback", "blob %d (%d bytes) was acknowledged at %v; at %v the origin has no local copy although the backend does not hold the blob",
					b.idx, len(b.data), b.ackAt, s.Now())
			}
			return
		}
		if kit.SHA(local) != b.hex {
			s.Fail("local_copy_corrupt", "blob %d was acknowledged at %v; at %v the origin's local copy (%d bytes) does not hash to its name and the backend does not hold the blob",
				b.idx, b.ackAt, s.Now(), len(local))
			return
		}
	}
	st := h.Sum64()
	if st != w.lastState {
		w.lastState = st
		s.State(st)
	}
}

// startOrigin (re)builds the origin on the same directories and sqlite file.
func (w *world) startOrigin(crashAt int) error {
	if w.node != nil {
		w.s.KillNode(w.node)
		w.s.JoinNode(w.node)
		w.cur.Close()
		w.restarts++
		w.s.Probe("origin_restart")
		for _, b := range w.blobs {
			if b.acked && !b.backed {
				w.s.Probe("restart_with_writeback_outstanding")
				break
			}
		}
	}
	n, o, err := oc.Start(w.s, w.hn, "origin1", w.cfg, crashAt)
	w.node, w.cur = n, o
	if o == nil && err == nil {
		w.s.Probe("crash_during_startup")
	}
	return err
}

func (w *world) originUp() bool { return w.node != nil && !w.node.Dead && w.cur != nil }

func (w *world) faultFn(ex *simhttp.Exchange) simhttp.Fault {
	tp := w.s.Tape
	switch ex.To {
	case backendAddr:
		f := simhttp.Fault{}
		switch {
		case w.outage:
			f.Kind = simhttp.Refuse
		case w.fl.trunc && ex.Method == "POST" && tp.Chance(w.fl.truncPm):
			f.Kind, f.K = simhttp.TruncReq, -1
		case w.fl.backendErrs && tp.Chance(w.fl.errPm):
			f.Kind, f.Code = simhttp.Status, []int{503, 500, 429, 502}[tp.Draw(4)]
		case w.fl.backendErrs && tp.Chance(w.fl.errPm/2):
			f.Kind = simhttp.ResetAfter
		case w.fl.backendErrs && tp.Chance(w.fl.errPm/2):
			f.Kind = simhttp.ResetBefore
		}
		if w.fl.slow && tp.Chance(300) {
			f.Latency = time.Duration(1+tp.Draw(400)) * ms // a slow backend: requests take fake time
		}
		return f
	case originAddr:
		if w.fl.clientNet && ex.From == "harness" {
			switch {
			case tp.Chance(w.fl.netPm):
				return simhttp.Fault{Kind: simhttp.ResetAfter}
			case tp.Chance(w.fl.netPm / 3):
				return simhttp.Fault{Kind: simhttp.ResetBefore}
			}
		}
	}
	return simhttp.Fault{}
}

// chaos injects backend outage windows and origin crashes / restarts.
func (w *world) chaos() {
	s, tp := w.s, w.s.Tape
	for !w.stop {
		simrt.Sleep(time.Duration(1+tp.Draw(12))*time.Second + time.Duration(tp.Draw(900))*ms)
		if w.stop {
			return
		}
		if !w.originUp() {
			// a supervisor restarts the process; it may crash again while starting
			ca := 0
			if tp.Chance(250) {
				ca = 1 + tp.Draw(40)
			}
			if err := w.startOrigin(ca); err != nil {
				s.Logf("origin failed to start: %v", err)
			}
			continue
		}
		acts := []int{}
		if w.fl.outage {
			acts = append(acts, 0)
		}
		if w.fl.crashes {
			acts = append(acts, 1, 2)
		}
		if len(acts) == 0 {
			return
		}
		switch acts[tp.Draw(len(acts))] {
		case 0:
			w.outage = !w.outage
			s.Logf("backend outage=%v", w.outage)
			if w.outage {
				s.Probe("backend_outage_window")
			}
		case 1:
			s.Fault("crash")
			s.KillNode(w.node)
		case 2:
			w.node.CrashAt = w.node.DiskOps + 1 + tp.Draw(60)
			s.Logf("arm crash at disk op +%d", w.node.CrashAt-w.node.DiskOps)
		}
	}
}

func errClass(err error) string {
	switch {
	case err == nil:
		return "ok"
	case httputil.IsNetworkError(err):
		return "network"
	case httputil.IsStatus(err, 404):
		return "404"
	case httputil.IsStatus(err, 409):
		return "409"
	case httputil.IsStatus(err, 500):
		return "500"
	case httputil.IsStatus(err, 202):
		return "202"
	case httputil.IsStatus(err, 503):
		return "503"
	}
	if _, ok := err.(httputil.StatusError); ok {
		return "status"
	}
	return "error"
}

func (w *world) client(id int, nOps int, cc blobclient.ClusterClient) {
	s, tp := w.s, w.s.Tape
	single := blobclient.New(originAddr)
	for op := 0; op < nOps; op++ {
		simrt.Sleep(time.Duration(tp.Draw(8))*time.Second + time.Duration(tp.Draw(700))*ms)
		b := w.blobs[tp.Draw(len(w.blobs))]
		k := tp.Draw(8)
		if w.dups && k <= 3 && tp.Chance(400) {
			// this origin in the role of a replica: a neighbour origin duplicates
			// an upload to it, asking for the write-back to be attempted after a
			// delay (the accepting origin goes first). The acknowledgement counts
			// like any other: the copy must stay until the backend has the blob.
			delay := []time.Duration{0, 3 * time.Second, 20 * time.Second, 5 * time.Minute}[tp.Draw(4)]
			// the origin may execute the request even when its response is lost, and
			// a task stored with this delay is the one later commits of the blob join
			if delay > w.maxDelay {
				w.maxDelay = delay
			}
			err := single.DuplicateUploadBlob(namespace, b.d, bytes.NewReader(b.data), uint64(len(b.data)), delay)
			s.Logf("client %d duplicate upload blob %d delay %v -> %s", id, b.idx, delay, errClass(err))
			if err == nil {
				s.Probe("ack_via_duplicate_upload")
				if !b.acked {
					b.acked, b.ackAt = true, s.Now()
				}
				w.lastOps = -1
			}
			continue
		}
		switch {
		case k <= 3: // upload, retrying like a proxy / CI client would
			attempts := 1 + tp.Draw(5)
			for a := 0; a < attempts; a++ {
				from := len(w.hn.Log)
				err := cc.UploadBlob(context.Background(), namespace, b.d, bytes.NewReader(b.data), uint64(len(b.data)))
				s.Logf("client %d upload blob %d attempt %d -> %s", id, b.idx, a, errClass(err))
				if err == nil {
					via := "commit"
					dup := false
					for _, ex := range w.hn.Log[from:] {
						if ex.To == originAddr && strings.Contains(ex.Path, b.hex) {
							if ex.Status == 409 {
								via = "conflict"
							}
						}
					}
					for _, ex := range w.hn.Log {
						if ex.To == originAddr && ex.Method == "PUT" && strings.Contains(ex.Path, b.hex) && ex.Fault.Kind == simhttp.ResetAfter && ex.Status == 200 {
							dup = true
						}
					}
					s.Probe("ack_via_" + via)
					if dup && via == "conflict" {
						s.Probe("ack_after_lost_commit_response")
					}
					if !b.acked {
						b.acked, b.ackAt = true, s.Now()
					}
					w.lastOps = -1 // observe at the next step
					break
				}
				simrt.Sleep(time.Duration(1+tp.Draw(6))*time.Second + time.Duration(tp.Draw(500))*ms)
			}
		case k == 4: // read (touches LRU order / last access time, may refresh from backend)
			var buf bytes.Buffer
			err := single.DownloadBlob(context.Background(), namespace, b.d, &buf)
			s.Logf("client %d download blob %d -> %s", id, b.idx, errClass(err))
			if err == nil && !bytes.Equal(buf.Bytes(), b.data) {
				s.Fail("download_wrong_bytes", "download of blob %d returned %d bytes that are not the blob", b.idx, buf.Len())
			}
		case k == 5:
			_, err := single.StatLocal(namespace, b.d)
			s.Logf("client %d statlocal blob %d -> %s", id, b.idx, errClass(err))
		case k == 6: // forced cleanup of everything (ttl 0)
			before := 0
			for _, x := range w.blobs {
				if _, ok := oc.LocalCopy(w.dir, x.hex); ok {
					before++
				}
			}
			w.forceInFlight++
			err := single.ForceCleanup(0)
			w.forceInFlight--
			w.lastForceEnd = s.Now()
			after := 0
			for _, x := range w.blobs {
				if _, ok := oc.LocalCopy(w.dir, x.hex); ok {
					after++
				}
			}
			s.Logf("client %d forcecleanup -> %s (local %d -> %d)", id, errClass(err), before, after)
			s.Probe("forced_cleanup")
			if err == nil && after < before {
				s.Probe("forced_cleanup_deleted")
			}
		case k == 7:
			err := single.DeleteBlob(b.d)
			s.Logf("client %d delete blob %d -> %s", id, b.idx, errClass(err))
			s.Probe("delete_blob")
			if err == nil {
				s.Probe("delete_blob_accepted")
			}
		}
	}
}

// curWorld is the world of the run in progress (one run at a time per process).
var curWorld *world

func observeHook(s *simrt.Sim) {
	if w := curWorld; w != nil && w.s == s && w.ready {
		w.observe(s)
	}
}

func body(s *simrt.Sim, tier string) {
	rand.Seed(1) // jitter of cenkalti/backoff (untransformed dependency) uses the global source
	tp := s.Tape
	w := &world{s: s, lastOps: -1, dups: s.Tape.Variant%3 == 1}
	curWorld = w
	w.hn = simhttp.Install(s)
	if (s.Tape.Variant/3)%2 == 1 {
		// the task database is busy now and then: inserting a write-back task
		// fails (the upload is then answered 500 and not acknowledged)
		pm := []int{100, 300, 600}[(s.Tape.Variant/6)%3]
		s.Disk().SQLFaultFn = func(n *simrt.Node, stmt string) error {
			if !w.stop && strings.HasPrefix(stmt, "INSERT writeback_task") && s.Tape.Chance(pm) {
				s.Fault("sql_insert_error")
				if _, t := simrt.Cur(); t != nil {
					for _, b := range w.blobs {
						if strings.Contains(t.Name, b.hex) {
							b.tasklessPin, b.tasklessPinAt = true, s.Now()
						}
					}
				}
				return errors.New("database is locked")
			}
			return nil
		}
	}
	tmp := kit.TempDir(s)
	w.be = oc.StartBackend(s, w.hn, backendAddr)
	w.dir = filepath.Join(tmp, "origin1")

	nBlobs := 1 + tp.Draw(4)
	nClients := 1 + tp.Draw(3)
	nOps := 2 + tp.Draw(4)
	if tier == "thorough" {
		nOps += tp.Draw(5)
	}
	w.fl = flags{
		outage:      tp.Chance(450),
		backendErrs: tp.Chance(400),
		trunc:       tp.Chance(200),
		crashes:     tp.Chance(500),
		clientNet:   tp.Chance(500),
	}
	w.fl.slow = tp.Chance(500)
	nPauses := 0
	const maxPause = 20 * time.Second
	if tp.Chance(500) {
		// slow / preempted tasks: whoever runs at the drawn steps stops for a
		// drawn duration while the clock (and everybody else) keeps running
		nPauses = 1 + tp.Draw(4)
	}
	rates := []int{60, 200, 450}
	w.fl.errPm, w.fl.truncPm, w.fl.netPm = rates[tp.Draw(3)], rates[tp.Draw(3)], rates[tp.Draw(3)]

	retryIv := time.Duration(3+tp.Draw(25)) * time.Second
	pollIv := time.Duration(1+tp.Draw(10)) * time.Second
	bufs := []int{8, 1, 0}
	wb := persistedretry.Config{
		IncomingBuffer:      bufs[tp.Draw(3)],
		RetryBuffer:         bufs[tp.Draw(3)],
		NumIncomingWorkers:  1 + tp.Draw(2),
		NumRetryWorkers:     1,
		MaxTaskThroughput:   10 * ms,
		RetryInterval:       retryIv,
		PollRetriesInterval: pollIv,
		SyncRetryBackoff: httputil.ExponentialBackOffConfig{Enabled: true, InitialInterval: 200 * ms, Multiplier: 2,
			MaxInterval: 2 * time.Second, MaxRetries: uint64(1 + tp.Draw(2))},
		Testing: true,
	}
	cleanup := store.CleanupConfig{
		Interval: time.Duration(2+tp.Draw(15)) * time.Second,
		TTI:      time.Duration(3+tp.Draw(40)) * time.Second,
	}
	if tp.Chance(500) {
		cleanup.TTL = time.Duration(4+tp.Draw(40)) * time.Second
	}
	w.cfg = oc.Config{
		Addr: originAddr, Cluster: []string{originAddr}, Dir: w.dir, Namespace: ".*", BackendAddr: backendAddr,
		Store:     store.CAStoreConfig{Capacity: 1 + tp.Draw(4), CacheCleanup: cleanup},
		WriteBack: wb,
		Server:    blobserver.Config{},
		Ring:      hashring.Config{},
	}
	sizes := []int{1, 7, 33, 100}
	for i := 0; i < nBlobs; i++ {
		data := append([]byte{byte('a' + i)}, kit.Bytes(s, sizes[tp.Draw(len(sizes))]-1)...)
		d, err := core.NewDigester().FromBytes(data)
		if err != nil {
			s.InfraError("digest: %v", err)
		}
		w.blobs = append(w.blobs, &blob{idx: i, data: data, d: d, hex: d.Hex()})
	}
	chunk := uint64([]int{64, 16}[tp.Draw(2)])
	w.hn.FaultFn = w.faultFn

	w.ready = true
	if err := w.startOrigin(0); err != nil {
		s.InfraError("first origin start: %v", err)
	}

	if nPauses > 0 {
		s.InjectPauses(nPauses, 1500, maxPause)
	}
	var wg ssync.WaitGroup
	var chaosDone ssync.WaitGroup
	if w.fl.outage || w.fl.crashes {
		chaosDone.Add(1)
		simrt.Go(func() { defer chaosDone.Done(); w.chaos() })
	}
	for c := 0; c < nClients; c++ {
		wg.Add(1)
		id := c
		simrt.Go(func() {
			defer wg.Done()
			w.client(id, nOps, oc.ClusterClient(chunk, originAddr))
		})
	}
	wg.Wait()
	w.stop = true
	chaosDone.Wait()

	// ---- faults stop: backend healthy, network quiet, origin up and staying up
	w.hn.Quiet = true
	w.outage = false
	if w.originUp() {
		w.node.CrashAt = 0
	} else if err := w.startOrigin(0); err != nil || !w.originUp() {
		s.Fail("origin_cannot_restart", "with no fault injected the origin does not start on its own directories: %v", err)
	}
	tStop := s.Now()
	// A failed task is retried once RetryInterval has passed since its last
	// attempt, at the next poll; with tiny retry buffers a poll hands over one
	// task per round. x3 per the liveness rule.
	// Injected pauses are armed by step number and may still fire after this
	// instant: each can delay the write-back pipeline by its duration.
	bound := 3 * (time.Duration(nBlobs+1)*(retryIv+pollIv+3*time.Second) + time.Duration(nPauses)*maxPause + w.maxDelay)
	s.Logf("faults stop at %v, bound %v", tStop, bound)
	simrt.Sleep(bound)
	w.check(s)
	nAcked := 0
	for _, b := range w.blobs {
		if !b.acked {
			continue
		}
		nAcked++
		remote, ok := w.be.Get(w.backendPath(b))
		switch {
		case !ok:
			s.Fail("not_written_back_by_bound", "blob %d acknowledged at %v is not in the backend %v after faults stopped (origin up, backend healthy since %v)", b.idx, b.ackAt, bound, tStop)
		case !bytes.Equal(remote, b.data):
			s.Fail("backend_content_wrong", "blob %d acknowledged at %v: %v after faults stopped the backend holds %d bytes that are not the blob (%d bytes)", b.idx, b.ackAt, bound, len(remote), len(b.data))
		}
	}
	if len(w.hn.HandlerPanics) > 0 {
		s.Fail("handler_panic", "http handler panicked: %v", w.hn.HandlerPanics)
	}
	if nAcked > 0 {
		s.Probe("run_with_ack")
	}
	// Let the timeout goroutines of net/http clients (up to 15 minutes for a
	// commit) expire before the bubble ends; nothing else runs meanwhile.
	s.KillNode(w.node)
	s.JoinNode(w.node)
	w.cur.Close()
	w.ready = false
	simrt.Sleep(15*time.Minute + time.Second)
	kit.SetSample(map[string]any{
		"blobs": nBlobs, "clients": nClients, "ops_per_client": nOps, "chunk": chunk, "capacity": w.cfg.Store.Capacity,
		"cleanup": fmt.Sprintf("%+v", cleanup), "writeback": fmt.Sprintf("buf=%d/%d workers=%d retry=%v poll=%v", wb.IncomingBuffer, wb.RetryBuffer, wb.NumIncomingWorkers, retryIv, pollIv),
		"faults": fmt.Sprintf("%+v", w.fl), "acked": nAcked, "pauses": nPauses, "restarts": w.restarts, "observations": w.observed, "bound": bound.String(),
	})
}

func TestC31(t *testing.T) {
	kit.Main(t, kit.Spec{
		Property: "C31",
		Body:     body,
		Config: func(tier string) simrt.Config {
			return simrt.Config{MaxSteps: 1500000, Horizon: 6 * time.Hour, PanicIsFailure: true, Observe: observeHook}
		},
		Real: []string{"origin/blobserver.Server (cluster upload start/patch/commit, conflict path, forcecleanup, delete, download, stat)",
			"origin/blobclient (ClusterClient.UploadBlob, HTTPClient)", "lib/store.CAStore (+cleanup manager, LRU file map)",
			"lib/persistedretry manager + writeback.Store (sqlite via simsql) + writeback.Executor", "lib/backend.Manager + testfs client + testfs server",
			"lib/metainfogen", "lib/blobrefresh", "lib/hashring (single origin)", "utils/httputil"},
		Stub:        []string{"HTTP transport (simhttp)", "sqlite CURRENT_TIMESTAMP (simsql)", "healthcheck.IdentityFilter", "tally.NoopScope", "no torrent scheduler (not a parameter of blobserver.New)"},
		Rule:        "one run = one origin + testfs backend, <=4 blobs, 1-3 client tasks x 2-5 ops (upload with retries | download | statlocal | forcecleanup ttl 0 | delete), tape-drawn cleanup interval/TTI/TTL, file-map capacity 1-4, write-back buffers/workers/retry/poll intervals, fault flags (backend outage windows, 5xx/lost responses, truncated uploads, origin kill / crash at disk op / crash during restart, lost client responses), schedule; non-trivial = contested scheduling or a fired fault; distinct = distinct event-log hash",
		Assumptions: []string{"process-crash model: completed syscalls persist, sqlite statements are atomic", "observation = after every step that performed a mutating disk op", "the backend never loses data on its own"},
	})
}
