// C09: the tiered store never loses or corrupts a completed blob or metadata
// update.
//
// Real tiered.Store with its flusher workers over the real memory.Store and
// the real disk.Store (on the simulated disk). Client tasks upload
// (Create/write/MarkComplete), read back, update/read/delete metadata, delete,
// re-create the same keys and create memory pressure, while the flush workers
// interleave at every lock, channel and file-system step and may be stalled by
// injected pauses.
//
// Oracles (all from the property statement, judged by [invoke,return]
// intervals stamped with the simulator's event sequence):
//   - from the return of MarkComplete until the invocation of a Delete, every
//     Open+full read returns exactly the blob;
//   - the per-key history of Create/Delete/Set/Get/DeleteMetadata/Has is
//     linearizable w.r.t. a register-per-suffix model (porcupine), including
//     the observations made at final quiescence through the tiered store and
//     directly on the disk store (after all flushing and forced memory
//     eviction the disk-backed view holds the last successful update);
//   - after a Delete returned (and before any re-Create is invoked) the key is
//     absent at every observation;
//   - Create of an absent key never fails.
package c09

import (
	"bytes"
	"errors"
	"fmt"
	"io"
	"os"
	"regexp"
	"strconv"
	"strings"
	"testing"
	"time"

	"github.com/anishathalye/porcupine"
	"github.com/uber-go/tally"
	storelib "github.com/uber/kraken/lib/store"
	"github.com/uber/kraken/lib/store/disk"
	"github.com/uber/kraken/lib/store/memory"
	"github.com/uber/kraken/lib/store/metadata"
	"github.com/uber/kraken/lib/store/tiered"

	"kverif/kit"
	ssync "kverif/shim/sync"
	simrt "kverif/sim"
)

// ---------------------------------------------------------------------------
// metadata type (registered: the flusher re-creates metadata from suffixes)

const nSuf = 2

var sufNames = [nSuf]string{"_c09md_a", "_c09md_b"}

type tmd struct {
	suf string
	val int
}

func (m *tmd) GetSuffix() string          { return m.suf }
func (m *tmd) Movable() bool              { return true }
func (m *tmd) Serialize() ([]byte, error) { return []byte(strconv.Itoa(m.val)), nil }
func (m *tmd) Deserialize(b []byte) error {
	v, err := strconv.Atoi(string(b))
	if err != nil {
		return fmt.Errorf("c09 metadata: %q is not a value written by the harness", string(b))
	}
	m.val = v
	return nil
}

type tmdFactory struct{}

func (tmdFactory) Create(suffix string) metadata.Metadata { return &tmd{suf: suffix} }

func init() { metadata.Register(regexp.MustCompile(`^_c09md_[ab]$`), tmdFactory{}) }

// ---------------------------------------------------------------------------
// per-key register model for porcupine

const (
	hCreate = iota
	hDelete
	hSet
	hDel
	hGet
	hHas
)

var hNames = []string{"Create", "Delete", "SetMetadata", "DeleteMetadata", "GetMetadata", "Has"}

const (
	rOK       = iota // success (Get: present, Has: true)
	rAbsent          // Get: blob exists, metadata absent
	rNotExist        // blob does not exist (Has: false, Create: n/a)
	rExists          // Create: already exists
	rMaybe           // failed with an unclassified error: effect may or may not have happened
)

var rNames = []string{"ok", "absent", "notexist", "exists", "ERROR"}

type hIn struct {
	kind, suf, val int
	via           string // which view made the observation (log only)
}

type hOut struct {
	r   int
	val int
}

type kstate struct {
	exists bool
	md     [nSuf]int32
}

func kstep(st kstate, in hIn, out hOut) []kstate {
	same := []kstate{st}
	switch in.kind {
	case hCreate:
		switch out.r {
		case rOK:
			if st.exists {
				return nil
			}
			return []kstate{{exists: true}}
		case rExists:
			if !st.exists {
				return nil
			}
			return same
		case rMaybe:
			if st.exists {
				return same
			}
			return []kstate{st, {exists: true}}
		}
	case hDelete:
		switch out.r {
		case rOK:
			if !st.exists {
				return nil
			}
			return []kstate{{}}
		case rNotExist:
			if st.exists {
				return nil
			}
			return same
		case rMaybe:
			return []kstate{st, {}}
		}
	case hSet, hDel:
		nv := int32(in.val)
		if in.kind == hDel {
			nv = 0
		}
		switch out.r {
		case rOK:
			if !st.exists {
				return nil
			}
			st.md[in.suf] = nv
			return []kstate{st}
		case rNotExist:
			if st.exists {
				return nil
			}
			return same
		case rMaybe:
			if !st.exists {
				return same
			}
			c := st
			c.md[in.suf] = nv
			return []kstate{st, c}
		}
	case hGet:
		switch out.r {
		case rOK:
			if st.exists && st.md[in.suf] != 0 && st.md[in.suf] == int32(out.val) {
				return same
			}
		case rAbsent:
			if st.exists && st.md[in.suf] == 0 {
				return same
			}
		case rNotExist:
			if !st.exists {
				return same
			}
		case rMaybe:
			return same
		}
		return nil
	case hHas:
		if (out.r == rOK) == st.exists {
			return same
		}
		return nil
	}
	return nil
}

// ---------------------------------------------------------------------------

type version struct {
	id        int
	data      []byte
	createRet int64
	mcRet     int64 // return stamp of MarkComplete (0 = not complete)
	delInv    int64 // invocation stamp of the first Delete issued on it (0 = none)
}

type keySt struct {
	idx       int
	name      string
	uploading bool // a task is between invoking Create and finishing MarkComplete/cancel
	deleting  int  // Deletes in flight
	deletes   int  // Delete invocations so far
	creates   int  // Create invocations so far (epoch for the resurfacing check)
	exists    bool // Creates and Deletes of one key never overlap: existence is determined
	cur       *version
	vers      []*version
	hist      []porcupine.Operation
}

type world struct {
	s        *simrt.Sim
	ts       *tiered.Store
	ds       *disk.Store
	dir      string
	keys     []*keySt
	memCap   int
	diskCap  int
	diskLoad int  // upper bound of the bytes the disk store may be holding/reserving
	mayEvict bool // the disk store may have evicted by capacity (second configuration)
	nver     int
	nval     int
	nfill    int
}

func (w *world) errStr(err error) string {
	if err == nil {
		return "<nil>"
	}
	return strings.ReplaceAll(err.Error(), w.dir, "<dir>")
}

func (w *world) record(ks *keySt, task int, in hIn, out hOut, call, ret int64) {
	ks.hist = append(ks.hist, porcupine.Operation{ClientId: task, Input: in, Output: out, Call: call, Return: ret})
	w.s.Logf("task %d [%d,%d] %s %s(s%d=%d) via %s -> %s %d", task, call, ret, ks.name, hNames[in.kind], in.suf, in.val, in.via, rNames[out.r], out.val)
}

func (w *world) addLoad(n int) {
	w.diskLoad += n
	if w.diskLoad > w.diskCap {
		if !w.mayEvict {
			w.s.Probe("disk_may_evict")
		}
		w.mayEvict = true
	}
}

// quiet reports whether the key is known absent with nothing in flight that
// could create it; epoch must be compared before/after an observation.
func (ks *keySt) quietAbsent() bool { return !ks.exists && !ks.uploading && ks.deleting == 0 }

// absentCheck implements "a deleted key never resurfaces": an observation
// that ran entirely while the key was deleted and no re-Create had been
// invoked must find it absent.
func (w *world) absentCheck(ks *keySt, wasQuiet bool, epoch int, found bool, what string) {
	if wasQuiet && ks.quietAbsent() && ks.creates == epoch && found {
		w.s.Fail("deleted_key_resurfaced", "%s found key %s although its Delete (or cancelled upload) had returned and no Create was invoked since", what, ks.name)
	}
}

// strictWindow returns the version whose "complete and not deleted" window
// covers an observation invoked at inv and returning now.
func (w *world) strictWindow(ks *keySt, inv int64) *version {
	v := ks.cur
	if v == nil || v.mcRet == 0 || v.mcRet >= inv || v.delInv != 0 || w.mayEvict {
		return nil
	}
	return v
}

// ---------------------------------------------------------------------------
// client operations

func (w *world) upload(task int, ks *keySt) {
	s, tp := w.s, w.s.Tape
	if ks.uploading || ks.deleting > 0 {
		return
	}
	ks.uploading = true
	size := 4 + tp.Draw(13)
	w.nver++
	v := &version{id: w.nver, data: kit.Bytes(s, size)}
	v.data[0], v.data[1] = byte(v.id), byte(ks.idx+1) // no two versions share content
	existed := ks.exists
	ks.creates++
	w.addLoad(size)
	call := s.NextSeq()
	f, err := w.ts.Create(ks.name, uint64(size))
	ret := s.NextSeq()
	switch {
	case err == nil:
		w.record(ks, task, hIn{kind: hCreate}, hOut{r: rOK}, call, ret)
		if existed && !w.mayEvict {
			s.Fail("completed_blob_lost", "Create(%s) succeeded although version %d of the key was complete and never deleted: the store lost the blob", ks.name, ks.cur.id)
		}
	case errors.Is(err, os.ErrExist):
		w.record(ks, task, hIn{kind: hCreate}, hOut{r: rExists}, call, ret)
		if !existed {
			s.Fail("create_after_delete_exists", "Create(%s) failed with %q although the key was deleted (Delete returned) and not re-created", ks.name, w.errStr(err))
		}
		s.Probe("create_exists")
		ks.uploading = false
		return
	default:
		w.record(ks, task, hIn{kind: hCreate}, hOut{r: rMaybe}, call, ret)
		if !existed && !w.mayEvict {
			s.Fail("create_blocked", "Create(%s) of an absent key failed: %s", ks.name, w.errStr(err))
		}
		s.Probe("create_error")
		ks.uploading = false
		return
	}
	v.createRet = ret
	ks.exists, ks.cur = true, v
	ks.vers = append(ks.vers, v)
	// write the content in 1-3 chunks
	chunks := 1 + tp.Draw(3)
	for c, off := 0, 0; c < chunks; c++ {
		end := size * (c + 1) / chunks
		if n, err := f.Write(v.data[off:end]); err != nil || n != end-off {
			s.Fail("upload_write_failed", "Write on the handle of the incomplete blob %s returned (%d, %s)", ks.name, n, w.errStr(err))
		}
		off = end
	}
	if tp.Chance(250) {
		w.setMD(task, ks)
	}
	if tp.Chance(120) {
		s.Probe("upload_cancelled")
		ks.uploading = false
		w.del(task, ks)
		f.Close()
		return
	}
	err = w.ts.MarkComplete(ks.name)
	v.mcRet = s.NextSeq()
	s.Logf("task %d %s MarkComplete v%d -> %s", task, ks.name, v.id, w.errStr(err))
	if err != nil {
		s.Fail("mark_complete_failed", "MarkComplete(%s) after Create+write by the same task failed: %s", ks.name, w.errStr(err))
	}
	ks.uploading = false
	f.Close()
	s.Probe("upload_completed")
}

func (w *world) del(task int, ks *keySt) {
	s := w.s
	if ks.uploading {
		return
	}
	ks.deleting++
	ks.deletes++
	overlapped, epoch := ks.deleting > 1, ks.deletes
	existed := ks.exists
	if ks.cur != nil && ks.cur.delInv == 0 {
		ks.cur.delInv = s.NextSeq()
	}
	call := s.NextSeq()
	err := w.ts.Delete(ks.name)
	ret := s.NextSeq()
	if ks.deletes != epoch {
		overlapped = true
	}
	ks.deleting--
	ks.exists, ks.cur = false, nil
	switch {
	case err == nil:
		w.record(ks, task, hIn{kind: hDelete}, hOut{r: rOK}, call, ret)
		if !overlapped && !existed {
			s.Fail("delete_of_absent_succeeded", "Delete(%s) succeeded although the key had been deleted and not re-created", ks.name)
		}
	case errors.Is(err, os.ErrNotExist):
		w.record(ks, task, hIn{kind: hDelete}, hOut{r: rNotExist}, call, ret)
		if !overlapped && existed && !w.mayEvict {
			s.Fail("completed_blob_lost", "Delete(%s) reported not-exist although the key held a blob that was never deleted", ks.name)
		}
	default:
		w.record(ks, task, hIn{kind: hDelete}, hOut{r: rMaybe}, call, ret)
		s.Probe("delete_error")
	}
}

func (w *world) mdResult(err error) int {
	switch {
	case err == nil:
		return rOK
	case errors.Is(err, os.ErrNotExist):
		return rNotExist
	}
	w.s.Probe("metadata_error")
	return rMaybe
}

func (w *world) setMD(task int, ks *keySt) {
	s := w.s
	suf := s.Tape.Draw(nSuf)
	w.nval++
	val := w.nval
	call := s.NextSeq()
	err := w.ts.SetMetadata(ks.name, &tmd{suf: sufNames[suf], val: val})
	ret := s.NextSeq()
	w.record(ks, task, hIn{kind: hSet, suf: suf, val: val}, hOut{r: w.mdResult(err)}, call, ret)
}

func (w *world) delMD(task int, ks *keySt) {
	s := w.s
	suf := s.Tape.Draw(nSuf)
	call := s.NextSeq()
	err := w.ts.DeleteMetadata(ks.name, sufNames[suf])
	ret := s.NextSeq()
	w.record(ks, task, hIn{kind: hDel, suf: suf}, hOut{r: w.mdResult(err)}, call, ret)
}

type mdGetter interface {
	GetMetadata(key string, md metadata.Metadata) (bool, error)
}

func (w *world) getMD(task int, ks *keySt, suf int, view mdGetter, via string) {
	s := w.s
	quiet, epoch := ks.quietAbsent(), ks.creates
	dels, deleting := ks.deletes, ks.deleting > 0
	md := &tmd{suf: sufNames[suf]}
	call := s.NextSeq()
	ok, err := view.GetMetadata(ks.name, md)
	ret := s.NextSeq()
	out := hOut{r: w.mdResult(err)}
	if err == nil {
		if ok {
			out.val = md.val
		} else {
			out.r = rAbsent
		}
	}
	if deleting || ks.deletes != dels {
		// The read overlapped a Delete of the key. The statement covers a blob
		// "until it is deleted" (judged, as for Open, up to the invocation of
		// Delete): while the two tiers are being torn down one after the other
		// a lock-free reader may see the disk tier's older metadata. Such a
		// read constrains nothing.
		s.Probe("metadata_read_during_delete")
		out = hOut{r: rMaybe}
	}
	w.record(ks, task, hIn{kind: hGet, suf: suf, via: via}, out, call, ret)
	w.absentCheck(ks, quiet, epoch, err == nil, "GetMetadata via "+via)
}

// duringDelete reports whether an observation that began with (dels,
// deleting) overlapped a Delete of the key. Delete removes the memory entry,
// then aborts the flush, then removes the disk entry; a flush that passes its
// abort check in between creates the (incomplete) disk entry, so lock-free
// observers can see present, absent, present, absent inside one Delete. The
// statement covers a blob "until it is deleted" and a key once deleted; what
// Has/Open report while the Delete is still running constrains nothing
// (DESIGN.md §12). Resurfacing after the Delete returned stays judged by
// absentCheck and by every later observation.
func (w *world) duringDelete(ks *keySt, dels int, deleting bool) bool {
	if deleting || ks.deletes != dels {
		w.s.Probe("existence_read_during_delete")
		return true
	}
	return false
}

func (w *world) has(task int, ks *keySt) {
	s := w.s
	quiet, epoch := ks.quietAbsent(), ks.creates
	dels, deleting := ks.deletes, ks.deleting > 0
	call := s.NextSeq()
	in, _ := w.ts.Has(ks.name)
	var size int64
	var serr error
	stat := s.Tape.Chance(400)
	if stat {
		size, serr = w.ts.Stat(ks.name)
	}
	ret := s.NextSeq()
	if !stat {
		r := rNotExist
		if in {
			r = rOK
		}
		if w.duringDelete(ks, dels, deleting) {
			s.Logf("task %d [%d,%d] %s Has during a Delete -> %v (not part of the history)", task, call, ret, ks.name, in)
		} else {
			w.record(ks, task, hIn{kind: hHas, via: "tiered.Has"}, hOut{r: r}, call, ret)
		}
		w.absentCheck(ks, quiet, epoch, in, "Has")
	} else {
		s.Logf("task %d [%d,%d] %s Has -> %v, Stat -> %d %v", task, call, ret, ks.name, in, size, serr == nil)
		w.absentCheck(ks, quiet, epoch, in || serr == nil, "Has/Stat")
	}
	if v := w.strictWindow(ks, call); v != nil {
		if !in {
			s.Fail("completed_blob_lost", "Has(%s) is false although version %d was marked complete (at %d) before the call (at %d) and no Delete was invoked", ks.name, v.id, v.mcRet, call)
		}
		if stat && (serr != nil || size != int64(len(v.data))) {
			s.Fail("completed_blob_lost", "Stat(%s) returned (%d, %s) for the complete, undeleted version %d of %d bytes", ks.name, size, w.errStr(serr), v.id, len(v.data))
		}
	}
}

// readBack opens the key through open and reads it fully; judged against the
// complete-and-undeleted window of the current version.
func (w *world) readBack(task int, ks *keySt, via string, open func(string) (storelib.FileReadWriter, error), positional bool) {
	s, tp := w.s, w.s.Tape
	quiet, epoch := ks.quietAbsent(), ks.creates
	dels, deleting := ks.deletes, ks.deleting > 0
	call := s.NextSeq()
	f, oerr := open(ks.name)
	var got []byte
	var rerr error
	if oerr == nil {
		chunk := 1 + tp.Draw(8)
		buf := make([]byte, chunk)
		for len(got) < 64 {
			var n int
			if positional {
				n, rerr = f.ReadAt(buf, int64(len(got)))
			} else {
				n, rerr = f.Read(buf)
			}
			got = append(got, buf[:n]...)
			if rerr != nil {
				break
			}
		}
		if rerr == io.EOF {
			rerr = nil
		}
		f.Close()
	}
	ret := s.NextSeq()
	class := "ok"
	switch {
	case errors.Is(oerr, os.ErrNotExist):
		class = "notexist"
	case errors.Is(oerr, storelib.ErrOutOfScope):
		class = "outofscope"
	case oerr != nil:
		class = "open-error"
	case rerr != nil:
		class = "read-error"
	}
	s.Logf("task %d [%d,%d] %s Open+read via %s -> %s %x", task, call, ret, ks.name, via, class, got)
	if via == "tiered.Open" && (oerr == nil || class == "notexist") && !w.duringDelete(ks, dels, deleting) {
		r := rNotExist
		if oerr == nil {
			r = rOK
		}
		w.record(ks, task, hIn{kind: hHas, via: via}, hOut{r: r}, call, ret)
	}
	w.absentCheck(ks, quiet, epoch, oerr == nil || class == "outofscope", "Open via "+via)
	v := w.strictWindow(ks, call)
	if v == nil {
		// outside the window the statement promises nothing about the result,
		// except that a read that claims success is some version's content
		if class == "ok" {
			known := false
			for _, o := range ks.vers {
				if bytes.Equal(o.data, got) || (o.mcRet == 0 || o.delInv != 0) && bytes.HasPrefix(o.data, got) {
					known = true
				}
			}
			if !known {
				s.Probe("unattributable_read_outside_window")
			}
		}
		s.Probe("read_outside_window")
		return
	}
	s.Probe("read_in_window")
	switch {
	case class != "ok" && strings.HasPrefix(via, "disk."):
		s.Fail("completed_blob_not_flushed", "at quiescence (all flush workers idle, memory eviction forced) Open+read(%s) directly on the disk store failed (%s: open=%s read=%s); version %d was marked complete at %d and never deleted", ks.name, class, w.errStr(oerr), w.errStr(rerr), v.id, v.mcRet)
	case class == "notexist":
		s.Fail("completed_blob_lost", "Open(%s) via %s [%d,%d] reported not-exist; version %d was marked complete at %d and no Delete was invoked", ks.name, via, call, ret, v.id, v.mcRet)
	case class != "ok":
		s.Fail("completed_blob_unreadable", "Open+read(%s) via %s [%d,%d] failed (%s: open=%s read=%s) after %d bytes; version %d was marked complete at %d and no Delete was invoked", ks.name, via, call, ret, class, w.errStr(oerr), w.errStr(rerr), len(got), v.id, v.mcRet)
	case !bytes.Equal(got, v.data):
		s.Fail("completed_blob_corrupt", "Open+read(%s) via %s [%d,%d] returned %x, the complete undeleted version %d is %x", ks.name, via, call, ret, got, v.id, v.data)
	}
}

func (w *world) tieredOpen(scopeComplete bool) (string, func(string) (storelib.FileReadWriter, error)) {
	if scopeComplete {
		return "tiered.ScopeComplete.Open", func(k string) (storelib.FileReadWriter, error) {
			f, err := w.ts.ScopeComplete().Open(k)
			if err != nil {
				return nil, err
			}
			return f, nil
		}
	}
	return "tiered.Open", func(k string) (storelib.FileReadWriter, error) {
		f, err := w.ts.Open(k)
		if err != nil {
			return nil, err
		}
		return f, nil
	}
}

func (w *world) diskOpen() (string, func(string) (storelib.FileReadWriter, error)) {
	return "disk.ScopeComplete.Open", func(k string) (storelib.FileReadWriter, error) {
		f, err := w.ds.ScopeComplete().Open(k)
		if err != nil {
			return nil, err
		}
		return f, nil
	}
}

// pressure creates (and removes) an incomplete filler blob as large as the
// memory tier, which evicts every unbanned complete blob from memory.
func (w *world) pressure(task int, hold time.Duration) {
	s := w.s
	w.nfill++
	name := fmt.Sprintf("ff%02d", w.nfill)
	size := w.memCap - s.Tape.Draw(4)
	w.addLoad(size)
	f, err := w.ts.Create(name, uint64(size))
	s.Logf("task %d pressure Create(%s,%d) -> %v", task, name, size, err == nil)
	if err != nil {
		s.Probe("pressure_create_failed")
		w.addLoad(-size)
		return
	}
	s.Probe("pressure_create")
	simrt.Sleep(hold)
	f.Close()
	if err := w.ts.Delete(name); err != nil {
		s.Probe("pressure_delete_failed")
		return
	}
	w.addLoad(-size)
}

// ---------------------------------------------------------------------------

const stepBudget = 2_000_000

func body(s *simrt.Sim, tier string) {
	tp := s.Tape
	w := &world{s: s, dir: kit.TempDir(s)}
	nKeys := 2 + tp.Draw(2)
	nClients := 3 + tp.Draw(3)
	nOps := 5 + tp.Draw(8)
	if tier == "thorough" {
		nOps += tp.Draw(6)
	}
	workers := 1 + tp.Draw(3)
	w.memCap = []int{40, 24, 64}[tp.Draw(3)]
	w.diskCap = 1 << 30
	second := tp.Chance(150)
	if second {
		w.diskCap = 48 + 16*tp.Draw(4)
	}
	cfg := &tiered.Config{
		DiskConfig:      &disk.Config{CapacityBytes: uint64(w.diskCap), RootDir: w.dir, ShardLength: tp.Draw(2)},
		MemConfig:       &memory.Config{CapacityBytes: uint64(w.memCap), GOMEMLIMITBytes: 1 << 40},
		NumFlushWorkers: workers,
	}
	ts, ds, err := tiered.NewStore(cfg, tally.NoopScope)
	if err != nil {
		s.InfraError("tiered.NewStore: %v", err)
	}
	w.ts, w.ds = ts, ds
	for k := 0; k < nKeys; k++ {
		w.keys = append(w.keys, &keySt{idx: k, name: fmt.Sprintf("%c%c%02d", 'a'+k, 'a'+k, k)})
	}
	pauses := 0
	if tp.Chance(600) {
		pauses = 1 + tp.Draw(4)
		s.InjectPauses(pauses, 2500, 10*time.Minute)
	}
	gaps := []time.Duration{0, 0, 0, time.Millisecond, 5 * time.Millisecond, 50 * time.Millisecond, time.Second}
	var wg ssync.WaitGroup
	for c := 0; c < nClients; c++ {
		wg.Add(1)
		c := c
		simrt.Go(func() {
			defer wg.Done()
			for i := 0; i < nOps; i++ {
				simrt.Sleep(gaps[tp.Draw(len(gaps))])
				ks := w.keys[tp.Draw(nKeys)]
				switch tp.Draw(12) {
				case 0, 1, 2:
					if ks.exists && tp.Chance(600) {
						// replace: delete, and (mostly) re-create at once, while a
						// flush of the old version may still be in progress
						w.del(c, ks)
						if tp.Chance(700) {
							w.upload(c, ks)
						}
					} else {
						w.upload(c, ks)
					}
				case 3, 4:
					via, open := w.tieredOpen(tp.Chance(300))
					w.readBack(c, ks, via, open, tp.Chance(300))
				case 5:
					w.setMD(c, ks)
				case 6:
					w.getMD(c, ks, tp.Draw(nSuf), w.ts, "tiered")
				case 7:
					if tp.Chance(400) {
						w.delMD(c, ks)
					} else {
						w.setMD(c, ks)
					}
				case 8, 9:
					w.del(c, ks)
				case 10:
					w.pressure(c, gaps[tp.Draw(len(gaps))])
				case 11:
					w.has(c, ks)
				}
			}
		})
	}
	wg.Wait()

	// ---- final quiescence: let every flush finish, force memory eviction ----
	simrt.Sleep(2 * time.Hour)
	w.pressure(-1, 0)
	simrt.Sleep(2 * time.Hour)
	for _, ks := range w.keys {
		if ks.uploading || ks.deleting != 0 {
			s.InfraError("harness: key %s still has an operation in flight at quiescence", ks.name)
		}
		via, open := w.tieredOpen(false)
		w.readBack(-1, ks, via, open, false)
		if w.strictWindow(ks, s.NextSeq()) != nil {
			via, open = w.diskOpen()
			w.readBack(-1, ks, via, open, true)
		}
		w.has(-1, ks)
		for suf := 0; suf < nSuf; suf++ {
			w.getMD(-1, ks, suf, w.ts, "tiered")
			if ks.exists && ks.cur.mcRet != 0 && !w.mayEvict {
				w.getMD(-1, ks, suf, w.ds, "disk")
			}
		}
	}

	// ---- linearizability of every key's history ----
	total, steps, exhausted := 0, 0, false
	if !w.mayEvict {
		nm := porcupine.NondeterministicModel{
			Init: func() []interface{} { return []interface{}{kstate{}} },
			Step: func(st, in, out interface{}) []interface{} {
				steps++
				if steps > stepBudget {
					exhausted = true
					return nil
				}
				res := kstep(st.(kstate), in.(hIn), out.(hOut))
				o := make([]interface{}, len(res))
				for i := range res {
					o[i] = res[i]
				}
				return o
			},
		}
		model := nm.ToModel()
		for _, ks := range w.keys {
			total += len(ks.hist)
			if len(ks.hist) == 0 {
				continue
			}
			// Inside the bubble the 30 s timeout is fake time and cannot expire
			// while the checker computes; the step budget bounds the search.
			res := porcupine.CheckOperationsTimeout(model, ks.hist, 30*time.Second)
			switch {
			case exhausted || res == porcupine.Unknown:
				s.Probe("porcupine_unknown")
				exhausted = false
				steps = 0
			case res == porcupine.Illegal:
				s.Fail("metadata_not_linearizable", "the history of key %s (%d operations, listed in the event log as '%s ...') has no linearization: a metadata read, Has or Delete result contradicts every order of the successful updates (e.g. an acknowledged SetMetadata/DeleteMetadata was lost, or a value resurfaced)", ks.name, len(ks.hist), ks.name)
			default:
				s.Probe("porcupine_ok")
			}
		}
	}
	kit.SetSample(map[string]any{"keys": nKeys, "clients": nClients, "ops_per_client": nOps, "flush_workers": workers, "mem_capacity": w.memCap,
		"disk_capacity": w.diskCap, "disk_may_evict": w.mayEvict, "pauses": pauses, "versions": w.nver, "history_ops": total})
}

func TestC09(t *testing.T) {
	kit.Main(t, kit.Spec{
		Property: "C09",
		Body:     body,
		Config: func(tier string) simrt.Config {
			return simrt.Config{MaxSteps: 400000, Horizon: 12 * time.Hour, PanicIsFailure: true}
		},
		Real: []string{"lib/store/tiered.Store + flusher workers", "lib/store/memory.Store", "lib/store/disk.Store (simulated disk: real files on tmpfs, every fs call a scheduling point)", "lib/store/metadata registry"},
		Stub: []string{"metadata values (harness metadata type registered for suffixes _c09md_a/_c09md_b)", "tally.NoopScope"},
		Rule: "one run = 2-3 keys, 3-5 client tasks x 5-12 tape-drawn operations (upload, read back, metadata set/get/delete, delete, memory pressure, has/stat), 1-3 flush workers, memory tier 24-64 bytes, blobs 4-16 bytes, optional injected task pauses (stalled flusher/client), then quiescence + forced memory eviction + final observations; 15% of runs use a small disk tier that may evict (oracles relaxed once the disk may have evicted); non-trivial = contested scheduling decision or fired pause; distinct = distinct event-log hash",
		Assumptions: []string{
			"clients follow the store's contract: one uploader per key at a time, nobody deletes a blob that is being uploaded, no writes after MarkComplete",
			"no disk faults are injected; any unclassified error is treated as 'effect may or may not have happened'",
			"second configuration: once the sum of blob sizes ever handed to the store exceeds the disk capacity the blob-loss and linearizability oracles are switched off (disk eviction is legitimate), only silent corruption is still reported",
		},
	})
}
