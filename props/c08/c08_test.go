// C08: the memory blob store behaves like its model, and stale handles fail
// cleanly.
//
// Sequential configuration: a tape-generated history (<=80 operations, 5 keys,
// small capacities) is applied to the real memory.Store and, operation by
// operation, to the reference model of model_test.go (set-of-states simulation
// of a nondeterministic specification).
//
// Concurrent configuration: 3-6 tasks share one store, keep *memory.File
// handles across Creates that evict and across Deletes; every operation is
// recorded with invoke/return stamps and the history (<=60 operations) is
// checked for linearizability against the same model with porcupine. A direct
// interval check covers the stale-handle clause independently of porcupine.
package c08

import (
	"errors"
	"fmt"
	"io"
	"os"
	"strconv"
	"testing"
	"time"

	"github.com/anishathalye/porcupine"
	"github.com/uber-go/tally"
	storelib "github.com/uber/kraken/lib/store"
	"github.com/uber/kraken/lib/store/memory"
	"github.com/uber/kraken/lib/store/metadata"

	"kverif/kit"
	ssync "kverif/shim/sync"
	simrt "kverif/sim"
)

// ---------------------------------------------------------------------------
// metadata type of the harness (memory.Store needs no registration)

var sufNames = [nSuf]string{"_c08_a", "_c08_b", "_c08_fixed"}

type tmd struct {
	suf int
	val int
}

func (m *tmd) GetSuffix() string          { return sufNames[m.suf] }
func (m *tmd) Movable() bool              { return movable(m.suf) }
func (m *tmd) Serialize() ([]byte, error) { return []byte(strconv.Itoa(m.val)), nil }
func (m *tmd) Deserialize(b []byte) error {
	v, err := strconv.Atoi(string(b))
	m.val = v
	return err
}

var _ metadata.Metadata = (*tmd)(nil)

// ---------------------------------------------------------------------------
// executing a model-level operation on the real store

type world struct {
	s     *simrt.Sim
	st    *memory.Store
	files [maxH]*memory.File
	hoff  [maxH]int64 // offset of a handle as implied by the results seen so far
	hkey  [maxH]int
	bound [maxH]bool
	// belief of the workload generator about which keys are present (steers
	// key choice only; never used by an oracle)
	present [nKeys]bool
	partial [nKeys]bool // believed incomplete
	banned  [nKeys]bool // believed banned
}

func keyName(k int) string { return fmt.Sprintf("k%d", k) }

func classify(err error) int {
	switch {
	case err == nil:
		return ecOK
	case errors.Is(err, memory.ErrEvicted):
		return ecEvicted
	case errors.Is(err, memory.ErrNoSpace):
		return ecNoSpace
	case errors.Is(err, storelib.ErrOutOfScope):
		return ecOOS
	case errors.Is(err, os.ErrExist):
		return ecExists
	case errors.Is(err, os.ErrNotExist):
		return ecNotExist
	case err == io.EOF:
		return ecEOF
	}
	return ecOther
}

func (w *world) scoped(sc int) *memory.Store {
	switch sc {
	case scComplete:
		return w.st.ScopeComplete()
	case scIncomplete:
		return w.st.ScopeIncomplete()
	}
	return w.st
}

func keyIndex(name string) int {
	for k := 0; k < nKeys; k++ {
		if keyName(k) == name {
			return k
		}
	}
	return -1
}

func (w *world) exec(in opIn) (out opOut) {
	defer func() {
		switch {
		case in.kind == opCreate && (out.ec == ecOK || out.ec == ecExists):
			w.present[in.key] = true
			if out.ec == ecOK {
				w.partial[in.key], w.banned[in.key] = true, false
			}
		case in.kind == opMarkComplete && out.ec == ecOK:
			w.partial[in.key] = false
		case in.kind == opBan && out.ec == ecOK:
			w.banned[in.key] = true
		case in.kind == opUnban && out.ec == ecOK:
			w.banned[in.key] = false
		case in.kind == opDelete && out.ec == ecOK, in.kind == opHas && !out.b1, in.kind < opRead && out.ec == ecNotExist:
			w.present[in.key] = false
		}
	}()
	st := w.scoped(in.scope)
	key := keyName(in.key)
	switch in.kind {
	case opCreate:
		f, err := w.st.Create(key, uint64(in.n))
		out.ec = classify(err)
		if err == nil {
			w.files[in.h], w.hoff[in.h], w.hkey[in.h], w.bound[in.h] = f, 0, in.key, true
		}
	case opOpen:
		f, err := st.Open(key)
		out.ec = classify(err)
		if err == nil {
			w.files[in.h], w.hoff[in.h], w.hkey[in.h], w.bound[in.h] = f, 0, in.key, true
		}
	case opHas:
		out.b1, out.b2 = st.Has(key)
	case opStat:
		n, err := st.Stat(key)
		out.ec = classify(err)
		if err == nil {
			out.n = n
		}
	case opMarkComplete:
		out.ec = classify(w.st.MarkComplete(key))
	case opDelete:
		out.ec = classify(st.Delete(key))
	case opList:
		for _, name := range st.List() {
			if k := keyIndex(name); k >= 0 {
				out.mask |= 1 << uint(k)
			} else {
				out.ec = ecOther
			}
		}
	case opBan:
		out.ec = classify(st.BanEviction(key))
	case opUnban:
		out.ec = classify(st.UnbanEviction(key))
	case opSetMD:
		out.ec = classify(st.SetMetadata(key, &tmd{suf: in.suf, val: in.val}))
	case opGetMD:
		md := &tmd{suf: in.suf}
		ok, err := st.GetMetadata(key, md)
		out.ec = classify(err)
		if err == nil && ok {
			out.b1, out.n = true, int64(md.val)
		}
	case opListMD:
		mds, err := st.ListMetadata(key)
		out.ec = classify(err)
		for _, md := range mds {
			found := false
			for s := range sufNames {
				if sufNames[s] == md.GetSuffix() {
					out.mask |= 1 << uint(s)
					found = true
				}
			}
			if !found {
				out.ec = ecOther
			}
		}
	case opDelMD:
		out.ec = classify(st.DeleteMetadata(key, sufNames[in.suf]))
	case opRead:
		buf := make([]byte, in.n)
		n, err := w.files[in.h].Read(buf)
		out.ec, out.data = classify(err), string(buf[:n])
		w.hoff[in.h] += int64(n)
	case opReadAt:
		buf := make([]byte, in.n)
		n, err := w.files[in.h].ReadAt(buf, in.off)
		out.ec, out.data = classify(err), string(buf[:n])
	case opWrite:
		n, err := w.files[in.h].Write([]byte(in.payload))
		out.ec, out.n = classify(err), int64(n)
		w.hoff[in.h] += int64(n)
	case opWriteAt:
		n, err := w.files[in.h].WriteAt([]byte(in.payload), in.off)
		out.ec, out.n = classify(err), int64(n)
	case opSeek:
		n, err := w.files[in.h].Seek(int64(in.n), in.whence)
		out.ec, out.n = classify(err), n
		if err == nil {
			w.hoff[in.h] = n
		}
	case opSize:
		out.n = w.files[in.h].Size()
		// Close/Cancel/Commit are documented no-ops (exempt from the property);
		// exercise them here so that a handle that was "closed" keeps being used.
		f := w.files[in.h]
		if f.Close() != nil || f.Commit() != nil || f.Cancel() != nil {
			out.ec = ecOther
		}
	}
	return out
}

// ---------------------------------------------------------------------------
// workload generation (every choice comes from the tape; 0 = boring)

var weightsAll = []int{
	opHas, opCreate, opCreate, opCreate, opCreate, opCreate, opOpen, opOpen, opOpen, opOpen,
	opMarkComplete, opMarkComplete, opMarkComplete, opMarkComplete, opMarkComplete, opMarkComplete, opDelete, opDelete, opDelete, opHas, opStat, opList,
	opBan, opUnban, opUnban, opSetMD, opSetMD, opGetMD, opGetMD, opListMD, opDelMD,
	opWrite, opWrite, opWrite, opWrite, opWrite, opWriteAt, opWriteAt, opRead, opRead, opRead, opRead,
	opReadAt, opReadAt, opReadAt, opSeek, opSeek, opSize, opSize,
}

// LRU-focused profile: only operations whose effect on recency is documented
// (plus handle I/O, which touches one blob), so that the eviction order stays
// sharp in the model.
var weightsLRU = []int{
	opOpen, opCreate, opCreate, opCreate, opCreate, opCreate, opOpen, opOpen, opOpen,
	opMarkComplete, opMarkComplete, opMarkComplete, opMarkComplete, opMarkComplete, opMarkComplete, opDelete, opDelete, opBan, opUnban, opUnban,
	opWrite, opWrite, opRead, opRead, opReadAt, opSize,
}

type gen struct {
	s       *simrt.Sim
	w       *world
	weights []int
	nKeys   int
	vals    int
}

// next draws the next operation for a client owning the handle slots.
func (g *gen) next(slots []int, rr *int) opIn {
	tp := g.s.Tape
	kind := g.weights[tp.Draw(len(g.weights))]
	in := opIn{kind: kind, key: tp.Draw(g.nKeys)}
	if kind >= opRead {
		var have []int
		for _, h := range slots {
			if g.w.bound[h] {
				have = append(have, h)
			}
		}
		if len(have) == 0 {
			in.kind, kind = opOpen, opOpen
		} else {
			in.h = have[tp.Draw(len(have))]
			in.key = g.w.hkey[in.h]
			in.off = g.w.hoff[in.h]
		}
	}
	switch kind {
	case opCreate, opOpen:
		in.h = slots[*rr%len(slots)]
		*rr++
		if kind == opCreate {
			in.n = 1 + tp.Draw(8)
			if tp.Chance(700) {
				// prefer a key believed absent, so that admissions (and
				// evictions) happen instead of already-exists errors
				var absent []int
				for k := 0; k < g.nKeys; k++ {
					if !g.w.present[k] {
						absent = append(absent, k)
					}
				}
				if len(absent) > 0 {
					in.key = absent[tp.Draw(len(absent))]
				}
			}
		}
	case opMarkComplete, opUnban:
		if tp.Chance(700) {
			var cand []int
			for k := 0; k < g.nKeys; k++ {
				if g.w.present[k] && ((kind == opMarkComplete && g.w.partial[k]) || (kind == opUnban && g.w.banned[k])) {
					cand = append(cand, k)
				}
			}
			if len(cand) > 0 {
				in.key = cand[tp.Draw(len(cand))]
			}
		}
	case opSetMD, opGetMD, opDelMD:
		in.suf = tp.Draw(nSuf)
		if kind == opSetMD {
			g.vals++
			in.val = g.vals
		}
	case opRead:
		in.n = 1 + tp.Draw(6)
	case opReadAt:
		in.n = 1 + tp.Draw(6)
		in.off = int64(tp.Draw(10))
	case opWrite, opWriteAt:
		in.payload = string(kit.Bytes(g.s, 1+tp.Draw(4)))
		if kind == opWriteAt {
			in.off = int64(tp.Draw(10))
		}
	case opSeek:
		// in-range targets only: the handle offset never exceeds the blob size
		switch tp.Draw(4) {
		case 0:
			in.whence, in.n = io.SeekStart, 0
		case 1:
			in.whence, in.n = io.SeekEnd, 0
		case 2:
			in.whence, in.n = io.SeekCurrent, -tp.Draw(int(in.off)+1)
		case 3:
			in.whence, in.n = io.SeekStart, tp.Draw(int(in.off)+1)
		}
	}
	if kind != opCreate && kind != opMarkComplete && kind < opRead && tp.Chance(250) {
		in.scope = 1 + tp.Draw(2)
	}
	return in
}

var capacities = []int64{8, 4, 12, 16, 6, 20, 30}

func newStore(s *simrt.Sim, capacity int64) *memory.Store {
	st, err := memory.NewStore(&memory.Config{CapacityBytes: uint64(capacity), GOMEMLIMITBytes: 1 << 40}, tally.NoopScope)
	if err != nil {
		s.InfraError("memory.NewStore: %v", err)
	}
	return st
}

func probeOp(s *simrt.Sim, in opIn, out opOut) {
	s.Probe("op_" + opNames[in.kind])
	switch {
	case out.ec == ecEvicted || (in.kind == opSize && out.n == -1):
		s.Probe("handle_saw_evicted")
	case out.ec == ecNoSpace:
		s.Probe("create_nospace")
	case out.ec == ecOOS:
		s.Probe("out_of_scope")
	}
}

// ---------------------------------------------------------------------------
// sequential configuration

func sequential(s *simrt.Sim, tier string) {
	tp := s.Tape
	capacity := capacities[tp.Draw(len(capacities))]
	w := &world{s: s, st: newStore(s, capacity)}
	g := &gen{s: s, w: w, weights: weightsAll, nKeys: nKeys}
	if tp.Draw(3) == 1 {
		g.weights = weightsLRU
	}
	nOps := 20 + tp.Draw(61)
	m := model{capacity: capacity}
	states := []state{{}}
	slots := make([]int, maxH)
	for i := range slots {
		slots[i] = i
	}
	rr := 0
	evictions := 0
	for i := 0; i < nOps; i++ {
		in := g.next(slots, &rr)
		out := w.exec(in)
		s.Logf("%d %v -> %v", i, in, out)
		probeOp(s, in, out)
		var next []state
		for _, st := range states {
			next = append(next, m.step(st, in, out)...)
		}
		next = dedupe(next)
		if len(next) == 0 {
			oracle := "seq_result_mismatch"
			switch {
			case in.kind >= opRead && out.ec != ecEvicted && !(in.kind == opSize && out.n == -1) && goneInAll(states, in):
				oracle = "stale_handle_served"
			case in.kind >= opRead:
				oracle = "seq_handle_mismatch"
			case in.kind == opCreate:
				oracle = "seq_admission_mismatch"
			}
			s.Fail(oracle, "op %d %v returned %v, which the model cannot produce (capacity %d). Model state(s) before the op: %s",
				i, in, out, capacity, describe(states))
		}
		if in.kind == opCreate && out.ec == ecOK {
			live0, live1 := 0, 0
			for k := 0; k < nKeys; k++ {
				if states[0].b[k].live {
					live0++
				}
				if next[0].b[k].live {
					live1++
				}
			}
			if live1 <= live0 {
				evictions++
				s.Probe("create_evicted")
			}
		}
		if len(next) > 1 {
			s.Probe("model_ambiguous")
		}
		states = next
		s.State(simrt.Mix(uint64(len(states)), hashState(states[0])))
	}
	kit.SetSample(map[string]any{"scenario": "sequential", "capacity": capacity, "ops": nOps, "evicting_creates": evictions, "lru_profile": len(g.weights) == len(weightsLRU)})
}

func goneInAll(states []state, in opIn) bool {
	for _, st := range states {
		b := st.b[in.key]
		if b.live && st.hver[in.h] != 0 && b.ver == st.hver[in.h] {
			return false
		}
	}
	return true
}

func describe(states []state) string {
	out := ""
	for i, st := range states {
		if i == 3 {
			out += fmt.Sprintf(" ... (%d states)", len(states))
			break
		}
		out += fmt.Sprintf(" [%d] %v", i, st)
	}
	return out
}

func hashState(st state) uint64 {
	h := uint64(14695981039346656037)
	for _, c := range []byte(st.String()) {
		h = (h ^ uint64(c)) * 1099511628211
	}
	return h
}

// ---------------------------------------------------------------------------
// concurrent configuration

type binding struct {
	key     int
	ret     int64 // return stamp of the Create/Open that produced the handle
	evicted bool  // an earlier call on this handle already reported eviction
}

type goneEv struct{ call, ret int64 }

const stepBudget = 3_000_000

// evictSteps+1 is the number of separate instants at which the victims of one
// Create may disappear (the Create's own linearization point is the last).
const evictSteps = 3

func concurrent(s *simrt.Sim, tier string) {
	tp := s.Tape
	capacity := capacities[tp.Draw(len(capacities))]
	w := &world{s: s, st: newStore(s, capacity)}
	nTasks := 3 + tp.Draw(4)
	per := 6 + tp.Draw(11)
	if per*nTasks > 48 {
		per = 48 / nTasks // <=48 client calls; with eviction steps the history stays around 60 entries
	}
	g := &gen{s: s, w: w, weights: weightsAll, nKeys: 2 + tp.Draw(nKeys-1)}
	if tp.Draw(3) == 1 {
		g.weights = weightsLRU
	}
	var history []porcupine.Operation
	var binds [maxH]*binding
	gone := make([][]goneEv, nKeys)
	var wg ssync.WaitGroup
	for t := 0; t < nTasks; t++ {
		wg.Add(1)
		t := t
		simrt.Go(func() {
			defer wg.Done()
			slots := []int{3 * t, 3*t + 1, 3*t + 2}
			rr := 0
			for i := 0; i < per; i++ {
				in := g.next(slots, &rr)
				var b *binding
				if in.kind >= opRead {
					b = binds[in.h]
				}
				call := s.NextSeq()
				out := w.exec(in)
				ret := s.NextSeq()
				history = append(history, porcupine.Operation{ClientId: t, Input: in, Call: call, Output: out, Return: ret})
				if in.kind == opCreate && (out.ec == ecOK || out.ec == ecNoSpace) {
					// The statement does not promise that the evictions made
					// by one admission are atomic as seen through handles of
					// different victims (each eviction is): let the victims go
					// one at a time anywhere inside the Create's interval.
					for e := 0; e < evictSteps; e++ {
						history = append(history, porcupine.Operation{ClientId: t, Input: opIn{kind: opEvictStep, key: in.key, n: in.n}, Call: call, Output: opOut{}, Return: ret})
					}
				}
				s.Logf("task %d [%d,%d] %v -> %v", t, call, ret, in, out)
				probeOp(s, in, out)
				if out.ec == ecOther {
					s.Fail("unexpected_error", "task %d: %v returned an error outside the documented classes", t, in)
				}
				// ---- stale-handle clause, judged by intervals only ----
				switch {
				case (in.kind == opCreate || in.kind == opOpen) && out.ec == ecOK:
					binds[in.h] = &binding{key: in.key, ret: ret}
				}
				absent := false
				switch in.kind {
				case opCreate, opDelete:
					absent = out.ec == ecOK // key absent just before / just after
				case opHas:
					absent = !out.b1
				case opList:
				default:
					absent = in.kind < opRead && out.ec == ecNotExist
				}
				if absent {
					gone[in.key] = append(gone[in.key], goneEv{call, ret})
				}
				if b != nil {
					served := !(out.ec == ecEvicted || (in.kind == opSize && out.n == -1))
					if served {
						if b.evicted {
							s.Fail("stale_handle_served", "task %d: %v returned %v although an earlier call on the same handle already reported the blob evicted", t, in, out)
						}
						for _, e := range gone[b.key] {
							if e.call > b.ret && e.ret < call {
								s.Fail("stale_handle_served", "task %d: %v (invoked at %d) returned %v, but the handle was obtained at %d and key k%d was observed absent/deleted/re-created by an operation spanning [%d,%d]: the handle's blob was gone before the call", t, in, call, out, b.ret, b.key, e.call, e.ret)
							}
						}
					} else {
						b.evicted = true
					}
				}
			}
		})
	}
	wg.Wait()
	m := model{capacity: capacity}
	steps := 0
	exhausted := false
	nm := porcupine.NondeterministicModel{
		Init: func() []interface{} { return []interface{}{state{}} },
		Step: func(st, in, out interface{}) []interface{} {
			steps++
			if steps > stepBudget {
				exhausted = true
				return nil
			}
			res := m.step(st.(state), in.(opIn), out.(opOut))
			o := make([]interface{}, len(res))
			for i := range res {
				o[i] = res[i]
			}
			return o
		},
	}
	// Inside the bubble the 30 s timeout is fake time and cannot expire while
	// the checker computes; the deterministic step budget is what bounds it.
	res := porcupine.CheckOperationsTimeout(nm.ToModel(), history, 30*time.Second)
	switch {
	case exhausted || res == porcupine.Unknown:
		s.Probe("porcupine_unknown")
	case res == porcupine.Illegal:
		s.Fail("not_linearizable", "history of %d operations by %d tasks (capacity %d) has no linearization admitted by the model; see the operation log", realOps(history), nTasks, capacity)
	default:
		s.Probe("porcupine_ok")
	}
	kit.SetSample(map[string]any{"scenario": "concurrent", "capacity": capacity, "tasks": nTasks, "ops": realOps(history), "history_entries": len(history), "keys": g.nKeys, "model_steps": steps})
}

func realOps(h []porcupine.Operation) int {
	n := 0
	for _, o := range h {
		if o.Input.(opIn).kind != opEvictStep {
			n++
		}
	}
	return n
}

func body(s *simrt.Sim, tier string) {
	if s.Tape.Draw(2) == 0 {
		sequential(s, tier)
	} else {
		concurrent(s, tier)
	}
}

func TestC08(t *testing.T) {
	kit.Main(t, kit.Spec{
		Property: "C08",
		Body:     body,
		Config: func(tier string) simrt.Config {
			return simrt.Config{MaxSteps: 200000, Horizon: time.Hour, PanicIsFailure: true}
		},
		Real: []string{"lib/store/memory.Store (all public operations, scoped views)", "lib/store/memory.File"},
		Stub: []string{"metadata values (harness metadata.Metadata type, 2 movable + 1 non-movable suffix)", "tally.NoopScope"},
		Rule: "one run = sequential history (20-80 tape-drawn ops, 5 keys, capacity 4..40 bytes, blob sizes 1..8) checked op by op against the nondeterministic reference model, or concurrent history (3-6 tasks, <=60 ops, 2-5 keys) checked with porcupine against the same model plus an interval check of the stale-handle clause; non-trivial = contested scheduling decision (concurrent runs); distinct = distinct event-log hash",
		Assumptions: []string{
			"which calls count as an LRU 'use' beyond Open/MarkComplete/UnbanEviction is undocumented: the model admits both readings (victim must be least-recently-used under some reading)",
			"Close/Cancel/Commit on memory.File are documented no-ops and exempt",
			"seeks and reads use in-range arguments; zero-length reads are not issued",
		},
	})
}
