package c08

// Reference model of the capacity-bounded LRU blob store, written from the
// property statement (DESIGN.md Appendix A.1), not from the implementation.
//
// The model is a NONDETERMINISTIC sequential specification: step() returns the
// set of states the store may be in after an operation produced a given
// result (empty set = the result is impossible). Nondeterminism is needed in
// exactly one place: which operations count as a "use" for LRU purposes. The
// documentation says the store is an LRU cache, that completion enlists a blob
// and that Open is an access; it is silent about Stat/Has/List/metadata calls
// and I/O through an already open handle. The model therefore keeps, per
// evictable blob, the time of its last *definite* use (def) and of its last
// *possible* use (maybe >= def); an eviction victim is admissible unless some
// other evictable blob is older under EVERY reading (other.maybe < victim.def).
//
// The same step function drives the sequential configuration (set-of-states
// simulation, op by op) and the concurrent one (porcupine).

import (
	"fmt"
	"sort"
	"strings"
)

const (
	nKeys = 5
	nSuf  = 3  // suffixes 0,1 movable; 2 non-movable
	maxH  = 18 // handle slots per run
)

const (
	scAny = iota
	scComplete
	scIncomplete
)

// error classes of results
const (
	ecOK = iota
	ecExists
	ecNotExist
	ecOOS
	ecNoSpace
	ecEvicted
	ecEOF
	ecOther
)

var ecNames = []string{"ok", "exists", "notexist", "outofscope", "nospace", "evicted", "eof", "OTHER"}

const (
	opCreate = iota
	opOpen
	opHas
	opStat
	opMarkComplete
	opDelete
	opList
	opBan
	opUnban
	opSetMD
	opGetMD
	opListMD
	opDelMD
	// handle operations
	opRead
	opReadAt
	opWrite
	opWriteAt
	opSeek
	opSize
	// opEvictStep is not a client call: it stands for one iteration of the
	// eviction loop of a Create that was observed to run concurrently with
	// other clients (see concurrent configuration).
	opEvictStep
	nOpKinds
)

var opNames = []string{"Create", "Open", "Has", "Stat", "MarkComplete", "Delete", "List", "BanEviction", "UnbanEviction",
	"SetMetadata", "GetMetadata", "ListMetadata", "DeleteMetadata", "Read", "ReadAt", "Write", "WriteAt", "Seek", "Size", "evict-step"}

type opIn struct {
	kind    int
	key     int
	scope   int
	n       int   // Create: reserved size; Read/ReadAt: len(p)
	suf     int   // metadata suffix index
	val     int   // metadata value
	h       int   // handle slot (bound by Create/Open, used by handle ops)
	off     int64 // handle offset as tracked by the harness from earlier results / explicit offset
	whence  int
	payload string
}

type opOut struct {
	ec   int
	b1   bool // Has: inStore; GetMetadata: present
	b2   bool // Has: inScope
	n    int64
	data string
	mask uint32
}

func (in opIn) String() string {
	k := fmt.Sprintf("k%d", in.key)
	sc := [...]string{"", "@complete", "@incomplete"}[in.scope]
	switch in.kind {
	case opCreate:
		return fmt.Sprintf("Create(%s,%d)->h%d", k, in.n, in.h)
	case opOpen:
		return fmt.Sprintf("Open%s(%s)->h%d", sc, k, in.h)
	case opList:
		return "List" + sc + "()"
	case opSetMD:
		return fmt.Sprintf("SetMetadata%s(%s,s%d=%d)", sc, k, in.suf, in.val)
	case opGetMD, opDelMD:
		return fmt.Sprintf("%s%s(%s,s%d)", opNames[in.kind], sc, k, in.suf)
	case opRead:
		return fmt.Sprintf("h%d[%s].Read(len %d) at off %d", in.h, k, in.n, in.off)
	case opReadAt:
		return fmt.Sprintf("h%d[%s].ReadAt(len %d, off %d)", in.h, k, in.n, in.off)
	case opWrite:
		return fmt.Sprintf("h%d[%s].Write(%x) at off %d", in.h, k, in.payload, in.off)
	case opWriteAt:
		return fmt.Sprintf("h%d[%s].WriteAt(%x, off %d)", in.h, k, in.payload, in.off)
	case opSeek:
		return fmt.Sprintf("h%d[%s].Seek(%d, whence %d) from off %d", in.h, k, in.n, in.whence, in.off)
	case opSize:
		return fmt.Sprintf("h%d[%s].Size()", in.h, k)
	}
	return fmt.Sprintf("%s%s(%s)", opNames[in.kind], sc, k)
}

func (o opOut) String() string {
	return fmt.Sprintf("{%s b=%v,%v n=%d data=%x mask=%b}", ecNames[o.ec], o.b1, o.b2, o.n, o.data, o.mask)
}

type blobSt struct {
	live, complete, banned bool
	ver                    int16
	reserved               int32
	def, maybe             int16 // recency ranks; meaningful only while evictable
	data                   string
	md                     [nSuf]int16 // 0 = absent
}

// state is comparable (==): porcupine's default equality works on it.
type state struct {
	b    [nKeys]blobSt
	hver [maxH]int16 // version a handle slot is bound to (0 = unbound)
	vctr int16
}

func (b *blobSt) evictable() bool { return b.live && b.complete && !b.banned }

func oos(b *blobSt, sc int) bool {
	return (b.complete && sc == scIncomplete) || (!b.complete && sc == scComplete)
}

func (st *state) used() int64 {
	var u int64
	for i := range st.b {
		if st.b[i].live {
			u += int64(st.b[i].reserved)
		}
	}
	return u
}

func (st *state) now() int16 {
	var m int16
	for i := range st.b {
		if st.b[i].evictable() && st.b[i].maybe > m {
			m = st.b[i].maybe
		}
	}
	return m + 1
}

// normalise maps the recency stamps to dense ranks so that states reached
// through different but equivalent orders compare equal.
func (st *state) normalise() {
	var vals []int
	for i := range st.b {
		b := &st.b[i]
		if !b.evictable() {
			b.def, b.maybe = 0, 0
			continue
		}
		vals = append(vals, int(b.def), int(b.maybe))
	}
	if len(vals) == 0 {
		return
	}
	sort.Ints(vals)
	rank := map[int]int16{}
	var r int16
	for i, v := range vals {
		if i == 0 || v != vals[i-1] {
			r++
			rank[v] = r
		}
	}
	for i := range st.b {
		b := &st.b[i]
		if b.evictable() {
			b.def, b.maybe = rank[int(b.def)], rank[int(b.maybe)]
		}
	}
}

func (st *state) use(k int, now int16) {
	if st.b[k].evictable() {
		st.b[k].def, st.b[k].maybe = now, now
	}
}

func (st *state) maybeUse(k int, now int16) {
	if st.b[k].evictable() {
		st.b[k].maybe = now
	}
}

// admissible victims: evictable blobs not definitely newer than another one.
func (st *state) victims() []int {
	var out []int
	for e := range st.b {
		if !st.b[e].evictable() {
			continue
		}
		ok := true
		for r := range st.b {
			if r != e && st.b[r].evictable() && st.b[r].maybe < st.b[e].def {
				ok = false
			}
		}
		if ok {
			out = append(out, e)
		}
	}
	return out
}

type model struct{ capacity int64 }

func one(st state) []state { st.normalise(); return []state{st} }

// admit enumerates the states after a successful admission of n bytes for key
// k: victims are taken in an admissible LRU order, only while space is short.
func (m model) admit(st state, in opIn, acc *[]state) {
	if st.used()+int64(in.n) <= m.capacity {
		st.vctr++
		st.b[in.key] = blobSt{live: true, ver: st.vctr, reserved: int32(in.n)}
		st.hver[in.h] = st.vctr
		st.normalise()
		*acc = append(*acc, st)
		return
	}
	for _, e := range st.victims() {
		nx := st
		nx.b[e] = blobSt{}
		m.admit(nx, in, acc)
	}
}

// refuse enumerates the states after a failed admission: any admissible prefix
// of the eviction order may be gone (the statement allows either).
func (m model) refuse(st state, acc *[]state) {
	c := st
	c.normalise()
	*acc = append(*acc, c)
	for _, e := range st.victims() {
		nx := st
		nx.b[e] = blobSt{}
		m.refuse(nx, acc)
	}
}

func dedupe(in []state) []state {
	var out []state
	for _, s := range in {
		dup := false
		for _, o := range out {
			if o == s {
				dup = true
				break
			}
		}
		if !dup {
			out = append(out, s)
		}
	}
	return out
}

// step returns the possible successor states of st when operation in returned
// out; nil when the model cannot produce that result in st.
func (m model) step(st state, in opIn, out opOut) []state {
	now := st.now()
	if in.kind == opEvictStep {
		// A Create(key, n) that is in progress may already have evicted one
		// more victim: allowed only while the admission is still short of
		// space (and the key is absent), in admissible LRU order.
		res := []state{st}
		if !st.b[in.key].live && st.used()+int64(in.n) > m.capacity {
			for _, e := range st.victims() {
				nx := st
				nx.b[e] = blobSt{}
				nx.normalise()
				res = append(res, nx)
			}
		}
		return res
	}
	if in.kind >= opRead {
		return m.stepHandle(st, in, out, now)
	}
	if in.kind == opList {
		var mask uint32
		for k := range st.b {
			if st.b[k].live && !oos(&st.b[k], in.scope) {
				mask |= 1 << uint(k)
			}
		}
		if out.ec != ecOK || out.mask != mask {
			return nil
		}
		for k := range st.b {
			st.maybeUse(k, now)
		}
		return one(st)
	}
	k := in.key
	b := &st.b[k]
	if in.kind == opCreate {
		if b.live {
			if out.ec != ecExists {
				return nil
			}
			st.maybeUse(k, now)
			return one(st)
		}
		switch out.ec {
		case ecOK:
			var acc []state
			m.admit(st, in, &acc)
			return dedupe(acc)
		case ecNoSpace:
			free := st.used()
			for i := range st.b {
				if st.b[i].evictable() {
					free -= int64(st.b[i].reserved)
				}
			}
			if free+int64(in.n) <= m.capacity {
				return nil // enough space could have been freed
			}
			var acc []state
			m.refuse(st, &acc)
			return dedupe(acc)
		}
		return nil
	}
	// every remaining operation addresses an existing blob
	if !b.live {
		if in.kind == opHas {
			if out.ec == ecOK && !out.b1 && !out.b2 {
				return one(st)
			}
			return nil
		}
		if out.ec == ecNotExist {
			return one(st)
		}
		return nil
	}
	scoped := in.kind != opMarkComplete
	if scoped && oos(b, in.scope) {
		st.maybeUse(k, now)
		if in.kind == opHas {
			if out.ec == ecOK && out.b1 && !out.b2 {
				return one(st)
			}
			return nil
		}
		if out.ec == ecOOS {
			return one(st)
		}
		return nil
	}
	if out.ec != ecOK {
		return nil
	}
	switch in.kind {
	case opOpen:
		st.use(k, now)
		st.hver[in.h] = b.ver
	case opHas:
		if !out.b1 || !out.b2 {
			return nil
		}
		st.maybeUse(k, now)
	case opStat:
		if out.n != int64(len(b.data)) {
			return nil
		}
		st.maybeUse(k, now)
	case opMarkComplete:
		if !b.complete {
			b.complete = true
			for s := range b.md {
				if !movable(s) {
					b.md[s] = 0
				}
			}
			st.use(k, now) // enlisted at the back unless banned
		} else {
			st.maybeUse(k, now)
		}
	case opDelete:
		*b = blobSt{}
	case opBan:
		b.banned = true
	case opUnban:
		if b.banned {
			b.banned = false
			st.use(k, now)
		} else {
			st.maybeUse(k, now)
		}
	case opSetMD:
		b.md[in.suf] = int16(in.val)
		st.maybeUse(k, now)
	case opGetMD:
		if out.b1 != (b.md[in.suf] != 0) || (out.b1 && out.n != int64(b.md[in.suf])) {
			return nil
		}
		st.maybeUse(k, now)
	case opListMD:
		var mask uint32
		for s := range b.md {
			if b.md[s] != 0 {
				mask |= 1 << uint(s)
			}
		}
		if out.mask != mask {
			return nil
		}
		st.maybeUse(k, now)
	case opDelMD:
		b.md[in.suf] = 0
		st.maybeUse(k, now)
	default:
		return nil
	}
	return one(st)
}

func movable(suf int) bool { return suf != 2 }

func (m model) stepHandle(st state, in opIn, out opOut, now int16) []state {
	k := in.key
	b := &st.b[k]
	alive := b.live && st.hver[in.h] != 0 && b.ver == st.hver[in.h]
	if !alive {
		// Memory store addition: data-bearing calls on a handle of a blob
		// that was evicted or deleted fail with the evicted error.
		if in.kind == opSize {
			if out.ec == ecOK && out.n == -1 {
				return one(st)
			}
			return nil
		}
		if out.ec == ecEvicted && out.data == "" && out.n == 0 {
			return one(st)
		}
		return nil
	}
	st.maybeUse(k, now)
	size := int64(len(b.data))
	switch in.kind {
	case opSize:
		if out.ec != ecOK || out.n != size {
			return nil
		}
	case opRead:
		// io.Reader on a file: at end of data (0, EOF); otherwise 1..len(p)
		// bytes of the content at the handle's offset.
		n := int64(len(out.data))
		if in.off >= size {
			if out.ec != ecEOF || n != 0 {
				return nil
			}
			break
		}
		if n < 1 || n > int64(in.n) || in.off+n > size || b.data[in.off:in.off+n] != out.data {
			return nil
		}
		if out.ec != ecOK && !(out.ec == ecEOF && in.off+n == size) {
			return nil
		}
	case opReadAt:
		// io.ReaderAt: n < len(p) only together with an error (EOF at the end).
		n := int64(len(out.data))
		avail := size - in.off
		if avail < 0 {
			avail = 0
		}
		want := int64(in.n)
		if want > avail {
			want = avail
		}
		if n != want || (n > 0 && b.data[in.off:in.off+n] != out.data) {
			return nil
		}
		if n < int64(in.n) {
			if out.ec != ecEOF {
				return nil
			}
		} else if out.ec != ecOK && !(out.ec == ecEOF && in.off+n == size) {
			return nil
		}
	case opWrite, opWriteAt:
		if out.ec != ecOK || out.n != int64(len(in.payload)) {
			return nil
		}
		buf := []byte(b.data)
		end := in.off + int64(len(in.payload))
		for int64(len(buf)) < end {
			buf = append(buf, 0)
		}
		copy(buf[in.off:], in.payload)
		b.data = string(buf)
	case opSeek:
		var want int64
		switch in.whence {
		case 0:
			want = int64(in.n)
		case 1:
			want = in.off + int64(in.n)
		case 2:
			want = size + int64(in.n)
		}
		// only in-range seeks are generated
		if out.ec != ecOK || out.n != want {
			return nil
		}
	default:
		return nil
	}
	return one(st)
}

func (st state) String() string {
	var sb strings.Builder
	for k := range st.b {
		b := st.b[k]
		if !b.live {
			continue
		}
		fmt.Fprintf(&sb, "k%d{v%d res=%d", k, b.ver, b.reserved)
		if b.complete {
			sb.WriteString(" complete")
		}
		if b.banned {
			sb.WriteString(" banned")
		}
		if b.evictable() {
			fmt.Fprintf(&sb, " lru=[%d,%d]", b.def, b.maybe)
		}
		fmt.Fprintf(&sb, " data=%x md=%v} ", b.data, b.md)
	}
	sb.WriteString("handles:")
	for h, v := range st.hver {
		if v != 0 {
			fmt.Fprintf(&sb, " h%d=v%d", h, v)
		}
	}
	return sb.String()
}
