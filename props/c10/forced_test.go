package c10

// Forced cleanup of the origin (POST /forcecleanup?ttl_hr=N -> Server.maybeDelete):
// a blob that still awaits write-back is removed only after its write-back
// tasks ran successfully; blobs younger than the requested TTL (and owned by
// this origin) are not removed. Real: blobserver router + handlers (upload,
// commit, conflict -> writeBack, forcecleanup), CAStore, metainfogen. Stub:
// the write-back manager (records Add / Find / SyncExec, tape-drawn failures,
// clears the persist flag after a successful execution like the real executor).

import (
	"bufio"
	"bytes"
	"encoding/json"
	"errors"
	"fmt"
	"io"
	"net/http"
	"net/http/httptest"
	"os"
	"path/filepath"
	"strings"
	"time"

	"github.com/c2h5oh/datasize"
	"github.com/uber-go/tally"
	"github.com/uber/kraken/core"
	"github.com/uber/kraken/lib/backend"
	"github.com/uber/kraken/lib/backend/backenderrors"
	"github.com/uber/kraken/lib/blobrefresh"
	"github.com/uber/kraken/lib/metainfogen"
	"github.com/uber/kraken/lib/persistedretry"
	"github.com/uber/kraken/lib/persistedretry/writeback"
	"github.com/uber/kraken/lib/store"
	"github.com/uber/kraken/lib/store/base"
	"github.com/uber/kraken/lib/store/metadata"
	"github.com/uber/kraken/origin/blobclient"
	"github.com/uber/kraken/origin/blobserver"
	"github.com/uber/kraken/utils/stringset"

	"kverif/kit"
	sclock "kverif/shim/clock"
	sos "kverif/shim/os"
	ssync "kverif/shim/sync"
	simrt "kverif/sim"
)

type nopBackend struct{}

func (nopBackend) Stat(ns, name string) (*core.BlobInfo, error) {
	return nil, backenderrors.ErrBlobNotFound
}
func (nopBackend) Upload(ns, name string, src io.Reader) error {
	_, err := io.Copy(io.Discard, src)
	return err
}
func (nopBackend) Download(ns, name string, dst io.Writer) error {
	return backenderrors.ErrBlobNotFound
}
func (nopBackend) List(prefix string, opts ...backend.ListOption) (*backend.ListResult, error) {
	return &backend.ListResult{}, nil
}
func (nopBackend) Close() error { return nil }

type oneRing struct{ addr string }

func (r oneRing) Locations(d core.Digest) []string { return []string{r.addr} }
func (r oneRing) Contains(addr string) bool        { return addr == r.addr }
func (r oneRing) WaitForContains(string) error     { return nil }
func (r oneRing) Members() stringset.Set           { return stringset.New(r.addr) }
func (r oneRing) Monitor(stop <-chan struct{})     {}
func (r oneRing) Refresh()                         {}

type noPeers struct{}

func (noPeers) Provide(addr string) blobclient.Client { return nil }

type noClusters struct{}

func (noClusters) Provide(dns string) (blobclient.ClusterClient, error) {
	return nil, errors.New("no remote cluster")
}

// wbTask is one write-back task as the stub manager knows it.
type wbTask struct {
	obj    persistedretry.Task
	name   string
	acked  bool // Add returned
	execOK bool // executed successfully at least once after it was added
}

type wbManager struct {
	s        *simrt.Sim
	cas      *store.CAStore
	tasks    []*wbTask
	failPm   int
	execs    int
	okByName map[string]int // successful write-back executions per blob name
}

func (m *wbManager) Add(t persistedretry.Task) error {
	wt, ok := t.(*writeback.Task)
	if !ok {
		return fmt.Errorf("unexpected task %T", t)
	}
	simrt.Yield()
	// like the real store (primary key namespace+name): adding a task that is
	// already pending is a no-op
	for _, r := range m.tasks {
		if r.name == wt.Name && !r.execOK && r.obj.(*writeback.Task).Namespace == wt.Namespace {
			return nil
		}
	}
	r := &wbTask{obj: t, name: wt.Name}
	m.tasks = append(m.tasks, r)
	simrt.Yield()
	r.acked = true
	return nil
}

func (m *wbManager) exec(r *wbTask) error {
	simrt.Yield()
	if m.failPm > 0 && m.s.Tape.Chance(m.failPm) {
		m.s.Probe("writeback_exec_failed")
		return errors.New("backend unavailable")
	}
	// what the real executor does after a successful upload
	if err := m.cas.DeleteCacheFileMetadata(r.name, &metadata.Persist{}); err != nil && !os.IsNotExist(err) {
		return err
	}
	r.execOK = true
	m.okByName[r.name]++
	m.execs++
	return nil
}

func (m *wbManager) SyncExec(t persistedretry.Task) error {
	for _, r := range m.tasks {
		if r.obj == t {
			return m.exec(r)
		}
	}
	return errors.New("unknown task")
}

func (m *wbManager) Find(q interface{}) ([]persistedretry.Task, error) {
	// writeback.NameQuery keeps its name unexported: recover it from the
	// printed form "&{name:<hex>}"
	str := fmt.Sprintf("%+v", q)
	simrt.Yield()
	var out []persistedretry.Task
	for _, r := range m.tasks {
		if !r.execOK && strings.Contains(str, "name:"+r.name+"}") {
			out = append(out, r.obj)
		}
	}
	return out, nil
}

func (m *wbManager) Close() {}

type blobRec struct {
	idx     int
	content []byte
	d       core.Digest
	dir     string
}

type fworld struct {
	s        *simrt.Sim
	h        http.Handler
	m        *wbManager
	cacheDir string
	blobs    []*blobRec
	byName   map[string]*blobRec
}

func (w *fworld) req(method, target string, hdr map[string]string, body []byte) (int, http.Header, []byte) {
	var b bytes.Buffer
	fmt.Fprintf(&b, "%s %s HTTP/1.1\r\nHost: origin1\r\n", method, target)
	for k, v := range hdr {
		fmt.Fprintf(&b, "%s: %s\r\n", k, v)
	}
	fmt.Fprintf(&b, "Content-Length: %d\r\n\r\n", len(body))
	b.Write(body)
	r, err := http.ReadRequest(bufio.NewReader(&b))
	if err != nil {
		w.s.InfraError("bad harness request: %v", err)
	}
	rec := httptest.NewRecorder()
	w.h.ServeHTTP(rec, r)
	return rec.Code, rec.Header(), rec.Body.Bytes()
}

func (w *fworld) hook(n *simrt.Node, kind, path string) error {
	victim := path
	if kind == "rename" {
		if i := strings.Index(path, " -> "); i >= 0 {
			victim = path[:i]
		}
	} else if kind != "remove" {
		return nil
	}
	victim = filepath.Clean(victim)
	if filepath.Base(victim) != base.DefaultDataFileName || !strings.HasPrefix(victim, w.cacheDir+"/") {
		return nil
	}
	b := w.byName[filepath.Base(filepath.Dir(victim))]
	if b == nil {
		return nil
	}
	w.s.Probe("blob_removed")
	// Blobs are content addressed and the harness uses one namespace: once a
	// write-back of this name succeeded the backend has the content, and a
	// task added later for the same name asks for nothing new. Removal is a
	// violation when write-back was scheduled (task acknowledged) and has
	// never succeeded. (A flag without any task is what maybeDelete documents
	// as a leaked file: not judged.)
	if w.m.okByName[b.d.Hex()] > 0 {
		w.s.Probe("removed_after_writeback")
		return nil
	}
	for i, r := range w.m.tasks {
		if r.name == b.d.Hex() && r.acked && !r.execOK {
			w.s.Fail("awaiting_writeback_removed", "blob b%d removed at t=%v although its write-back (task #%d, added and acknowledged) has never been executed successfully", b.idx, w.s.Now(), i)
		}
	}
	return nil
}

func (w *fworld) upload(b *blobRec) int {
	pre := "/namespace/ns/blobs/" + b.d.String()
	st, hdr, _ := w.req("POST", pre+"/uploads", nil, nil)
	if st != 200 {
		return st
	}
	uid := hdr.Get("Location")
	st, _, _ = w.req("PATCH", pre+"/uploads/"+uid, map[string]string{"Content-Range": fmt.Sprintf("0-%d", len(b.content))}, b.content)
	if st != 200 {
		return st
	}
	st, _, _ = w.req("PUT", pre+"/uploads/"+uid, nil, nil)
	return st
}

func forced(s *simrt.Sim, tier string) {
	tp := s.Tape
	root := kit.TempDir(s)
	w := &fworld{s: s, byName: map[string]*blobRec{}, cacheDir: filepath.Join(root, "origin", "cache")}
	cas, err := store.NewCAStore(store.CAStoreConfig{UploadDir: filepath.Join(root, "origin", "upload"), CacheDir: w.cacheDir,
		UploadCleanup: store.CleanupConfig{Disabled: true}, CacheCleanup: store.CleanupConfig{Disabled: true}}, tally.NoopScope)
	if err != nil {
		s.InfraError("NewCAStore: %v", err)
	}
	defer cas.Close()
	backends := new(backend.Manager)
	backends.Register(".*", nopBackend{}, false)
	mig, err := metainfogen.New(metainfogen.Config{PieceLengths: map[datasize.ByteSize]datasize.ByteSize{0: 4 * datasize.KB}}, cas)
	if err != nil {
		s.InfraError("metainfogen: %v", err)
	}
	w.m = &wbManager{s: s, cas: cas, okByName: map[string]int{}}
	const addr = "origin1:80"
	srv, err := blobserver.New(blobserver.Config{}, tally.NoopScope, sclock.New(), addr, oneRing{addr}, cas, noPeers{}, noClusters{},
		core.PeerContext{IP: "10.0.0.1", Port: 80, Origin: true}, backends, blobrefresh.New(blobrefresh.Config{}, tally.NoopScope, cas, backends, mig), mig, w.m)
	if err != nil {
		s.InfraError("blobserver.New: %v", err)
	}
	w.h = srv.Handler()
	s.Disk().FaultFn = w.hook

	// blobs uploaded through the real handlers: persist flag + write-back task
	nBlobs := 1 + tp.Draw(5)
	ageH := make([]int, nBlobs)
	for i := 0; i < nBlobs; i++ {
		content := append([]byte{byte(i), 'f'}, kit.Bytes(s, 1+tp.Draw(30))...)
		d, _ := core.NewSHA256DigestFromHex(kit.SHA(content))
		b := &blobRec{idx: i, content: content, d: d}
		w.blobs = append(w.blobs, b)
		w.byName[d.Hex()] = b
		if st := w.upload(b); st != 200 {
			s.InfraError("initial upload: status %d", st)
		}
		filepath.WalkDir(w.cacheDir, func(p string, de os.DirEntry, err error) error {
			if err == nil && de.IsDir() && de.Name() == d.Hex() {
				b.dir = p
			}
			return nil
		})
		if b.dir == "" {
			s.InfraError("cannot locate blob directory")
		}
		// drawn age: k hours + 30min (the requested TTL is whole hours)
		ageH[i] = tp.Draw(5)
		t := s.StartTime().Add(-time.Duration(ageH[i])*time.Hour - 30*time.Minute)
		if err := sos.Chtimes(filepath.Join(b.dir, base.DefaultDataFileName), t, t); err != nil {
			s.InfraError("chtimes: %v", err)
		}
		if tp.Chance(300) { // its write-back already happened
			w.m.exec(w.m.tasks[len(w.m.tasks)-1])
		}
	}
	w.m.failPm = tp.Draw(3) * 300
	ttlH := tp.Draw(5)

	var wg ssync.WaitGroup
	touched := map[int]bool{}
	// A: the forced cleanup request(s)
	var deleted []string
	wg.Add(1)
	simrt.Go(func() {
		defer wg.Done()
		n := 1 + tp.Draw(2)
		for i := 0; i < n; i++ {
			st, _, body := w.req("POST", fmt.Sprintf("/forcecleanup?ttl_hr=%d", ttlH), nil, nil)
			s.Logf("forcecleanup ttl=%dh -> %d", ttlH, st)
			if st == 200 {
				var resp struct {
					Deleted []string `json:"deleted"`
				}
				json.Unmarshal(body, &resp)
				deleted = append(deleted, resp.Deleted...)
				s.Probe("forcecleanup_ok")
			}
		}
	})
	// B: clients re-uploading existing blobs (conflict path schedules write-back again)
	if tp.Chance(600) {
		wg.Add(1)
		simrt.Go(func() {
			defer wg.Done()
			n := 1 + tp.Draw(3)
			for i := 0; i < n; i++ {
				b := w.blobs[tp.Draw(nBlobs)]
				touched[b.idx] = true
				st := w.upload(b)
				s.Logf("re-upload b%d -> %d", b.idx, st)
				if st == http.StatusConflict {
					s.Probe("reupload_conflict_writeback")
				}
			}
		})
	}
	// C: the write-back workers executing pending tasks
	if tp.Chance(600) {
		wg.Add(1)
		simrt.Go(func() {
			defer wg.Done()
			n := 1 + tp.Draw(3)
			for i := 0; i < n; i++ {
				simrt.Yield()
				if len(w.m.tasks) == 0 {
					continue
				}
				r := w.m.tasks[tp.Draw(len(w.m.tasks))]
				if r.acked && !r.execOK { // completed tasks leave the queue
					err := w.m.exec(r)
					s.Logf("worker exec task of b%d -> %v", w.byName[r.name].idx, err == nil)
				}
			}
		})
	}
	wg.Wait()

	// blobs younger than the TTL and owned by this origin stay
	for i, b := range w.blobs {
		gone := !exists(filepath.Join(b.dir, base.DefaultDataFileName))
		expired := ageH[i] >= ttlH // age = ageH h 30min > ttlH h  <=> ageH >= ttlH
		if gone && !expired {
			s.Fail("unexpired_blob_force_deleted", "forced cleanup with ttl %dh removed b%d whose age is %dh30m", ttlH, i, ageH[i])
		}
		if gone {
			s.Probe("forced_deleted")
		} else if expired && !touched[i] {
			s.Probe("expired_kept")
		}
	}
	for _, name := range deleted {
		if b := w.byName[name]; b != nil && !touched[b.idx] && exists(filepath.Join(b.dir, base.DefaultDataFileName)) {
			s.Fail("reported_deleted_but_present", "forcecleanup reported b%d deleted but its data file is still there", b.idx)
		}
	}
	kit.SetSample(map[string]any{"scenario": "forced_cleanup", "blobs": nBlobs, "ttl_hr": ttlH, "ages_h": ageH, "writeback_fail_permille": w.m.failPm,
		"tasks": len(w.m.tasks), "execs": w.m.execs, "deleted": len(deleted)})
}
