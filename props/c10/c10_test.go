// C10: files awaiting write-back are never deleted; cleanup removes exactly idle files.
//
// Real: store.CAStore / store.SimpleStore as built by their public
// constructors (cleanup manager, LRU / LAT file map, base.FileOp, localFileEntry,
// persist + last-access-time metadata). The fake clock drives the cleanup ticker,
// virtual mtimes give files drawn ages.
//
// Time grid (all whole minutes, relative to the creation of the store):
//
//	cleanup interval           multiple of 10min            -> pass k at T_k = k*(interval + a few ns, see period)
//	workload operations        10min*m  or 10min*m + 3min   (may coincide with a pass)
//	drawn ages / access times  10min*m  or 10min*m + 3min
//	TTI, TTL, aggressive TTL   10min*m + 5min
//	auditor snapshots          T_k - 1min (before), T_k + 1min (after)
//
// so "now - recorded time" never equals a limit (no < vs <= is asserted) and
// the only operations between the two snapshots of a pass are those issued at
// exactly T_k: these overlap the pass, and the files they touch are excluded.
package c10

import (
	"bytes"
	"fmt"
	"io"
	"os"
	"path/filepath"
	"strings"
	"testing"
	"time"

	"github.com/uber-go/tally"
	"github.com/uber/kraken/lib/store"
	"github.com/uber/kraken/lib/store/base"
	"github.com/uber/kraken/lib/store/metadata"

	"kverif/kit"
	sos "kverif/shim/os"
	ssync "kverif/shim/sync"
	simrt "kverif/sim"
)

const minute = time.Minute

// cacheAPI is the part of the public store API the workload uses; CAStore and
// SimpleStore both provide it.
type cacheAPI interface {
	CreateCacheFile(name string, r io.Reader) error
	GetCacheFileReader(name string) (store.FileReader, error)
	GetCacheFileStat(name string) (os.FileInfo, error)
	DeleteCacheFile(name string) error
	SetCacheFileMetadata(name string, md metadata.Metadata) (bool, error)
	DeleteCacheFileMetadata(name string, md metadata.Metadata) error
	Close()
}

type fileRec struct {
	idx       int
	name      string
	content   []byte
	dir       string // directory holding the data file and its metadata
	prot      bool   // ground truth: persist flag set and acknowledged, clearing not yet requested
	persistMu ssync.Mutex
}

func (f *fileRec) data() string { return filepath.Join(f.dir, base.DefaultDataFileName) }

type opRec struct {
	f      int
	kind   string
	t0, t1 time.Duration // t1 < 0 while running
	ok     bool          // the call returned nil
}

type snapRec struct {
	exists  bool
	mtime   time.Time
	lat     time.Time
	latOK   bool
	persist bool
	size    int64
}

type world struct {
	s           *simrt.Sim
	st          cacheAPI
	cacheDir    string
	files       []*fileRec
	byName      map[string]*fileRec
	ops         []*opRec
	cfg         store.CleanupConfig
	base        uint64 // bytes of the virtual disk used by others
	evict       bool
	tCreate     time.Duration
	period      time.Duration // interval + the simulator's per-timer offset of the cache ticker
	restartedAt time.Duration // instant of the (one) restart of the store, 0 if none
}

func exists(p string) bool {
	_, err := os.Lstat(p)
	return err == nil
}

// sleepUntil sleeps until fake instant t (relative to run start).
func (w *world) sleepUntil(t time.Duration) {
	if d := t - w.s.Now(); d > 0 {
		simrt.Sleep(d)
	}
}

func (w *world) mtimeOf(p string) time.Time {
	if mt, ok := w.s.Disk().Mtime[filepath.Clean(p)]; ok {
		return mt
	}
	return w.s.StartTime()
}

// observe reads the state of f the way a cleanup pass is specified to see it:
// data file mtime, recorded last access time, persist flag (metadata files
// decoded with the public metadata types). Real os reads: no scheduling point.
func (w *world) observe(f *fileRec) snapRec {
	var r snapRec
	fi, err := os.Stat(f.data())
	if err != nil {
		return r
	}
	r.exists = true
	r.size = fi.Size()
	r.mtime = w.mtimeOf(f.data())
	var lat metadata.LastAccessTime
	if b, err := os.ReadFile(filepath.Join(f.dir, lat.GetSuffix())); err == nil {
		if lat.Deserialize(b) == nil {
			r.lat, r.latOK = lat.Time, true
		}
	}
	var p metadata.Persist
	if b, err := os.ReadFile(filepath.Join(f.dir, p.GetSuffix())); err == nil {
		if p.Deserialize(b) == nil {
			r.persist = p.Value
		}
	}
	return r
}

func (w *world) snapshot() []snapRec {
	out := make([]snapRec, len(w.files))
	for i, f := range w.files {
		out[i] = w.observe(f)
	}
	return out
}

// checkProtected: every file whose persist flag is set (acknowledged, not being
// cleared) is on disk with its flag, whatever removed it from the file map.
func (w *world) checkProtected(when string) {
	for _, f := range w.files {
		if !f.prot {
			continue
		}
		if !exists(f.data()) {
			w.s.Fail("persisted_file_missing", "file f%d has the persist flag set but its data file is gone (%s, t=%v)", f.idx, when, w.s.Now())
		}
		o := w.observe(f)
		if !o.persist {
			w.s.Fail("persist_flag_lost", "file f%d: persist flag was set and never cleared but the stored flag reads false/absent (%s, t=%v)", f.idx, when, w.s.Now())
		}
	}
}

// hook observes every mutating disk operation just before it is performed.
func (w *world) hook(n *simrt.Node, kind, path string) error {
	var victim string
	switch kind {
	case "remove":
		victim = path
	case "rename":
		if i := strings.Index(path, " -> "); i >= 0 {
			victim = path[:i]
		}
	default:
		return nil
	}
	victim = filepath.Clean(victim)
	if filepath.Base(victim) != base.DefaultDataFileName || !strings.HasPrefix(victim, w.cacheDir+"/") {
		return nil
	}
	f := w.byName[filepath.Base(filepath.Dir(victim))]
	if f != nil && !w.evict {
		for _, o := range w.ops {
			if o.t1 < 0 && o.kind != "delete" && o.kind != "create" {
				w.s.Probe("removal_while_op_in_flight") // a cleanup pass really interleaves with operations
				break
			}
		}
	}
	if f != nil && f.prot && filepath.Dir(victim) == f.dir {
		w.s.Fail("persisted_file_removed", "%s of the data file of f%d at t=%v while its persist flag is set", kind, f.idx, w.s.Now())
	}
	return nil
}

func errClass(err error) string {
	switch {
	case err == nil:
		return "ok"
	case err == base.ErrFilePersisted:
		return "persisted"
	case os.IsNotExist(err):
		return "notfound"
	case os.IsExist(err):
		return "exists"
	}
	return "error"
}

func (w *world) begin(f *fileRec, kind string) *opRec {
	o := &opRec{f: f.idx, kind: kind, t0: w.s.Now(), t1: -1}
	w.ops = append(w.ops, o)
	return o
}

func (w *world) end(o *opRec, err error) {
	o.t1 = w.s.Now()
	o.ok = err == nil
	if o.t1 != o.t0 {
		w.s.Probe("op_took_fake_time")
	}
	w.s.Logf("op %s f%d -> %s", o.kind, o.f, errClass(err))
	w.checkProtected("after " + o.kind)
}

func (w *world) create(f *fileRec) error {
	o := w.begin(f, "create")
	err := w.st.CreateCacheFile(f.name, bytes.NewReader(f.content))
	w.end(o, err)
	return err
}

func (w *world) read(f *fileRec) {
	o := w.begin(f, "read")
	r, err := w.st.GetCacheFileReader(f.name)
	if err == nil {
		b, rerr := io.ReadAll(r)
		r.Close()
		if rerr == nil && !bytes.Equal(b, f.content) {
			w.s.Fail("wrong_content", "read of f%d returned %d bytes that differ from what was stored", f.idx, len(b))
		}
		w.s.Probe("read_ok")
	}
	w.end(o, err)
}

func (w *world) stat(f *fileRec) {
	o := w.begin(f, "stat")
	_, err := w.st.GetCacheFileStat(f.name)
	w.end(o, err)
}

func (w *world) setPersist(f *fileRec) {
	f.persistMu.Lock()
	defer f.persistMu.Unlock()
	o := w.begin(f, "persist")
	_, err := w.st.SetCacheFileMetadata(f.name, metadata.NewPersist(true))
	if err == nil {
		f.prot = true
		w.s.Probe("persist_set")
	}
	w.end(o, err)
}

func (w *world) clearPersist(f *fileRec, byDelete bool) {
	f.persistMu.Lock()
	defer f.persistMu.Unlock()
	o := w.begin(f, "unpersist")
	f.prot = false // the protection window ends when clearing is requested
	var err error
	if byDelete {
		err = w.st.DeleteCacheFileMetadata(f.name, &metadata.Persist{})
	} else {
		_, err = w.st.SetCacheFileMetadata(f.name, metadata.NewPersist(false))
	}
	w.end(o, err)
}

func (w *world) del(f *fileRec) {
	o := w.begin(f, "delete")
	wasProt := f.prot
	existed := exists(f.data())
	err := w.st.DeleteCacheFile(f.name)
	if wasProt && f.prot {
		// protected during the whole call: the file must survive (checked by
		// end -> checkProtected and by the disk hook). The return value is not
		// part of the property: a request racing with another remover of the
		// map entry may return nil without having deleted anything.
		if err == nil {
			w.s.Probe("delete_persisted_nil_return")
		} else {
			w.s.Probe("delete_refused_persisted")
		}
	} else if err == nil && existed {
		w.s.Probe("delete_ok")
	}
	w.end(o, err)
}

// touchedBetween returns the files touched by an operation whose
// [invoke,return] interval intersects [from,to] (the two snapshots around a
// pass): for these either outcome of the pass is accepted.
func (w *world) touchedBetween(from, to time.Duration) map[int]bool {
	m := map[int]bool{}
	for _, o := range w.ops {
		if o.t0 <= to && (o.t1 < 0 || o.t1 >= from) {
			m[o.f] = true
		}
	}
	return m
}

type rank struct {
	served, sure bool
	lat          time.Time
}

func rankOf(r snapRec) rank {
	d := r.mtime.Sub(r.lat)
	if d < 0 {
		d = -d
	}
	// all recorded instants are whole minutes: d is 0 or >= 3min, never near
	// the "served" margin; 45min is never hit exactly (grid).
	return rank{served: d > time.Second, sure: d > 45*time.Minute, lat: r.lat}
}

// mustPrecede: the usage-driven policy is specified to delete a strictly before
// b ("already served to consumers first, then least recently accessed").
// Within the served class the implementation documents a further certainty
// tier; pairs that differ in it are not judged.
func mustPrecede(a, b rank) bool {
	if a.served != b.served {
		return a.served
	}
	if a.sure != b.sure {
		return false
	}
	return a.lat.Before(b.lat)
}

// Virtual disk (simulator seam behind utils/diskspaceutil.Usage): a fixed
// total, used = a drawn base + the bytes of the data files currently in the
// cache directory, so that deleting files lowers the utilisation.
const vTotal = 10000

func (w *world) usedNow() uint64 {
	u := w.base
	for _, f := range w.files {
		if fi, err := os.Stat(f.data()); err == nil {
			u += uint64(fi.Size())
		}
	}
	if u > vTotal {
		u = vTotal
	}
	return u
}

func (w *world) usage() (simrt.DiskUsage, error) {
	u := w.usedNow()
	return simrt.DiskUsage{Util: int(u * 100 / vTotal), Total: vTotal, Used: u, Free: vTotal - u}, nil
}

const (
	passNormal = iota
	passAggroTTL
	passUsage
)

func (w *world) judgePass(k int, tk time.Duration, before []snapRec, opLogStart int) {
	s := w.s
	now := s.StartTime().Add(tk)
	over := w.touchedBetween(tk-minute, tk+minute)
	anyOver := len(over) > 0
	if anyOver {
		s.Probe("pass_with_overlapping_op")
	}
	s.Probe("pass_judged")

	// ---- persisted files stay, whatever the mode ----
	removed := map[int]bool{}
	for i, b := range before {
		if !b.exists || over[i] {
			continue
		}
		if !exists(w.files[i].data()) {
			removed[i] = true
			if b.persist {
				s.Fail("persisted_file_missing", "pass %d at %v removed f%d whose persist flag was set", k, tk, i)
			}
		} else if b.persist {
			s.Probe("persisted_survived_pass")
		}
	}

	// ---- which kind of pass was this? (virtual utilisation just before it) ----
	usedMin, usedMax := int64(w.base), int64(w.base)
	for i, b := range before {
		switch {
		case over[i]: // may have been created / deleted meanwhile
			usedMax += int64(len(w.files[i].content))
		case b.exists:
			usedMin += b.size
			usedMax += b.size
		}
	}
	mode := passNormal
	if T := int64(w.cfg.AggressiveThreshold); T != 0 {
		// the threshold itself is kept off: at equality either reading is accepted
		lo, hi := usedMin*100/vTotal, usedMax*100/vTotal
		switch {
		case usedMax > vTotal: // clamped: the utilisation is not a simple sum
			s.Probe("pass_mode_ambiguous")
			return
		case lo > T:
			mode = passAggroTTL
			if w.cfg.AggressiveLowerThreshold != 0 {
				mode = passUsage
			}
		case hi < T:
		default:
			s.Probe("pass_mode_ambiguous")
			return
		}
	}

	switch mode {
	case passNormal, passAggroTTL:
		ttl := w.cfg.TTL
		if mode == passAggroTTL {
			ttl = w.cfg.AggressiveTTL
			s.Probe("aggressive_ttl_pass")
		}
		for i, b := range before {
			if !b.exists || over[i] || b.persist {
				if b.exists && over[i] {
					s.Probe("file_excluded_overlap")
				}
				continue
			}
			cur := !removed[i]
			expired := ttl > 0 && now.Sub(b.mtime) > ttl
			idle := b.latOK && now.Sub(b.lat) > w.cfg.TTI
			exp := expired || idle
			why := fmt.Sprintf("age %v (ttl %v), idle %v (tti %v)", now.Sub(b.mtime), ttl, now.Sub(b.lat), w.cfg.TTI)
			switch {
			case exp && cur:
				if w.evict && anyOver {
					s.Probe("skip_eviction_blur")
					continue
				}
				s.Fail("idle_file_survived_cleanup", "pass %d at %v (mode %d) left f%d on disk: %s", k, tk, mode, i, why)
			case exp && !cur:
				s.Probe("idle_removed")
				// The recorded last access (b.lat) is coarse by design: an access
				// is written down only if it is at least 5 minutes newer than the
				// last one recorded. So a successful read at r guarantees a recorded
				// value newer than r-5min, and a file read less than TTI-6min ago
				// cannot be idle for this pass, whatever the record says. (Judged
				// only for reads after a restart of the store: the set-up ages
				// files by writing the recorded value directly, which the entries
				// loaded before do not see.)
				if !expired && !w.evict && mode == passNormal && w.restartedAt > 0 {
					for _, o := range w.ops {
						if o.f == i && o.kind == "read" && o.ok && o.t0 > w.restartedAt && o.t1 >= 0 && o.t1 < tk-minute && tk-o.t1 < w.cfg.TTI-6*minute {
							s.Fail("recently_read_file_removed", "pass %d at %v removed f%d as idle although it was read at %v, %v ago (idle limit %v; recorded last access %v)", k, tk, i, o.t1, tk-o.t1, w.cfg.TTI, b.lat.Sub(s.StartTime()))
						}
					}
				}
			case !exp && !cur:
				if w.evict {
					s.Probe("maybe_evicted")
					continue
				}
				s.Fail("live_file_removed_by_cleanup", "pass %d at %v (mode %d) removed f%d which is neither idle nor expired: %s", k, tk, mode, i, why)
			default:
				s.Probe("live_kept")
			}
		}
	case passUsage:
		s.Probe("usage_driven_pass")
		if !w.evict {
			w.judgeUsagePass(k, tk, before, opLogStart, over, removed, usedMin)
		}
	}
	h := uint64(mode)
	for i := range before {
		h = h*31 + uint64(i)
		if before[i].exists {
			h = h*3 + 1
		}
		if removed[i] {
			h = h*3 + 2
		}
		if before[i].persist {
			h = h*3 + 1
		}
	}
	s.State(h)
}

// judgeUsagePass: the usage-driven policy. Statement / documented intent
// (CleanupConfig.AggressiveLowerThreshold: "the lower disk util threshold in
// percent, below which aggressive cleanup will stop"; cleanup(): "the cache is
// cleaned until the lower threshold is reached, prioritizing blobs ... based
// on the customPolicy"): files go in policy order until the bytes above the
// lower threshold have been freed; persisted files never go.
func (w *world) judgeUsagePass(k int, tk time.Duration, before []snapRec, opLogStart int, over, removed map[int]bool, used int64) {
	s := w.s
	anyOver := len(over) > 0
	deletable := func(i int) bool {
		b := before[i]
		return b.exists && !over[i] && !b.persist && b.latOK
	}
	// order of deletion as performed on disk
	var seq []int
	for _, l := range s.Disk().OpLog[opLogStart:] {
		p := strings.SplitN(l, " ", 3)
		if len(p) != 3 || p[1] != "remove" || filepath.Base(p[2]) != base.DefaultDataFileName {
			continue
		}
		f := w.byName[filepath.Base(filepath.Dir(p[2]))]
		if f == nil || filepath.Dir(filepath.Clean(p[2])) != f.dir || !deletable(f.idx) {
			continue
		}
		seq = append(seq, f.idx)
	}
	for i := range before {
		if removed[i] && before[i].exists && !over[i] && !before[i].persist && !before[i].latOK {
			s.Probe("removed_without_lat")
		}
	}
	desc := func(i int) string {
		r := rankOf(before[i])
		return fmt.Sprintf("f%d (served=%v last access %v, %d bytes)", i, r.served, r.lat.Sub(s.StartTime()), before[i].size)
	}
	// 1. order among the deleted
	for a := 0; a < len(seq); a++ {
		for b := a + 1; b < len(seq); b++ {
			if mustPrecede(rankOf(before[seq[b]]), rankOf(before[seq[a]])) {
				s.Fail("usage_policy_order", "pass %d at %v deleted %s before %s", k, tk, desc(seq[a]), desc(seq[b]))
			}
		}
	}
	// 2. the deleted files are a prefix of the policy order: nothing that had
	// to go earlier was kept
	for i := range before {
		if !deletable(i) || removed[i] {
			continue
		}
		for _, d := range seq {
			if mustPrecede(rankOf(before[i]), rankOf(before[d])) {
				s.Fail("usage_policy_prefix", "pass %d at %v kept %s but deleted %s", k, tk, desc(i), desc(d))
			}
		}
	}
	if len(seq) >= 2 {
		s.Probe("usage_order_checked")
	}
	// 3. where deletion stops (only when nothing else touched the store
	// between the two snapshots)
	if anyOver {
		s.Probe("usage_stop_not_judged_overlap")
		return
	}
	need := used - int64(w.cfg.AggressiveLowerThreshold)*vTotal/100
	var freed int64
	for _, d := range seq {
		freed += before[d].size
	}
	left := 0
	for i := range before {
		if deletable(i) && !removed[i] {
			left++
		}
	}
	s.Probe("usage_stop_judged")
	var deletableBytes int64
	for i := range before {
		if deletable(i) {
			deletableBytes += before[i].size
		}
	}
	if need > deletableBytes {
		s.Probe("usage_target_unreachable")
	} else {
		s.Probe("usage_target_reachable")
	}
	if left > 0 {
		s.Probe("usage_stop_with_files_left")
	}
	// not earlier (one percent of the disk of slack for implementations that
	// compare utilisation percentages)
	// NOTE: where usage-driven deletion stops is NOT part of the C10 statement
	// (it only orders the deletions), so the two stop rules are reach probes,
	// not verdicts. On the pinned tree cleanup.go computes the byte target from
	// TotalBytes instead of UsedBytes and always deletes everything deletable
	// (DESIGN.md §11, observations; patch in proposed_fix_1.diff).
	if left > 0 && freed < need-vTotal/100 {
		s.Probe("usage_cleanup_stopped_early")
		s.Logf("probe usage_cleanup_stopped_early: pass %d at %v: used %d of %d bytes, lower threshold %d%% asks to free %d bytes, only %d freed although %d deletable files remain",
			k, tk, used, vTotal, w.cfg.AggressiveLowerThreshold, need, freed, left)
	}
	// not later: before the last deletion the target must not have been met yet
	if len(seq) > 0 && freed-before[seq[len(seq)-1]].size >= need {
		s.Probe("usage_cleanup_overshoot")
		s.Logf("probe usage_cleanup_overshoot: pass %d at %v: used %d of %d bytes, lower threshold %d%% asks to free %d bytes; %d files / %d bytes were deleted, the target was already met before the last one (%s)",
			k, tk, used, vTotal, w.cfg.AggressiveLowerThreshold, need, len(seq), freed, desc(seq[len(seq)-1]))
	}
}

func grid(units, off int) time.Duration {
	return time.Duration(units)*10*minute + time.Duration(off)*3*minute
}

func body(s *simrt.Sim, tier string) {
	mode := s.Tape.Draw(8)
	if os.Getenv("KSIM_C10_MODE") == "burst" { // experiments only
		mode = 4
	}
	switch mode {
	case 7:
		forced(s, tier)
	case 4, 5, 6:
		burst(s, tier)
	default:
		periodic(s, tier)
	}
}

// burst: several tasks operate on the same one or two files at the same
// instant while the file map is too small to hold every file, so entries are
// evicted, reloaded from disk and published concurrently by different tasks.
// No cleanup pass runs; the oracles are "a file whose persist flag is set is
// never removed" (disk hook + check after every operation) and "a read returns
// what was stored".
func burst(s *simrt.Sim, tier string) {
	tp := s.Tape
	w := &world{s: s, byName: map[string]*fileRec{}, evict: true}
	root := kit.TempDir(s)
	w.cacheDir = filepath.Join(root, "store", "cache")
	nFiles := 2 + tp.Draw(3)
	capacity := 1 + tp.Draw(nFiles-1)
	off := store.CleanupConfig{Disabled: true}
	open := func(capacity int) {
		st, err := store.NewCAStore(store.CAStoreConfig{UploadDir: filepath.Join(root, "store", "upload"), CacheDir: w.cacheDir, Capacity: capacity,
			UploadCleanup: off, CacheCleanup: off}, tally.NoopScope)
		if err != nil {
			s.InfraError("NewCAStore: %v", err)
		}
		w.st = st
	}
	// Files are created through a roomy map (nothing is evicted, so nothing is
	// deleted); most runs then restart the store, so that the files are on
	// disk but not in the (now small) file map, which is the state a process
	// finds after a restart.
	open(64)
	defer func() { w.st.Close() }()
	s.Disk().FaultFn = w.hook
	for i := 0; i < nFiles; i++ {
		content := append([]byte{byte(i), 'c', '1', '0', 'b'}, kit.Bytes(s, 20+tp.Draw(200))...)
		f := &fileRec{idx: i, content: content, name: kit.SHA(content)}
		w.files = append(w.files, f)
		w.byName[f.name] = f
		if err := w.st.CreateCacheFile(f.name, bytes.NewReader(content)); err != nil {
			s.InfraError("initial CreateCacheFile: %v", err)
		}
		filepath.WalkDir(w.cacheDir, func(p string, d os.DirEntry, err error) error {
			if err == nil && d.IsDir() && d.Name() == f.name {
				f.dir = p
			}
			return nil
		})
		if f.dir == "" {
			s.InfraError("cannot locate directory of f%d", f.idx)
		}
		if tp.Chance(300) {
			w.setPersist(f)
		}
	}
	if tp.Chance(800) {
		w.st.Close()
		open(capacity)
		s.Probe("burst_restart")
	}
	nTasks := 2 + tp.Draw(3)
	nOps := 2 + tp.Draw(6)
	if tier == "thorough" {
		nOps += tp.Draw(8)
	}
	hot := tp.Draw(nFiles)
	if tp.Chance(700) {
		// a task is descheduled in the middle of an operation while the
		// others run theirs to completion
		s.InjectPauses(1+tp.Draw(3), 60*nTasks*nOps/4+50, 5*time.Millisecond)
	}
	var wg ssync.WaitGroup
	for ti := 0; ti < nTasks; ti++ {
		wg.Add(1)
		simrt.Go(func() {
			defer wg.Done()
			for op := 0; op < nOps; op++ {
				if tp.Chance(100) {
					simrt.Sleep(time.Duration(1+tp.Draw(3)) * time.Millisecond)
				}
				f := w.files[hot]
				if tp.Chance(400) {
					f = w.files[tp.Draw(nFiles)]
				}
				switch tp.Draw(10) {
				case 0, 1, 2:
					w.stat(f)
				case 3, 4:
					w.read(f)
				case 5, 6:
					w.setPersist(f)
					if tp.Chance(500) {
						w.del(f) // a delete request that must be refused (it drops the map entry all the same)
					}
				case 7:
					w.clearPersist(f, tp.Chance(500))
				case 8:
					w.del(f)
				case 9:
					w.create(f)
				}
			}
		})
	}
	wg.Wait()
	w.checkProtected("end of burst")
	// a delete request for every file, as a cleanup pass or a client would issue
	for _, f := range w.files {
		w.del(f)
	}
	s.Probe("burst_run")
	kit.SetSample(map[string]any{"mode": "burst", "capacity": capacity, "files": nFiles, "tasks": nTasks, "ops_per_task": nOps, "ops": len(w.ops)})
}

func periodic(s *simrt.Sim, tier string) {
	tp := s.Tape
	w := &world{s: s, byName: map[string]*fileRec{}}
	root := kit.TempDir(s)
	w.cacheDir = filepath.Join(root, "store", "cache")
	uploadDir := filepath.Join(root, "store", "upload")

	// ---- configuration ----
	simple := tp.Draw(3) == 2 // 0,1: CAStore (LRU map), 2: SimpleStore (LAT map)
	nFiles := 2 + tp.Draw(11)
	capacity := 0
	if !simple {
		if tp.Chance(500) {
			capacity = 2 + tp.Draw(3) // small: eviction + reload happen
		} else {
			capacity = 64
		}
		w.evict = capacity < nFiles+1
	}
	interval := grid(1+tp.Draw(6), 0)
	cfg := store.CleanupConfig{
		Interval: interval,
		TTI:      grid(1+tp.Draw(12), 0) + 5*minute,
	}
	if tp.Chance(800) {
		cfg.TTL = grid(1+tp.Draw(24), 0) + 5*minute
	}
	// aggressive modes on a virtual disk (see usage)
	w.base = uint64(tp.Draw(90)) * 100
	if tp.Draw(4) != 0 {
		T := 1 + tp.Draw(95)
		cfg.AggressiveThreshold = T
		cfg.AggressiveTTL = grid(tp.Draw(6), 0) + 5*minute
		if T > 1 && tp.Chance(650) {
			cfg.AggressiveLowerThreshold = 1 + tp.Draw(T-1) // below the trigger threshold
		}
		if tp.Chance(500) {
			// utilisation near the trigger: files decide whether it is reached
			if b := T*100 - tp.Draw(30)*100; b >= 0 {
				w.base = uint64(b)
			}
		}
		if cfg.AggressiveLowerThreshold != 0 && tp.Chance(850) {
			// make the byte target fall inside what the files hold (about 250
			// bytes each): lower threshold a few percent below the trigger,
			// the others use a little less than the lower threshold, so that
			// the target is "the files' bytes minus a little"
			gap := 1 + tp.Draw(4)
			if gap > T-1 {
				gap = T - 1
			}
			L := T - gap
			cfg.AggressiveLowerThreshold = L
			if b := L*100 - tp.Draw(1+nFiles*200); b >= 0 {
				w.base = uint64(b)
			}
		}
	}
	s.Disk().UsageFn = w.usage
	w.cfg = cfg
	upCfg := store.CleanupConfig{Disabled: true}
	if tp.Chance(300) {
		upCfg = cfg
	}
	s.Disk().OpLogOn = cfg.AggressiveLowerThreshold != 0

	w.tCreate = s.Now()
	// The simulator gives every timer of simulated code a unique nanosecond
	// offset; the cache job's ticker is the first timer the constructor creates
	// (the second when the upload job is enabled): pass k runs at k*period.
	eps := s.TimerEpsAfter(1)
	if !upCfg.Disabled {
		eps = s.TimerEpsAfter(2)
	}
	w.period = interval + eps
	openStore := func() {
		if simple {
			st, err := store.NewSimpleStore(store.SimpleStoreConfig{UploadDir: uploadDir, CacheDir: w.cacheDir, UploadCleanup: upCfg, CacheCleanup: cfg}, tally.NoopScope)
			if err != nil {
				s.InfraError("NewSimpleStore: %v", err)
			}
			w.st = st
		} else {
			st, err := store.NewCAStore(store.CAStoreConfig{UploadDir: uploadDir, CacheDir: w.cacheDir, Capacity: capacity, UploadCleanup: upCfg, CacheCleanup: cfg}, tally.NoopScope)
			if err != nil {
				s.InfraError("NewCAStore: %v", err)
			}
			w.st = st
		}
	}
	openStore()
	// one restart of the process in some runs whose file map cannot evict (the
	// exact-set oracle applies there): same directories, empty file map, new
	// cleanup tickers
	restartAfter := 0
	if !w.evict && tp.Chance(350) {
		restartAfter = 1 + tp.Draw(3)
	}
	defer func() { w.st.Close() }()
	s.Disk().FaultFn = w.hook

	// ---- files with drawn ages, access times, persist flags ----
	for i := 0; i < nFiles; i++ {
		content := append([]byte{byte(i), 'c', '1', '0'}, kit.Bytes(s, 50+tp.Draw(400))...)
		f := &fileRec{idx: i, content: content, name: kit.SHA(content)}
		w.files = append(w.files, f)
		w.byName[f.name] = f
		if err := w.st.CreateCacheFile(f.name, bytes.NewReader(content)); err != nil {
			s.InfraError("initial CreateCacheFile: %v", err)
		}
		// locate its directory now (layout is the store's business; a small
		// file map may evict and remove it when the next file is created)
		filepath.WalkDir(w.cacheDir, func(p string, d os.DirEntry, err error) error {
			if err == nil && d.IsDir() && d.Name() == f.name {
				f.dir = p
			}
			return nil
		})
		if f.dir == "" {
			s.InfraError("cannot locate directory of f%d", f.idx)
		}
	}
	for _, f := range w.files {
		if !exists(f.data()) {
			continue // already evicted by the small map
		}
		if tp.Chance(700) {
			age := grid(tp.Draw(30), tp.Draw(2))
			t := s.StartTime().Add(-age)
			if err := sos.Chtimes(f.data(), t, t); err != nil {
				s.InfraError("chtimes: %v", err)
			}
		}
		if tp.Chance(600) {
			la := s.StartTime().Add(-grid(tp.Draw(14), tp.Draw(2)))
			if _, err := w.st.SetCacheFileMetadata(f.name, metadata.NewLastAccessTime(la)); err != nil && !os.IsNotExist(err) {
				s.InfraError("set LAT: %v", err)
			}
		}
		if tp.Chance(300) {
			w.setPersist(f)
		}
	}

	// ---- workload ----
	nTasks := 1 + tp.Draw(3)
	nOps := 2 + tp.Draw(7)
	if tier == "thorough" {
		nOps += tp.Draw(8)
	}
	var wg ssync.WaitGroup
	done := 0
	for ti := 0; ti < nTasks; ti++ {
		wg.Add(1)
		simrt.Go(func() {
			defer wg.Done()
			defer func() { done++ }()
			for op := 0; op < nOps; op++ {
				// next instant on the grid: tick-aligned, near, or after a long idle gap
				cur := int((s.Now() - w.tCreate) / (10 * minute))
				var units, off int
				switch tp.Draw(4) {
				case 0:
					units, off = cur+tp.Draw(3), tp.Draw(2)
				case 1: // exactly at the next cleanup pass (ticker instant, see period)
					k := (s.Now()-w.tCreate)/w.period + 1
					w.sleepUntil(w.tCreate + k*w.period)
					units, off = -1, 0
				case 2:
					units, off = cur+1+tp.Draw(6), tp.Draw(2)
				case 3: // idle gap spanning several cleanup intervals
					iv := int(interval / (10 * minute))
					units, off = cur+iv*(1+tp.Draw(4))+tp.Draw(3), tp.Draw(2)
				}
				if units >= 0 {
					w.sleepUntil(w.tCreate + grid(units, off))
				}
				f := w.files[tp.Draw(nFiles)]
				switch tp.Draw(8) {
				case 0, 1:
					w.read(f)
				case 2:
					w.stat(f)
				case 3:
					w.setPersist(f)
				case 4:
					w.clearPersist(f, tp.Chance(500))
				case 5:
					w.del(f)
				case 6, 7:
					w.create(f)
				}
			}
		})
	}

	// ---- auditor: one before/after snapshot pair around every cleanup pass ----
	passes := 0
	for k := 1; ; k++ {
		tk := w.tCreate + time.Duration(k)*w.period
		w.sleepUntil(tk - minute)
		w.checkProtected("before pass")
		before := w.snapshot()
		mark := len(s.Disk().OpLog)
		w.sleepUntil(tk + minute)
		w.judgePass(k, tk, before, mark)
		w.checkProtected("after pass")
		passes++
		if restartAfter == k {
			restartAfter = 0
			// two minutes after the pass: off the operation grid (+0 / +3 min)
			w.sleepUntil(tk + 2*minute)
			w.st.Close()
			eps := s.TimerEpsAfter(1)
			if !upCfg.Disabled {
				eps = s.TimerEpsAfter(2)
			}
			w.tCreate, w.period = s.Now(), interval+eps
			w.restartedAt = s.Now()
			openStore()
			s.Probe("periodic_restart")
			k = 0
		}
		if done == nTasks {
			// run on until everything unprotected had the chance to expire
			if passes >= 3 && k >= 3 {
				break
			}
		}
		if k > 400 {
			break
		}
	}
	wg.Wait()
	kit.SetSample(map[string]any{"store": map[bool]string{true: "SimpleStore", false: "CAStore"}[simple], "capacity": capacity, "files": nFiles,
		"cleanup": fmt.Sprintf("%+v", cfg), "virtual_disk": fmt.Sprintf("total %d, others %d", vTotal, w.base), "tasks": nTasks, "ops_per_task": nOps, "ops": len(w.ops), "passes": passes})
}

func TestC10(t *testing.T) {
	kit.Main(t, kit.Spec{
		Property: "C10",
		Body:     body,
		Config: func(tier string) simrt.Config {
			return simrt.Config{MaxSteps: 1_500_000, Horizon: 30 * 24 * time.Hour, PanicIsFailure: true}
		},
		Real: []string{"lib/store.CAStore", "lib/store.SimpleStore", "lib/store cleanupManager (as started by the constructors)", "lib/store/base FileOp, localFileEntry, lruFileMap, CAS/local entry factories", "lib/store/metadata Persist, LastAccessTime", "utils/diskspaceutil.Usage call sites (answered by a virtual disk through the simulator seam)"},
		Stub: []string{"tally.NoopScope", "workload and auditor tasks (harness)"},
		Rule: "one run = one store (CAStore with small or large file-map capacity | SimpleStore) with tape-drawn CleanupConfig (interval, TTI, TTL, aggressive mode), <=12 files with drawn ages / access times / persist flags, 1-3 tasks issuing read/stat/persist/unpersist/delete/create at grid instants (some exactly at cleanup ticks), idle gaps of several intervals; non-trivial = >=1 contested scheduling decision; distinct = distinct event-log hash",
		Assumptions: []string{
			"all instants on a minute grid that keeps 'now - recorded time' off every limit",
			"disk utilisation is virtual: total 10000 bytes, used = drawn base + bytes of the data files in the cache directory; the pass kind is decided from the utilisation just before the pass, passes whose utilisation equals the trigger threshold (or is blurred by concurrent operations) are not judged",
			"where usage-driven deletion stops is judged only for passes with no other operation between the two snapshots and a file map that cannot evict; 1% of the disk of slack on the early side",
			"exact-set oracle only where the file map cannot evict (capacity > files); with a small map only 'persisted stay' and 'idle go' are asserted",
		},
	})
}
