// C35: a successful cluster blob download delivers the blob exactly once.
//
// Real code: origin/blobclient ClusterClient.DownloadBlob (Poll, resolver,
// Locations, provider) and HTTPClient.DownloadBlob on top of httputil.Send.
// Origins are scripted simhttp endpoints that implement what a client can
// observe of the origin's two endpoints involved (locations, blob download):
// 200 with the whole blob, 202 while the origin is still fetching it, 404, 5xx.
// The network adds refusals, resets before/after the handler, proxy statuses
// and response bodies cut after a drawn number of bytes.
//
// Oracle (from the statement): when the call returns nil the destination holds
// exactly the blob's bytes, once, and some origin did deliver the whole blob;
// otherwise (no origin delivered the whole blob) the call must have failed.
//
// ClusterClient.DownloadBlob polls with cenkalti/backoff's ExponentialBackOff,
// whose jitter comes from the process-global math/rand generator (third-party
// code, not behind the shims). The harness pins that generator per run so that
// the number of polls an origin sees before the 15-minute poll budget runs out
// is a function of the tape; rand.Seed only has an effect with randseednop=0.

//go:debug randseednop=0

package c35

import (
	"bytes"
	"context"
	"fmt"
	"io"
	mrand "math/rand"
	"net/http"
	"os"
	"path/filepath"
	"strings"
	"testing"
	"time"

	"github.com/uber/kraken/core"
	"github.com/uber/kraken/origin/blobclient"
	"github.com/uber/kraken/utils/stringset"

	"kverif/kit"
	sos "kverif/shim/os"
	simrt "kverif/sim"
	"kverif/simhttp"
)

// ---- destination ------------------------------------------------------------

// recorder is a plain io.Writer (no Seek, no Truncate, no ReadFrom): everything
// ever written to it is what the destination "has received".
type recorder struct {
	data   []byte
	writes int
}

func (r *recorder) Write(p []byte) (int, error) {
	simrt.Yield()
	r.data = append(r.data, p...)
	r.writes++
	return len(p), nil
}

// ---- origins ----------------------------------------------------------------

const (
	oServe    = iota // 200 with the whole blob
	oPending         // 202, the origin is still fetching the blob
	oNotFound        // 404
	oError           // 500
	oBusy            // 503
)

var oNames = [...]string{"serve", "pending_202", "not_found", "error_500", "busy_503"}

type origin struct {
	addr     string
	pendings int // 202 answers before the final behaviour (-1: forever)
	final    int
	served   int
	polls    int
}

type hostList struct{ set stringset.Set }

func (h *hostList) Resolve() stringset.Set { return h.set.Copy() }

type world struct {
	s       *simrt.Sim
	hn      *simhttp.Net
	blob    []byte
	digest  core.Digest
	ns      string
	origins map[string]*origin
	locs    []string
	rates   [6]int
	quietLo bool // no faults on the locations endpoint
}

func (w *world) handler(o *origin) http.Handler {
	return http.HandlerFunc(func(rw http.ResponseWriter, r *http.Request) {
		p := r.URL.EscapedPath()
		switch {
		case strings.HasSuffix(p, "/locations"):
			rw.Header().Set("Origin-Locations", strings.Join(w.locs, ","))
			rw.WriteHeader(200)
		case strings.HasPrefix(p, "/namespace/"):
			want := "/namespace/" + strings.ReplaceAll(w.ns, "/", "%2F") + "/blobs/" + w.digest.String()
			if p != want || r.Method != "GET" {
				w.s.Logf("origin %s: unexpected request %s %s", o.addr, r.Method, p)
				rw.WriteHeader(400)
				return
			}
			o.polls++
			beh := o.final
			if o.pendings < 0 || o.polls <= o.pendings {
				beh = oPending
			}
			w.s.Logf("origin %s download #%d -> %s", o.addr, o.polls, oNames[beh])
			switch beh {
			case oServe:
				o.served++
				rw.Header().Set("Content-Type", "application/octet-stream")
				rw.WriteHeader(200)
				// written in pieces like io.Copy from a file would
				for off := 0; off < len(w.blob); off += 16 << 10 {
					end := off + 16<<10
					if end > len(w.blob) {
						end = len(w.blob)
					}
					rw.Write(w.blob[off:end])
				}
			case oPending:
				rw.WriteHeader(202)
			case oNotFound:
				rw.WriteHeader(404)
				io.WriteString(rw, "blob not found")
			case oError:
				rw.WriteHeader(500)
				io.WriteString(rw, "storage backend error")
			case oBusy:
				rw.WriteHeader(503)
			}
		default:
			rw.WriteHeader(404)
		}
	})
}

func (w *world) faultFn(ex *simhttp.Exchange) simhttp.Fault {
	tp := w.s.Tape
	if strings.HasSuffix(ex.Path, "/locations") && w.quietLo {
		return simhttp.Fault{}
	}
	r := w.rates
	switch {
	case tp.Chance(r[0]):
		return simhttp.Fault{Kind: simhttp.TruncResp, K: -1}
	case tp.Chance(r[1]):
		return simhttp.Fault{Kind: simhttp.Refuse}
	case tp.Chance(r[2]):
		return simhttp.Fault{Kind: simhttp.ResetBefore}
	case tp.Chance(r[3]):
		return simhttp.Fault{Kind: simhttp.ResetAfter}
	case tp.Chance(r[4]):
		return simhttp.Fault{Kind: simhttp.Status, Code: []int{503, 502, 504, 429, 500}[tp.Draw(5)]}
	case tp.Chance(r[5]):
		w.s.Fault("http_slow_response")
		return simhttp.Fault{Latency: 61 * time.Second}
	}
	return simhttp.Fault{}
}

func body(s *simrt.Sim, tier string) {
	tp := s.Tape
	mrand.Seed(1) //nolint:staticcheck // pins the jitter of the vendored backoff library, see above
	hn := simhttp.Install(s)
	hn.KeepAlive = tp.Chance(500)
	w := &world{s: s, hn: hn, origins: map[string]*origin{}}
	// blob
	var size int
	switch tp.Draw(5) {
	case 0:
		size = 1 + tp.Draw(64)
	case 1:
		size = 65 + tp.Draw(4000)
	case 2:
		size = 4096 + tp.Draw(61441)
	case 3:
		size = 0
	case 4:
		size = 2 * (1 + tp.Draw(40)) // periodic content: a prefix followed by the blob can look like the blob
	}
	w.blob = kit.Bytes(s, size)
	if size > 0 && tp.Chance(150) {
		for i := range w.blob {
			w.blob[i] = w.blob[i%2]
		}
	}
	d, err := core.NewSHA256DigestFromHex(kit.SHA(w.blob))
	if err != nil {
		s.InfraError("digest: %v", err)
	}
	w.digest = d
	w.ns = []string{"ns", "library/ubuntu", "a/b/c"}[tp.Draw(3)]
	// origins
	nOrigins := 1 + tp.Draw(4)
	var addrs []string
	for i := 0; i < nOrigins; i++ {
		o := &origin{addr: fmt.Sprintf("origin%d:80", i+1)}
		switch tp.Draw(8) {
		case 0, 1, 2, 3:
			o.final = oServe
		case 4:
			o.final = oError
		case 5:
			o.final = oBusy
		case 6:
			o.final = oNotFound
		case 7:
			o.final = oServe
			o.pendings = -1
		}
		if o.pendings == 0 && tp.Chance(300) {
			o.pendings = 1 + tp.Draw(4)
		}
		w.origins[o.addr] = o
		addrs = append(addrs, o.addr)
		hn.Register(o.addr, s.NewNode(fmt.Sprintf("origin%d", i+1)), w.handler(o))
	}
	// the owners of the blob: an ordered, stable, non-empty subset of the cluster
	first := tp.Draw(nOrigins)
	nLocs := 1 + tp.Draw(nOrigins)
	if nLocs > 3 {
		nLocs = 3
	}
	for i := 0; i < nLocs; i++ {
		w.locs = append(w.locs, addrs[(first+i)%nOrigins])
	}
	// faults: none | light | heavy on truncation
	mode := tp.Draw(4)
	switch mode {
	case 1:
		w.rates = [6]int{150, 60, 60, 60, 80, 20}
	case 2:
		w.rates = [6]int{500, 0, 0, 0, 0, 0}
	case 3:
		w.rates = [6]int{250, 120, 120, 120, 150, 40}
	}
	w.quietLo = tp.Chance(600)
	if mode != 0 {
		hn.FaultFn = w.faultFn
	}
	cluster := &hostList{set: stringset.New(addrs...)}
	// destination
	dstKind := tp.Draw(3)
	var dst io.Writer
	rec := &recorder{}
	buf := &bytes.Buffer{}
	var file *sos.File
	var path string
	switch dstKind {
	case 0:
		dst = rec
	case 1:
		dst = buf
	case 2:
		path = filepath.Join(kit.TempDir(s), "dst")
		f, err := sos.OpenFile(path, os.O_CREATE|os.O_RDWR, 0o644)
		if err != nil {
			s.InfraError("create dst: %v", err)
		}
		file, dst = f, f
	}
	received := func() []byte {
		switch dstKind {
		case 0:
			return rec.data
		case 1:
			return buf.Bytes()
		}
		b, err := os.ReadFile(path)
		if err != nil {
			s.InfraError("read dst: %v", err)
		}
		return b
	}
	single := tp.Chance(200)
	var target string
	if single {
		target = addrs[tp.Draw(nOrigins)]
		err = blobclient.New(target).DownloadBlob(context.Background(), w.ns, w.digest, dst)
	} else {
		cc := blobclient.NewClusterClient(blobclient.NewClientResolver(blobclient.NewProvider(), cluster))
		err = cc.DownloadBlob(context.Background(), w.ns, w.digest, dst)
	}
	if file != nil {
		file.Close()
	}
	got := received()
	// what the network delivered
	full, partial, pend := 0, 0, 0
	for _, ex := range hn.Log {
		if !strings.HasPrefix(ex.Path, "/namespace/") {
			continue
		}
		if ex.Err == "" && ex.Status == 202 {
			pend++
		}
		if ex.Err != "" || ex.Status != 200 {
			continue
		}
		if ex.Fault.Kind == simhttp.TruncResp && ex.RespLen > 0 && ex.Fault.K >= 0 && ex.Fault.K < ex.RespLen {
			if ex.Fault.K > 0 {
				partial++
			}
			continue
		}
		if ex.RespLen != len(w.blob) {
			s.InfraError("origin answered 200 with %d bytes, blob has %d", ex.RespLen, len(w.blob))
		}
		full++
	}
	class := "error"
	if err == nil {
		class = "ok"
	} else if err == blobclient.ErrBlobNotFound {
		class = "not_found"
	}
	s.Logf("download single=%v dst=%d size=%d origins=%d locs=%d -> %s full=%d partial=%d pending=%d received=%d", single, dstKind, len(w.blob), nOrigins, len(w.locs), class, full, partial, pend, len(got))
	kit.SetSample(map[string]any{"blob_size": len(w.blob), "namespace": w.ns, "origins": nOrigins, "owners": w.locs, "single_origin_client": single, "target": target,
		"destination": []string{"plain writer", "bytes.Buffer", "file"}[dstKind], "fault_mode": mode, "keep_alive": hn.KeepAlive, "result": class,
		"full_deliveries": full, "partial_deliveries": partial, "polls_202": pend})
	if partial > 0 {
		s.Probe("partial_delivery")
	}
	if pend > 0 {
		s.Probe("polled_202")
	}
	s.State(uint64(full)<<40 | uint64(partial)<<32 | uint64(pend)<<16 | uint64(len(class)))
	if err != nil {
		s.Probe("download_failed")
		return
	}
	s.Probe("download_ok")
	if partial > 0 {
		s.Probe("download_ok_after_partial")
	}
	if !bytes.Equal(got, w.blob) {
		detail := ""
		if len(got) > len(w.blob) && bytes.HasSuffix(got, w.blob) && bytes.HasPrefix(w.blob, got[:len(got)-len(w.blob)]) {
			detail = fmt.Sprintf(": the first %d bytes of the blob precede the whole blob (partial transfer of a failed origin kept)", len(got)-len(w.blob))
		}
		s.Fail("success_but_destination_differs", "DownloadBlob returned nil, destination received %d bytes (sha %.12s), blob has %d bytes (sha %.12s)%s; %d full and %d partial deliveries",
			len(got), kit.SHA(got), len(w.blob), kit.SHA(w.blob), detail, full, partial)
	}
	if full == 0 {
		s.Fail("success_without_full_delivery", "DownloadBlob returned nil although no origin delivered the whole blob (%d partial deliveries)", partial)
	}
}

func TestC35(t *testing.T) {
	kit.Main(t, kit.Spec{
		Property: "C35",
		Body:     body,
		Config: func(tier string) simrt.Config {
			return simrt.Config{MaxSteps: 400000, Horizon: 6 * time.Hour, PanicIsFailure: true}
		},
		Real:        []string{"origin/blobclient.ClusterClient.DownloadBlob", "origin/blobclient.Poll", "origin/blobclient.NewClientResolver/Locations", "origin/blobclient.HTTPProvider", "origin/blobclient.HTTPClient.DownloadBlob/Locations", "utils/httputil.Send", "utils/stringset"},
		Stub:        []string{"origins = scripted simhttp handlers (locations header; download: 200 whole blob / 202 n times / 404 / 500 / 503)", "hostlist.List = static harness list", "destination = recording writer | bytes.Buffer | simulated file"},
		Rule:        "one run = one DownloadBlob (cluster client, 20%: single-origin HTTPClient) of a 0-64KiB blob from 1-4 origins of which 1-3 own it, each with drawn behaviour (serve, 202 k times/forever, 404, 500, 503), fault mode (none/light/truncation-heavy/heavy: response cut after drawn K bytes, refuse, reset before/after, proxy 5xx/429, slower than timeout), destination kind, keep-alive; non-trivial = at least one fault fired; distinct = distinct event-log hash",
		Assumptions: []string{"an origin that answers 200 sends the right blob (the client does not verify digests; corruption by origins is C01's subject)", "owners list returned by every origin is the same (stable resolution)"},
	})
}
