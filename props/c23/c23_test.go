// C23: active health checks follow the documented hysteresis.
//
// Real: healthcheck.Filter (+ its state), healthcheck.Monitor on the fake clock.
// Stub: the Checker (outcome per (host, round) from the tape) and the host list
// whose membership changes between rounds.
//
// The oracle is the reference model A.4 written from the property statement:
//
//	per host in the current list: healthy flag, consecutive fails, consecutive
//	passes. A host entering the list (first time or again) is healthy with
//	zeroed counters; a host leaving is forgotten. Every delivered check outcome
//	updates the counters; healthy && fails >= Fails => unhealthy; unhealthy &&
//	passes >= Passes => healthy. Result of a round = healthy hosts of the list;
//	a single-host list is reported as is.
package c23

import (
	"context"
	"errors"
	"fmt"
	"sort"
	"strings"
	"testing"
	"time"

	"github.com/uber/kraken/lib/healthcheck"
	"github.com/uber/kraken/utils/stringset"

	"kverif/kit"
	simrt "kverif/sim"
)

const (
	ocPass = iota
	ocFail
	ocHang
	ocSlowPass
	ocSlowFail
)

var ocNames = []string{"pass", "fail", "hang", "slowpass", "slowfail"}

var errCheck = errors.New("health check failed")

type round struct {
	idx     int
	list    []string       // sorted members
	outcome map[string]int // planned outcome per member
	slow    time.Duration
	calls   map[string][]int // delivered outcomes per host, in delivery order
}

type hostModel struct {
	healthy bool
	fails   int
	passes  int
	// provenance, only used to label a mismatch
	rejoined       bool // has left and come back at least once
	rejoinedSingle bool // ... and during (one of) its absences only single-host rounds happened
}

type world struct {
	s       *simrt.Sim
	tp      *simrt.Tape
	cfg     healthcheck.FilterConfig
	hosts   []string
	model   map[string]*hostModel // hosts of the current list
	seen    map[string]bool       // hosts that were ever in a list
	absent  map[string]int        // for seen hosts not in the list: 1 = only single-host rounds since it left, 2 = some other round
	cur     *round
	rounds  int
	closed  bool
	nSingle int
	nRejoin int
	nHang   int
	nFlips  int
}

// Check is the stub Checker.
func (w *world) Check(ctx context.Context, addr string) error {
	r := w.cur
	if r == nil || w.closed {
		return nil
	}
	oc, ok := r.outcome[addr]
	if !ok {
		w.s.Fail("check_outside_list", "round %d: host %s checked although it is not in the list %v", r.idx, addr, r.list)
	}
	r.calls[addr] = append(r.calls[addr], oc)
	switch oc {
	case ocFail:
		return errCheck
	case ocHang:
		w.nHang++
		simrt.Recv(ctx.Done()) // parks without the baton until the round's deadline
		return ctx.Err()
	case ocSlowPass:
		simrt.Sleep(r.slow)
		return nil
	case ocSlowFail:
		simrt.Sleep(r.slow)
		return errCheck
	}
	return nil
}

// planRound draws the next list and the outcomes and moves the model's
// membership (join => healthy, leave => forgotten).
func (w *world) planRound(prev []string) *round {
	tp := w.tp
	in := map[string]bool{}
	for _, h := range prev {
		in[h] = true
	}
	switch k := tp.Draw(10); {
	case k <= 4: // unchanged
	case k == 5 || k == 6: // toggle one or two hosts
		for i := 0; i <= tp.Draw(2); i++ {
			h := w.hosts[tp.Draw(len(w.hosts))]
			in[h] = !in[h]
		}
	case k == 7: // single-host list
		h := w.hosts[tp.Draw(len(w.hosts))]
		in = map[string]bool{h: true}
	case k == 8: // everybody (re)joins
		for _, h := range w.hosts {
			in[h] = true
		}
	case k == 9: // arbitrary subset, possibly empty
		in = map[string]bool{}
		for _, h := range w.hosts {
			if tp.Chance(500) {
				in[h] = true
			}
		}
	}
	r := &round{idx: w.rounds, outcome: map[string]int{}, calls: map[string][]int{}}
	w.rounds++
	for _, h := range w.hosts {
		if in[h] {
			r.list = append(r.list, h)
		}
	}
	r.slow = w.cfg.Timeout/4 + time.Duration(tp.Draw(3))*w.cfg.Timeout/4 // < Timeout
	for _, h := range r.list {
		oc := ocPass
		switch k := tp.Draw(10); {
		case k <= 3:
			oc = ocPass
		case k <= 7:
			oc = ocFail
		case k == 8:
			oc = ocHang
		default:
			oc = ocSlowPass + tp.Draw(2)
		}
		r.outcome[h] = oc
	}
	// membership step of the model
	for _, h := range w.hosts {
		_, was := w.model[h]
		switch {
		case in[h] && !was:
			m := &hostModel{healthy: true}
			if w.seen[h] {
				m.rejoined = true
				m.rejoinedSingle = w.absent[h] == 1
				w.nRejoin++
			}
			w.seen[h] = true
			delete(w.absent, h)
			w.model[h] = m
		case !in[h] && was:
			delete(w.model, h)
			w.absent[h] = 0
		}
	}
	for h := range w.absent {
		if len(r.list) == 1 {
			if w.absent[h] == 0 {
				w.absent[h] = 1
			}
		} else {
			w.absent[h] = 2
		}
	}
	if len(r.list) == 1 {
		w.nSingle++
	}
	var desc []string
	for _, h := range r.list {
		desc = append(desc, h+"="+ocNames[r.outcome[h]])
	}
	w.s.Logf("round %d list [%s]", r.idx, strings.Join(desc, " "))
	return r
}

// finish applies the delivered outcomes of round r to the model and compares
// the reported set with the model's.
func (w *world) finish(r *round, got stringset.Set, via string) {
	s := w.s
	flipped := map[string]bool{}
	for _, h := range r.list {
		m := w.model[h]
		for _, oc := range r.calls[h] {
			if oc == ocPass || oc == ocSlowPass {
				m.passes++
				m.fails = 0
				if !m.healthy && m.passes >= w.cfg.Passes {
					m.healthy = true
					flipped[h] = true
					w.nFlips++
				}
			} else {
				m.fails++
				m.passes = 0
				if m.healthy && m.fails >= w.cfg.Fails {
					m.healthy = false
					flipped[h] = true
					w.nFlips++
				}
			}
		}
	}
	gotL := got.ToSlice()
	sort.Strings(gotL)
	s.Logf("round %d %s -> %v", r.idx, via, gotL)
	inList := map[string]bool{}
	for _, h := range r.list {
		inList[h] = true
	}
	for _, h := range gotL {
		if !inList[h] {
			s.Fail("result_outside_list", "round %d (%s): %s reported healthy but the list is %v", r.idx, via, h, r.list)
		}
	}
	if len(r.list) == 1 {
		if len(gotL) != 1 {
			s.Fail("single_host_not_reported", "round %d (%s): single-host list %v resolved to %v", r.idx, via, r.list, gotL)
		}
		s.Probe("single_host_round")
		return
	}
	for _, h := range r.list {
		m := w.model[h]
		if len(r.calls[h]) != 1 {
			s.Probe("host_checked_other_than_once")
		}
		if got.Has(h) == m.healthy {
			// The provenance labels below only name the likely cause of a
			// mismatch. State kept across an absence shows at the first
			// comparison after the rejoin when the state was synced while the
			// host was away; when it was not, it can stay latent until the
			// host's status flips.
			m.rejoined = false
			if flipped[h] {
				m.rejoinedSingle = false
			}
			continue
		}
		word := map[bool]string{true: "healthy", false: "unhealthy"}
		detail := fmt.Sprintf("round %d (%s): host %s reported %s, model says %s (Fails=%d Passes=%d, consecutive fails=%d passes=%d, delivered this round %v); list %v result %v",
			r.idx, via, h, word[got.Has(h)], word[m.healthy], w.cfg.Fails, w.cfg.Passes, m.fails, m.passes, r.calls[h], r.list, gotL)
		switch {
		case m.rejoinedSingle:
			s.Fail("rejoined_after_single_host_round_not_fresh", "%s; the host left and rejoined (only single-host rounds in between) and must have restarted healthy", detail)
		case m.rejoined:
			s.Fail("rejoined_host_not_fresh", "%s; the host left the list and rejoined and must have restarted healthy", detail)
		default:
			s.Fail("hysteresis_mismatch", "%s", detail)
		}
	}
	var st uint64 = 1469598103934665603
	for _, h := range r.list {
		m := w.model[h]
		v := uint64(m.fails*16 + m.passes*2)
		if m.healthy {
			v++
		}
		st = (st ^ v ^ uint64(h[1])<<8) * 1099511628211
	}
	s.State(st)
}

func setOf(l []string) stringset.Set { return stringset.New(l...) }

// listStub is the changing host list given to the Monitor: every Resolve of
// the monitor loop starts a new round.
type listStub struct {
	w       *world
	m       *healthcheck.Monitor
	initial []string
	prev    []string
	nRounds int
	calls   int
	done    chan struct{}
}

func (l *listStub) Resolve() stringset.Set {
	w := l.w
	l.calls++
	if l.calls == 1 { // from NewMonitor
		return setOf(l.initial)
	}
	if w.cur != nil && l.m != nil {
		// the previous round's result has been published by the loop
		w.finish(w.cur, l.m.Resolve(), "monitor")
	}
	if w.closed {
		return setOf(l.prev)
	}
	if w.rounds >= l.nRounds {
		w.closed = true
		w.cur = nil
		simrt.SendTo(l.done)(struct{}{})
		return setOf(l.prev)
	}
	w.cur = w.planRound(l.prev)
	l.prev = w.cur.list
	return setOf(w.cur.list)
}

func body(s *simrt.Sim, tier string) {
	tp := s.Tape
	w := &world{s: s, tp: tp, model: map[string]*hostModel{}, seen: map[string]bool{}, absent: map[string]int{}}
	w.cfg = healthcheck.FilterConfig{
		Fails:   1 + tp.Draw(3),
		Passes:  1 + tp.Draw(3),
		Timeout: time.Duration(1+tp.Draw(3)) * time.Second,
	}
	nHosts := 2 + tp.Draw(4)
	for i := 0; i < nHosts; i++ {
		w.hosts = append(w.hosts, fmt.Sprintf("h%d:80", i))
	}
	nRounds := 4 + tp.Draw(22)
	monitor := tp.Draw(3) == 2
	f := healthcheck.NewFilter(w.cfg, w)
	// initial list: a drawn non-empty prefix-ish subset
	var initial []string
	for _, h := range w.hosts {
		if tp.Draw(4) != 3 {
			initial = append(initial, h)
		}
	}
	if len(initial) == 0 {
		initial = append(initial, w.hosts[0])
	}
	if monitor {
		interval := time.Duration(1+tp.Draw(10)) * time.Second
		l := &listStub{w: w, initial: initial, prev: initial, nRounds: nRounds, done: make(chan struct{}, 1)}
		m := healthcheck.NewMonitor(healthcheck.MonitorConfig{Interval: interval}, l, f)
		l.m = m
		got := m.Resolve()
		if !stringset.Equal(got, setOf(initial)) {
			s.Fail("monitor_initial_not_all_healthy", "fresh monitor resolves to %v, host list is %v", got.ToSlice(), initial)
		}
		simrt.Recv(l.done)
		m.Stop()
		s.Probe("monitor_run")
	} else {
		prev := initial
		for i := 0; i < nRounds; i++ {
			if tp.Chance(300) {
				simrt.Sleep(time.Duration(1+tp.Draw(5)) * time.Second)
			}
			r := w.planRound(prev)
			w.cur = r
			got := f.Run(setOf(r.list))
			w.cur = nil
			w.finish(r, got, "filter")
			prev = r.list
		}
		s.Probe("filter_run")
	}
	if w.nRejoin > 0 {
		s.Probe("host_rejoined")
	}
	if w.nHang > 0 {
		s.Probe("check_hung_until_deadline")
	}
	if w.nFlips > 0 {
		s.Probe("status_flipped")
	}
	kit.SetSample(map[string]any{"mode": map[bool]string{true: "monitor", false: "filter"}[monitor], "hosts": nHosts,
		"fails": w.cfg.Fails, "passes": w.cfg.Passes, "timeout": w.cfg.Timeout.String(), "rounds": w.rounds,
		"single_host_rounds": w.nSingle, "rejoins": w.nRejoin, "hangs": w.nHang, "status_flips": w.nFlips})
}

func TestC23(t *testing.T) {
	kit.Main(t, kit.Spec{
		Property: "C23",
		Body:     body,
		Config: func(tier string) simrt.Config {
			return simrt.Config{MaxSteps: 200000, Horizon: 2 * time.Hour, PanicIsFailure: true}
		},
		Real: []string{"lib/healthcheck.Filter (filter + state)", "lib/healthcheck.Monitor (loop on the fake clock)", "utils/stringset"},
		Stub: []string{"healthcheck.Checker (outcome per host and round from the tape: pass, fail, hang until the context deadline, slow pass/fail)", "hostlist.List given to the Monitor (membership drawn per round)"},
		Rule: "one run = Fails,Passes in 1..3, 2..5 hosts, 4..25 rounds; every round draws the list (unchanged, toggle hosts, single host, everybody, arbitrary subset incl. empty) and an outcome per member; driven through Filter.Run directly or through a Monitor loop; non-trivial = >=1 contested scheduling decision (the per-host check tasks race on the state lock); distinct = distinct event-log hash",
		Assumptions: []string{"slow checks last strictly less than the check timeout, hanging checks return only at the context deadline, so every delivered outcome is unambiguous",
			"the model is advanced by the outcomes actually delivered to the filter (a single-host round may or may not run checks)"},
	})
}
