// C11: no client-supplied name makes a store touch files outside its directory.
//
// Real: the chi routers, handlers and request parsing (RawPath routing,
// httputil.ParseParam unescaping) of build-index tagserver, origin blobserver
// and agent agentserver, tagstore, SimpleStore / CAStore / CADownloadStore and
// the whole lib/store/base layer below them. Requests are parsed from a raw
// HTTP/1.1 request head with http.ReadRequest (exactly what a server does with
// the bytes a client sends, so escapes such as %2E%2E or %2F survive to the
// router) and served with Handler().ServeHTTP: no sockets.
//
// Oracle: the disk audit log. Every path that reaches the file-system layer on
// behalf of a request (stat, open, read, write, mkdir, rename, link, remove...)
// lies inside one of the store roots configured for that server; a request
// whose store name designates a location outside the root gets an error
// status; the directory tree outside the roots is byte-identical before and
// after. Safety net: mutating operations outside the run's temp directory are
// vetoed (and still audited, hence reported).
package c11

import (
	"bufio"
	"bytes"
	"context"
	"errors"
	"fmt"
	"io"
	"net/http"
	"net/http/httptest"
	"net/url"
	"os"
	"path/filepath"
	"sort"
	"strings"
	"syscall"
	"testing"
	"time"

	"github.com/c2h5oh/datasize"
	"github.com/uber-go/tally"
	"github.com/uber/kraken/agent/agentserver"
	"github.com/uber/kraken/build-index/tagclient"
	"github.com/uber/kraken/build-index/tagserver"
	"github.com/uber/kraken/build-index/tagstore"
	"github.com/uber/kraken/core"
	"github.com/uber/kraken/lib/backend"
	"github.com/uber/kraken/lib/backend/backenderrors"
	"github.com/uber/kraken/lib/blobrefresh"
	"github.com/uber/kraken/lib/containerruntime/containerd"
	"github.com/uber/kraken/lib/containerruntime/dockerdaemon"
	"github.com/uber/kraken/lib/metainfogen"
	"github.com/uber/kraken/lib/persistedretry"
	"github.com/uber/kraken/lib/persistedretry/tagreplication"
	"github.com/uber/kraken/lib/store"
	"github.com/uber/kraken/lib/torrent/scheduler"
	"github.com/uber/kraken/origin/blobclient"
	"github.com/uber/kraken/origin/blobserver"
	"github.com/uber/kraken/tracker/announceclient"
	"github.com/uber/kraken/utils/stringset"
	"go.opentelemetry.io/otel"

	"kverif/kit"
	sclock "kverif/shim/clock"
	ssync "kverif/shim/sync"
	simrt "kverif/sim"
)

// ---------------------------------------------------------------------------
// Stubs for collaborators that are kraken interfaces.

type nopBackend struct{}

func (nopBackend) Stat(ns, name string) (*core.BlobInfo, error) {
	return nil, backenderrors.ErrBlobNotFound
}
func (nopBackend) Upload(ns, name string, src io.Reader) error {
	_, err := io.Copy(io.Discard, src)
	return err
}
func (nopBackend) Download(ns, name string, dst io.Writer) error {
	return backenderrors.ErrBlobNotFound
}
func (nopBackend) List(prefix string, opts ...backend.ListOption) (*backend.ListResult, error) {
	return &backend.ListResult{}, nil
}
func (nopBackend) Close() error { return nil }

type stubRetry struct{ added, execd int }

func (m *stubRetry) Add(persistedretry.Task) error      { m.added++; return nil }
func (m *stubRetry) SyncExec(persistedretry.Task) error { m.execd++; return nil }
func (m *stubRetry) Close()                             {}
func (m *stubRetry) Find(q interface{}) ([]persistedretry.Task, error) {
	return nil, nil
}

type emptyHosts struct{}

func (emptyHosts) Resolve() stringset.Set { return stringset.New() }

type noDeps struct{}

func (noDeps) Resolve(tag string, d core.Digest) (core.DigestList, error) { return nil, nil }

type stubOrigin struct{ blobclient.ClusterClient }

func (stubOrigin) CheckReadiness() error { return nil }
func (stubOrigin) Stat(ns string, d core.Digest) (*core.BlobInfo, error) {
	return core.NewBlobInfo(1), nil
}

type stubTagProvider struct{}

func (stubTagProvider) Provide(addr string) tagclient.Client { return stubTags{} }

type stubTags struct{ tagclient.Client }

func (stubTags) CheckReadiness() error                                 { return nil }
func (stubTags) Get(tag string) (core.Digest, error)                   { return core.Digest{}, tagclient.ErrTagNotFound }
func (stubTags) DuplicatePut(string, core.Digest, time.Duration) error { return nil }
func (stubTags) DuplicateReplicate(string, core.Digest, core.DigestList, time.Duration) error {
	return nil
}

type stubRing struct{ addr string }

func (r stubRing) Locations(d core.Digest) []string { return []string{r.addr} }
func (r stubRing) Contains(addr string) bool        { return addr == r.addr }
func (r stubRing) WaitForContains(string) error     { return nil }
func (r stubRing) Members() stringset.Set           { return stringset.New(r.addr) }
func (r stubRing) Monitor(stop <-chan struct{})     {}
func (r stubRing) Refresh()                         {}

type stubBlobProvider struct{}

func (stubBlobProvider) Provide(addr string) blobclient.Client { return nil }

type stubCluster struct{}

func (stubCluster) Provide(dns string) (blobclient.ClusterClient, error) {
	return nil, errors.New("no remote clusters in this harness")
}

type stubSched struct{ scheduler.ReloadableScheduler }

func (stubSched) Download(ns string, d core.Digest) error { return scheduler.ErrTorrentNotFound }
func (stubSched) RemoveTorrent(d core.Digest) error       { return nil }
func (stubSched) Probe() error                            { return nil }

type stubAnnounce struct{ announceclient.Client }

func (stubAnnounce) CheckReadiness() error { return nil }

type stubPuller struct{}

func (stubPuller) PullImage(ctx context.Context, repo, tag string) error {
	return errors.New("no container runtime in this harness")
}

type stubCtrd struct{}

func (stubCtrd) PullImage(ctx context.Context, ns, repo, tag string) error {
	return errors.New("no container runtime in this harness")
}

type stubRuntime struct{}

func (stubRuntime) DockerClient() dockerdaemon.DockerClient { return stubPuller{} }
func (stubRuntime) ContainerdClient() containerd.Client     { return stubCtrd{} }

// ---------------------------------------------------------------------------

type server struct {
	name   string
	h      http.Handler
	roots  []string // store directories configured for this server
	parent string   // directory that holds the roots
}

type world struct {
	s    *simrt.Sim
	tmp  string
	reqs int
}

func inside(root, p string) bool {
	p = filepath.Clean(p)
	return p == root || strings.HasPrefix(p, root+"/")
}

func (w *world) short(p string) string {
	if strings.HasPrefix(p, w.tmp) {
		return "<tmp>" + p[len(w.tmp):]
	}
	return p
}

// guard vetoes every mutating disk operation that would land outside the run's
// temp directory (the attempt is in the audit log and is reported by the oracle).
func (w *world) guard(n *simrt.Node, kind, path string) error {
	for _, p := range strings.Split(path, " -> ") {
		if !filepath.IsAbs(p) {
			if a, err := filepath.Abs(p); err == nil {
				p = a
			}
		}
		if !inside(w.tmp, p) || filepath.Clean(p) == w.tmp {
			return syscall.EPERM
		}
	}
	return nil
}

type response struct {
	status   int
	hdr      http.Header
	body     []byte
	parseErr error
}

// do parses the raw request head the way an HTTP server does and serves it.
func do(h http.Handler, method, target string, hdr map[string]string, body []byte) response {
	var b bytes.Buffer
	fmt.Fprintf(&b, "%s %s HTTP/1.1\r\nHost: sim\r\n", method, target)
	keys := make([]string, 0, len(hdr))
	for k := range hdr {
		keys = append(keys, k)
	}
	sort.Strings(keys)
	for _, k := range keys {
		fmt.Fprintf(&b, "%s: %s\r\n", k, hdr[k])
	}
	fmt.Fprintf(&b, "Content-Length: %d\r\n\r\n", len(body))
	b.Write(body)
	req, err := http.ReadRequest(bufio.NewReader(&b))
	if err != nil {
		return response{status: http.StatusBadRequest, parseErr: err}
	}
	rec := httptest.NewRecorder()
	h.ServeHTTP(rec, req)
	return response{status: rec.Code, hdr: rec.Header(), body: rec.Body.Bytes()}
}

// serve issues one request on behalf of srv and applies the audit oracle to
// the disk accesses of srv's node during the request.
// storeName/storeRoot: when the request carries a name that the server hands to
// a store rooted at storeRoot (raw, still escaped as sent), the status oracle
// applies.
func (w *world) serve(srv *server, label, method, target string, hdr map[string]string, body []byte, rawName, storeRoot string) response {
	s := w.s
	d := s.Disk()
	from := len(d.Audit)
	resp := do(srv.h, method, target, hdr, body)
	w.reqs++
	class := resp.status / 100
	if resp.parseErr != nil {
		s.Probe("rejected_by_http_parser")
		class = 0
	}
	tshort := target
	if len(tshort) > 160 {
		tshort = tshort[:160] + "..."
	}
	s.Logf("%s %s %s %q -> %dxx", srv.name, method, label, tshort, class)
	s.Probe(fmt.Sprintf("status_%dxx", class))
	touched := 0
	for _, a := range d.Audit[from:] {
		if a.Node != srv.name {
			continue
		}
		for _, p := range strings.Split(a.Path, " -> ") {
			if !filepath.IsAbs(p) {
				if abs, err := filepath.Abs(p); err == nil {
					p = abs
				}
			}
			p = filepath.Clean(p)
			touched++
			ok := false
			for _, r := range srv.roots {
				if inside(r, p) {
					ok = true
					// the root itself may be examined, never removed or renamed
					if p == r && (a.Kind == "remove" || a.Kind == "rename") {
						s.Fail("store_root_removed", "%s %s %s: %s of the store root %s itself", srv.name, method, label, a.Kind, w.short(r))
					}
				}
			}
			if !ok {
				s.Fail("path_outside_store", "%s %s %q (status %d): %s %s is outside the server's store directories", srv.name, method, target, resp.status, a.Kind, w.short(p))
			}
		}
	}
	if touched > 0 {
		s.Probe("request_reached_disk")
	}
	// status oracle for names that designate a location outside the store
	if rawName != "" && resp.parseErr == nil && !strings.Contains(rawName, "/") {
		name, err := url.PathUnescape(rawName)
		switch {
		case err != nil:
			if resp.status < 400 {
				s.Fail("bad_escape_accepted", "%s %s %q: undecodable name accepted with status %d", srv.name, method, target, resp.status)
			}
		case name == "":
		default:
			unstorable := strings.ContainsRune(name, 0) || filepath.IsAbs(name) || !inside(storeRoot, filepath.Join(storeRoot, name))
			if unstorable {
				s.Probe("unstorable_name_sent")
				if resp.status < 400 {
					s.Fail("unstorable_name_accepted", "%s %s %q: name %q designates %s, outside the store, but the request got status %d", srv.name, method, target, name, w.short(filepath.Join(storeRoot, name)), resp.status)
				}
			} else {
				s.Probe("storable_name_sent")
				if resp.status < 300 {
					s.Probe("storable_name_accepted")
				}
			}
		}
	}
	return resp
}

// ---------------------------------------------------------------------------
// Hostile name grammar. Atom 0 is the boring valid name.

var atoms = []string{
	"repo", "..", ".", "%2E%2E", "%2e%2E", "%2E", "%2F", "..%2F", "%2E%2E%2F", "%252E%252E",
	"%252F", "/", "//", "img%3Av1", "a%2Fb", "data", "_persist", "%00", "\x00", "%5C",
	"..%5C", "x%2F..%2F..%2Fy", "%2E%2E%2F%2E%2E%2Fz", "<long>", "%c0%ae%c0%ae", "%20", " ", "%0A", "%2e%2e%2fdata", "..%2Fupload",
	"..%2Fcache%2Fq", "%2Fetc%2Fpasswd", "%", "%zz", "_last_access_time", "...", "lib%2F", "%2Fabs", "-", "%2E%2E%2Fdata%2F..",
}

func hostile(tp *simrt.Tape) string {
	n := 1 + tp.Draw(3)
	var b strings.Builder
	for i := 0; i < n; i++ {
		a := atoms[tp.Draw(len(atoms))]
		if a == "<long>" {
			a = strings.Repeat("a", 120+tp.Draw(3)*200)
		}
		b.WriteString(a)
	}
	return b.String()
}

// hostileDigest returns "sha256:" followed by a string that is exactly (or
// almost) 64 characters long once unescaped, built from dot segments,
// separators, hex runs and characters adjacent to the hex ranges: names that
// pass a length check and a sloppy character check, and that the store would
// turn into a path.
func hostileDigest(tp *simrt.Tape) string {
	pieces := [][2]string{{"..", "%2E%2E"}, {"..", ".."}, {"/", "%2F"}, {".", "."}, {"./", ".%2F"}, {"../", "..%2F"}, {"feed/", "feed%2F"},
		{"data", "data"}, {"0a", "0a"}, {"g", "g"}, {":", ":"}, {"-", "-"}, {"AF", "AF"}, {" ", "%20"}, {"\\", "%5C"}, {"@", "@"}, {"`", "%60"}}
	target := 64
	switch tp.Draw(8) {
	case 6:
		target = 63
	case 7:
		target = 65
	}
	var enc strings.Builder
	n := 0
	// a path-like head, then filler that keeps the shape
	for n < target {
		pc := pieces[tp.Draw(len(pieces))]
		if n > 24 {
			pc = [][2]string{{"./", ".%2F"}, {"0", "0"}, {".", "."}}[tp.Draw(3)]
		}
		if n+len(pc[0]) > target {
			pc = [2]string{"0", "0"}
		}
		enc.WriteString(pc[1])
		n += len(pc[0])
	}
	return "sha256:" + enc.String()
}

// digestName returns the valid digest, a hostile name, or a hostile name of
// digest shape.
func digestName(tp *simrt.Tape, valid string) string {
	switch k := tp.Draw(10); {
	case k < 4:
		return valid
	case k < 7:
		return hostile(tp)
	}
	return hostileDigest(tp)
}

// hexName is digestName for endpoints that take the bare hex part.
func hexName(tp *simrt.Tape, valid string) string {
	return strings.TrimPrefix(digestName(tp, "sha256:"+valid), "sha256:")
}

// name returns a valid name (0) or a hostile one.
func name(tp *simrt.Tape, valid string) string {
	if !tp.Chance(750) {
		return valid
	}
	return hostile(tp)
}

func digestOf(b []byte) core.Digest {
	d, err := core.NewSHA256DigestFromHex(kit.SHA(b))
	if err != nil {
		panic(err)
	}
	return d
}

// ---------------------------------------------------------------------------
// Tree snapshot of everything below tmp that is not inside a store root.

func (w *world) outsideTree(srv *server) map[string]string {
	out := map[string]string{}
	roots := srv.roots
	// the server's own host directory: <tmp>/hosts/<server>/var/{roots}
	filepath.WalkDir(filepath.Dir(srv.parent), func(p string, d os.DirEntry, err error) error {
		if err != nil {
			return nil
		}
		for _, r := range roots {
			if p == r {
				out[w.short(p)] = "root"
				return filepath.SkipDir
			}
		}
		if d.IsDir() {
			out[w.short(p)] = "dir"
			return nil
		}
		b, _ := os.ReadFile(p)
		out[w.short(p)] = "file:" + kit.SHA(b)
		return nil
	})
	return out
}

func diffTree(a, b map[string]string) []string {
	var d []string
	for k, v := range a {
		if bv, ok := b[k]; !ok {
			d = append(d, "removed "+k)
		} else if bv != v {
			d = append(d, "changed "+k)
		}
	}
	for k := range b {
		if _, ok := a[k]; !ok {
			d = append(d, "created "+k)
		}
	}
	sort.Strings(d)
	return d
}

// ---------------------------------------------------------------------------
// Servers.

func (w *world) decoy(dir string, content []byte) {
	// a file named like a store data file next to the store roots: what a
	// one-level escape would hit
	if err := os.WriteFile(filepath.Join(dir, "data"), content, 0o644); err != nil {
		w.s.InfraError("decoy: %v", err)
	}
}

func (w *world) buildIndex(nReq int, wg *ssync.WaitGroup) {
	s, tp := w.s, w.s.Tape
	defer wg.Done()
	parent := filepath.Join(w.tmp, "hosts", "buildindex", "var")
	cache, upload := filepath.Join(parent, "cache"), filepath.Join(parent, "upload")
	ss, err := store.NewSimpleStore(store.SimpleStoreConfig{UploadDir: upload, CacheDir: cache,
		UploadCleanup: store.CleanupConfig{Disabled: true}, CacheCleanup: store.CleanupConfig{Disabled: true}}, tally.NoopScope)
	if err != nil {
		s.InfraError("NewSimpleStore: %v", err)
	}
	backends := new(backend.Manager)
	if err := backends.Register(".*", nopBackend{}, false); err != nil {
		s.InfraError("register backend: %v", err)
	}
	wb := &stubRetry{}
	ts := tagstore.New(tagstore.Config{WriteThrough: tp.Chance(300)}, ss, backends, wb)
	srvObj := tagserver.New(tagserver.Config{}, tally.NoopScope, backends, "origin-dns", stubOrigin{}, emptyHosts{}, ts,
		tagreplication.Remotes{}, &stubRetry{}, stubTagProvider{}, noDeps{}, otel.Tracer("c11"))
	srv := &server{name: "buildindex", h: srvObj.Handler(), roots: []string{cache, upload}, parent: parent}
	someDigest := digestOf([]byte("manifest"))
	if tp.Chance(500) {
		w.decoy(parent, []byte(someDigest.String()))
	}
	before := w.outsideTree(srv)
	dupBody := []byte(`{"delay":0}`)
	var lastTag string
	for i := 0; i < nReq; i++ {
		t := name(tp, fmt.Sprintf("repo%%3Av%d", tp.Draw(3)))
		if lastTag != "" && tp.Chance(300) {
			t = lastTag // read back what was just written
		}
		switch tp.Draw(8) {
		case 0:
			r := w.serve(srv, "put-tag", "PUT", "/tags/"+t+"/digest/"+someDigest.String(), nil, nil, t, cache)
			if r.status == 200 {
				lastTag = t
			}
		case 1:
			w.serve(srv, "get-tag", "GET", "/tags/"+t, nil, nil, t, cache)
		case 2:
			r := w.serve(srv, "dup-put-tag", "PUT", "/internal/duplicate/tags/"+t+"/digest/"+someDigest.String(), nil, dupBody, t, cache)
			if r.status == 200 {
				lastTag = t
			}
		case 3:
			w.serve(srv, "replicate-tag", "POST", "/remotes/tags/"+t, nil, nil, t, cache)
		case 4:
			w.serve(srv, "has-tag", "HEAD", "/tags/"+t, nil, nil, "", "")
		case 5:
			w.serve(srv, "list-repo", "GET", "/repositories/"+t+"/tags", nil, nil, "", "")
		case 6:
			w.serve(srv, "list", "GET", "/list/"+t, nil, nil, "", "")
		case 7:
			w.serve(srv, "dup-replicate", "POST", "/internal/duplicate/remotes/tags/"+t+"/digest/"+someDigest.String(), nil, []byte(`{"delay":0,"dependencies":[]}`), "", "")
		}
	}
	if d := diffTree(before, w.outsideTree(srv)); len(d) > 0 {
		s.Fail("outside_tree_changed", "build-index: files outside the store directories changed: %s", strings.Join(d, ", "))
	}
}

func (w *world) origin(nReq int, wg *ssync.WaitGroup) {
	s, tp := w.s, w.s.Tape
	defer wg.Done()
	parent := filepath.Join(w.tmp, "hosts", "origin", "var")
	cache, upload := filepath.Join(parent, "cache"), filepath.Join(parent, "upload")
	cas, err := store.NewCAStore(store.CAStoreConfig{UploadDir: upload, CacheDir: cache,
		UploadCleanup: store.CleanupConfig{Disabled: true}, CacheCleanup: store.CleanupConfig{Disabled: true}}, tally.NoopScope)
	if err != nil {
		s.InfraError("NewCAStore: %v", err)
	}
	backends := new(backend.Manager)
	if err := backends.Register(".*", nopBackend{}, false); err != nil {
		s.InfraError("register backend: %v", err)
	}
	mig, err := metainfogen.New(metainfogen.Config{PieceLengths: map[datasize.ByteSize]datasize.ByteSize{0: 4 * datasize.KB}}, cas)
	if err != nil {
		s.InfraError("metainfogen: %v", err)
	}
	refresher := blobrefresh.New(blobrefresh.Config{}, tally.NoopScope, cas, backends, mig)
	const addr = "origin1:80"
	srvObj, err := blobserver.New(blobserver.Config{}, tally.NoopScope, sclock.New(), addr, stubRing{addr}, cas,
		stubBlobProvider{}, stubCluster{}, core.PeerContext{IP: "10.0.0.1", Port: 80, Origin: true}, backends, refresher, mig, &stubRetry{})
	if err != nil {
		s.InfraError("blobserver.New: %v", err)
	}
	srv := &server{name: "origin", h: srvObj.Handler(), roots: []string{cache, upload}, parent: parent}
	decoyBlob := []byte("decoy blob content outside the store")
	decoyD := digestOf(decoyBlob)
	if tp.Chance(500) {
		w.decoy(parent, decoyBlob)
	}
	before := w.outsideTree(srv)
	seq := 0
	for i := 0; i < nReq; i++ {
		seq++
		blob := []byte(fmt.Sprintf("blob-%d-%d", i, tp.Draw(4)))
		d := digestOf(blob)
		if tp.Chance(300) {
			blob, d = decoyBlob, decoyD
		}
		ns := "ns%2Frepo"
		pre := "/namespace/" + ns + "/blobs/" + d.String()
		if tp.Chance(400) {
			pre = "/internal/blobs/" + d.String()
		}
		rng := map[string]string{"Content-Range": fmt.Sprintf("0-%d", len(blob))}
		switch tp.Draw(10) {
		case 0: // complete valid upload, then hostile variations may hit an existing blob
			r := w.serve(srv, "start", "POST", pre+"/uploads", nil, nil, "", "")
			uid := r.hdr.Get("Location")
			if r.status == 200 && uid != "" {
				w.serve(srv, "patch", "PATCH", pre+"/uploads/"+uid, rng, blob, "", "")
				c := w.serve(srv, "commit", "PUT", pre+"/uploads/"+uid, nil, nil, "", "")
				if c.status == 200 {
					s.Probe("valid_upload_committed")
				}
			}
		case 1:
			u := name(tp, "00000000-0000-0000-0000-000000000000")
			w.serve(srv, "patch-uid", "PATCH", pre+"/uploads/"+u, rng, blob, u, upload)
		case 2:
			u := name(tp, "00000000-0000-0000-0000-000000000000")
			w.serve(srv, "commit-uid", "PUT", pre+"/uploads/"+u, nil, nil, u, upload)
		case 3: // started upload, then a hostile uid for patch and commit
			r := w.serve(srv, "start", "POST", pre+"/uploads", nil, nil, "", "")
			if r.status == 200 {
				u := hostile(tp)
				w.serve(srv, "patch-uid", "PATCH", pre+"/uploads/"+u, rng, blob, u, upload)
				w.serve(srv, "commit-uid", "PUT", pre+"/uploads/"+u, nil, nil, u, upload)
			}
		case 4:
			u := name(tp, "00000000-0000-0000-0000-000000000000")
			w.serve(srv, "dup-commit-uid", "PUT", "/internal/duplicate/namespace/"+ns+"/blobs/"+d.String()+"/uploads/"+u, nil, []byte(`{"delay":0}`), u, upload)
		case 5:
			h := digestName(tp, d.String())
			w.serve(srv, "get-blob", "GET", "/namespace/"+name(tp, ns)+"/blobs/"+h, nil, nil, "", "")
		case 6:
			h := digestName(tp, d.String())
			w.serve(srv, "stat-blob", "HEAD", "/internal/namespace/"+name(tp, ns)+"/blobs/"+h+"?local=true", nil, nil, "", "")
		case 7:
			h := digestName(tp, d.String())
			w.serve(srv, "delete-blob", "DELETE", "/internal/blobs/"+h, nil, nil, "", "")
		case 8:
			h := digestName(tp, d.String())
			w.serve(srv, "get-metainfo", "GET", "/internal/namespace/"+name(tp, ns)+"/blobs/"+h+"/metainfo", nil, nil, "", "")
		case 9:
			h := digestName(tp, d.String())
			w.serve(srv, "start-hostile-digest", "POST", "/internal/blobs/"+h+"/uploads", nil, nil, "", "")
		}
	}
	if d := diffTree(before, w.outsideTree(srv)); len(d) > 0 {
		s.Fail("outside_tree_changed", "origin: files outside the store directories changed: %s", strings.Join(d, ", "))
	}
}

func (w *world) agent(nReq int, wg *ssync.WaitGroup) {
	s, tp := w.s, w.s.Tape
	defer wg.Done()
	parent := filepath.Join(w.tmp, "hosts", "agent", "var")
	cache, download := filepath.Join(parent, "cache"), filepath.Join(parent, "download")
	cads, err := store.NewCADownloadStore(store.CADownloadStoreConfig{DownloadDir: download, CacheDir: cache,
		DownloadCleanup: store.CleanupConfig{Disabled: true}, CacheCleanup: store.CleanupConfig{Disabled: true}}, tally.NoopScope)
	if err != nil {
		s.InfraError("NewCADownloadStore: %v", err)
	}
	blob := []byte("agent blob")
	d := digestOf(blob)
	if err := cads.CreateDownloadFile(d.Hex(), int64(len(blob))); err != nil {
		s.InfraError("CreateDownloadFile: %v", err)
	}
	if rw, err := cads.GetDownloadFileReadWriter(d.Hex()); err != nil {
		s.InfraError("download rw: %v", err)
	} else {
		rw.Write(blob)
		rw.Close()
	}
	if err := cads.MoveDownloadFileToCache(d.Hex()); err != nil {
		s.InfraError("MoveDownloadFileToCache: %v", err)
	}
	srvObj := agentserver.New(agentserver.Config{}, tally.NoopScope, cads, stubSched{}, stubTags{}, stubAnnounce{}, stubRuntime{})
	srv := &server{name: "agent", h: srvObj.Handler(), roots: []string{cache, download}, parent: parent}
	if tp.Chance(500) {
		w.decoy(parent, blob)
	}
	before := w.outsideTree(srv)
	for i := 0; i < nReq; i++ {
		switch tp.Draw(4) {
		case 0:
			w.serve(srv, "get-tag", "GET", "/tags/"+name(tp, "repo%3Av1"), nil, nil, "", "")
		case 1:
			h := hexName(tp, d.Hex())
			r := w.serve(srv, "download-blob", "GET", "/namespace/"+name(tp, "ns")+"/blobs/"+h, nil, nil, "", "")
			if r.status == 200 && bytes.Equal(r.body, blob) {
				s.Probe("agent_blob_served")
			}
		case 2:
			w.serve(srv, "delete-blob", "DELETE", "/blobs/"+hexName(tp, d.Hex()), nil, nil, "", "")
		case 3:
			w.serve(srv, "preload-tag", "GET", "/preload/tags/"+name(tp, "repo%3Av1"), nil, nil, "", "")
		}
	}
	if d := diffTree(before, w.outsideTree(srv)); len(d) > 0 {
		s.Fail("outside_tree_changed", "agent: files outside the store directories changed: %s", strings.Join(d, ", "))
	}
}

func body(s *simrt.Sim, tier string) {
	tp := s.Tape
	w := &world{s: s, tmp: kit.TempDir(s)}
	s.Disk().AuditOn = true
	s.Disk().FaultFn = w.guard
	n := 3 + tp.Draw(8)
	if tier == "thorough" {
		n += tp.Draw(16)
	}
	var wg ssync.WaitGroup
	which := tp.Draw(4) // 0: all three servers concurrently; 1..3: pairs
	type part struct {
		name string
		fn   func(int, *ssync.WaitGroup)
	}
	parts := []part{{"buildindex", w.buildIndex}, {"origin", w.origin}, {"agent", w.agent}}
	started := 0
	for i, p := range parts {
		if which != 0 && i == which-1 {
			continue
		}
		wg.Add(1)
		started++
		node := s.NewNode(p.name)
		fn := p.fn
		s.GoNode(node, p.name, func() { fn(n, &wg) })
	}
	wg.Wait()
	kit.SetSample(map[string]any{"servers": started, "requests_per_server": n, "requests": w.reqs})
}

func TestC11(t *testing.T) {
	kit.Main(t, kit.Spec{
		Property: "C11",
		Body:     body,
		Config: func(tier string) simrt.Config {
			return simrt.Config{MaxSteps: 2_000_000, Horizon: 24 * time.Hour, PanicIsFailure: true}
		},
		Real: []string{"build-index/tagserver (chi router + handlers)", "build-index/tagstore", "origin/blobserver (router, handlers, uploader)", "agent/agentserver", "utils/httputil.ParseParam / ParseDigest", "utils/handler", "lib/store SimpleStore / CAStore / CADownloadStore", "lib/store/base (entry factories, FileOp, file map)", "lib/metainfogen", "lib/blobrefresh", "net/http request parsing (http.ReadRequest)"},
		Stub: []string{"HTTP transport (requests are parsed from raw bytes and handed to Handler().ServeHTTP)", "backend client (always not-found)", "write-back / tag replication managers", "origin cluster client, hash ring (single member), host list, dependency resolver, tag client, scheduler, announce client, container runtime"},
		Rule: "one run = 2-3 servers, each serving 3-26 requests whose path parameters come from a tape-driven grammar of hostile atoms (dot segments, single/double percent-encodings of . / \\ NUL, leading/trailing slashes, over-long names, invalid escapes, metadata file names) mixed with valid names and complete valid upload flows; optional decoy 'data' file next to the store roots; non-trivial = >=1 contested scheduling decision (servers run concurrently); distinct = distinct event-log hash",
		Assumptions: []string{
			"store roots = the directories passed to the public store constructors; a path equal to a root counts as inside, removing/renaming the root itself does not",
			"reads performed inside filepath.Walk are not audited (no handler under test walks)",
			"the proxy's registry-override server has no path parameters and no store: not exercised; the docker-registry storage driver is a different surface",
		},
	})
}
