// C19: a swarm with a reachable seeder converges to the exact blob.
package c19

import (
	"bytes"
	"fmt"
	"testing"
	"time"

	"github.com/uber/kraken/core"

	"kverif/cluster"
	"kverif/kit"
	ssync "kverif/shim/sync"
	simrt "kverif/sim"
)

func body(s *simrt.Sim, tier string) {
	tp := s.Tape
	p := cluster.Params{PieceLength: int64(1024 << tp.Draw(4)), Sched: cluster.DefaultSched(),
		AnnounceInterval: time.Duration(1+tp.Draw(5)) * time.Second, PeerHandoutLimit: 1 + tp.Draw(5)}
	c := cluster.New(s, p)
	c.StartOrigins(1)
	c.StartTracker()
	size := tp.Draw(64 << 10)
	blob := kit.Bytes(s, size)
	d := c.Seed(c.Origins[0], blob)
	nAgents := 1 + tp.Draw(3)
	var wg ssync.WaitGroup
	results := make([]error, nAgents)
	agents := make([]*cluster.Agent, nAgents)
	for i := 0; i < nAgents; i++ {
		agents[i] = c.StartAgent(i + 1)
	}
	for i := range agents {
		wg.Add(1)
		i := i
		s.GoNode(agents[i].Node, "download", func() {
			defer wg.Done()
			simrt.Sleep(time.Duration(tp.Draw(5)) * time.Second)
			results[i] = agents[i].Sched.Download(cluster.Namespace, d)
			s.Logf("agent%d download -> %v", i+1, results[i])
		})
	}
	wg.Wait()
	for i, a := range agents {
		if results[i] != nil {
			s.Fail("download_failed", "agent%d: %v", i+1, results[i])
		}
		got, err := a.ReadCache(d)
		if err != nil || !bytes.Equal(got, blob) {
			s.Fail("wrong_bytes", "agent%d cache differs from blob (err=%v len=%d want %d)", i+1, err, len(got), len(blob))
		}
	}
	kit.SetSample(map[string]any{"blob": size, "piece_length": p.PieceLength, "agents": nAgents, "digest": d.Hex()[:8]})
	_ = core.Digest{}
	_ = fmt.Sprint
}

func TestC19(t *testing.T) {
	kit.Main(t, kit.Spec{Property: "C19", Body: body,
		Config: func(string) simrt.Config { return simrt.Config{MaxSteps: 3_000_000, Horizon: time.Hour} }})
}
