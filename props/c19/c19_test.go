// C19: a swarm with a reachable seeder converges to the exact blob.
//
// Real tracker, origins and agents (schedulers, stores, HTTP clients/servers)
// over the simulated HTTP and TCP networks. Faults: agent departures (Stop),
// agent and origin crashes (all but one seeder), partitions that heal, link
// latency/short reads, slow tasks, and one peer that serves corrupted pieces
// (an agent whose cached copy was damaged on disk after it completed).
// Safety: an agent that reports success holds exactly the blob.
// Liveness: after faults stop, with at least one honest seeder reachable,
// every remaining agent's download returns nil within a bound computed from the
// run's configuration.
package c19

import (
	"bytes"
	"fmt"
	"os"
	"path/filepath"
	"testing"
	"time"

	"github.com/uber/kraken/core"
	"github.com/uber/kraken/lib/torrent/scheduler/connstate"
	"github.com/uber/kraken/lib/torrent/scheduler/dispatch"

	"kverif/cluster"
	"kverif/kit"
	simrt "kverif/sim"
)

type dl struct {
	agent    *cluster.Agent
	idx      int
	issued   time.Duration
	returned bool
	err      error
	at       time.Duration
	gone     bool // stopped or crashed by the workload
	corrupt  bool // the designated corrupting peer
}

func drawSize(tp *simrt.Tape, pl int64, max int) int {
	switch tp.Draw(6) {
	case 0:
		return 1 + tp.Draw(int(pl))
	case 1:
		return int(pl) * (1 + tp.Draw(4))
	case 2:
		return 0
	case 3:
		return int(pl)*(1+tp.Draw(3)) - 1
	default:
		return tp.Draw(max)
	}
}

func body(s *simrt.Sim, tier string) {
	tp := s.Tape
	thorough := tier == "thorough"
	sc := cluster.DefaultSched()
	sc.SeederTTI, sc.LeecherTTI = 2*time.Hour, 2*time.Hour // idle drops are C18's subject
	sc.ConnTTI = time.Duration(5+tp.Draw(26)) * time.Second
	sc.ConnTTL = time.Duration(1+tp.Draw(10)) * time.Minute
	sc.PreemptionInterval = time.Duration(1+tp.Draw(15)) * time.Second
	sc.EmitStatsInterval = time.Minute
	sc.ConnState = connstate.Config{MaxOpenConnectionsPerTorrent: 1 + tp.Draw(4), BlacklistDuration: time.Duration(12+tp.Draw(19)) * time.Second}
	sc.Dispatch = dispatch.Config{AgentPipelineLimit: 1 + tp.Draw(5), OriginPipelineLimit: 1 + tp.Draw(5),
		PieceRequestMinTimeout: time.Duration(2+tp.Draw(7)) * time.Second, DisableEndgame: tp.Chance(300)}
	if tp.Chance(400) {
		sc.Dispatch.PieceRequestPolicy = "rarest_first"
	}
	p := cluster.Params{PieceLength: int64(1024 << tp.Draw(5)), Sched: sc,
		AnnounceInterval: time.Duration(1+tp.Draw(5)) * time.Second, PeerHandoutLimit: 1 + tp.Draw(5)}
	c := cluster.New(s, p)
	faulty := tp.Chance(700)
	// workload variant (out of band): crashed agents restart on their directories
	restartCrashed := s.Tape.Variant%2 == 1
	// "duel" variant: one origin, one corrupting peer and one or two leechers
	// that talk to both, endgame on, many damaged pieces: the honest seeder is
	// the only source of the damaged pieces for the whole run, so anything that
	// makes a leecher stop asking it shows as non-convergence.
	duel := (s.Tape.Variant/2)%3 == 1
	if faulty && tp.Chance(500) {
		c.NW.MaxLatency = time.Duration(tp.Draw(80)) * time.Millisecond
		c.NW.ChunkPm = tp.Draw(300)
	}
	nOrigins := 1 + tp.Draw(2)
	if duel {
		nOrigins = 1
		sc.Dispatch.DisableEndgame = false
		if sc.ConnState.MaxOpenConnectionsPerTorrent < 2 {
			sc.ConnState.MaxOpenConnectionsPerTorrent = 2
		}
		c.P.Sched = sc
	}
	c.StartOrigins(nOrigins)
	c.StartTracker()
	maxBlob := 96 << 10
	if thorough {
		maxBlob = 256 << 10
	}
	size := drawSize(tp, p.PieceLength, maxBlob)
	blob := kit.Bytes(s, size)
	var d core.Digest
	for _, o := range c.Origins {
		d = c.Seed(o, blob)
	}
	nAgents := 2 + tp.Draw(3)
	if duel && nAgents > 3 {
		nAgents = 3
	}
	if thorough {
		nAgents += tp.Draw(3)
	}
	// Timer settings are not among the quantified configurations (see the
	// assumptions below): an agent limited to one connection dials one peer per
	// announce, so its blacklist must outlast one rotation through every peer
	// that may have departed or be corrupting, or it cycles through them until
	// the tracker forgets them (hours) without ever reaching the origin.
	if min := time.Duration(nAgents)*p.AnnounceInterval + 2*time.Second; sc.ConnState.BlacklistDuration < min {
		sc.ConnState.BlacklistDuration = min
		c.P.Sched.ConnState.BlacklistDuration = min
		s.Probe("blacklist_raised_above_rotation")
	}
	dls := make([]*dl, nAgents)
	start := func(x *dl, delay time.Duration) {
		x.returned, x.err = false, nil
		s.GoNode(x.agent.Node, "download", func() {
			simrt.Sleep(delay)
			x.issued = s.Now()
			err := x.agent.Sched.Download(cluster.Namespace, d)
			x.err, x.returned, x.at = err, true, s.Now()
			s.Logf("agent%d download -> %v", x.idx, err)
			if err == nil {
				checkBytes(s, x, d, blob, "at_return")
			}
		})
	}
	// --- the corrupting peer: agent 1 completes alone, then its cached copy is damaged
	first := 0
	corruptDraw := tp.Chance(400)
	if duel && size > 0 {
		faulty, corruptDraw = true, true
		s.Probe("duel_variant")
	}
	if faulty && size > 0 && corruptDraw {
		a := c.StartAgent(1)
		x := &dl{agent: a, idx: 1, corrupt: true}
		dls[0] = x
		start(x, 0)
		waitUntil(s, 10*time.Minute, func() bool { return x.returned })
		if !x.returned || x.err != nil {
			s.Fail("no_convergence", "fault-free single agent download did not succeed: returned=%v err=%v", x.returned, x.err)
		}
		path := filepath.Join(a.Dir, "cache")
		damage(s, path, d, size, duel)
		s.Fault("peer_corrupt_payload")
		first = 1
	}
	if faulty && tp.Chance(400) {
		s.InjectPauses(1+tp.Draw(3), 20000, 20*time.Second)
	}
	for i := first; i < nAgents; i++ {
		a := c.StartAgent(i + 1)
		dls[i] = &dl{agent: a, idx: i + 1}
		start(dls[i], time.Duration(tp.Draw(8))*time.Second)
	}
	kit.SetSample(map[string]any{"blob": size, "piece_length": p.PieceLength, "agents": nAgents, "origins": nOrigins, "faulty": faulty,
		"max_conns": sc.ConnState.MaxOpenConnectionsPerTorrent, "pipeline": sc.Dispatch.AgentPipelineLimit, "policy": sc.Dispatch.PieceRequestPolicy,
		"announce_interval": p.AnnounceInterval.String(), "corrupting_peer": first == 1})
	// --- fault phase
	if faulty {
		nf := 1 + tp.Draw(4)
		aliveOrigins := nOrigins
		for k := 0; k < nf; k++ {
			simrt.Sleep(time.Duration(tp.Draw(6000)) * time.Millisecond)
			switch tp.Draw(5) {
			case 0: // graceful departure
				x := dls[tp.Draw(nAgents)]
				if !x.gone && !x.corrupt {
					x.gone = true
					s.Fault("peer_depart")
					s.Logf("stop agent%d", x.idx)
					ag := x.agent
					s.GoNode(ag.Node, "stop", func() { ag.Sched.Stop() })
				}
			case 1: // agent crash
				x := dls[tp.Draw(nAgents)]
				if !x.gone && !x.corrupt {
					s.Fault("crash")
					s.KillNode(x.agent.Node)
					if restartCrashed {
						// the process comes back on the same directories (partial
						// download files, sidecars) and asks for the blob again
						simrt.Sleep(time.Duration(tp.Draw(4000)) * time.Millisecond)
						x.agent = c.StartAgent(x.idx)
						s.Probe("agent_restarted_after_crash")
						start(x, time.Duration(tp.Draw(3))*time.Second)
					} else {
						x.gone = true
					}
				}
			case 2: // origin crash, keeping one seeder
				if aliveOrigins > 1 {
					aliveOrigins--
					s.Fault("crash")
					s.KillNode(c.Origins[aliveOrigins].Node)
				}
			case 3: // partition between two nodes, healed later
				a := dls[tp.Draw(nAgents)].agent.Node
				var b *simrt.Node
				if tp.Chance(500) {
					b = c.Origins[tp.Draw(nOrigins)].Node
				} else {
					b = dls[tp.Draw(nAgents)].agent.Node
				}
				if a != b {
					c.NW.Partition(a, b, true)
					s.Logf("partition %s | %s", a.Name, b.Name)
				}
			case 4: // stall one connection end for a while
				cs := c.NW.Conns()
				if len(cs) > 0 {
					cn := cs[tp.Draw(len(cs))]
					cn.Stall(true)
					dur := time.Duration(1+tp.Draw(20)) * time.Second
					simrt.Go(func() { simrt.Sleep(dur); cn.Stall(false) })
				}
			}
		}
		simrt.Sleep(time.Duration(tp.Draw(10000)) * time.Millisecond)
	}
	// --- faults stop
	c.NW.HealAll()
	c.NW.Quiet, c.HN.Quiet = true, true
	for _, cn := range c.NW.Conns() {
		if cn.Stalled {
			cn.Stall(false)
		}
	}
	tStop := s.Now()
	s.Logf("faults stop")
	// longest recovery path: an agent may have to wait out a blacklist entry and
	// an idle connection, be re-announced, re-dial and re-request pieces.
	cycle := sc.ConnTTI + sc.PreemptionInterval + sc.ConnState.BlacklistDuration + 2*p.AnnounceInterval +
		sc.Dispatch.PieceRequestMinTimeout + 5*time.Second /*handshake*/ + 30*time.Second /*dial timeout on stale partitions*/
	bound := 6 * cycle * time.Duration(1+nAgents)
	pending := func() (n int) {
		for _, x := range dls {
			if x.gone || x.corrupt {
				continue
			}
			if x.returned && x.err != nil {
				// failed because of a fault (or timed out waiting during it): re-issue once
				if x.at <= tStop+time.Second || x.issued < tStop {
					s.Probe("download_reissued")
					start(x, 0)
					n++
					continue
				}
				// Task pauses are armed by scheduling step, so one may still fire
				// after this instant: a paused tracker or origin handler lets the
				// agent's HTTP timeout expire. That is a fault too: re-issue.
				if s.PausedDuring(x.issued, x.at) {
					s.Probe("download_reissued_after_late_pause")
					start(x, 0)
					n++
					continue
				}
				s.Fail("download_failed_after_faults_stopped", "agent%d: download issued at %v (faults stopped at %v) returned %v", x.idx, x.issued, tStop, x.err)
			}
			if !x.returned {
				n++
			}
		}
		return n
	}
	ok := waitUntil(s, bound, func() bool { return pending() == 0 })
	if !ok {
		var who []string
		for _, x := range dls {
			if !x.gone && !x.corrupt && !x.returned {
				who = append(who, fmt.Sprintf("agent%d(issued %v)", x.idx, x.issued))
			}
		}
		s.Fail("no_convergence", "%v still downloading %v after faults stopped (bound %v); origins alive, blob %d bytes, piece %d", who, s.Now()-tStop, bound, size, p.PieceLength)
	}
	// final safety check
	for _, x := range dls {
		if x.gone || x.corrupt {
			continue
		}
		checkBytes(s, x, d, blob, "final")
	}
}

func checkBytes(s *simrt.Sim, x *dl, d core.Digest, blob []byte, when string) {
	got, err := x.agent.ReadCache(d)
	if err != nil {
		s.Fail("success_without_blob", "agent%d reported success but its cache has no readable blob (%s): %v", x.idx, when, err)
	}
	if !bytes.Equal(got, blob) {
		s.Fail("wrong_bytes", "agent%d reported success but its cached copy differs from the blob (%s): %d vs %d bytes", x.idx, when, len(got), len(blob))
	}
}

// damage flips one byte of the cached blob file on disk.
func damage(s *simrt.Sim, cacheDir string, d core.Digest, size int, heavy bool) {
	var target string
	filepath.Walk(cacheDir, func(p string, fi os.FileInfo, err error) error {
		if err == nil && !fi.IsDir() && fi.Name() == "data" && filepath.Base(filepath.Dir(p)) == d.Hex() {
			target = p
		}
		if err == nil && !fi.IsDir() && fi.Name() == d.Hex() {
			target = p
		}
		return nil
	})
	if target == "" {
		s.InfraError("cannot find cached blob file to damage under %s", cacheDir)
	}
	b, err := os.ReadFile(target)
	if err != nil || len(b) != size {
		s.InfraError("damage: read %v len %d want %d", err, len(b), size)
	}
	n := 1 + s.Tape.Draw(3)
	if heavy {
		n += 3 + s.Tape.Draw(12)
	}
	for i := 0; i < n; i++ {
		b[s.Tape.Draw(size)] ^= 0x5a
	}
	if err := os.WriteFile(target, b, 0o644); err != nil {
		s.InfraError("damage: %v", err)
	}
}

// waitUntil polls cond every fake second until it holds or d elapsed.
func waitUntil(s *simrt.Sim, d time.Duration, cond func() bool) bool {
	deadline := s.Now() + d
	for {
		if cond() {
			return true
		}
		if s.Now() >= deadline {
			return false
		}
		simrt.Sleep(time.Second)
	}
}

func TestC19(t *testing.T) {
	kit.Main(t, kit.Spec{Property: "C19", Body: body,
		Config: func(string) simrt.Config { return simrt.Config{MaxSteps: 20_000_000, Horizon: 12 * time.Hour} },
		Real: []string{"lib/torrent/scheduler (agent + origin schedulers, conn, dispatch, connstate, announcer, announcequeue)",
			"lib/torrent/storage/agentstorage + originstorage", "lib/store CAStore / CADownloadStore", "tracker/trackerserver + peerstore.LocalStore + originstore + peerhandoutpolicy",
			"origin/blobserver (metainfo endpoints) + blobclient", "tracker/announceclient + metainfoclient", "lib/hashring, lib/metainfogen, lib/blobrefresh"},
		Stub: []string{"TCP (simnet) and HTTP (simhttp) transports", "write-back manager (no-op)", "health-check filter (identity)", "storage backend (none registered)"},
		Rule: "one run = one swarm: tape-drawn blob/piece sizes, scheduler limits, tracker settings, 1-2 origins, 2-7 agents with drawn join times, and (70% of runs) a fault schedule of departures, crashes, partitions, stalls, latency, slow tasks and a corrupting peer; non-trivial = >=1 contested scheduling decision or fired fault",
		Assumptions: []string{"seeder/leecher idle limits set far beyond the run (idle drops are C18)", "blacklist duration (12-30s) is kept above twice the announce interval (1-5s) and above one announce interval per agent: with a shorter blacklist an agent limited to one connection re-dials the same corrupting seeder, or rotates through the departed peers the tracker still lists, after every announce and never reaches the origin before the tracker forgets them; timer settings are not among the quantified configurations, see DESIGN.md", "liveness bound = 6 x (conn idle + preemption + blacklist + 2 announce intervals + piece timeout + handshake + dial timeout) x (agents+1), fake time"},
	})
}
