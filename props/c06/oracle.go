package c06

import (
	"bytes"
	"fmt"
	"io"

	"github.com/uber-go/tally"
	"github.com/uber/kraken/lib/store/disk"

	"kverif/kit"
	lru "kverif/props/lrumodel"
	simrt "kverif/sim"
)

// expect is what the property statement allows for one key after a crash: a
// list of admissible blob states (nil = absent). With more than one
// alternative (the key was touched by the call in flight) every component --
// presence/completeness, bytes, each metadata value, eviction ban -- may come
// from any alternative independently ("old or new, never garbage").
type expect struct {
	alts      []*lru.Blob
	persisted []bool // per alternative: was a size sidecar requested when it was created
	// donors: states that are not admissible as a whole any more (an incomplete
	// blob dropped at reopen) but whose component values remain admissible for
	// a blob touched by the call in flight (e.g. MarkComplete crashed after the
	// move: complete, with the old not-yet-removed metadata).
	donors []*lru.Blob
	torn   *op // a write to this key was in flight: any prefix of it may have been applied to alts[0]
}

type checker struct {
	s            *simrt.Sim
	p            params
	ops          []op
	snaps        []*lru.Model // snaps[i] = model state before ops[i]
	oplog        []string
	recreateN    []uint64
	recreateData [][]byte
}

func (c *checker) opName(k int) string {
	if k-1 < len(c.oplog) {
		l := c.oplog[k-1]
		// "node#n kind path": keep kind and the path below the store root
		for i := 0; i < len(l); i++ {
			if l[i] == ' ' {
				l = l[i+1:]
				break
			}
		}
		out := ""
		for _, part := range splitSpace(l) {
			if j := indexOf(part, "/ksim-"); j >= 0 {
				part = part[j+1:]
				if q := indexOf(part, "/"); q >= 0 {
					part = part[q:]
				}
			}
			out += part + " "
		}
		return out
	}
	return "?"
}

func splitSpace(s string) []string {
	var out []string
	cur := ""
	for i := 0; i < len(s); i++ {
		if s[i] == ' ' {
			if cur != "" {
				out = append(out, cur)
			}
			cur = ""
		} else {
			cur += string(s[i])
		}
	}
	if cur != "" {
		out = append(out, cur)
	}
	return out
}

func indexOf(s, sub string) int {
	for i := 0; i+len(sub) <= len(s); i++ {
		if s[i:i+len(sub)] == sub {
			return i
		}
	}
	return -1
}

func blobEqual(a, b *lru.Blob) bool {
	if a == nil || b == nil {
		return a == b
	}
	if a.Reserved != b.Reserved || a.Complete != b.Complete || a.Banned != b.Banned || !bytes.Equal(a.Data, b.Data) || len(a.MD) != len(b.MD) {
		return false
	}
	for k, v := range a.MD {
		if w, ok := b.MD[k]; !ok || !bytes.Equal(v, w) {
			return false
		}
	}
	return true
}

// expectAfterCrash: ops[0..j-1] returned before the crash, ops[j] was in flight.
func (c *checker) expectAfterCrash(j int) map[string]*expect {
	pre, post := c.snaps[j], c.snaps[j+1]
	out := map[string]*expect{}
	for _, k := range keys {
		pb, nb := pre.Blobs[k], post.Blobs[k]
		e := &expect{alts: []*lru.Blob{pb}, persisted: []bool{c.p.persist}}
		if !blobEqual(pb, nb) {
			e.alts = append(e.alts, nb)
			e.persisted = append(e.persisted, c.p.persist)
		}
		if o := c.ops[j]; o.kind == opWrite && o.key == k && pb != nil {
			e.torn = &c.ops[j]
		}
		out[k] = e
	}
	return out
}

// reopened applies the reopen rule of the statement: incomplete blobs are
// restored (RebootIncompleteBlobs) or dropped; a blob created while no size
// sidecar was requested cannot be restored with its size and may be dropped.
func reopened(e *expect, reboot bool) *expect {
	out := &expect{torn: e.torn, donors: e.donors}
	if len(e.alts) > 1 {
		for _, a := range e.alts {
			if a != nil {
				out.donors = append(out.donors, a)
			}
		}
	}
	add := func(b *lru.Blob, p bool) {
		for _, x := range out.alts {
			if x == b {
				return
			}
		}
		out.alts = append(out.alts, b)
		out.persisted = append(out.persisted, p)
	}
	for i, a := range e.alts {
		switch {
		case a == nil || a.Complete:
			add(a, e.persisted[i])
		case !reboot:
			add(nil, false)
		case !e.persisted[i]:
			add(nil, false)
			add(a, false)
		default:
			add(a, true)
		}
	}
	return out
}

func describe(b *lru.Blob) string {
	if b == nil {
		return "absent"
	}
	s := "incomplete"
	if b.Complete {
		s = "complete"
	}
	if b.Banned {
		s += "+banned"
	}
	return fmt.Sprintf("%s(%d bytes, reserved %d, %d metadata)", s, len(b.Data), b.Reserved, len(b.MD))
}

func describeAll(e *expect) string {
	s := ""
	for i, a := range e.alts {
		if i > 0 {
			s += " | "
		}
		s += describe(a)
	}
	return s
}

type observed struct {
	present, complete bool
	reserved          uint64
	banOK             map[bool]bool
}

// tornMatch: got == base with some prefix of the in-flight write applied.
func tornMatch(got, base []byte, o *op) bool {
	q := 0
	for q < len(o.data) && o.off+q < len(got) && got[o.off+q] == o.data[q] {
		q++
	}
	cands := []int{q}
	for x := 0; x <= q; x += 4096 {
		cands = append(cands, x)
	}
	for _, x := range cands {
		if bytes.Equal(got, lru.ApplyWrite(base, o.off, o.data[:x])) {
			return true
		}
	}
	return false
}

// checkKey compares what the reopened store reports for k with the admissible states.
func (c *checker) checkKey(st *disk.Store, k string, e *expect, at string) observed {
	s := c.s
	in, _ := st.Has(k)
	_, inC := st.ScopeComplete().Has(k)
	_, inI := st.ScopeIncomplete().Has(k)
	if in != (inC || inI) || (inC && inI) {
		s.Fail("scopes_inconsistent", "%s: Has(%s) = %v but complete-scope %v, incomplete-scope %v", at, k, in, inC, inI)
	}
	anyAbsent, anyComplete, anyIncomplete := false, false, false
	for _, a := range e.alts {
		switch {
		case a == nil:
			anyAbsent = true
		case a.Complete:
			anyComplete = true
		default:
			anyIncomplete = true
		}
	}
	exp := describeAll(e)
	switch {
	case !in && !anyAbsent && anyComplete && !anyIncomplete:
		s.Fail("completed_blob_lost", "%s: %s was completed before the crash and never deleted, but the reopened store does not have it (admissible: %s)", at, k, exp)
	case !in && !anyAbsent:
		s.Fail("incomplete_blob_not_restored", "%s: incomplete blob %s is not restored although RebootIncompleteBlobs is set (admissible: %s)", at, k, exp)
	case inC && !anyComplete && anyIncomplete:
		s.Fail("incomplete_reported_complete", "%s: %s is reported complete but its MarkComplete was never called (admissible: %s)", at, k, exp)
	case inC && !anyComplete:
		s.Fail("phantom_blob", "%s: %s is reported complete but must be absent (admissible: %s)", at, k, exp)
	case inI && !anyIncomplete && anyComplete:
		s.Fail("completed_blob_lost", "%s: %s was completed before the crash but is reported incomplete (admissible: %s)", at, k, exp)
	case inI && !anyIncomplete:
		s.Fail("incomplete_blob_not_dropped", "%s: incomplete blob %s is present although it must have been dropped/absent (admissible: %s)", at, k, exp)
	}
	ob := observed{present: in, complete: inC, banOK: map[bool]bool{}}
	if !in {
		return ob
	}
	// bytes
	f, err := st.Open(k)
	if err != nil {
		s.Fail("blob_unreadable", "%s: Open(%s) after reopen: %v", at, k, err)
	}
	got, rerr := io.ReadAll(f)
	f.Close()
	if rerr != nil {
		s.Fail("blob_unreadable", "%s: reading %s after reopen: %v", at, k, rerr)
	}
	okData := false
	values := append(append([]*lru.Blob(nil), e.alts...), e.donors...) // component donors
	for _, a := range values {
		if a != nil && bytes.Equal(a.Data, got) {
			okData = true
		}
	}
	if !okData && e.torn != nil {
		for _, a := range values {
			if a != nil && tornMatch(got, a.Data, e.torn) {
				okData = true
				s.Probe("torn_write_observed")
				break
			}
		}
	}
	if !okData {
		s.Fail("blob_bytes_wrong", "%s: %s reads back %d bytes (sha %s) which is none of the admissible contents (%s)", at, k, len(got), kit.SHA(got)[:12], exp)
	}
	if fi, err := st.Stat(k); err != nil || fi.Size() != int64(len(got)) {
		s.Fail("blob_unreadable", "%s: Stat(%s) after reopen: %v", at, k, err)
	}
	// metadata: last value set (old or new for the call in flight)
	for _, suf := range suffixes {
		g := newMD(suf, nil)
		ok, err := st.GetMetadata(k, g)
		if err != nil {
			s.Fail("metadata_unreadable", "%s: GetMetadata(%s,%s) after reopen: %v", at, k, suf, err)
		}
		good := false
		for _, a := range values {
			if a == nil {
				if !ok && len(e.alts) > 1 {
					good = true // sidecar already removed by the delete/eviction in flight
				}
				continue
			}
			v, has := a.MD[suf]
			if has == ok && (!ok || bytes.Equal(v, g.val)) {
				good = true
			}
		}
		if !good {
			s.Fail("metadata_wrong", "%s: metadata %s of %s after reopen is (present=%v, %d bytes, sha %s); admissible blob states: %s", at, suf, k, ok, len(g.val), kit.SHA(g.val)[:12], c.mdAlts(e, suf))
		}
	}
	// reserved size and admissible ban states of the alternative(s) with the observed completeness
	found := false
	for _, a := range values {
		if a == nil {
			if len(e.alts) > 1 {
				ob.banOK[false] = true // flag file already removed by the delete/eviction in flight
			}
			continue
		}
		ob.banOK[a.Banned] = true
		if a.Complete == inC && !found {
			found = true
			ob.reserved = a.Reserved
		}
	}
	if !found {
		for _, a := range e.alts {
			if a != nil {
				ob.reserved = a.Reserved
			}
		}
	}
	return ob
}

func (c *checker) mdAlts(e *expect, suf string) string {
	s := ""
	for _, a := range append(append([]*lru.Blob(nil), e.alts...), e.donors...) {
		if a == nil {
			s += "[blob absent] "
			continue
		}
		if v, ok := a.MD[suf]; ok {
			s += fmt.Sprintf("[%d bytes sha %s] ", len(v), kit.SHA(v)[:12])
		} else {
			s += "[not set] "
		}
	}
	return s
}

// reopenAndCheck is the recovery oracle: reopen succeeds; every key is in an
// admissible state; reserved space is the sum of the restored sizes; eviction
// bans survive; afterwards every key can be created, written and completed.
func (c *checker) reopenAndCheck(dir string, reboot bool, exp0 map[string]*expect, at string, recreate bool) {
	s := c.s
	st, err := disk.NewStore(c.p.config(dir, reboot), tally.NoopScope)
	if err != nil {
		s.Fail("reopen_failed", "%s: NewStore(RebootIncompleteBlobs=%v) on the crashed directory fails: %v", at, reboot, err)
	}
	exp := map[string]*expect{}
	obs := map[string]observed{}
	var used uint64
	var present []string
	for _, k := range keys {
		exp[k] = reopened(exp0[k], reboot)
		obs[k] = c.checkKey(st, k, exp[k], at)
		if obs[k].present {
			present = append(present, k)
			used += obs[k].reserved
		}
	}
	if l := st.List(); !same(l, present) {
		s.Fail("listing_inconsistent", "%s: List() = %v but Has() reports %v", at, sorted(l), present)
	}
	var comp []string
	for _, k := range present {
		if obs[k].complete {
			comp = append(comp, k)
		}
	}
	if l := st.ScopeComplete().List(); !same(l, comp) {
		s.Fail("listing_inconsistent", "%s: complete-scope List() = %v but Has() reports %v", at, sorted(l), comp)
	}
	if l := st.ScopeIncomplete().List(); !same(l, minus(present, comp)) {
		s.Fail("listing_inconsistent", "%s: incomplete-scope List() = %v but Has() reports %v", at, sorted(l), minus(present, comp))
	}
	s.State(uint64(len(present))<<8 | uint64(len(comp))<<4 | uint64(used&15))

	// accounting: reserved = sum of restored sizes (exactly the free space is admissible, one more byte is not)
	if used > c.p.capacity {
		s.Fail("reserved_size_wrong", "%s: restored blobs %v reserve %d > capacity %d", at, present, used, c.p.capacity)
	}
	free := c.p.capacity - used
	f, err := st.Create(probeKey, free)
	if err != nil {
		s.Fail("reserved_size_wrong", "%s: restored blobs %v should reserve %d of %d, but a blob of the remaining %d bytes is refused: %v", at, present, used, c.p.capacity, free, err)
	}
	f.Close()
	if l := minus(st.List(), []string{probeKey}); !same(l, present) {
		s.Fail("reserved_size_wrong", "%s: restored blobs %v should reserve %d of %d, but admitting the remaining %d bytes evicted %v", at, present, used, c.p.capacity, free, minus(present, l))
	}
	if err := st.Delete(probeKey); err != nil {
		s.Fail("recreate_failed", "%s: Delete(probe): %v", at, err)
	}
	f, err = st.Create(probeKey, free+1)
	evictedByProbe := minus(present, st.List()) // a refused admission may have evicted on the way
	if err == nil {
		f.Close()
		if len(evictedByProbe) == 0 {
			s.Fail("reserved_size_wrong", "%s: restored blobs %v should reserve %d of %d, yet %d more bytes are admitted without evicting anything", at, present, used, c.p.capacity, free+1)
		}
		if err := st.Delete(probeKey); err != nil {
			s.Fail("recreate_failed", "%s: Delete(probe): %v", at, err)
		}
	}
	for _, k := range evictedByProbe {
		if !obs[k].complete {
			s.Fail("incomplete_blob_evicted", "%s: incomplete blob %s was evicted by an admission after reopen", at, k)
		}
		if !obs[k].banOK[false] {
			s.Fail("eviction_ban_lost", "%s: %s was banned from eviction before the crash but is evicted after reopen", at, k)
		}
	}
	// eviction bans: Clean(0, respectBan) removes exactly the blobs that are not banned
	if _, err := st.Clean(0, true); err != nil {
		s.Fail("clean_failed_after_reopen", "%s: Clean(0,true): %v", at, err)
	}
	left := st.List()
	for _, k := range minus(present, evictedByProbe) {
		banned := len(minus([]string{k}, left)) == 0
		if !obs[k].banOK[banned] {
			if banned {
				s.Fail("eviction_ban_phantom", "%s: %s is banned from eviction after reopen but was not before the crash (%s)", at, k, describeAll(exp[k]))
			}
			s.Fail("eviction_ban_lost", "%s: %s was banned from eviction before the crash but is not after reopen (%s)", at, k, describeAll(exp[k]))
		}
	}
	if extra := minus(left, present); len(extra) > 0 {
		s.Fail("phantom_blob", "%s: after Clean the store lists %v", at, extra)
	}
	s.Probe("recovery_oracle_passed")
	if !recreate {
		return
	}
	// every key can be created, written and completed again (after Delete if present)
	for _, k := range left {
		if err := st.Delete(k); err != nil {
			s.Fail("recreate_delete_failed", "%s: Delete(%s) after reopen: %v", at, k, err)
		}
	}
	for i, k := range keys {
		if in, _ := st.Has(k); in {
			s.Fail("recreate_failed", "%s: %s still present after Delete/Clean", at, k)
		}
		if oracle, msg := recreateKey(st, k, c.recreateN[i], c.recreateData[i], nil); msg != "" {
			s.Fail(oracle, "%s: after reopen %s", at, msg)
		}
	}
	if l := st.ScopeComplete().List(); !same(l, keys) {
		s.Fail("recreate_failed", "%s: after re-creating every key the complete listing is %v", at, sorted(l))
	}
}

// recreateKey: Create -> write -> MarkComplete -> read back. stage (optional)
// is advanced after every call that returned.
func recreateKey(st *disk.Store, k string, n uint64, data []byte, stage *int) (oracle, msg string) {
	adv := func() {
		if stage != nil {
			*stage++
		}
	}
	f, err := st.Create(k, n)
	if err != nil {
		return "recreate_create_failed", fmt.Sprintf("Create(%s,%d) fails: %v", k, n, err)
	}
	adv()
	if nw, err := f.Write(data); err != nil || nw != len(data) {
		return "recreate_write_failed", fmt.Sprintf("write to re-created %s fails: n=%d %v", k, nw, err)
	}
	f.Close()
	adv()
	if err := st.MarkComplete(k); err != nil {
		return "recreate_complete_failed", fmt.Sprintf("MarkComplete(%s) of the re-created blob fails: %v", k, err)
	}
	adv()
	g, err := st.ScopeComplete().Open(k)
	if err != nil {
		return "recreate_readback_failed", fmt.Sprintf("Open(%s) of the re-created blob fails: %v", k, err)
	}
	got, rerr := io.ReadAll(g)
	g.Close()
	if rerr != nil || !bytes.Equal(got, data) {
		return "recreate_readback_failed", fmt.Sprintf("re-created %s reads back %d bytes (err %v), wrote %d", k, len(got), rerr, len(data))
	}
	return "", ""
}

// secondCrash (thorough): the reopen and the re-creation of every key run in a
// node that crashes again, at every one of its mutating disk operations; the
// recovery oracle is then applied to the twice-crashed directory.
func (c *checker) secondCrash(dir0 string, k1 int, reboot bool, exp1 map[string]*expect, at string) {
	s := c.s
	dir := dir0
	for k2 := 1; ; k2++ {
		if k2 > 1 {
			// a fresh copy of the once-crashed directory: re-execute the first crash
			dir = kit.TempDir(s)
			var r record
			kit.RunNode(s, fmt.Sprintf("crash%d again", k1), k1, func() { execScript(dir, c.p, c.ops, &r) })
		}
		stages := make([]int, len(keys)) // 0 untouched 1 deleted-or-absent 2 created 3 written 4 completed
		cur := -1
		oracle, msg := "", ""
		opened := false
		crashed, _ := kit.RunNode(s, fmt.Sprintf("second%d", k2), k2, func() {
			st, err := disk.NewStore(c.p.config(dir, reboot), tally.NoopScope)
			if err != nil {
				msg = fmt.Sprintf("NewStore(RebootIncompleteBlobs=%v) on the crashed directory fails: %v", reboot, err)
				return
			}
			opened = true
			for i, k := range keys { // first make room: restored incomplete/banned blobs may fill the store
				cur = i
				if in, _ := st.Has(k); in {
					if err := st.Delete(k); err != nil {
						oracle, msg = "recreate_delete_failed", fmt.Sprintf("Delete(%s) fails: %v", k, err)
						return
					}
				}
				stages[i] = 1
			}
			for i, k := range keys {
				cur = i
				if oracle, msg = recreateKey(st, k, c.recreateN[i], c.recreateData[i], &stages[i]); msg != "" {
					return
				}
			}
			cur = len(keys)
		})
		if msg != "" {
			if !opened {
				oracle = "reopen_failed"
			}
			s.Fail(oracle, "%s: %s", at, msg)
		}
		if !crashed {
			s.Probe("second_crash_enumeration_done")
			return
		}
		kit.Extra["crash_points_executed"]++
		kit.Extra["second_crash_points_executed"]++
		exp2 := map[string]*expect{}
		for i, k := range keys {
			base := reopened(exp1[k], reboot)
			after := func(stage int) *expect {
				b := &lru.Blob{Reserved: c.recreateN[i], MD: map[string][]byte{}}
				switch stage {
				case 0:
					return base
				case 1:
					return &expect{alts: []*lru.Blob{nil}, persisted: []bool{false}}
				case 3:
					b.Data = c.recreateData[i]
				case 4:
					b.Data, b.Complete = c.recreateData[i], true
				}
				return &expect{alts: []*lru.Blob{b}, persisted: []bool{reboot}}
			}
			e := after(stages[i])
			if i == cur && stages[i] < 4 {
				n := after(stages[i] + 1)
				e = &expect{alts: append(append([]*lru.Blob(nil), e.alts...), n.alts...), persisted: append(append([]bool(nil), e.persisted...), n.persisted...), torn: e.torn, donors: e.donors}
			}
			exp2[k] = e
		}
		at2 := fmt.Sprintf("%s, reopened, then second crash at disk op %d of reopen+re-create (key index %d, stages %v)", at, k2, cur, stages)
		s.Logf("%s", at2)
		c.reopenAndCheck(dir, reboot, exp2, at2, true)
	}
}
