// C06: the disk blob store restores its state after a crash at any point.
//
// Level: fault_enumeration. One run = one operation script drawn from the tape
// (Create, writes, MarkComplete, Delete, Ban/UnbanEviction, Set/DeleteMetadata,
// Open, Creates that force eviction, clean restarts). The script is executed
// once in a node that never crashes to count its M mutating disk operations
// and to record the model state after every call; then, for EVERY k in 1..M,
// it is executed again on a fresh directory in a node that dies when its k-th
// mutating disk operation is about to happen, the store is reopened with
// disk.NewStore on that directory and the recovery oracle of the property
// statement is applied (see oracle.go).
package c06

import (
	"errors"
	"fmt"
	"os"
	"regexp"
	"sort"
	"strings"
	"testing"
	"time"

	"github.com/uber-go/tally"
	storelib "github.com/uber/kraken/lib/store"
	"github.com/uber/kraken/lib/store/disk"
	"github.com/uber/kraken/lib/store/metadata"

	"kverif/kit"
	lru "kverif/props/lrumodel"
	simrt "kverif/sim"
)

// ---- harness-defined metadata (public metadata.Metadata interface) ----
//
// The suffix of the movable type sorts after the blob file name "data": the
// simulated RemoveAll removes directory entries in name order (the real one in
// directory order, which is arbitrary), so this is the way to also see
// half-removed blob directories whose blob file went first.

const (
	sufMov = "kmovable_md" // movable
	sufImm = "_kimmovable" // not movable: dropped on completion
)

var suffixes = []string{sufMov, sufImm}

type md struct {
	suffix  string
	movable bool
	val     []byte
}

func (m *md) GetSuffix() string          { return m.suffix }
func (m *md) Movable() bool              { return m.movable }
func (m *md) Serialize() ([]byte, error) { return m.val, nil }
func (m *md) Deserialize(b []byte) error { m.val = append([]byte(nil), b...); return nil }

type mdFactory struct {
	suffix  string
	movable bool
}

func (f mdFactory) Create(string) metadata.Metadata { return &md{suffix: f.suffix, movable: f.movable} }

func init() {
	metadata.Register(regexp.MustCompile(sufMov), mdFactory{sufMov, true})
	metadata.Register(regexp.MustCompile(sufImm), mdFactory{sufImm, false})
}

func newMD(suffix string, v []byte) *md {
	return &md{suffix: suffix, movable: suffix == sufMov, val: v}
}

// ---- script ----

var keys = []string{"a1b2c3d4", "a1b2ffee", "a1c0de00", "0badf00d"}

const probeKey = "5ca1ab1e"

type opKind int

const (
	opCreate opKind = iota
	opWrite
	opComplete
	opDelete
	opBan
	opUnban
	opSetMD
	opDelMD
	opUse
	opRestart
)

var kindNames = [...]string{"Create", "Write", "MarkComplete", "Delete", "BanEviction", "UnbanEviction", "SetMetadata", "DeleteMetadata", "Open", "Restart"}

type op struct {
	kind opKind
	key  string
	n    uint64
	off  int
	data []byte
	suf  string
}

func (o op) String() string {
	switch o.kind {
	case opCreate:
		return fmt.Sprintf("Create(%s,%d)", o.key, o.n)
	case opWrite:
		return fmt.Sprintf("Write(%s,off=%d,len=%d)", o.key, o.off, len(o.data))
	case opSetMD:
		return fmt.Sprintf("SetMetadata(%s,%s,len=%d)", o.key, o.suf, len(o.data))
	case opDelMD:
		return fmt.Sprintf("DeleteMetadata(%s,%s)", o.key, o.suf)
	case opRestart:
		return "Restart()"
	}
	return fmt.Sprintf("%s(%s)", kindNames[o.kind], o.key)
}

type params struct {
	capacity uint64
	shard    int
	persist  bool // RebootIncompleteBlobs while the script runs (size sidecars are written)
	big      bool // multi-page payloads (torn writes possible)
}

func (p params) config(dir string, reboot bool) *disk.Config {
	return &disk.Config{RootDir: dir, CapacityBytes: p.capacity, ShardLength: p.shard, RebootIncompleteBlobs: reboot}
}

// genScript draws a script. A light generator state (absent / incomplete with
// bytes written / complete; evictions unknown) keeps most operations valid.
func genScript(s *simrt.Sim, tier string) (params, []op) {
	tp := s.Tape
	p := params{shard: tp.Draw(3), persist: !tp.Chance(400)}
	unit := 1
	if tier == "thorough" && tp.Chance(300) {
		p.big = true
		unit = 1024
	}
	maxN := 4 + tp.Draw(13)                              // blob sizes 1..maxN units
	p.capacity = uint64(unit * (maxN + tp.Draw(maxN+1))) // one .. two largest blobs: evictions are common
	nOps := 3 + tp.Draw(16)
	if tier == "thorough" {
		nOps += tp.Draw(12)
	}
	type gen struct {
		state   int // 0 absent 1 incomplete 2 complete
		n       int
		written int
		banned  bool
	}
	g := map[string]*gen{}
	for _, k := range keys {
		g[k] = &gen{}
	}
	var ops []op
	last := ""
	for len(ops) < nOps {
		k := keys[tp.Draw(len(keys))]
		if last != "" && tp.Chance(450) {
			k = last // stay with a key: blobs get written, completed (and so evictable) within short scripts
		}
		last = k
		st := g[k]
		var choices []opKind
		switch st.state {
		case 0:
			choices = []opKind{opCreate, opCreate, opCreate, opCreate, opCreate, opCreate, opRestart, opComplete}
		case 1:
			// (no second Create here: if the first one was refused for lack of space, a second one with another
			// size would make the payload length differ from the reserved size, which the oracle assumes equal)
			choices = []opKind{opWrite, opWrite, opWrite, opWrite, opComplete, opComplete, opComplete, opSetMD, opSetMD, opBan, opUnban, opDelete, opDelMD, opRestart}
			if st.written >= st.n {
				choices = append(choices, opComplete, opComplete, opComplete)
			}
		case 2:
			choices = []opKind{opDelete, opDelete, opBan, opBan, opUnban, opSetMD, opSetMD, opDelMD, opUse, opUse, opComplete, opRestart}
		}
		if st.banned && st.state != 0 {
			choices = append(choices, opUnban, opUnban, opUnban)
		}
		kind := choices[tp.Draw(len(choices))]
		// never skip a draw without emitting an operation (an all-zero tape must terminate)
		if kind == opWrite && st.written >= st.n {
			kind = opComplete
		} else if kind == opComplete && st.state == 1 && st.written < st.n {
			kind = opWrite // clients complete a blob after writing all of it
		}
		o := op{kind: kind, key: k}
		switch kind {
		case opCreate:
			sz := tp.Draw(maxN)
			if s2 := tp.Draw(maxN); s2 > sz && tp.Chance(700) {
				sz = s2 // biased to large blobs: admissions have to evict
			}
			o.n = uint64(unit * (1 + sz))
			if st.state == 0 {
				st.state, st.n, st.written, st.banned = 1, int(o.n), 0, false
			}
		case opWrite:
			// the rest of the blob, or a part of it
			rest := st.n - st.written
			l := rest
			if tp.Chance(300) {
				l = 1 + tp.Draw(rest)
			}
			o.off, o.data = st.written, kit.Bytes(s, l)
			st.written += l
		case opComplete:
			if st.state == 1 {
				st.state = 2
			}
		case opBan:
			st.banned = true
		case opUnban:
			st.banned = false
		case opDelete:
			st.state, st.banned = 0, false
		case opSetMD:
			o.suf = suffixes[tp.Draw(2)]
			l := 1 + tp.Draw(24)
			if p.big && tp.Chance(300) {
				l = 4097 + tp.Draw(8192)
			}
			o.data = kit.Bytes(s, l)
		case opDelMD:
			o.suf = suffixes[tp.Draw(2)]
		case opRestart:
			o.key = ""
			if !p.persist {
				for _, x := range g {
					if x.state == 1 {
						x.state = 0
					}
				}
			}
		}
		ops = append(ops, o)
	}
	return p, ops
}

// skipped marks a scripted call that the executor did not issue.
const skipped = lru.Class(99)

func className(c lru.Class) string {
	if c == skipped {
		return "skipped"
	}
	return c.String()
}

func classify(err error) lru.Class {
	switch {
	case err == nil:
		return lru.OK
	case errors.Is(err, storelib.ErrOutOfScope):
		return lru.OutOfScope
	case errors.Is(err, os.ErrExist):
		return lru.Exists
	case errors.Is(err, os.ErrNotExist):
		return lru.NotExist
	}
	return lru.Other
}

func sorted(in []string) []string {
	out := append([]string(nil), in...)
	sort.Strings(out)
	return out
}

func same(a, b []string) bool { return strings.Join(sorted(a), ",") == strings.Join(sorted(b), ",") }

func minus(a, b []string) []string {
	var out []string
	for _, x := range a {
		found := false
		for _, y := range b {
			if x == y {
				found = true
			}
		}
		if !found {
			out = append(out, x)
		}
	}
	return out
}

// record is what the task inside the (possibly crashing) node leaves behind:
// every API call that RETURNED is acknowledged here, with its result class and
// the listing right after it.
type record struct {
	opened bool
	acked  int
	res    []lru.Class
	errs   []string
	lists  [][]string
}

// execScript runs the script against a store on dir; it is the body of a node task.
func execScript(dir string, p params, ops []op, r *record) {
	st, err := disk.NewStore(p.config(dir, p.persist), tally.NoopScope)
	if err != nil {
		r.errs = append(r.errs, "NewStore: "+err.Error())
		return
	}
	r.opened = true
	reserved := map[string]uint64{}
	for _, o := range ops {
		var err error
		skip := false
		switch o.kind {
		case opCreate:
			var f *disk.File
			if f, err = st.Create(o.key, o.n); err == nil {
				f.Close()
				reserved[o.key] = o.n
			}
		case opWrite:
			var f *disk.File
			if f, err = st.ScopeIncomplete().Open(o.key); err == nil {
				var n int
				n, err = f.WriteAt(o.data, int64(o.off))
				if err == nil && n != len(o.data) {
					err = fmt.Errorf("short write %d of %d", n, len(o.data))
				}
				f.Close()
			}
		case opComplete:
			// the oracle assumes that clients complete a blob only after writing exactly its reserved
			// size (the generator cannot know about refused Creates and evictions): otherwise skip
			if fi, e := st.ScopeIncomplete().Stat(o.key); e == nil && uint64(fi.Size()) != reserved[o.key] {
				skip = true
			} else {
				err = st.MarkComplete(o.key)
			}
		case opDelete:
			err = st.Delete(o.key)
		case opBan:
			err = st.BanEviction(o.key)
		case opUnban:
			err = st.UnbanEviction(o.key)
		case opSetMD:
			err = st.SetMetadata(o.key, newMD(o.suf, o.data))
		case opDelMD:
			err = st.DeleteMetadata(o.key, o.suf)
		case opUse:
			var f *disk.File
			if f, err = st.Open(o.key); err == nil {
				f.Close()
			}
		case opRestart:
			var nst *disk.Store
			if nst, err = disk.NewStore(p.config(dir, p.persist), tally.NoopScope); err == nil {
				st = nst
			}
		}
		if skip {
			r.res = append(r.res, skipped)
		} else {
			r.res = append(r.res, classify(err))
		}
		if err != nil {
			r.errs = append(r.errs, fmt.Sprintf("%s: %v", o, err))
		}
		r.lists = append(r.lists, sorted(st.List()))
		r.acked++
	}
}

// applyModel replays one acknowledged call of the crash-free execution on the
// reference model (victims of an admission are taken from the observed listing;
// eviction ORDER is the business of C07, not of this check).
func applyModel(m *lru.Model, p params, o op, got lru.Class, list []string) *lru.Violation {
	if got == skipped {
		return nil
	}
	vanished := minus(m.Keys(), list)
	mismatch := func(want lru.Class) *lru.Violation {
		if want != got {
			return &lru.Violation{Oracle: "script_result_mismatch", Msg: fmt.Sprintf("%s returned %s without any crash, reference model expects %s", o, got, want)}
		}
		return nil
	}
	var v *lru.Violation
	switch o.kind {
	case opCreate:
		if _, ok := m.Blobs[o.key]; ok {
			v = mismatch(lru.Exists)
		} else if got != lru.OK && got != lru.Other {
			v = mismatch(lru.OK)
		} else {
			return m.Admit(o.key, o.n, got == lru.OK, vanished, false)
		}
	case opWrite:
		c, _ := m.Open(o.key, lru.OnlyIncomplete)
		if v = mismatch(c); v == nil && c == lru.OK {
			m.WriteAt(o.key, o.off, o.data)
		}
	case opComplete:
		v = mismatch(m.MarkComplete(o.key))
	case opDelete:
		v = mismatch(m.Delete(o.key, lru.Any))
		vanished = minus(vanished, []string{o.key})
	case opBan:
		v = mismatch(m.Ban(o.key, lru.Any))
	case opUnban:
		v = mismatch(m.Unban(o.key, lru.Any))
	case opSetMD:
		v = mismatch(m.SetMD(o.key, o.suf, o.data, lru.Any))
	case opDelMD:
		v = mismatch(m.DelMD(o.key, o.suf, lru.Any))
	case opUse:
		c, _ := m.Open(o.key, lru.Any)
		v = mismatch(c)
	case opRestart:
		v = mismatch(lru.OK)
		if !p.persist {
			for _, k := range m.List(lru.OnlyIncomplete) {
				m.Remove(k)
			}
		}
		vanished = minus(m.Keys(), list)
	}
	if v != nil {
		return v
	}
	if len(vanished) > 0 || !same(m.Keys(), list) {
		return &lru.Violation{Oracle: "script_listing_mismatch", Msg: fmt.Sprintf("after %s without any crash the store lists %v, reference model %v", o, list, m.Keys())}
	}
	return nil
}

func body(s *simrt.Sim, tier string) {
	tp := s.Tape
	p, ops := genScript(s, tier)
	// what is done after the crash (drawn before anything runs)
	reopenReboot := []bool{p.persist}
	if tier == "thorough" {
		reopenReboot = []bool{p.persist, !p.persist}
	}
	torn := tier == "thorough" && p.big && tp.Chance(600)
	secondCrash := tier == "thorough" && tp.Chance(500)
	recreateN := make([]uint64, len(keys))
	recreateData := make([][]byte, len(keys))
	for i := range keys {
		lim := int(p.capacity) / len(keys)
		if lim > 16 {
			lim = 16
		}
		recreateN[i] = uint64(1 + tp.Draw(lim))
		recreateData[i] = kit.Bytes(s, int(recreateN[i]))
	}
	s.Disk().OpLogOn = true

	// 1. crash-free execution: count mutating disk ops, record model states
	var r0 record
	crashed, M := kit.RunNode(s, "count", 0, func() { execScript(kit.TempDir(s), p, ops, &r0) })
	if crashed || !r0.opened || r0.acked != len(ops) {
		s.Fail("script_did_not_finish", "crash-free execution: crashed=%v opened=%v acked=%d of %d errs=%v", crashed, r0.opened, r0.acked, len(ops), r0.errs)
	}
	oplog := append([]string(nil), s.Disk().OpLog...)
	m := lru.New(p.capacity, map[string]bool{sufImm: true})
	snaps := []*lru.Model{m.Clone()}
	for i, o := range ops {
		s.Logf("op %d %s -> %s list=%v", i, o, className(r0.res[i]), r0.lists[i])
		if o.kind == opCreate && len(minus(m.Keys(), r0.lists[i])) > 0 {
			s.Probe("script_eviction")
		}
		if v := applyModel(m, p, o, r0.res[i], r0.lists[i]); v != nil {
			s.Fail(v.Oracle, "%s", v.Msg)
		}
		snaps = append(snaps, m.Clone())
	}
	sample := map[string]any{"ops": len(ops), "disk_ops": M, "capacity": p.capacity, "shard_length": p.shard, "reboot_incomplete": p.persist,
		"big_payloads": p.big, "torn_writes": torn, "second_crash": secondCrash, "script": fmt.Sprint(ops)}
	kit.SetSample(sample)
	if M == 0 {
		s.Probe("empty_script")
		return
	}
	s.Disk().TornOK = torn

	// 2. every crash point
	c := &checker{s: s, p: p, ops: ops, snaps: snaps, oplog: oplog, recreateN: recreateN, recreateData: recreateData}
	// every crash point, starting at a tape-drawn one (0 = the first): a run stops at its first
	// violation, so the rotation lets different runs report different defects of one script
	start := tp.Draw(M)
	for i := 0; i < M; i++ {
		k := (start+i)%M + 1
		for _, reboot := range reopenReboot {
			dir := kit.TempDir(s)
			var r record
			crashed, _ := kit.RunNode(s, fmt.Sprintf("crash%d", k), k, func() { execScript(dir, p, ops, &r) })
			if !crashed {
				s.Fail("crash_point_missed", "crash point %d of %d did not fire (acked %d ops)", k, M, r.acked)
			}
			for i := 0; i < r.acked; i++ {
				if r.res[i] != r0.res[i] || !same(r.lists[i], r0.lists[i]) {
					s.Fail("script_not_deterministic", "op %d %s: %s %v in the crashing execution, %s %v in the crash-free one", i, ops[i], className(r.res[i]), r.lists[i], className(r0.res[i]), r0.lists[i])
				}
			}
			kit.Extra["crash_points_executed"]++
			if r.acked >= len(ops) {
				s.Fail("crash_point_missed", "crash point %d fired after the last call returned", k)
			}
			s.Probe("crash_in_" + kindNames[ops[r.acked].kind])
			if ops[r.acked].kind == opCreate && k-1 < len(oplog) && strings.Contains(oplog[k-1], " remove ") {
				s.Probe("crash_in_eviction")
			}
			at := fmt.Sprintf("crash at disk op %d/%d (%s) inside op %d %s", k, M, c.opName(k), r.acked, ops[r.acked])
			s.Logf("%s; reopen with RebootIncompleteBlobs=%v", at, reboot)
			exp := c.expectAfterCrash(r.acked)
			if secondCrash && (k%3 == int(p.capacity)%3) {
				c.secondCrash(dir, k, reboot, exp, at)
			} else {
				c.reopenAndCheck(dir, reboot, exp, at, true)
			}
		}
	}
}

func TestC06(t *testing.T) {
	kit.Main(t, kit.Spec{
		Property: "C06",
		Body:     body,
		Config: func(tier string) simrt.Config {
			return simrt.Config{MaxSteps: 4000000, Horizon: time.Hour, PanicIsFailure: true}
		},
		Real: []string{"lib/store/disk (store, crash_recovery, pather, scoped views)", "lib/store/metadata registry"},
		Stub: []string{"metadata.Metadata implementations (harness-defined movable / non-movable types)", "tally.NoopScope", "file system = tmpfs through shim/os, process-crash model (completed system calls persist)"},
		Rule: "one run = one script of 3..18 (thorough ..30) store calls over 4 keys with tape-drawn capacity (evictions), shard length 0/1/2, RebootIncompleteBlobs, payloads; EVERY prefix of its mutating file-system operations is a crash point (extra.crash_points_executed), each followed by reopen + recovery oracle + re-create of every key; thorough adds the other RebootIncompleteBlobs setting at reopen, multi-page payloads with torn writes, and a second crash at every point of the reopen/re-create; non-trivial = a crash fired",
		Assumptions: []string{
			"process-crash model: every completed system call is durable, the crashing one is not performed (thorough: a multi-page write may leave a page-aligned prefix); no power-loss reordering",
			"the simulated RemoveAll removes directory entries in name order; orders in which the blob file goes before a sidecar are reached only through the harness metadata suffix that sorts after 'data'",
			"for the single call in flight at the crash every component of the touched blobs (presence, completeness, bytes, each metadata value, ban) may be in its old or its new state independently; a blob that was being deleted/evicted may be present with some of its sidecars already gone",
			"clients complete a blob only after writing all reserved bytes, so the reserved size of a complete blob equals its length",
		},
	})
}
