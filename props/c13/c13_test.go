// C13: memory caches stay within budget and their accounting balances.
//
// Three scenarios (one per run):
//   - blob_cache: the real cache.BlobMemoryCache driven through its public
//     reserve/add/release/remove/expire protocol by 3-6 concurrent tasks;
//   - write_through: the real store.CAStore write-through path (reservation by
//     declared size, buffering, Add, drain and TTL workers) with writes that
//     succeed, fail, are short, long or duplicate;
//   - lru: the real cache.LRUCache (reads time.Now directly; the fake clock
//     drives it) against a reference model.
package c13

import (
	"errors"
	"fmt"
	"sort"
	"testing"
	"time"

	"github.com/uber-go/tally"
	"github.com/uber/kraken/lib/store"
	"github.com/uber/kraken/utils/cache"

	"kverif/kit"
	ssync "kverif/shim/sync"
	simrt "kverif/sim"
)

const ms = time.Millisecond

// ---------------------------------------------------------------------------
// Scenario 1: BlobMemoryCache protocol.
//
// Caller contract (from the type's documentation): Add only after a successful
// TryReserve of exactly the entry's size; a reservation that is not turned
// into an entry (write failed, Add refused a duplicate) is released with the
// same size. The harness follows the contract strictly, so every deviation of
// the accounting is the cache's.

type bmcWorld struct {
	s   *simrt.Sim
	mc  *cache.BlobMemoryCache
	max uint64
	// harness-side ledger, updated when the corresponding call RETURNS
	outstanding uint64            // reservations granted and not yet added/released
	present     map[string]uint64 // entries the harness knows to be stored (name -> size)
	inflight    int               // calls in progress (ledger may lag the cache)
	epoch       int               // bumped whenever a call returns
}

func (w *bmcWorld) check(where string) {
	tb := w.mc.TotalBytes()
	if tb > w.max {
		w.s.Fail("over_budget", "%s: TotalBytes=%d exceeds MaxSize=%d", where, tb, w.max)
	}
}

// quiescent is evaluated when no call is in flight.
func (w *bmcWorld) quiescent(where string) {
	tb := w.mc.TotalBytes()
	names := w.mc.ListNames()
	sort.Strings(names)
	var sum uint64
	for _, n := range names {
		e := w.mc.Get(n)
		if e == nil {
			w.s.Fail("entry_vanished", "%s: %s listed but Get returns nil with no call in flight", where, n)
		}
		sum += e.Size()
		if sz, ok := w.present[n]; !ok || sz != e.Size() {
			w.s.Fail("unexpected_entry", "%s: cache holds %s (%d bytes) which the ledger does not (%v)", where, n, e.Size(), w.present)
		}
	}
	if len(names) != len(w.present) || w.mc.NumEntries() != len(w.present) {
		w.s.Fail("entry_vanished", "%s: cache holds %d entries (NumEntries=%d), ledger %d", where, len(names), w.mc.NumEntries(), len(w.present))
	}
	if tb > w.max {
		w.s.Fail("over_budget", "%s: TotalBytes=%d exceeds MaxSize=%d", where, tb, w.max)
	}
	if tb != sum+w.outstanding {
		w.s.Fail("accounting_imbalance", "%s: TotalBytes=%d but entries hold %d bytes and %d bytes are reserved (entries=%d)", where, tb, sum, w.outstanding, len(names))
	}
	w.s.State(uint64(len(names))<<32 | tb)
}

func blobCache(s *simrt.Sim, tier string) {
	tp := s.Tape
	max := uint64(64 + tp.Draw(8)*128)
	w := &bmcWorld{s: s, max: max, present: map[string]uint64{}}
	w.mc = cache.NewBlobMemoryCache(cache.BlobMemoryCacheConfig{MaxSize: max}, tally.NoopScope)
	nTasks := 3 + tp.Draw(4)
	nRounds := 1 + tp.Draw(3)
	nOps := 2 + tp.Draw(5)
	if tier == "thorough" {
		nOps += tp.Draw(8)
	}
	nNames := 2 + tp.Draw(5)
	ttl := time.Duration(1+tp.Draw(5)) * time.Second
	created := map[string]time.Time{}
	ops := 0
	for round := 0; round < nRounds; round++ {
		var wg ssync.WaitGroup
		for ti := 0; ti < nTasks; ti++ {
			wg.Add(1)
			simrt.Go(func() {
				defer wg.Done()
				for k := 0; k < nOps; k++ {
					if tp.Chance(300) {
						simrt.Sleep(time.Duration(1+tp.Draw(3000)) * ms)
					} else {
						simrt.Yield()
					}
					ops++
					name := fmt.Sprintf("b%d", tp.Draw(nNames))
					switch tp.Draw(5) {
					case 0, 1: // reserve, then add or release
						size := uint64(tp.Draw(int(max) + 40))
						if tp.Chance(100) {
							size = max - uint64(tp.Draw(3))
						}
						// idle: nothing stored, nothing reserved, no call in progress
						idle := w.inflight == 0 && len(w.present) == 0 && w.outstanding == 0
						e0 := w.epoch
						w.inflight++
						ok := w.mc.TryReserve(size)
						if ok {
							w.outstanding += size
						}
						w.inflight--
						w.epoch++
						s.Logf("reserve %d -> %v", size, ok)
						w.check("after TryReserve")
						if !ok {
							if size <= max && idle && w.epoch == e0+1 && w.inflight == 0 {
								// the cache was empty and idle for the whole call: it must fit
								s.Fail("reserve_refused_when_empty", "TryReserve(%d) refused by an empty cache (MaxSize=%d, TotalBytes=%d)", size, max, w.mc.TotalBytes())
							}
							s.Probe("reserve_refused")
							continue
						}
						simrt.Yield() // "the download"
						if tp.Chance(300) {
							w.inflight++
							w.mc.ReleaseReservation(size)
							w.outstanding -= size
							w.inflight--
							w.epoch++
							s.Logf("release %d", size)
							s.Probe("write_failed_released")
							continue
						}
						e := &cache.MemoryEntry{Name: name, Data: make([]byte, size), CreatedAt: time.Now()}
						w.inflight++
						added := w.mc.Add(e)
						if added {
							w.outstanding -= size
							w.present[name] = size
							created[name] = e.CreatedAt
						}
						w.inflight--
						w.epoch++
						s.Logf("add %s %d -> %v", name, size, added)
						if !added {
							s.Probe("duplicate_add_released")
							w.inflight++
							w.mc.ReleaseReservation(size)
							w.outstanding -= size
							w.inflight--
							w.epoch++
						}
					case 2: // remove
						w.inflight++
						w.mc.Remove(name)
						delete(w.present, name)
						w.inflight--
						w.epoch++
						s.Logf("remove %s", name)
					case 3: // expire
						w.inflight++
						exp := w.mc.GetExpiredEntries(time.Now(), ttl)
						sort.Strings(exp)
						for _, n := range exp {
							if c, ok := created[n]; ok && time.Since(c) < ttl {
								s.Fail("fresh_entry_expired", "GetExpiredEntries(ttl=%v) returned %s created %v ago", ttl, n, time.Since(c))
							}
						}
						w.mc.RemoveBatch(exp)
						for _, n := range exp {
							delete(w.present, n)
						}
						w.inflight--
						w.epoch++
						s.Logf("expire -> %d", len(exp))
						if len(exp) > 0 {
							s.Probe("expired_batch")
						}
					case 4: // read
						if e := w.mc.Get(name); e != nil && e.Name != name {
							s.Fail("wrong_entry", "Get(%s) returned entry %s", name, e.Name)
						}
					}
					w.check("after op")
				}
			})
		}
		wg.Wait()
		w.quiescent(fmt.Sprintf("end of round %d", round))
	}
	// drain: everything expires, nothing is reserved -> zero
	simrt.Sleep(ttl + time.Second)
	if w.outstanding != 0 {
		s.InfraError("harness ledger: %d bytes still reserved", w.outstanding)
	}
	exp := w.mc.GetExpiredEntries(time.Now(), ttl)
	w.mc.RemoveBatch(exp)
	for _, n := range exp {
		delete(w.present, n)
	}
	w.quiescent("after expiry of everything")
	if tb := w.mc.TotalBytes(); tb != 0 || w.mc.NumEntries() != 0 {
		s.Fail("not_zero_after_drain", "after every entry expired and every reservation was settled: TotalBytes=%d NumEntries=%d", tb, w.mc.NumEntries())
	}
	kit.SetSample(map[string]any{"scenario": "blob_cache", "max_size": max, "tasks": nTasks, "rounds": nRounds, "ops_per_task": nOps, "names": nNames, "ops": ops})
}

// ---------------------------------------------------------------------------
// Scenario 2: CAStore write-through path.
//
// The store does not expose its BlobMemoryCache; the oracle uses what is
// observable: CheckInMemCache (which entries occupy memory; the harness knows
// their byte length), the blob_memory_cache.total_size_bytes gauge the cache
// publishes (its own accounting, updated on Add/Remove), and admission
// behaviour (an idle, fully drained cache must admit a blob of MaxSize).

var errWrite = errors.New("stream broke")

type wtBlob struct {
	hex  string
	data []byte
}

func gaugeTotal(ts tally.TestScope) (float64, bool) {
	for _, g := range ts.Snapshot().Gauges() {
		if g.Name() == "blob_memory_cache.total_size_bytes" {
			return g.Value(), true
		}
	}
	return 0, false
}

func writeThrough(s *simrt.Sim, tier string) {
	tp := s.Tape
	dir := kit.TempDir(s)
	nBlobs := 2 + tp.Draw(5)
	var blobs []*wtBlob
	maxLen := 0
	total := 0
	seen := map[string]bool{}
	for i := 0; i < nBlobs; i++ {
		n := []int{0, 1, 50, 200, 511, 900}[tp.Draw(6)] + tp.Draw(20)
		data := kit.Bytes(s, n)
		hex := kit.SHA(data)
		if seen[hex] {
			continue
		}
		seen[hex] = true
		blobs = append(blobs, &wtBlob{hex, data})
		maxLen = max(maxLen, n)
		total += n
	}
	var maxSize uint64
	switch tp.Draw(3) {
	case 0:
		maxSize = uint64(total + 64) // everything fits
	case 1:
		maxSize = uint64(maxLen + tp.Draw(total-maxLen+1)) // some fit
	case 2:
		maxSize = uint64(1 + tp.Draw(maxLen+1)) // at most the small ones
	}
	ttl := []time.Duration{5 * time.Minute, 250 * ms, 3 * time.Second}[tp.Draw(3)]
	cfg := store.CAStoreConfig{
		UploadDir:     dir + "/upload",
		CacheDir:      dir + "/cache",
		UploadCleanup: store.CleanupConfig{Disabled: true},
		CacheCleanup:  store.CleanupConfig{Disabled: true},
		MemoryCache: store.MemoryCacheConfig{
			Enabled: true, MaxSize: maxSize, DrainWorkers: 1 + tp.Draw(4), DrainMaxRetries: 1 + tp.Draw(3),
			TTL: ttl, TTLInterval: []time.Duration{time.Second, 90 * ms}[tp.Draw(2)],
		},
	}
	scope := tally.NewTestScope("", nil)
	cas, err := store.NewCAStore(cfg, scope)
	if err != nil {
		s.InfraError("castore: %v", err)
	}

	inMemory := func() (uint64, int) {
		var sum uint64
		n := 0
		for _, b := range blobs {
			if cas.CheckInMemCache(b.hex) {
				sum += uint64(len(b.data))
				n++
			}
		}
		return sum, n
	}
	// budget: bytes actually held in memory never exceed MaxSize. Entries are
	// only added by the harness's own writes, so while no write is in flight a
	// scan over CheckInMemCache under-approximates a state that really existed.
	inflight, started := 0, 0
	budget := func(where string) {
		if inflight > 0 {
			return
		}
		s0 := started
		sum, n := inMemory()
		if started != s0 {
			return // a write began during the scan: not a snapshot
		}
		if sum > maxSize {
			s.Fail("over_budget", "%s: %d entries holding %d bytes are in the memory cache, MaxSize=%d", where, n, sum, maxSize)
		}
		s.State(sum<<8 | uint64(n))
	}

	nTasks := 3 + tp.Draw(4)
	nOps := 2 + tp.Draw(4)
	if tier == "thorough" {
		nOps += tp.Draw(6)
	}
	writes, admitted := 0, 0
	var wg ssync.WaitGroup
	for ti := 0; ti < nTasks; ti++ {
		wg.Add(1)
		simrt.Go(func() {
			defer wg.Done()
			for k := 0; k < nOps; k++ {
				switch tp.Draw(4) {
				case 0:
					simrt.Yield()
				case 1:
					simrt.Sleep(time.Duration(1+tp.Draw(150)) * ms)
				case 2:
					simrt.Sleep(time.Duration(200+tp.Draw(800)) * ms)
				case 3:
					simrt.Sleep(time.Duration(1+tp.Draw(5)) * time.Second)
				}
				b := blobs[tp.Draw(len(blobs))]
				// declared size vs stream length
				declared := uint64(len(b.data))
				kind := "exact"
				if tp.Chance(400) {
					switch tp.Draw(3) {
					case 0:
						declared += uint64(1 + tp.Draw(300))
						kind = "short" // stream shorter than declared
					case 1:
						declared -= uint64(min(len(b.data), 1+tp.Draw(300)))
						kind = "long" // stream longer than declared
					case 2:
						declared = 0
						kind = "long"
					}
					if declared == uint64(len(b.data)) {
						kind = "exact"
					} else {
						s.Fault("declared_size_differs_" + kind)
					}
				}
				failAt := -1
				if tp.Chance(200) {
					failAt = tp.Draw(len(b.data) + 1)
					s.Fault("write_fails")
				}
				writes++
				inflight++
				started++
				err := cas.WriteBlobToCacheWithMetaInfo(b.hex, declared, func(fw store.FileReadWriter) error {
					half := len(b.data) / 2
					parts := [][]byte{b.data[:half], b.data[half:]}
					sent := 0
					for _, p := range parts {
						if failAt >= 0 && sent+len(p) >= failAt {
							fw.Write(p[:failAt-sent])
							return errWrite
						}
						if _, err := fw.Write(p); err != nil {
							return err
						}
						sent += len(p)
						simrt.Yield()
					}
					return nil
				}, 64)
				inflight--
				in := cas.CheckInMemCache(b.hex)
				s.Logf("write %s declared=%d len=%d failAt=%d -> err=%v inmem=%v", b.hex[:6], declared, len(b.data), failAt, err != nil, in)
				if in {
					admitted++
					s.Probe("entry_in_memory_after_write")
					if uint64(len(b.data)) > maxSize {
						s.Fail("over_budget", "a %d byte entry sits in a memory cache of MaxSize=%d (declared size %d)", len(b.data), maxSize, declared)
					}
				}
				budget("after write")
			}
		})
	}
	// an observer task scanning while writers run (only judged when idle)
	wg.Add(1)
	simrt.Go(func() {
		defer wg.Done()
		for i := 0; i < 6; i++ {
			simrt.Sleep(time.Duration(30+tp.Draw(400)) * ms)
			budget("observer")
		}
	})
	wg.Wait()
	budget("writers done")
	// let every entry drain to disk (retries included) and expire
	simrt.Sleep(ttl%time.Minute + 10*time.Second)
	if sum, n := inMemory(); n != 0 {
		s.Fail("not_drained", "%d entries (%d bytes) still in memory %v after the last write", n, sum, ttl%time.Minute+10*time.Second)
	}
	// the cache is idle and empty: all of MaxSize must be available again
	probe := kit.Bytes(s, int(maxSize))
	phex := kit.SHA(probe)
	for seen[phex] {
		probe[0]++
		phex = kit.SHA(probe)
	}
	err = cas.WriteBlobToCacheWithMetaInfo(phex, maxSize, func(fw store.FileReadWriter) error {
		_, err := fw.Write(probe)
		return err
	}, 64)
	if err != nil {
		s.Fail("probe_write_failed", "valid write of MaxSize bytes failed: %v", err)
	}
	if !cas.CheckInMemCache(phex) {
		g, _ := gaugeTotal(scope)
		s.Fail("reservation_leak", "memory cache is empty and idle after %d writes, yet a blob of exactly MaxSize=%d bytes is not admitted: accounted bytes did not return to 0 (cache's own total_size_bytes gauge last read %v)", writes, maxSize, g)
	}
	// the Add just published the cache's own accounting: exactly the probe
	if g, ok := gaugeTotal(scope); ok {
		s.Probe("gauge_checked")
		if g != float64(maxSize) {
			s.Fail("accounting_imbalance", "only entry is the %d byte probe but the cache accounts %v bytes", maxSize, g)
		}
	}
	simrt.Sleep(2 * time.Second)
	if cas.CheckInMemCache(phex) {
		s.Fail("not_drained", "probe entry still in memory 2s after it was written")
	}
	if g, ok := gaugeTotal(scope); ok && g != 0 {
		s.Fail("not_zero_after_drain", "everything drained but the cache accounts %v bytes", g)
	}
	cas.Close()
	kit.SetSample(map[string]any{"scenario": "write_through", "memory_cache": fmt.Sprintf("%+v", cfg.MemoryCache), "blobs": len(blobs), "tasks": nTasks, "ops_per_task": nOps, "writes": writes, "admitted": admitted})
}

// ---------------------------------------------------------------------------
// Scenario 3: LRUCache against a reference model.
//
// Model (from the statement): the cache holds the keys added within the last
// TTL, at most Size of them; adding a key that is live refreshes it; when a
// new key does not fit the least recently added-or-refreshed live key goes.
// All instants are k*100ms+50ms while TTLs are k*100ms+30ms, so "now" never
// coincides with an expiry instant.

type lruModel struct {
	size int
	ttl  time.Duration
	keys []string // least recently added/refreshed first
	exp  map[string]time.Time
}

func (m *lruModel) purge(now time.Time) {
	j := 0
	for _, k := range m.keys {
		if now.After(m.exp[k]) {
			delete(m.exp, k)
			continue
		}
		m.keys[j] = k
		j++
	}
	m.keys = m.keys[:j]
}

func (m *lruModel) remove(k string) {
	for i, x := range m.keys {
		if x == k {
			m.keys = append(m.keys[:i], m.keys[i+1:]...)
			break
		}
	}
	delete(m.exp, k)
}

func (m *lruModel) add(k string, now time.Time) (victims []string) {
	m.purge(now)
	m.remove(k)
	m.keys = append(m.keys, k)
	m.exp[k] = now.Add(m.ttl)
	for len(m.keys) > m.size {
		victims = append(victims, m.keys[0])
		m.remove(m.keys[0])
	}
	return victims
}

func (m *lruModel) has(k string, now time.Time) bool {
	e, ok := m.exp[k]
	return ok && !now.After(e)
}

func lru(s *simrt.Sim, tier string) {
	tp := s.Tape
	size := 1 + tp.Draw(5)
	ttl := time.Duration(1+tp.Draw(20))*100*ms + 30*ms
	c := cache.NewLRUCache(cache.LRUCacheConfig{Size: size, TTL: ttl})
	m := &lruModel{size: size, ttl: ttl, exp: map[string]time.Time{}}
	nKeys := size + 1 + tp.Draw(3)
	allKeys := make([]string, nKeys)
	for i := range allKeys {
		allKeys[i] = fmt.Sprintf("k%d", i)
	}
	nTasks := 3 + tp.Draw(4)
	nOps := 3 + tp.Draw(8)
	if tier == "thorough" {
		nOps += tp.Draw(10)
	}
	serial := !tp.Chance(300)
	if !serial {
		s.Probe("lru_free_mode")
	}
	var mu ssync.Mutex                  // serial mode: operation + model step are one atomic unit
	everAdded := map[string]time.Time{} // free mode: latest Add return instant per key
	simrt.Sleep(50 * ms)
	fullCheck := func(where string) {
		now := time.Now()
		m.purge(now)
		for _, k := range allKeys {
			if got, want := c.Has(k), m.has(k, now); got != want {
				why := "absent/expired/evicted in the model"
				if want {
					why = "live in the model"
				}
				s.Fail("lru_membership", "%s: Has(%s)=%v but the key is %s (model order %v, size=%d ttl=%v)", where, k, got, why, m.keys, size, ttl)
			}
		}
		if n := c.Size(); n > size || n < len(m.keys) {
			s.Fail("lru_size", "%s: Size()=%d, configured %d, live keys %d", where, n, size, len(m.keys))
		}
		s.State(uint64(len(m.keys))<<16 | uint64(c.Size()))
	}
	var wg ssync.WaitGroup
	ops := 0
	for ti := 0; ti < nTasks; ti++ {
		wg.Add(1)
		simrt.Go(func() {
			defer wg.Done()
			for k := 0; k < nOps; k++ {
				if tp.Chance(600) {
					simrt.Sleep(time.Duration(tp.Draw(12)) * 100 * ms)
				} else {
					simrt.Yield()
				}
				key := allKeys[tp.Draw(nKeys)]
				op := tp.Draw(8)
				ops++
				if !serial {
					// free mode: real lock contention, order-independent checks only
					switch {
					case op <= 3:
						everAdded[key] = time.Now() // no fake time passes inside Add
						c.Add(key)
						s.Logf("add %s", key)
					case op <= 5:
						t0 := time.Now()
						got := c.Has(key)
						last, ok := everAdded[key]
						if got && (!ok || t0.Sub(last) > ttl) {
							s.Fail("lru_expired_key_reported", "Has(%s)=true at %v; last Add returned at %v, ttl %v", key, s.Now(), last.Sub(s.StartTime()), ttl)
						}
						s.Logf("has %s -> %v", key, got)
					case op == 6:
						c.Delete(key)
						s.Logf("delete %s", key)
					default:
						if tp.Chance(200) {
							c.Clear()
							s.Logf("clear")
						}
					}
					if n := c.Size(); n > size {
						s.Fail("lru_size", "Size()=%d exceeds configured %d", n, size)
					}
					continue
				}
				mu.Lock()
				now := time.Now()
				switch {
				case op <= 3:
					c.Add(key)
					victims := m.add(key, now)
					s.Logf("add %s evicts %v", key, victims)
					if len(victims) > 0 {
						s.Probe("lru_eviction")
					}
				case op <= 5:
					got, want := c.Has(key), m.has(key, now)
					s.Logf("has %s -> %v", key, got)
					if got != want {
						s.Fail("lru_membership", "Has(%s)=%v, model says %v (model order %v, size=%d ttl=%v)", key, got, want, m.keys, size, ttl)
					}
					if !want && m.exp[key] != (time.Time{}) {
						s.Probe("lru_expired_key_queried")
					}
				case op == 6:
					c.Delete(key)
					m.remove(key)
					s.Logf("delete %s", key)
				default:
					if tp.Chance(200) {
						c.Clear()
						m.keys, m.exp = nil, map[string]time.Time{}
						s.Logf("clear")
					}
				}
				fullCheck("after op")
				mu.Unlock()
			}
		})
	}
	wg.Wait()
	simrt.Sleep(ttl + 100*ms)
	for _, k := range allKeys {
		if c.Has(k) {
			s.Fail("lru_expired_key_reported", "Has(%s)=true %v after the last operation (ttl %v)", k, ttl+100*ms, ttl)
		}
	}
	kit.SetSample(map[string]any{"scenario": "lru", "size": size, "ttl": ttl.String(), "keys": nKeys, "tasks": nTasks, "ops_per_task": nOps, "serial_model": serial, "ops": ops})
}

func body(s *simrt.Sim, tier string) {
	switch s.Tape.Draw(3) {
	case 0:
		s.Probe("scenario_write_through")
		writeThrough(s, tier)
	case 1:
		s.Probe("scenario_blob_cache")
		blobCache(s, tier)
	case 2:
		s.Probe("scenario_lru")
		lru(s, tier)
	}
}

func TestC13(t *testing.T) {
	kit.Main(t, kit.Spec{
		Property: "C13",
		Body:     body,
		Config: func(tier string) simrt.Config {
			return simrt.Config{MaxSteps: 300000, Horizon: 2 * time.Hour, PanicIsFailure: true}
		},
		Real: []string{"utils/cache.BlobMemoryCache", "utils/cache.LRUCache", "lib/store.CAStore.WriteBlobToCacheWithMetaInfo (reservation, buffering, Add, drain workers, TTL worker)"},
		Stub: []string{"write functions (harness closures: exact/short/long/failing streams)", "tally.TestScope to read the cache's own total_size_bytes gauge"},
		Rule: "one run = one scenario (write_through | blob_cache | lru) with tape-drawn MaxSize/Size/TTL, 3-6 tasks, op kinds, sizes, declared-vs-actual stream lengths, failures, sleeps around drain/TTL ticks, scheduling strategy",
		Assumptions: []string{"blob_cache scenario follows the documented caller contract (Add only after TryReserve of exactly the entry size; unused reservations released with the same size)",
			"lru: operation instants are k*100ms+50ms, TTLs are k*100ms+30ms, so no comparison happens at an expiry instant",
			"write_through: memory occupancy is observed through CheckInMemCache and the cache's published gauge because CAStore does not expose its BlobMemoryCache"},
	})
}
