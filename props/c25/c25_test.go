// C25: cluster clients contact a bounded sample of current hosts.
//
// Real code: utils/stringset.Set.Sample; origin/blobclient Locations and the
// ClusterClient built on NewClientResolver (Stat, GetMetaInfo, Owners);
// build-index/tagclient cluster client (do: Get/Has/Put/PutAndReplicate/List/
// Replicate/Origin; doOnce: CheckReadiness). Hosts are simhttp endpoints with
// drawn failure patterns; the host list is a harness hostlist.List /
// healthcheck.List whose membership changes between requests.
//
// Oracle (statement): per logical request the distinct hosts contacted for the
// cluster-level step are <= 3 (exactly one, and one attempt, for single-attempt
// calls), and all of them are members of the list as it was when the request
// was made; an empty list means no contact. Sample(n) returns min(n, |set|)
// distinct members of the set, as a set of its own, leaving the receiver intact.
package c25

import (
	"encoding/json"
	"fmt"
	"net/http"
	"sort"
	"strings"
	"testing"
	"time"

	"github.com/uber/kraken/build-index/tagclient"
	"github.com/uber/kraken/build-index/tagmodels"
	"github.com/uber/kraken/core"
	"github.com/uber/kraken/origin/blobclient"
	"github.com/uber/kraken/utils/stringset"

	"kverif/kit"
	ssync "kverif/shim/sync"
	simrt "kverif/sim"
	"kverif/simhttp"
)

// ---- host list --------------------------------------------------------------

type hostList struct {
	cur      stringset.Set
	resolves int
	failed   []string
}

func (h *hostList) Resolve() stringset.Set { h.resolves++; return h.cur.Copy() }
func (h *hostList) Failed(addr string)     { h.failed = append(h.failed, addr) }

func sorted(s stringset.Set) []string {
	out := make([]string, 0, len(s))
	for x := range s {
		out = append(out, x)
	}
	sort.Strings(out)
	return out
}

// ---- hosts ------------------------------------------------------------------

const (
	hOK = iota
	hRefuse
	hResetBefore
	hResetAfter
	hBusy    // handler answers 503
	hProxy   // an intermediary answers 502
	hSlow    // answers after every client timeout
	hFlaky   // per attempt: ok or one of the above
	hMissing // 404 / not found from the handler
	nBehaviours
)

type world struct {
	s     *simrt.Sim
	hn    *simhttp.Net
	list  *hostList
	beh   map[string]int
	locs  []string
	dig   core.Digest
	pages int
}

func (w *world) faultFn(ex *simhttp.Exchange) simhttp.Fault {
	b := w.beh[ex.To]
	if b == hFlaky {
		b = []int{hOK, hRefuse, hResetBefore, hResetAfter, hProxy, hSlow}[w.s.Tape.Draw(6)]
	}
	switch b {
	case hRefuse:
		return simhttp.Fault{Kind: simhttp.Refuse}
	case hResetBefore:
		return simhttp.Fault{Kind: simhttp.ResetBefore}
	case hResetAfter:
		return simhttp.Fault{Kind: simhttp.ResetAfter}
	case hProxy:
		return simhttp.Fault{Kind: simhttp.Status, Code: 502}
	case hSlow:
		w.s.Fault("http_slow_response")
		return simhttp.Fault{Latency: 70 * time.Second}
	}
	return simhttp.Fault{}
}

func (w *world) handler(addr string) http.Handler {
	return http.HandlerFunc(func(rw http.ResponseWriter, r *http.Request) {
		switch w.beh[addr] {
		case hBusy:
			rw.WriteHeader(503)
			return
		case hMissing:
			rw.WriteHeader(404)
			return
		}
		p := r.URL.Path
		switch {
		case strings.HasSuffix(p, "/locations"):
			rw.Header().Set("Origin-Locations", strings.Join(w.locs, ","))
		case strings.HasPrefix(p, "/internal/namespace/"):
			rw.Header().Set("Content-Length", "5")
		case p == "/readiness":
		case p == "/origin":
			rw.Write([]byte("origin-cluster"))
		case strings.HasPrefix(p, "/list/"):
			var resp tagmodels.ListResponse
			resp.Result = []string{"t1", "t2"}
			if w.pages > 1 && r.URL.Query().Get("offset") == "" {
				resp.Links.Next = p + "?offset=t2"
			}
			json.NewEncoder(rw).Encode(resp)
		case strings.HasPrefix(p, "/tags/") && r.Method == "GET":
			rw.Write([]byte(w.dig.String()))
		case strings.HasPrefix(p, "/tags/"), strings.HasPrefix(p, "/remotes/tags/"):
		default:
			rw.WriteHeader(400)
		}
	})
}

// ---- Sample -----------------------------------------------------------------

func sampleScenario(s *simrt.Sim) {
	tp := s.Tape
	size := tp.Draw(31)
	var members []string
	for i := 0; i < size; i++ {
		members = append(members, fmt.Sprintf("host%02d:80", i))
	}
	rounds := 1 + tp.Draw(4)
	for r := 0; r < rounds; r++ {
		set := stringset.New(members...)
		n := tp.Draw(size + 4)
		if tp.Chance(400) {
			n = tp.Draw(5)
		}
		got := set.Sample(n)
		want := n
		if size < n {
			want = size
		}
		s.Logf("sample size=%d n=%d -> %d", size, n, len(got))
		kit.SetSample(map[string]any{"scenario": "sample", "set_size": size, "n": n, "returned": len(got)})
		s.State(uint64(size)<<16 | uint64(n))
		if len(got) != want {
			s.Fail("sample_wrong_size", "Sample(%d) of a %d-element set returned %d elements, want %d", n, size, len(got), want)
		}
		for _, x := range sorted(got) {
			if !set.Has(x) {
				s.Fail("sample_foreign_member", "Sample returned %q which is not in the set", x)
			}
		}
		if !stringset.Equal(set, stringset.New(members...)) {
			s.Fail("sample_mutated_receiver", "Sample(%d) changed the receiver (now %d elements, was %d)", n, len(set), size)
		}
		// the result must be a set of its own
		got.Add("canary:1")
		if set.Has("canary:1") {
			s.Fail("sample_aliases_receiver", "Sample(%d) of a %d-element set returned the receiver itself", n, size)
		}
		s.Probe("sample")
	}
}

// ---- cluster clients ----------------------------------------------------------

type request struct {
	name    string
	single  bool   // single-attempt call
	phase   string // path fragment that identifies the cluster-level step
	members []string
	from    string
	lo, hi  int // hn.Log window
	err     error
}

func clusterScenario(s *simrt.Sim, tier string) {
	tp := s.Tape
	hn := simhttp.Install(s)
	hn.KeepAlive = tp.Chance(500)
	w := &world{s: s, hn: hn, list: &hostList{cur: stringset.New()}, beh: map[string]int{}, pages: 1 + tp.Draw(2)}
	hn.FaultFn = w.faultFn
	d, err := core.NewSHA256DigestFromHex(kit.SHA([]byte("blob")))
	if err != nil {
		s.InfraError("digest: %v", err)
	}
	w.dig = d
	// universe of hosts; all are registered, only some are list members
	universe := 3 + tp.Draw(33)
	density := tp.Draw(4) // how many hosts misbehave
	var all []string
	for i := 0; i < universe; i++ {
		a := fmt.Sprintf("host%02d:80", i)
		all = append(all, a)
		b := hOK
		switch density {
		case 1:
			if tp.Chance(400) {
				b = 1 + tp.Draw(nBehaviours-1)
			}
		case 2:
			if tp.Chance(850) {
				b = 1 + tp.Draw(nBehaviours-1)
			}
		case 3:
			b = []int{hRefuse, hResetBefore, hResetAfter, hProxy, hBusy, hRefuse}[tp.Draw(6)]
		}
		w.beh[a] = b
		node := s.NewNode(fmt.Sprintf("host%02d", i))
		if tp.Chance(30) {
			continue // never registered: nothing listens there
		}
		hn.Register(a, node, w.handler(a))
	}
	size := tp.Draw(31)
	if size > universe {
		size = universe
	}
	off := tp.Draw(universe)
	for i := 0; i < size; i++ {
		w.list.cur.Add(all[(off+i)%universe])
	}
	blobCC := blobclient.NewClusterClient(blobclient.NewClientResolver(blobclient.NewProvider(), w.list))
	tagCC := tagclient.NewClusterClient(w.list, nil)
	nRounds := 1 + tp.Draw(4)
	if tier == "thorough" {
		nRounds += tp.Draw(5)
	}
	var reqs []*request
	for round := 0; round < nRounds; round++ {
		// membership changes between requests
		if round > 0 {
			for k := tp.Draw(6); k > 0; k-- {
				a := all[tp.Draw(universe)]
				if w.list.cur.Has(a) {
					w.list.cur.Remove(a)
				} else if len(w.list.cur) < 30 {
					w.list.cur.Add(a)
				}
			}
			if tp.Chance(80) {
				w.list.cur = stringset.New()
			}
		}
		members := sorted(w.list.cur)
		// owners reported by an origin: up to 3 current members
		w.locs = nil
		if len(members) > 0 {
			st := tp.Draw(len(members))
			for i := 0; i < 3 && i < len(members); i++ {
				w.locs = append(w.locs, members[(st+i)%len(members)])
			}
		}
		nClients := 1 + tp.Draw(2)
		var wg ssync.WaitGroup
		for ci := 0; ci < nClients; ci++ {
			rq := &request{members: members, from: fmt.Sprintf("client%d-%d", round, ci)}
			op := tp.Draw(12)
			reqs = append(reqs, rq)
			wg.Add(1)
			s.GoNode(s.NewNode(rq.from), rq.from, func() {
				defer wg.Done()
				rq.lo = len(hn.Log)
				switch op {
				case 0:
					rq.name, rq.phase = "blobclient.Locations", "/locations"
					_, rq.err = blobclient.Locations(blobclient.NewProvider(), w.list, w.dig)
				case 1:
					rq.name, rq.phase = "blob ClusterClient.Stat", "/locations"
					_, rq.err = blobCC.Stat("ns", w.dig)
				case 2:
					// (ClusterClient.CheckReadiness is not used: it resolves a digest that
					// kraken draws from crypto-seeded randomness at package init, which
					// would make the event log differ between processes.)
					rq.name, rq.phase = "blob ClusterClient.GetMetaInfo", "/locations"
					_, rq.err = blobCC.GetMetaInfo("ns", w.dig)
				case 3:
					rq.name, rq.phase, rq.single = "tag ClusterClient.CheckReadiness", "/readiness", true
					rq.err = tagCC.CheckReadiness()
				case 4:
					rq.name, rq.phase = "tag ClusterClient.Get", "/tags/"
					_, rq.err = tagCC.Get("repo:tag")
				case 5:
					rq.name, rq.phase = "tag ClusterClient.Has", "/tags/"
					_, rq.err = tagCC.Has("repo:tag")
				case 6:
					rq.name, rq.phase = "tag ClusterClient.Put", "/tags/"
					rq.err = tagCC.Put("repo:tag", w.dig)
				case 7:
					rq.name, rq.phase = "tag ClusterClient.List", "/list/"
					_, rq.err = tagCC.List("repo")
				case 8:
					rq.name, rq.phase = "tag ClusterClient.Replicate", "/remotes/tags/"
					rq.err = tagCC.Replicate("repo:tag")
				case 9:
					rq.name, rq.phase = "tag ClusterClient.Origin", "/origin"
					_, rq.err = tagCC.Origin()
				case 10:
					rq.name, rq.phase = "tag ClusterClient.PutAndReplicate", "/tags/"
					rq.err = tagCC.PutAndReplicate("repo:tag", w.dig)
				case 11:
					rq.name, rq.phase = "blob ClusterClient.Owners", "/locations"
					_, rq.err = blobCC.Owners(w.dig)
				}
				rq.hi = len(hn.Log)
			})
		}
		wg.Wait()
	}
	// ---- oracle over the attempt log
	maxHosts := 0
	for _, rq := range reqs {
		hosts := stringset.New()
		attempts := 0
		for _, ex := range hn.Log[rq.lo:rq.hi] {
			if ex.From != rq.from || !strings.Contains(ex.Path, rq.phase) {
				continue
			}
			attempts++
			hosts.Add(ex.To)
		}
		class := "ok"
		if rq.err != nil {
			class = "error"
		}
		s.Logf("%s %s list=%d -> %s hosts=%d attempts=%d", rq.from, rq.name, len(rq.members), class, len(hosts), attempts)
		if len(hosts) > maxHosts {
			maxHosts = len(hosts)
		}
		cur := stringset.New(rq.members...)
		for _, h := range sorted(hosts) {
			if !cur.Has(h) {
				s.Fail("contacted_non_member", "%s contacted %s which was not in the host list (%d members) when the request was made", rq.name, h, len(rq.members))
			}
		}
		if len(rq.members) == 0 {
			s.Probe("empty_list")
			continue
		}
		if len(hosts) > 3 {
			s.Fail("more_than_three_hosts", "%s tried %d distinct hosts (%s) of a %d-member list; at most 3 allowed", rq.name, len(hosts), strings.Join(sorted(hosts), " "), len(rq.members))
		}
		if rq.single {
			if len(hosts) != 1 {
				s.Fail("single_attempt_hosts", "%s (single-attempt call) contacted %d hosts of a %d-member list, want exactly 1", rq.name, len(hosts), len(rq.members))
			}
			if attempts != 1 {
				s.Fail("single_attempt_retried", "%s (single-attempt call) made %d attempts", rq.name, attempts)
			}
			s.Probe("single_attempt_call")
		} else if len(hosts) == 0 {
			// not a property violation as stated, but it would mean the harness attributes requests wrongly
			s.InfraError("%s contacted no host of a %d-member list (result: %v)", rq.name, len(rq.members), rq.err)
		}
		if len(hosts) == 3 {
			s.Probe("three_hosts_tried")
		}
		if len(hosts) > 1 && rq.err == nil {
			s.Probe("failover_success")
		}
		s.State(uint64(len(hosts))<<8 | uint64(len(class)))
	}
	kit.SetSample(map[string]any{"scenario": "cluster", "universe": universe, "initial_list": size, "fault_density": density, "rounds": nRounds, "requests": len(reqs), "max_hosts_per_request": maxHosts, "keep_alive": hn.KeepAlive})
}

func body(s *simrt.Sim, tier string) {
	if s.Tape.Draw(4) == 3 {
		sampleScenario(s)
		return
	}
	clusterScenario(s, tier)
}

func TestC25(t *testing.T) {
	kit.Main(t, kit.Spec{
		Property: "C25",
		Body:     body,
		Config: func(tier string) simrt.Config {
			return simrt.Config{MaxSteps: 400000, Horizon: 6 * time.Hour, PanicIsFailure: true}
		},
		Real:        []string{"utils/stringset.Set.Sample/Copy", "origin/blobclient.Locations", "origin/blobclient.NewClientResolver + ClusterClient.Stat/GetMetaInfo/Owners", "origin/blobclient.HTTPClient", "build-index/tagclient cluster client (do, doOnce) + single client", "utils/httputil.Send"},
		Stub:        []string{"hostlist.List / healthcheck.List = harness list whose membership changes between rounds", "hosts = scripted simhttp endpoints (locations, stat, readiness, tags, list, origin, replicate)"},
		Rule:        "75%: cluster scenario = universe of 3-35 endpoints with drawn behaviour (ok, refuse, reset before/after, 503, proxy 502, slower than timeout, flaky, 404, not listening) at a drawn fault density, host list of 0-30 members changing between 1-5 rounds (thorough: up to 9), per round 1-2 concurrent logical requests (12 operations of the blob and tag cluster clients); 25%: Sample scenario = sets of 0-30 members, n in 0..size+3; non-trivial = at least one fault fired or contested scheduling decision; distinct = distinct event-log hash",
		Assumptions: []string{"the bound applies to the cluster-level step of a request (hosts drawn from the host list); hosts named by an origin's locations answer are a second step and are not counted", "the list does not change while a request is in flight"},
	})
}
