package c20

// In-vivo observation of the announce queue (DESIGN.md §5 C20): the
// transformer turns `return announcequeue.New()` in the scheduler's
// constructors into a decoration point; the decorator below wraps every queue a
// real agent scheduler creates, mirrors each call into reference model A.6 and
// judges every Next result. The histories are the ones real schedulers produce
// under scenario.Churn (several torrents per agent, removals, idle drops,
// tracker errors, saturated torrents being skipped and re-queued, reloads,
// restarts). All queue calls come from the scheduler's event loop, so their
// order is exact.

import (
	"time"

	"github.com/uber/kraken/core"
	"github.com/uber/kraken/lib/torrent/scheduler/announcequeue"

	"kverif/kit"
	"kverif/scenario"
	simrt "kverif/sim"
)

type monQueue struct{ w *world }

func (q *monQueue) index(h core.InfoHash) int {
	w := q.w
	if i, ok := w.idx[h]; ok {
		return i
	}
	i := len(w.hashes)
	w.hashes = append(w.hashes, h)
	w.idx[h] = i
	return i
}

func (q *monQueue) Add(h core.InfoHash)   { q.w.add(q.index(h)) }
func (q *monQueue) Ready(h core.InfoHash) { q.w.ready(q.index(h)) }
func (q *monQueue) Eject(h core.InfoHash) { q.w.eject(q.index(h)) }
func (q *monQueue) Next() (core.InfoHash, bool) {
	_, ih, ok := q.w.nextHash()
	return ih, ok
}

func invivo(s *simrt.Sim, tier string) {
	var queues []*world
	scenario.Churn(s, tier, scenario.Hooks{
		Setup: func(sw *scenario.World) {
			s.SetDecorator("announcequeue.New", func(v any) any {
				q, ok := v.(announcequeue.Queue)
				if !ok {
					s.InfraError("decoration point announcequeue.New yields %T", v)
					return v
				}
				w := &world{s: s, q: q, m: &model{inflight: map[int]bool{}}, idx: map[core.InfoHash]int{}, node: simrt.CurNode(), handedAt: map[int]time.Duration{}}
				queues = append(queues, w)
				return announcequeue.Queue(&monQueue{w})
			})
		},
		End: func(sw *scenario.World) {
			// "Removal takes it out completely", seen from the scheduler: a
			// torrent whose announce was handed out comes back through Ready or
			// leaves through Eject once the announce round trip (client timeout
			// 10s) or the removal is over. After a quiet period far longer than
			// that, an entry still in flight on a live scheduler belongs to a
			// torrent that can never announce again and that Add can no longer
			// queue.
			const quiet, stuck = 240 * time.Second, 180 * time.Second
			simrt.Sleep(quiet)
			last := map[*simrt.Node]*world{}
			for _, w := range queues {
				last[w.node] = w // the scheduler a node runs now owns the queue created last
			}
			for _, w := range queues {
				if last[w.node] != w || w.node == nil || w.node.Dead || sw.Stopped[w.node.Name] || sw.Reloading[w.node.Name] {
					continue
				}
				for h, at := range w.handedAt {
					if w.m.inflight[h] && s.Now()-at > stuck {
						s.Fail("in_flight_forever", "%s: torrent h%d was handed out for an announce at %v and neither Ready nor Eject followed in %v of fake time on a live scheduler: it holds its slot for good (a later Add is ignored, it never announces again); queue history:%s", w.node.Name, h, at, s.Now()-at, w.tail())
					}
				}
				s.Probe("invivo_queue_checked_at_end")
			}
			ops := 0
			for _, w := range queues {
				ops += w.ops
			}
			if len(queues) == 0 {
				// the call site moved: this observation is blind, say so loudly
				s.InfraError("in-vivo run saw no announce queue being created: decoration point not reached")
			}
			for i := 0; i < ops; i += 16 {
				s.Probe("queue_ops_in_scheduler_x16")
			}
		},
	})
	s.Probe("invivo_run")
	kit.Extra["invivo_runs"]++
}
