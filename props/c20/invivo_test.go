package c20

// In-vivo observation of the announce queue (DESIGN.md §5 C20): the
// transformer turns `return announcequeue.New()` in the scheduler's
// constructors into a decoration point; the decorator below wraps every queue a
// real agent scheduler creates, mirrors each call into reference model A.6 and
// judges every Next result. The histories are the ones real schedulers produce
// under scenario.Churn (several torrents per agent, removals, idle drops,
// tracker errors, saturated torrents being skipped and re-queued, reloads,
// restarts). All queue calls come from the scheduler's event loop, so their
// order is exact.

import (
	"github.com/uber/kraken/core"
	"github.com/uber/kraken/lib/torrent/scheduler/announcequeue"

	"kverif/kit"
	"kverif/scenario"
	simrt "kverif/sim"
)

type monQueue struct{ w *world }

func (q *monQueue) index(h core.InfoHash) int {
	w := q.w
	if i, ok := w.idx[h]; ok {
		return i
	}
	i := len(w.hashes)
	w.hashes = append(w.hashes, h)
	w.idx[h] = i
	return i
}

func (q *monQueue) Add(h core.InfoHash)   { q.w.add(q.index(h)) }
func (q *monQueue) Ready(h core.InfoHash) { q.w.ready(q.index(h)) }
func (q *monQueue) Eject(h core.InfoHash) { q.w.eject(q.index(h)) }
func (q *monQueue) Next() (core.InfoHash, bool) {
	_, ih, ok := q.w.nextHash()
	return ih, ok
}

func invivo(s *simrt.Sim, tier string) {
	var queues []*world
	scenario.Churn(s, tier, scenario.Hooks{
		Setup: func(sw *scenario.World) {
			s.SetDecorator("announcequeue.New", func(v any) any {
				q, ok := v.(announcequeue.Queue)
				if !ok {
					s.InfraError("decoration point announcequeue.New yields %T", v)
					return v
				}
				w := &world{s: s, q: q, m: &model{inflight: map[int]bool{}}, idx: map[core.InfoHash]int{}}
				queues = append(queues, w)
				return announcequeue.Queue(&monQueue{w})
			})
		},
		End: func(sw *scenario.World) {
			ops := 0
			for _, w := range queues {
				ops += w.ops
			}
			if len(queues) == 0 || ops == 0 {
				// the call site moved: this observation is blind, say so loudly
				s.InfraError("in-vivo run observed no announce queue operation (queues=%d): decoration point not reached", len(queues))
			}
			for i := 0; i < ops; i += 16 {
				s.Probe("queue_ops_in_scheduler_x16")
			}
		},
	})
	s.Probe("invivo_run")
	kit.Extra["invivo_runs"]++
}
