// C20: the announce queue holds each torrent once and serves them in order.
//
// Direct driver ("plain model-based sequences" of DESIGN.md §5 C20): the real
// announcequeue.QueueImpl is driven with tape-generated Add/Next/Ready/Eject
// sequences over 4-6 info hashes and compared with reference model A.6, which
// is written from the property statement. The observation of the queue inside
// the running scheduler (decoration point) is NOT part of this check.
package c20

import (
	"fmt"
	"hash/fnv"
	"os"
	"testing"
	"time"

	"github.com/uber/kraken/core"
	"github.com/uber/kraken/lib/torrent/scheduler/announcequeue"

	"kverif/kit"
	ssync "kverif/shim/sync"
	simrt "kverif/sim"
)

// ---------------------------------------------------------------------------
// Reference model A.6 (from the statement):
//   ready FIFO + in-flight set; a torrent occurs at most once in ready ∪ inflight.
//   Add(h):   afterwards h occurs exactly once (no-op when it already occurs;
//             a torrent in flight becomes ready again only through Ready).
//   Next:     pops the front of ready into inflight.
//   Ready(h): only if in flight: to the back of ready.
//   Eject(h): gone from both.
//
// One point the statement leaves open: an Add of a torrent that is already
// waiting may keep its place or send it to the back ("first come" can be read
// either way). Every waiting entry therefore carries an arrival interval
// [lo,hi]; Next may return r iff r can be the oldest under some reading:
// r.lo < e.hi for every other waiting e.

type entry struct {
	h      int
	lo, hi int
}

type model struct {
	ready    []entry
	inflight map[int]bool
	seq      int
}

func (m *model) waiting(h int) int {
	for i, e := range m.ready {
		if e.h == h {
			return i
		}
	}
	return -1
}

func (m *model) add(h int) string {
	m.seq++
	if i := m.waiting(h); i >= 0 {
		m.ready[i].hi = m.seq
		return "already_waiting"
	}
	if m.inflight[h] {
		return "already_inflight"
	}
	m.ready = append(m.ready, entry{h, m.seq, m.seq})
	return "new"
}

func (m *model) markReady(h int) string {
	if !m.inflight[h] {
		return "noop"
	}
	delete(m.inflight, h)
	m.seq++
	m.ready = append(m.ready, entry{h, m.seq, m.seq})
	return "requeued"
}

func (m *model) eject(h int) string {
	cls := "absent"
	if i := m.waiting(h); i >= 0 {
		m.ready = append(m.ready[:i:i], m.ready[i+1:]...)
		cls = "waiting"
	}
	if m.inflight[h] {
		delete(m.inflight, h)
		cls = "inflight"
	}
	return cls
}

func (m *model) hash() uint64 {
	f := fnv.New64a()
	for _, e := range m.ready {
		fmt.Fprintf(f, "r%d,", e.h)
	}
	for h := 0; h < 64; h++ {
		if m.inflight[h] {
			fmt.Fprintf(f, "i%d,", h)
		}
	}
	return f.Sum64()
}

func (m *model) String() string {
	s := "ready=["
	for i, e := range m.ready {
		if i > 0 {
			s += " "
		}
		s += fmt.Sprintf("h%d", e.h)
	}
	s += "] inflight=["
	first := true
	for h := 0; h < 64; h++ {
		if m.inflight[h] {
			if !first {
				s += " "
			}
			s += fmt.Sprintf("h%d", h)
			first = false
		}
	}
	return s + "]"
}

// ---------------------------------------------------------------------------

type world struct {
	s      *simrt.Sim
	q      announcequeue.Queue
	m      *model
	hashes []core.InfoHash
	idx    map[core.InfoHash]int
	mu     ssync.Mutex // the queue is not thread safe: clients serialise (the scheduler's event loop does)
	ops    int
	hist   []string
	// in vivo only: owning node and the instant each torrent was last handed out
	node     *simrt.Node
	handedAt map[int]time.Duration
}

func (w *world) note(format string, a ...any) {
	l := fmt.Sprintf(format, a...)
	w.hist = append(w.hist, l)
	w.s.Logf("%s", l)
}

func (w *world) tail() string {
	h := w.hist
	if len(h) > 14 {
		h = h[len(h)-14:]
	}
	out := ""
	for _, l := range h {
		out += "\n  " + l
	}
	return out
}

func (w *world) add(h int) {
	w.ops++
	w.q.Add(w.hashes[h])
	cls := w.m.add(h)
	w.s.Probe("add_" + cls)
	w.note("add h%d (%s)", h, cls)
}

func (w *world) ready(h int) {
	w.ops++
	w.q.Ready(w.hashes[h])
	cls := w.m.markReady(h)
	w.s.Probe("ready_" + cls)
	w.note("ready h%d (%s)", h, cls)
}

func (w *world) eject(h int) {
	w.ops++
	w.q.Eject(w.hashes[h])
	cls := w.m.eject(h)
	w.s.Probe("eject_" + cls)
	w.note("eject h%d (%s)", h, cls)
}

// next performs Next on the real queue and judges the answer.
func (w *world) next() (int, bool) {
	r, _, ok := w.nextHash()
	return r, ok
}

func (w *world) nextHash() (int, core.InfoHash, bool) {
	w.ops++
	m := w.m
	ih, ok := w.q.Next()
	if !ok {
		w.note("next -> none")
		if len(m.ready) > 0 {
			w.s.Fail("ready_not_served", "Next returned nothing although h%d is waiting; model %v; history:%s", m.ready[0].h, m, w.tail())
		}
		w.s.Probe("next_empty")
		return -1, ih, false
	}
	r, known := w.idx[ih]
	if !known {
		w.note("next -> unknown hash")
		w.s.Fail("handed_out_not_queued", "Next returned a hash that was never added; history:%s", w.tail())
	}
	w.note("next -> h%d", r)
	i := m.waiting(r)
	switch {
	case i < 0 && m.inflight[r]:
		w.s.Fail("handed_out_while_in_flight", "Next handed out h%d although its announce is still in flight (no Ready since it was handed out): the torrent was in the queue twice; model %v; history:%s", r, m, w.tail())
	case i < 0:
		w.s.Fail("handed_out_not_queued", "Next handed out h%d which is not in the queue (ejected or never added); model %v; history:%s", r, m, w.tail())
	}
	for j, e := range m.ready {
		if j != i && !(m.ready[i].lo < e.hi) {
			w.s.Fail("not_fifo", "Next handed out h%d although h%d has been waiting longer; model %v; history:%s", r, e.h, m, w.tail())
		}
	}
	if i > 0 {
		w.s.Probe("next_ambiguous_order")
	}
	m.ready = append(m.ready[:i:i], m.ready[i+1:]...)
	m.inflight[r] = true
	if w.handedAt != nil {
		w.handedAt[r] = w.s.Now()
	}
	w.s.Probe("next_hit")
	return r, ih, true
}

// drain empties the real queue at the end of a history: everything the model
// holds as waiting must come out, once, in order, and nothing else.
func (w *world) drain() {
	w.note("drain")
	for i := 0; i < 64; i++ {
		if _, ok := w.next(); !ok {
			return
		}
	}
	w.s.Fail("handed_out_while_in_flight", "Next keeps handing out torrents without any Ready; history:%s", w.tail())
}

// arbitrary: every sequence of the four operations, from 1-3 client tasks
// serialised by a lock.
func arbitrary(w *world, nOps int, disciplined bool) {
	s, tp := w.s, w.s.Tape
	n := len(w.hashes)
	nTasks := 1 + tp.Draw(3)
	var wg ssync.WaitGroup
	left := nOps
	for t := 0; t < nTasks; t++ {
		wg.Add(1)
		simrt.Go(func() {
			defer wg.Done()
			for {
				w.mu.Lock()
				if left <= 0 {
					w.mu.Unlock()
					return
				}
				left--
				switch tp.Draw(4) {
				case 0:
					w.next()
				case 1:
					h := tp.Draw(n)
					if disciplined && (w.m.waiting(h) >= 0 || w.m.inflight[h]) {
						// callers that "check first" (the documented contract of Add)
						w.eject(h)
					} else {
						w.add(h)
					}
				case 2:
					w.ready(tp.Draw(n))
				case 3:
					w.eject(tp.Draw(n))
				}
				s.State(w.m.hash())
				w.mu.Unlock()
				simrt.Yield()
			}
		})
	}
	wg.Wait()
}

// schedulerShaped: the shape of histories the scheduler produces: a ticker
// pulls the next torrent and an announce "response" arrives after a drawn
// latency (Ready, blindly, as announceErrEvent does); lifecycle tasks add
// torrents that are not tracked and eject tracked ones.
func schedulerShaped(w *world, nOps int, disciplined bool) {
	s, tp := w.s, w.s.Tape
	n := len(w.hashes)
	tracked := map[int]bool{}
	var wg ssync.WaitGroup
	stop := false
	ticks := nOps / 2
	wg.Add(1)
	simrt.Go(func() { // announce ticker
		defer wg.Done()
		for i := 0; i < ticks; i++ {
			simrt.Sleep(time.Second)
			w.mu.Lock()
			h, ok := w.next()
			s.State(w.m.hash())
			w.mu.Unlock()
			if !ok {
				continue
			}
			lat := time.Duration(1+tp.Draw(2500)) * time.Millisecond
			wg.Add(1)
			simrt.Go(func() { // announce round trip, then the result event
				defer wg.Done()
				simrt.Sleep(lat)
				w.mu.Lock()
				w.ready(h)
				s.State(w.m.hash())
				w.mu.Unlock()
			})
		}
		stop = true
	})
	nLife := 1 + tp.Draw(2)
	for t := 0; t < nLife; t++ {
		wg.Add(1)
		simrt.Go(func() {
			defer wg.Done()
			for i := 0; i < nOps/2 && !stop; i++ {
				simrt.Sleep(time.Duration(100+tp.Draw(1900)) * time.Millisecond)
				w.mu.Lock()
				h := tp.Draw(n)
				switch {
				case !tracked[h]:
					tracked[h] = true
					w.add(h)
				case !disciplined && tp.Chance(300):
					w.add(h) // re-added without removal
				default:
					delete(tracked, h)
					w.eject(h)
				}
				s.State(w.m.hash())
				w.mu.Unlock()
			}
		})
	}
	wg.Wait()
}

func body(s *simrt.Sim, tier string) {
	// One run in 64 observes the queue inside running schedulers (workload
	// variants are out of band: simrt.Tape.Variant).
	if s.Tape.Variant%64 == 7 || os.Getenv("KSIM_C20_MODE") == "invivo" {
		invivo(s, tier)
		return
	}
	tp := s.Tape
	n := 4 + tp.Draw(3)
	w := &world{s: s, q: announcequeue.New(), m: &model{inflight: map[int]bool{}}, idx: map[core.InfoHash]int{}}
	for i := 0; i < n; i++ {
		h := core.NewInfoHashFromBytes([]byte{byte('a' + i)})
		w.hashes = append(w.hashes, h)
		w.idx[h] = i
	}
	shape := tp.Draw(2)
	// disciplined: Add is only issued for torrents that are not in the queue
	// (the contract the code documents); otherwise every sequence is allowed,
	// as the statement quantifies.
	disciplined := tp.Draw(3) == 2
	nOps := 8 + tp.Draw(53)
	if tier == "thorough" {
		nOps += tp.Draw(140)
	}
	if shape == 0 {
		s.Probe("shape_arbitrary")
		arbitrary(w, nOps, disciplined)
	} else {
		s.Probe("shape_scheduler")
		schedulerShaped(w, nOps, disciplined)
	}
	if disciplined {
		s.Probe("disciplined_history")
	}
	w.drain()
	s.Probe("queue_ops_direct")
	kit.SetSample(map[string]any{"driver": "direct model-based sequences (not the in-scheduler decorator)", "torrents": n,
		"shape": []string{"arbitrary", "scheduler_shaped"}[shape], "disciplined_add": disciplined, "ops": w.ops})
}

func TestC20(t *testing.T) {
	kit.Main(t, kit.Spec{
		Property: "C20",
		Body:     body,
		Config: func(tier string) simrt.Config {
			return simrt.Config{MaxSteps: 20_000_000, Horizon: 6 * time.Hour, PanicIsFailure: true}
		},
		Real: []string{"lib/torrent/scheduler/announcequeue.QueueImpl"},
		Stub: []string{"clients of the queue: harness tasks serialised by a lock (ticker, announce round trips, torrent lifecycle); the real scheduler is not part of this check"},
		Rule: "one run = one history of <=60 (thorough <=200) Add/Next/Ready/Eject operations over 4-6 info hashes, either arbitrary operations from 1-3 client tasks or scheduler-shaped (ticker + delayed Ready + add/eject lifecycle), with or without the 'Add only when absent' caller discipline, followed by a drain; every Next result is compared with the reference model; distinct = distinct event-log hash",
		Assumptions: []string{
			"direct driver only: the histories the real scheduler produces are observed by a separate (in-scheduler) check",
			"an Add of a torrent that is already waiting may keep or lose its place (both accepted); an Add of a torrent in flight must not make it waiting",
		},
	})
}
