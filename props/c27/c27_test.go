// C27: the in-memory peer store returns fresh, distinct announcements.
//
// Real: tracker/peerstore.LocalStore with its cleanup task (two tickers, fake
// clock). Announcer and lookup tasks interleave with the cleanup passes at the
// store's lock operations: tasks are made ready at the very instants the
// tickers fire (and one second around them), around TTL expiry, and -- in some
// runs -- are stalled in the middle of an operation by injected pauses.
//
// Oracle = model A.7 judged with [invoke, return] intervals:
//
//	GetPeers(h, n) returns <= n peers with distinct ids, none flagged origin;
//	every returned peer equals an announcement of that peer for h that is not
//	superseded (no later announcement of the same peer completed before the
//	lookup started); an announcement that completed before the lookup started
//	and is younger than TTL when the lookup returns is present whenever n is at
//	least the number of peers ever announced for h. Expired announcements may
//	or may not be returned.
package c27

import (
	"fmt"
	"sort"
	"strings"
	"testing"
	"time"

	"github.com/uber/kraken/core"
	"github.com/uber/kraken/tracker/peerstore"

	"kverif/kit"
	sclock "kverif/shim/clock"
	ssync "kverif/shim/sync"
	simrt "kverif/sim"
)

type ann struct {
	h        int
	peer     int
	ip       string
	port     int
	complete bool
	t0, t1   time.Duration
	s0, s1   int64 // s1 == 0 while in flight
}

type world struct {
	s        *simrt.Sim
	tp       *simrt.Tape
	ttl      time.Duration
	store    *peerstore.LocalStore
	hashes   []core.InfoHash
	ids      []core.PeerID
	idIndex  map[core.PeerID]int
	anns     []*ann
	t0       time.Duration // store creation
	pEntries time.Duration // period of the expired-entries cleanup ticker
	pGroups  time.Duration // period of the expired-groups cleanup ticker
	nPort    int
	nGets    int
	nMust    int
	nExpired int
	nAtTick  int
	big      bool
}

// wait draws how long the calling task sleeps before its next operation.
func (w *world) wait() {
	tp, s := w.tp, w.s
	sec := time.Second
	untilTick := func(period time.Duration) {
		el := s.Now() - w.t0
		k := el/period + 1
		if tp.Draw(4) == 3 {
			k++
		}
		target := w.t0 + k*period
		switch tp.Draw(4) {
		case 0: // the very instant the ticker fires
			w.nAtTick++
		case 1:
			target -= sec
		case 2:
			target += sec
		case 3:
			target += time.Duration(tp.Draw(int(w.ttl/sec)+2)) * sec
		}
		if d := target - s.Now(); d > 0 {
			simrt.Sleep(d)
		}
	}
	switch k := tp.Draw(12); {
	case k <= 2:
	case k <= 4:
		simrt.Sleep(time.Duration(1+tp.Draw(5)) * sec)
	case k == 5:
		simrt.Sleep(w.ttl - 2*sec + time.Duration(tp.Draw(5))*sec)
	case k == 6:
		simrt.Sleep(w.ttl/2 + time.Duration(tp.Draw(3))*sec)
	case k <= 9:
		untilTick(w.pEntries)
	default:
		untilTick(w.pGroups)
	}
}

func (w *world) sleepTo(t time.Duration) {
	if d := t - w.s.Now(); d > 0 {
		simrt.Sleep(d)
	}
}

// lapse is the script of an announcer task in the "lapse" variant.
func (w *world) lapse(who string) {
	tp := w.tp
	sec := time.Second
	g := w.t0 + w.pGroups // first hourly group cleanup
	// an announcement that lapses after the last 5-minute pass before g, and before g
	lo, hi := g-5*time.Minute-w.ttl+2*sec, g-w.ttl-2*sec
	if tp.Chance(300) {
		lo -= 6 * time.Minute // or one which that pass already collected
	}
	w.sleepTo(lo + time.Duration(tp.Draw(int((hi-lo)/sec)+1))*sec)
	w.announce(who)
	// again at the instant of the group cleanup (or a second around it)
	switch tp.Draw(5) {
	case 0:
		w.sleepTo(g - sec)
	case 1:
		w.sleepTo(g + sec)
	default:
		w.sleepTo(g)
		w.nAtTick++
	}
	w.announce(who)
	if tp.Chance(500) {
		w.lookup(who)
	}
	w.sleepTo(g + time.Duration(2+tp.Draw(8))*sec)
	w.lookup(who)
}

func (w *world) announce(who string) {
	tp, s := w.tp, w.s
	a := &ann{h: tp.Draw(len(w.hashes)), peer: tp.Draw(len(w.ids)), complete: tp.Draw(2) == 1}
	w.nPort++
	a.port = 1000 + w.nPort // unique per announcement
	a.ip = fmt.Sprintf("10.0.%d.%d", tp.Draw(2), a.peer+1)
	a.t0, a.s0 = s.Now(), s.NextSeq()
	w.anns = append(w.anns, a)
	err := w.store.UpdatePeer(w.hashes[a.h], core.NewPeerInfo(w.ids[a.peer], a.ip, a.port, false, a.complete))
	a.t1, a.s1 = s.Now(), s.NextSeq()
	s.Logf("%s announce t%d p%d %s:%d complete=%v -> %v", who, a.h, a.peer, a.ip, a.port, a.complete, err)
	if err != nil {
		s.Fail("update_peer_error", "UpdatePeer(t%d, p%d) failed: %v", a.h, a.peer, err)
	}
}

func (w *world) lookup(who string) {
	tp, s := w.tp, w.s
	h := tp.Draw(len(w.hashes))
	n := len(w.ids) + 1 - tp.Draw(len(w.ids)+3) // mostly >= group size, down to -1
	if w.big && tp.Chance(800) {
		n = 3 + tp.Draw(len(w.ids)/2-2)
	}
	gt0, gs0 := s.Now(), s.NextSeq()
	res, err := w.store.GetPeers(w.hashes[h], n)
	gt1, gs1 := s.Now(), s.NextSeq()
	w.nGets++
	var desc []string
	for _, r := range res {
		if r == nil {
			s.Fail("nil_peer_returned", "GetPeers(t%d,%d) returned a nil entry", h, n)
		}
		name := "?"
		if i, ok := w.idIndex[r.PeerID]; ok {
			name = fmt.Sprintf("p%d", i)
		}
		desc = append(desc, fmt.Sprintf("%s@%d", name, r.Port))
	}
	sort.Strings(desc)
	s.Logf("%s lookup t%d n=%d -> [%s] %v", who, h, n, strings.Join(desc, " "), err)
	if err != nil {
		s.Fail("get_peers_error", "GetPeers(t%d,%d) failed: %v", h, n, err)
	}
	limit := n
	if limit < 0 {
		limit = 0
	}
	if len(res) > limit {
		s.Fail("more_than_n_peers", "GetPeers(t%d,%d) returned %d peers [%s]", h, n, len(res), strings.Join(desc, " "))
	}
	seen := map[int]bool{}
	for _, r := range res {
		pi, ok := w.idIndex[r.PeerID]
		if !ok {
			s.Fail("unknown_peer_returned", "GetPeers(t%d,%d) returned peer id %s nobody announced", h, n, r.PeerID.String())
		}
		if seen[pi] {
			s.Fail("duplicate_peer_returned", "GetPeers(t%d,%d) returned p%d twice: [%s]", h, n, pi, strings.Join(desc, " "))
		}
		seen[pi] = true
		if r.Origin {
			s.Fail("agent_flagged_origin", "GetPeers(t%d,%d) returned p%d flagged as origin", h, n, pi)
		}
		// the entry must be an announcement of (h, p) not superseded before the lookup started
		var match *ann
		found := false
		for _, a := range w.anns {
			if a.h != h || a.peer != pi || a.s0 > gs1 {
				continue
			}
			found = true
			if a.ip == r.IP && a.port == r.Port && a.complete == r.Complete {
				match = a
			}
		}
		if !found {
			s.Fail("peer_of_other_torrent_returned", "GetPeers(t%d,%d) returned p%d which never announced t%d", h, n, pi, h)
		}
		if match == nil {
			s.Fail("entry_matches_no_announcement", "GetPeers(t%d,%d) returned p%d as %s:%d complete=%v, which matches none of its announcements for t%d", h, n, pi, r.IP, r.Port, r.Complete, h)
		}
		for _, b := range w.anns {
			if b.h == h && b.peer == pi && b != match && match.s1 != 0 && b.s0 > match.s1 && b.s1 != 0 && b.s1 < gs0 {
				s.Fail("stale_announcement_returned", "GetPeers(t%d,%d) at %v returned p%d as announced at %v (%s:%d complete=%v) although its later announcement of %v (%s:%d complete=%v) had completed before the lookup started",
					h, n, gt0, pi, match.t0, match.ip, match.port, match.complete, b.t0, b.ip, b.port, b.complete)
			}
		}
		if gt0 > match.t1+w.ttl {
			w.nExpired++
		}
	}
	// presence of fresh announcements
	ever := map[int]bool{}
	for _, a := range w.anns {
		if a.h == h && a.s0 < gs1 {
			ever[a.peer] = true
		}
	}
	if n < len(ever) {
		return
	}
	for _, a := range w.anns {
		if a.h != h || a.s1 == 0 || a.s1 > gs0 {
			continue
		}
		if gt1 < a.t0+w.ttl { // strictly younger than TTL for the whole lookup
			w.nMust++
			if !seen[a.peer] {
				s.Fail("fresh_announcement_missing", "GetPeers(t%d,%d) during [%v,%v] returned [%s] without p%d, whose announcement of [%v,%v] (%s:%d) is younger than the TTL %v; %d peers ever announced t%d; store created at %v, cleanup periods %v / %v",
					h, n, gt0, gt1, strings.Join(desc, " "), a.peer, a.t0, a.t1, a.ip, a.port, w.ttl, len(ever), h, w.t0, w.pEntries, w.pGroups)
			}
		}
	}
	var st uint64 = 1469598103934665603
	for i := range w.ids {
		if seen[i] {
			st = (st ^ uint64(i+1)) * 1099511628211
		}
	}
	s.State(st ^ uint64(len(ever))<<32)
}

func body(s *simrt.Sim, tier string) {
	tp := s.Tape
	w := &world{s: s, tp: tp, idIndex: map[core.PeerID]int{}}
	w.ttl = []time.Duration{20 * time.Second, 90 * time.Second, 4 * time.Minute, 7 * time.Minute, 50 * time.Minute, 61 * time.Minute}[tp.Draw(6)]
	nTorrents := 1 + tp.Draw(2)
	nPeers := 2 + tp.Draw(5)
	nAnnouncers := 3 + tp.Draw(3)
	nLookers := 1 + tp.Draw(3)
	nOps := 3 + tp.Draw(6)
	if tier == "thorough" {
		nOps += tp.Draw(8)
	}
	// Workload variant "lapse" (a third of the runs, out of band): one torrent,
	// 1-3 peers, a short TTL; everybody announces a few minutes before the
	// hourly group cleanup so that the whole group has lapsed when it runs
	// (some entries not yet collected by the 5-minute pass), and announces and
	// looks up again at that very instant.
	// Workload variant "big group" (out of band): 8-40 peers and lookups asking
	// for 3 .. half of them, so that sampling (not "return everybody") is what
	// GetPeers does.
	w.big = s.Tape.Variant%3 == 1 && (s.Tape.Variant/3)%2 == 1
	if w.big {
		nPeers = 8 + int(s.Tape.Variant/6%33)
		s.Probe("big_group_variant")
	}
	lapse := s.Tape.Variant%3 == 2
	if lapse {
		w.ttl = []time.Duration{20 * time.Second, 90 * time.Second, 4 * time.Minute}[int(s.Tape.Variant/3%3)]
		nTorrents, nPeers = 1, 1+int(s.Tape.Variant/9%3)
		s.Probe("lapse_variant")
	}
	for i := 0; i < nTorrents; i++ {
		w.hashes = append(w.hashes, core.NewInfoHashFromBytes([]byte(fmt.Sprintf("torrent-%d", i))))
	}
	for i := 0; i < nPeers; i++ {
		id, err := core.HashedPeerID(fmt.Sprintf("peer-%d", i))
		if err != nil {
			panic(err)
		}
		w.ids = append(w.ids, id)
		w.idIndex[id] = i
	}
	pauses := 0
	if tp.Chance(350) {
		pauses = 1 + tp.Draw(3)
	}
	simrt.Sleep(time.Duration(tp.Draw(4)) * 250 * time.Millisecond)
	// The simulator gives every timer created by kraken code a unique
	// nanosecond offset (creation sequence), so that no two of them fire at the
	// same instant. The store's constructor creates its two tickers right
	// after this call, in the order entries, groups.
	w.t0 = s.Now()
	w.pEntries = 5*time.Minute + s.TimerEpsAfter(1)
	w.pGroups = time.Hour + s.TimerEpsAfter(2)
	if w.pGroups-time.Hour < w.pEntries-5*time.Minute {
		s.Probe("group_pass_before_entries_pass_at_common_instants")
	}
	w.store = peerstore.NewLocalStore(peerstore.LocalConfig{TTL: w.ttl}, sclock.New())
	defer w.store.Close()
	if pauses > 0 {
		s.InjectPauses(pauses, 60*(nAnnouncers+nLookers), 11*time.Minute)
	}
	var wg ssync.WaitGroup
	for i := 0; i < nAnnouncers; i++ {
		wg.Add(1)
		who := fmt.Sprintf("a%d", i)
		simrt.Go(func() {
			defer wg.Done()
			if lapse {
				w.lapse(who)
				return
			}
			for op := 0; op < nOps; op++ {
				w.wait()
				w.announce(who)
				if tp.Draw(4) == 3 {
					w.lookup(who)
				}
			}
		})
	}
	for i := 0; i < nLookers; i++ {
		wg.Add(1)
		who := fmt.Sprintf("l%d", i)
		simrt.Go(func() {
			defer wg.Done()
			if lapse {
				w.sleepTo(w.t0 + w.pGroups + time.Duration(tp.Draw(3))*time.Second)
				w.lookup(who)
				w.sleepTo(w.t0 + w.pGroups + time.Duration(5+tp.Draw(10))*time.Second)
				w.lookup(who)
				return
			}
			for op := 0; op < nOps+2; op++ {
				w.wait()
				w.lookup(who)
			}
		})
	}
	wg.Wait()
	// final sweep after everything settled
	for h := range w.hashes {
		_ = h
		w.lookup("m")
	}
	if w.nMust > 0 {
		s.Probe("fresh_presence_asserted")
	}
	if w.nExpired > 0 {
		s.Probe("expired_entry_still_returned")
	}
	if w.nAtTick > 0 {
		s.Probe("task_released_at_cleanup_tick")
	}
	if s.Now()-w.t0 > w.pGroups {
		s.Probe("run_crossed_hourly_group_cleanup")
	}
	if pauses > 0 {
		s.Probe("pauses_armed")
	}
	kit.SetSample(map[string]any{"ttl": w.ttl.String(), "torrents": nTorrents, "peers": nPeers, "announcer_tasks": nAnnouncers, "lookup_tasks": nLookers,
		"ops_per_task": nOps, "announcements": len(w.anns), "lookups": w.nGets, "presence_assertions": w.nMust, "expired_entries_returned": w.nExpired,
		"releases_at_tick_instant": w.nAtTick, "pauses_armed": pauses, "fake_duration": (s.Now() - w.t0).String()})
}

func TestC27(t *testing.T) {
	kit.Main(t, kit.Spec{
		Property: "C27",
		Body:     body,
		Config: func(tier string) simrt.Config {
			return simrt.Config{MaxSteps: 400000, Horizon: 400 * time.Hour, PanicIsFailure: true}
		},
		Real: []string{"tracker/peerstore.LocalStore incl. its cleanup task (5-min expired-entries pass, 1-h expired-groups pass) on the fake clock"},
		Stub: []string{"callers: announcer and lookup tasks of the harness", "fake clock / tickers of the simulator"},
		Rule: "one run = TTL in {20s,90s,4m,7m,50m,61m}, 1..2 torrents, 2..6 peers, 3..5 announcer tasks and 1..3 lookup tasks with 3..8 operations each; before every operation the task waits a drawn time: nothing, seconds, around TTL, or until the next (or second next) firing of a cleanup ticker exactly / 1s before / 1s after / up to TTL after; 35% of the runs arm 1..3 injected task pauses of up to 11 min; every announcement carries a unique port so results identify the announcement; non-trivial = >=1 contested scheduling decision; distinct = distinct event-log hash",
		Assumptions: []string{"an announcement is required to be present only if it completed before the lookup was invoked and is strictly younger than TTL (measured from its invocation) when the lookup returns; equality and overlap are decided in favour of the implementation",
			"the instants of the cleanup passes are computed from the simulator's documented per-timer nanosecond offsets; if that mapping changes the harness still is sound but loses the exact co-scheduling (probe task_released_at_cleanup_tick stays, mutant sensitivity would drop)"},
	})
}
