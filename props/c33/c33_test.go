// C33: tags reach a remote cluster only after their blobs do.
//
// Real: tagreplication.Executor, blobclient cluster client (ClientResolver,
// Locations, Poll on 202, HTTPClient.ReplicateToRemote), tagclient provider /
// single client (Has, Origin, PutAndReplicate), httputil.Send, static hostlist;
// in "manager" runs also persistedretry.Manager + tagreplication.Store on
// sqlite (simsql).
//
// Scripted (chi routers with the route patterns and parameter parsing of the
// real servers, so a request that does not match the wire format is not
// served): the local origin cluster (GET /blobs/{digest}/locations,
// POST /namespace/{namespace}/blobs/{digest}/remote/{remote}: 202 while the
// blob is still being fetched, 200 once it has been pushed to the remote
// cluster, 404/5xx from the tape) and, per remote zone, the remote build-index
// (HEAD /tags/{tag}, GET /origin, PUT /tags/{tag}/digest/{digest}?replicate=true,
// which like the real tagserver refuses the tag when a dependency is missing in
// its origin cluster).
//
// Oracles over the simhttp attempt log:
//
//	tag_put_before_blob_confirmed  every PUT of a tag issued to a remote
//	    build-index is preceded, for every dependency blob, by a replicate-to-
//	    remote request (for that blob and that zone's origin cluster) whose 200
//	    response the same client had already received
//	success_without_tag            Exec returns nil only if the remote holds the tag
//	exec_failed_when_healthy       (direct runs) with all servers healthy one
//	                               Exec replicates the tag
//	remote_never_got_tag           (manager runs) after faults stop every accepted
//	                               replication task has been acknowledged by the
//	                               remote build-index within the bound, and the
//	                               task table is empty (task_not_retired)
//
//go:debug randseednop=0
package c33

import (
	"fmt"
	"io"
	"math/rand"
	"net/http"
	"net/url"
	"os"
	"path/filepath"
	"sort"
	"strings"
	"testing"
	"time"

	"github.com/go-chi/chi"
	"github.com/uber-go/tally"
	"github.com/uber/kraken/build-index/tagclient"
	"github.com/uber/kraken/core"
	"github.com/uber/kraken/lib/hashring"
	"github.com/uber/kraken/lib/hostlist"
	"github.com/uber/kraken/lib/persistedretry"
	"github.com/uber/kraken/lib/persistedretry/tagreplication"
	"github.com/uber/kraken/lib/store"
	"github.com/uber/kraken/origin/blobclient"
	"github.com/uber/kraken/utils/httputil"

	"kverif/kit"
	oc "kverif/props/origincluster"
	ssync "kverif/shim/sync"
	simrt "kverif/sim"
	"kverif/simhttp"
	"kverif/simsql"
)

const ms = time.Millisecond

type zone struct {
	bi, originDNS string
	// real-origins runs: addresses and directories of the zone's real origins
	realAddrs, realDirs []string
	blobs               map[string]bool        // hex -> present in the remote origin cluster (scripted origins)
	tags                map[string]core.Digest // held by the remote build-index
	putsAcked           map[string]int
}

type tagRec struct {
	tag    string
	digest core.Digest
	deps   core.DigestList
	z      *zone
	task   func() *tagreplication.Task
	acked  bool // Add acknowledged (manager runs)
}

type world struct {
	s         *simrt.Sim
	hn        *simhttp.Net
	faultsOn  bool
	srvPm     int // scripted server-side failure rate while faults are on
	origins   []string
	zones     []*zone
	tags      []*tagRec
	fetch     map[string]int    // origin|hex -> 202 answers left (blob still being fetched)
	layerName map[string]string // hex -> content of a layer blob (real-origins runs)
	unrouted  []string
	checked   int // log prefix already checked
}

// present reports whether the remote origin cluster of z holds the blob: the
// scripted cluster's own record, or — with real origins — the cache directories
// of the zone's origins, read straight from disk (ground truth, whether or not
// the origin processes are alive).
func (w *world) present(z *zone, hex string) bool {
	if len(z.realDirs) == 0 {
		return z.blobs[hex]
	}
	for _, dir := range z.realDirs {
		if _, ok := oc.LocalCopy(dir, hex); ok {
			return true
		}
	}
	return false
}

// zoneClusters resolves a remote cluster name to the real cluster client over
// that zone's real origins (the production provider resolves the name by DNS).
type zoneClusters struct{ w *world }

func (p zoneClusters) Provide(dns string) (blobclient.ClusterClient, error) {
	for _, z := range p.w.zones {
		if z.originDNS == dns {
			return oc.ClusterClient(0, z.realAddrs...), nil
		}
	}
	return nil, fmt.Errorf("unknown remote cluster %q", dns)
}

func digest(s string) core.Digest {
	d, err := core.NewDigester().FromBytes([]byte(s))
	if err != nil {
		panic(err)
	}
	return d
}

// ---------------------------------------------------------------------------
// scripted servers

func (w *world) unroutedHandler(who string) http.HandlerFunc {
	return func(rw http.ResponseWriter, r *http.Request) {
		w.unrouted = append(w.unrouted, who+": "+r.Method+" "+r.URL.EscapedPath())
		rw.WriteHeader(http.StatusNotFound)
	}
}

func (w *world) srvFault() int {
	if !w.faultsOn || w.srvPm == 0 || !w.s.Tape.Chance(w.srvPm) {
		return 0
	}
	w.s.Fault("scripted_server_error")
	return []int{500, 503, 500, 502}[w.s.Tape.Draw(4)]
}

func (w *world) originHandler(addr string) http.Handler {
	s := w.s
	r := chi.NewRouter()
	r.NotFound(w.unroutedHandler(addr))
	r.MethodNotAllowed(w.unroutedHandler(addr))
	r.Get("/blobs/{digest}/locations", func(rw http.ResponseWriter, req *http.Request) {
		if _, err := httputil.ParseDigest(req, "digest"); err != nil {
			w.unrouted = append(w.unrouted, addr+": bad digest in "+req.URL.EscapedPath())
			rw.WriteHeader(400)
			return
		}
		if c := w.srvFault(); c != 0 {
			rw.WriteHeader(c)
			return
		}
		locs := append([]string(nil), w.origins...)
		if len(locs) > 1 {
			switch s.Tape.Draw(3) {
			case 1:
				locs[0], locs[1] = locs[1], locs[0]
			case 2:
				locs = locs[:1]
			}
		}
		rw.Header().Set("Origin-Locations", strings.Join(locs, ","))
		rw.WriteHeader(200)
	})
	r.Post("/namespace/{namespace}/blobs/{digest}/remote/{remote}", func(rw http.ResponseWriter, req *http.Request) {
		_, err1 := httputil.ParseParam(req, "namespace")
		d, err2 := httputil.ParseDigest(req, "digest")
		remote, err3 := httputil.ParseParam(req, "remote")
		if err1 != nil || err2 != nil || err3 != nil {
			w.unrouted = append(w.unrouted, addr+": bad params in "+req.URL.EscapedPath())
			rw.WriteHeader(400)
			return
		}
		var z *zone
		for _, c := range w.zones {
			if c.originDNS == remote {
				z = c
			}
		}
		if z == nil {
			rw.WriteHeader(500) // unknown remote cluster
			return
		}
		if w.faultsOn && w.srvPm > 0 && s.Tape.Chance(w.srvPm) {
			s.Fault("scripted_origin_error")
			switch s.Tape.Draw(4) {
			case 0:
				rw.WriteHeader(500)
			case 1:
				rw.WriteHeader(503)
			case 2:
				rw.WriteHeader(404) // blob unknown to this origin and its backend
			case 3:
				z.blobs[d.Hex()] = true // pushed, but the origin fails afterwards
				rw.WriteHeader(500)
			}
			return
		}
		k := addr + "|" + d.Hex()
		if w.fetch[k] > 0 {
			w.fetch[k]--
			s.Probe("accepted_202")
			rw.WriteHeader(http.StatusAccepted)
			return
		}
		simrt.Sleep(time.Duration(s.Tape.Draw(3)) * 400 * ms) // upload to the remote cluster
		z.blobs[d.Hex()] = true
		rw.WriteHeader(200)
	})
	return r
}

func (w *world) buildIndexHandler(z *zone) http.Handler {
	s := w.s
	r := chi.NewRouter()
	r.NotFound(w.unroutedHandler(z.bi))
	r.MethodNotAllowed(w.unroutedHandler(z.bi))
	r.Head("/tags/{tag}", func(rw http.ResponseWriter, req *http.Request) {
		tag, err := httputil.ParseParam(req, "tag")
		if err != nil {
			rw.WriteHeader(400)
			return
		}
		if c := w.srvFault(); c != 0 {
			rw.WriteHeader(c)
			return
		}
		if _, ok := z.tags[tag]; !ok {
			rw.WriteHeader(404)
			return
		}
		rw.WriteHeader(200)
	})
	r.Get("/origin", func(rw http.ResponseWriter, req *http.Request) {
		if c := w.srvFault(); c != 0 {
			rw.WriteHeader(c)
			return
		}
		io.WriteString(rw, z.originDNS)
	})
	r.Put("/tags/{tag}/digest/{digest}", func(rw http.ResponseWriter, req *http.Request) {
		tag, err1 := httputil.ParseParam(req, "tag")
		d, err2 := httputil.ParseDigest(req, "digest")
		if err1 != nil || err2 != nil {
			w.unrouted = append(w.unrouted, z.bi+": bad params in "+req.URL.EscapedPath())
			rw.WriteHeader(400)
			return
		}
		if httputil.GetQueryArg(req, "replicate", "false") != "true" {
			w.unrouted = append(w.unrouted, z.bi+": tag put without replicate=true")
		}
		var tr *tagRec
		for _, t := range w.tags {
			if t.tag == tag && t.z == z {
				tr = t
			}
		}
		if tr == nil || tr.digest != d {
			w.unrouted = append(w.unrouted, z.bi+": put of unknown tag/digest "+req.URL.EscapedPath())
			rw.WriteHeader(400)
			return
		}
		w.checkOrder() // early detection; the same check runs at the end
		if len(z.realDirs) > 0 {
			// real origins: the build-index is being ASKED to store the tag now,
			// so every dependency must be in the remote origin cluster already
			for _, dep := range tr.deps {
				if !w.present(z, dep.Hex()) {
					s.Fail("tag_put_before_blob_present", "the remote build-index %s was asked to store tag %s at %v while dependency %s is in no origin of the remote cluster %v", z.bi, tag, s.Now(), dep.Hex()[:12], z.realAddrs)
				}
			}
			s.Probe("real_origins_tag_put_judged")
		}
		stored := false
		if w.faultsOn && w.srvPm > 0 && s.Tape.Chance(w.srvPm) {
			s.Fault("scripted_tag_put_error")
			switch s.Tape.Draw(3) {
			case 0:
				rw.WriteHeader(500)
				return
			case 1:
				rw.WriteHeader(503)
				return
			case 2:
				stored = true // stored, then the handler fails (e.g. its own replication)
			}
		}
		// the real tagserver stats every dependency in its origin cluster
		for _, dep := range tr.deps {
			if !w.present(z, dep.Hex()) {
				s.Probe("remote_refused_missing_dependency")
				rw.WriteHeader(500)
				io.WriteString(rw, "cannot upload tag, missing dependency "+dep.String())
				return
			}
		}
		z.tags[tag] = d
		if stored {
			rw.WriteHeader(500)
			return
		}
		z.putsAcked[tag]++
		rw.WriteHeader(200)
	})
	return r
}

// ---------------------------------------------------------------------------
// the order oracle

// checkOrder scans the part of the attempt log not yet checked.
func (w *world) checkOrder() {
	s := w.s
	log := w.hn.Log
	for ; w.checked < len(log); w.checked++ {
		put := log[w.checked]
		if put.Method != http.MethodPut || !strings.HasPrefix(put.Path, "/tags/") {
			continue
		}
		var tr *tagRec
		for _, t := range w.tags {
			if t.z.bi == put.To && put.Path == "/tags/"+url.PathEscape(t.tag)+"/digest/"+t.digest.String() {
				tr = t
			}
		}
		if tr == nil {
			s.Fail("unknown_tag_put", "PUT %s%s matches no replicated tag", put.To, put.Path)
		}
		s.Probe("remote_tag_put_issued")
		for _, dep := range tr.deps {
			want := "/blobs/" + dep.String() + "/remote/" + tr.z.originDNS
			ok := false
			var seen []string
			for _, e := range log[:w.checked] {
				if e.Method != http.MethodPost || !strings.HasPrefix(e.Path, "/namespace/") || !strings.HasSuffix(e.Path, want) {
					continue
				}
				seen = append(seen, fmt.Sprintf("#%d->%s status=%d err=%q", e.Seq, e.To, e.Status, e.Err))
				if e.From == put.From && e.Status == http.StatusOK && e.Err == "" && e.Done <= put.At {
					ok = true
				}
			}
			if !ok {
				s.Fail("tag_put_before_blob_confirmed", "request #%d PUT %s%s was issued at %v although no success response of replicate-to-remote for dependency %s to %s had been received by %s; replicate attempts for it so far: %v",
					put.Seq, put.To, put.Path, put.At, dep.Hex()[:12], tr.z.originDNS, put.From, seen)
			}
		}
	}
}

// ---------------------------------------------------------------------------

func body(s *simrt.Sim, tier string) {
	tp := s.Tape
	w := &world{s: s, fetch: map[string]int{}, layerName: map[string]string{}}
	w.hn = simhttp.Install(s)
	hn := w.hn
	mode := tp.Draw(2) // 0 direct Exec loops, 1 under the real manager and store
	nZones := 1 + tp.Draw(2)
	nOrigins := 1 + tp.Draw(2)
	nTags := 1 + tp.Draw(4)
	if tier == "thorough" {
		nTags += tp.Draw(4)
	}
	w.srvPm = []int{0, 100, 250, 450}[tp.Draw(4)]
	netPm := []int{0, 30, 80, 150}[tp.Draw(4)]
	nPauses := 0
	const maxPause = 20 * time.Second
	if tp.Chance(250) {
		nPauses = 1 + tp.Draw(2)
		s.InjectPauses(nPauses, 1500, maxPause)
	}
	// servers
	srvNode := s.NewNode("servers")
	for i := 0; i < nOrigins; i++ {
		a := fmt.Sprintf("origin%d:80", i+1)
		w.origins = append(w.origins, a)
	}
	// Workload variant (out of band, one run in fifty): the local origin cluster
	// and the remote origin clusters are REAL origins (blobserver incl. its
	// replicate-to-remote handler and the cluster client's UploadBlob, CAStore,
	// refresher, testfs backends); only the remote build-index stays scripted,
	// and it judges "asked to store the tag" against what the remote origins
	// really hold on disk.
	realOrigins := s.Tape.Variant%50 == 4 || os.Getenv("KSIM_C33_REAL") != ""
	if !realOrigins {
		for _, a := range w.origins {
			hn.Register(a, srvNode, w.originHandler(a))
		}
	}
	for i := 0; i < nZones; i++ {
		z := &zone{bi: fmt.Sprintf("bi-remote-%c:80", 'a'+i), originDNS: fmt.Sprintf("origin-remote-%c:80", 'a'+i),
			blobs: map[string]bool{}, tags: map[string]core.Digest{}, putsAcked: map[string]int{}}
		w.zones = append(w.zones, z)
		hn.Register(z.bi, srvNode, w.buildIndexHandler(z))
	}
	var localBackend *oc.Backend
	if realOrigins {
		s.Probe("real_origins_run")
		root := kit.TempDir(s)
		wb := persistedretry.Config{IncomingBuffer: 8, RetryBuffer: 8, NumIncomingWorkers: 1, NumRetryWorkers: 1, MaxTaskThroughput: ms,
			RetryInterval: 5 * time.Second, PollRetriesInterval: 3 * time.Second, WorkqueueMetricsEmitInterval: time.Minute}
		off := store.CleanupConfig{Disabled: true}
		mk := func(name, addr string, cluster []string, backend string) string {
			dir := filepath.Join(root, name)
			_, o, err := oc.Start(s, hn, name, oc.Config{Addr: addr, Cluster: cluster, Dir: dir, Namespace: ".*", BackendAddr: backend,
				Store: store.CAStoreConfig{UploadCleanup: off, CacheCleanup: off}, WriteBack: wb,
				Ring: hashring.Config{MaxReplica: 2}, ClusterProvider: zoneClusters{w}}, 0)
			if err != nil || o == nil {
				s.InfraError("real origin %s: %v", name, err)
			}
			return dir
		}
		localBackend = oc.StartBackend(s, hn, "backend-local:80")
		for zi, z := range w.zones {
			rb := oc.StartBackend(s, hn, fmt.Sprintf("backend-remote-%c:80", 'a'+zi))
			n := 1 + tp.Draw(2)
			for k := 0; k < n; k++ {
				z.realAddrs = append(z.realAddrs, fmt.Sprintf("origin-remote-%c%d:80", 'a'+zi, k+1))
			}
			for k, a := range z.realAddrs {
				z.realDirs = append(z.realDirs, mk(fmt.Sprintf("rorigin-%c%d", 'a'+zi, k+1), a, z.realAddrs, rb.Addr))
			}
		}
		for i, a := range w.origins {
			mk(fmt.Sprintf("lorigin%d", i+1), a, w.origins, localBackend.Addr)
		}
	}
	// workload
	maxFetch := 0
	for i := 0; i < nTags; i++ {
		z := w.zones[tp.Draw(nZones)]
		tag := fmt.Sprintf("repo/img%d:v%d", i, 1+i%2)
		d := digest("manifest-" + tag)
		deps := core.DigestList{d}
		for j, n := 0, tp.Draw(3); j < n; j++ {
			name := fmt.Sprintf("layer-%d-%d", i, j)
			if tp.Chance(150) {
				name = "layer-shared"
			}
			deps = append(deps, digest(name))
			w.layerName[digest(name).Hex()] = name
		}
		tr := &tagRec{tag: tag, digest: d, deps: deps, z: z}
		tr.task = func() *tagreplication.Task { return tagreplication.NewTask(tag, d, deps, z.bi, 0) }
		w.tags = append(w.tags, tr)
		for _, dep := range deps {
			for _, o := range w.origins {
				n := []int{0, 0, 1, 3, 6}[tp.Draw(5)]
				w.fetch[o+"|"+dep.Hex()] = n
				if n > maxFetch {
					maxFetch = n
				}
			}
		}
	}
	if realOrigins && nZones == 2 && (s.Tape.Variant/50)%2 == 1 {
		// the same tag goes to BOTH remote zones (one task per destination, run
		// concurrently): the same blobs are pushed from the same local origins
		// to two different remote clusters at the same time
		for _, tr := range append([]*tagRec{}, w.tags...) {
			other := w.zones[0]
			if tr.z == other {
				other = w.zones[1]
			}
			tag, d, deps := tr.tag, tr.digest, tr.deps
			twin := &tagRec{tag: tag, digest: d, deps: deps, z: other}
			twin.task = func() *tagreplication.Task { return tagreplication.NewTask(tag, d, deps, other.bi, 0) }
			w.tags = append(w.tags, twin)
		}
		s.Probe("real_origins_two_destinations")
	}
	if realOrigins {
		// every dependency is in the local backend; most are also in the local
		// origins' caches already (the others make replicate-to-remote answer 202
		// while the origin fetches them)
		seeder := blobclient.NewProvider()
		seen := map[string]bool{}
		for _, tr := range w.tags {
			names := []string{"manifest-" + tr.tag}
			for _, dep := range tr.deps[1:] {
				names = append(names, w.layerName[dep.Hex()])
			}
			for _, name := range names {
				d := digest(name)
				if seen[d.Hex()] {
					continue
				}
				seen[d.Hex()] = true
				if err := localBackend.Put(oc.BlobRoot+"/"+d.Hex(), []byte(name)); err != nil {
					s.InfraError("seed backend: %v", err)
				}
				if tp.Chance(700) {
					up := s.GoNode(srvNode, "seed", func() {
						for _, a := range w.origins {
							if err := seeder.Provide(a).TransferBlob(d, strings.NewReader(name), uint64(len(name))); err != nil {
								s.InfraError("seed %s: %v", a, err)
							}
						}
					})
					s.Wait(up)
				}
			}
		}
	}
	w.faultsOn = true
	if netPm > 0 {
		hn.FaultFn = simhttp.RandomFaults(s, simhttp.Rates{Refuse: netPm / 3, ResetBefore: netPm / 2, ResetAfter: netPm,
			Status: netPm / 2, Delay: netPm * 2, MaxDelay: 3 * time.Second})
	}
	// client side (local build-index nodes; each has its own executor)
	type client struct {
		node *simrt.Node
		ex   *tagreplication.Executor
		done map[*tagRec]bool
	}
	nClients := 1
	if mode == 0 {
		nClients += tp.Draw(2)
	}
	var clients []*client
	for i := 0; i < nClients; i++ {
		c := &client{node: s.NewNode(fmt.Sprintf("bi-local-%d", i+1)), done: map[*tagRec]bool{}}
		clients = append(clients, c)
		mk := s.GoNode(c.node, "boot", func() {
			hosts, err := hostlist.New(hostlist.Config{Static: w.origins})
			if err != nil {
				s.InfraError("hostlist: %v", err)
			}
			cluster := blobclient.NewClusterClient(blobclient.NewClientResolver(blobclient.NewProvider(), hosts))
			c.ex = tagreplication.NewExecutor(tally.NoopScope, cluster, tagclient.NewProvider(nil))
		})
		s.Wait(mk)
	}
	local, ex := clients[0].node, clients[0].ex

	// execOnce runs one Exec and applies the per-call oracle.
	execOnce := func(tr *tagRec, e persistedretry.Executor, t persistedretry.Task) error {
		err := e.Exec(t)
		cls := "error"
		if err == nil {
			cls = "ok"
		}
		s.Logf("exec %s -> %s", tr.tag, cls)
		w.state()
		if err == nil {
			if got, ok := tr.z.tags[tr.tag]; !ok || got != tr.digest {
				s.Fail("success_without_tag", "Exec(%s -> %s) returned nil but the remote build-index does not hold the tag", tr.tag, tr.z.bi)
			}
			s.Probe("exec_ok")
		} else {
			s.Probe("exec_error")
		}
		return err
	}
	perBlob := time.Duration(maxFetch)*6*time.Second + 10*time.Second
	execMax := time.Duration(4*nOrigins)*perBlob + 60*time.Second
	var sample map[string]any

	if mode == 0 {
		var wg ssync.WaitGroup
		for _, c := range clients {
			for _, tr := range w.tags {
				wg.Add(1)
				attempts := 1 + tp.Draw(3)
				s.GoNode(c.node, "replicate", func() {
					defer wg.Done()
					for a := 0; a < attempts && !c.done[tr]; a++ {
						if execOnce(tr, c.ex, tr.task()) == nil {
							c.done[tr] = true
						}
						simrt.Sleep(time.Duration(tp.Draw(4)) * time.Second)
					}
				})
			}
		}
		wg.Wait()
		w.faultsOn = false
		hn.Quiet = true
		s.Logf("faults stop")
		for _, c := range clients {
			for _, tr := range w.tags {
				if c.done[tr] {
					continue
				}
				wg.Add(1)
				s.GoNode(c.node, "replicate-healthy", func() {
					defer wg.Done()
					healthySince := s.Now()
					for {
						from := s.Now()
						err := execOnce(tr, c.ex, tr.task())
						if err == nil {
							break
						}
						// Real origins remember a failed backend fetch for their
						// error TTL (15 s) and answer from that memory: failures
						// caused by the fault phase may echo for a while after it.
						if realOrigins && s.Now()-healthySince < 2*time.Minute {
							s.Probe("healthy_exec_hit_by_remembered_error")
							simrt.Sleep(5 * time.Second)
							continue
						}
						// an injected task pause lets client timeouts expire: not the servers' fault
						if !s.PausedDuring(from, s.Now()) {
							s.Fail("exec_failed_when_healthy", "with every server healthy Exec(%s -> %s) on %s failed: %v", tr.tag, tr.z.bi, c.node.Name, err)
						}
						s.Probe("healthy_exec_hit_by_pause")
					}
					c.done[tr] = true
				})
			}
		}
		wg.Wait()
		sample = map[string]any{"mode": "direct", "clients": nClients}
	} else {
		cfg := persistedretry.Config{
			IncomingBuffer:               1 + tp.Draw(3),
			RetryBuffer:                  1 + tp.Draw(3),
			NumIncomingWorkers:           1 + tp.Draw(2),
			NumRetryWorkers:              1 + tp.Draw(2),
			MaxTaskThroughput:            []time.Duration{ms, 50 * ms, 500 * ms}[tp.Draw(3)],
			RetryInterval:                time.Duration(1+tp.Draw(5)) * time.Second,
			PollRetriesInterval:          time.Duration(1+tp.Draw(4)) * time.Second,
			WorkqueueMetricsEmitInterval: time.Minute,
		}
		db, err := simsql.Open(s, filepath.Join(kit.TempDir(s), "kraken.db"))
		if err != nil {
			s.InfraError("simsql.Open: %v", err)
		}
		rcfg := tagreplication.RemotesConfig{}
		for _, z := range w.zones {
			rcfg[z.bi] = []string{".*"}
		}
		remotes, err := rcfg.Build()
		if err != nil {
			s.InfraError("remotes: %v", err)
		}
		var m persistedretry.Manager
		boot := s.GoNode(local, "manager", func() {
			st, err := tagreplication.NewStore(db, remotes)
			if err != nil {
				s.InfraError("NewStore: %v", err)
			}
			byTag := map[string]*tagRec{}
			for _, tr := range w.tags {
				byTag[tr.tag+"|"+tr.z.bi] = tr
			}
			m, err = persistedretry.NewManager(cfg, tally.NoopScope, st, &obsExec{inner: ex, run: func(t persistedretry.Task) error {
				tt := t.(*tagreplication.Task)
				return execOnce(byTag[tt.Tag+"|"+tt.Destination], ex, t)
			}})
			if err != nil {
				s.InfraError("NewManager: %v", err)
			}
		})
		s.Wait(boot)
		for _, tr := range w.tags {
			add := s.GoNode(local, "add", func() {
				err := m.Add(tr.task())
				s.Logf("add %s -> %v", tr.tag, err)
				if err == nil {
					tr.acked = true
				}
			})
			s.Wait(add)
			simrt.Sleep(time.Duration(tp.Draw(4)) * time.Second)
		}
		simrt.Sleep(time.Duration(tp.Draw(40)) * time.Second) // fault phase
		w.faultsOn = false
		hn.Quiet = true
		s.Logf("faults stop")
		t0 := s.Now()
		workers := cfg.NumIncomingWorkers + cfg.NumRetryWorkers
		limit := cfg.MaxTaskThroughput * time.Duration(workers)
		per := cfg.RetryInterval + cfg.PollRetriesInterval + 2*time.Second + limit + execMax
		n := len(w.tags)
		rounds := (n+cfg.RetryBuffer-1)/cfg.RetryBuffer + 2
		bound := 3 * (time.Duration(rounds)*per + time.Duration(n)*(limit+execMax) + time.Duration(nPauses)*maxPause)
		rows := func() int {
			var c int
			if err := db.Get(&c, `SELECT COUNT(*) FROM replicate_tag_task`); err != nil {
				s.InfraError("count rows: %v", err)
			}
			return c
		}
		missing := func() *tagRec {
			for _, tr := range w.tags {
				if tr.acked && (tr.z.tags[tr.tag] != tr.digest || !w.ackSeen(tr)) {
					return tr
				}
			}
			return nil
		}
		for s.Now()-t0 <= bound && (missing() != nil || rows() != 0) {
			simrt.Sleep(cfg.PollRetriesInterval + cfg.RetryInterval)
		}
		if tr := missing(); tr != nil {
			s.Fail("remote_never_got_tag", "%v after faults stopped (bound %v) the remote build-index %s has not received and acknowledged tag %s; task rows left: %d", s.Now()-t0, bound, tr.z.bi, tr.tag, rows())
		}
		if c := rows(); c != 0 {
			s.Fail("task_not_retired", "%v after faults stopped (bound %v) every tag is replicated but %d task rows remain", s.Now()-t0, bound, c)
		}
		cl := s.GoNode(local, "close", func() { m.Close() })
		s.Wait(cl)
		sample = map[string]any{"mode": "manager", "config": fmt.Sprintf("%+v", cfg), "bound": bound.String(), "settled_after": (s.Now() - t0).String()}
	}
	w.checkOrder()
	// kraken's clients drop successful responses without closing their bodies,
	// which keeps net/http's per-request timeout goroutines alive until the
	// timeout (<= 60s) fires: let them expire before the bubble ends.
	simrt.Sleep(2 * time.Minute)
	if len(w.unrouted) > 0 {
		sort.Strings(w.unrouted)
		s.Fail("wire_format_mismatch", "requests the scripted servers could not route the way the real routers would: %v", w.unrouted)
	}
	n202 := 0
	for _, e := range hn.Log {
		if e.Status == http.StatusAccepted {
			n202++
		}
	}
	sample["zones"], sample["origins"], sample["tags"], sample["requests"], sample["accepted_202"] = nZones, nOrigins, nTags, len(hn.Log), n202
	sample["server_fault_pm"], sample["net_fault_pm"], sample["pauses"] = w.srvPm, netPm, nPauses
	kit.SetSample(sample)
}

// state publishes a hash of the oracle-visible remote state (tags held and
// blobs present per zone).
func (w *world) state() {
	h := uint64(1469598103934665603)
	mix := func(str string) {
		for _, c := range []byte(str) {
			h = (h ^ uint64(c)) * 1099511628211
		}
	}
	for _, z := range w.zones {
		mix(z.bi)
		for _, tr := range w.tags {
			if tr.z != z {
				continue
			}
			if _, ok := z.tags[tr.tag]; ok {
				mix("T" + tr.tag)
			}
			for _, d := range tr.deps {
				if w.present(z, d.Hex()) {
					mix("B" + d.Hex()[:8])
				}
			}
		}
	}
	w.s.State(h)
}

// ackSeen reports whether the client received the remote build-index's
// acknowledgement for the tag: a 200 for its PUT, or (when the PUT's own
// response was lost) a 200 for a later HEAD /tags/<tag>.
func (w *world) ackSeen(tr *tagRec) bool {
	esc := "/tags/" + url.PathEscape(tr.tag)
	for _, e := range w.hn.Log {
		if e.To != tr.z.bi || e.Status != 200 || e.Err != "" {
			continue
		}
		if e.Method == http.MethodHead && e.Path == esc || e.Method == http.MethodPut && e.Path == esc+"/digest/"+tr.digest.String() {
			return true
		}
	}
	return false
}

// obsExec lets the harness see each Exec the manager issues; the work is done
// by the real executor.
type obsExec struct {
	inner *tagreplication.Executor
	run   func(persistedretry.Task) error
}

func (o *obsExec) Name() string                     { return o.inner.Name() }
func (o *obsExec) Exec(t persistedretry.Task) error { return o.run(t) }

func TestC33(t *testing.T) {
	kit.Main(t, kit.Spec{
		Property: "C33",
		Body:     body,
		// cenkalti/backoff (untransformed third-party code) jitters Poll's sleeps
		// with the global math/rand source: pin it per run so that a run stays a
		// pure function of the tape.
		PerRun: func() { rand.Seed(33) },
		Config: func(tier string) simrt.Config {
			return simrt.Config{MaxSteps: 1500000, Horizon: 12 * time.Hour, PanicIsFailure: true}
		},
		Real: []string{"lib/persistedretry/tagreplication.Executor", "origin/blobclient cluster client (resolver, Locations, Poll, ReplicateToRemote)",
			"build-index/tagclient single client + provider", "utils/httputil.Send", "lib/hostlist (static)",
			"manager runs: lib/persistedretry.Manager + tagreplication.Store on sqlite (simsql)"},
		Stub: []string{"local origin cluster: scripted chi handlers for /blobs/{digest}/locations and /namespace/{namespace}/blobs/{digest}/remote/{remote}",
			"remote build-index per zone: scripted chi handlers for HEAD /tags/{tag}, GET /origin, PUT /tags/{tag}/digest/{digest}",
			"simhttp transport (refusals, resets before/after the handler ran, injected 5xx/429, latency)", "tally.NoopScope"},
		Rule: "one run = 1-2 remote zones, 1-2 local origins, 1-4 tags with 1-3 dependency blobs each (occasionally shared), per (origin, blob) 0-6 answers 202 before the push, tape-drawn server-side error rate and network fault rate, direct Exec loops from 1-2 client nodes or the real manager; then faults stop",
		Assumptions: []string{
			"the replicate-to-remote request goes to the LOCAL origin cluster, which pushes the blob to the remote cluster named in the URL; its 200 response is the confirmation the property speaks of",
			"tags are immutable (one digest per tag); the remote build-index is scripted, including the real server's refusal of a tag whose dependencies are missing",
			"global math/rand (used only by cenkalti/backoff jitter) is re-seeded before every run",
			"manager runs: no process crashes (C30 covers them); liveness bound = C30's bound with the longest healthy Exec (202 polling) as execution time",
		},
	})
}
