// C14: no input from a remote peer can crash or corrupt a peer.
//
// Real origin, victim agent and an honest leecher; a byzantine peer (harness
// node on the simulated TCP network) completes or mangles the handshake with
// the victim agent and with the origin and then emits generated frames: every
// message type with hostile field values, missing bodies, wrong-size bitfields,
// payload lengths that disagree with the torrent, oversized length prefixes,
// raw garbage, premature close. Oracle: no kraken task panics; no allocation
// the adversary can scale without sending data; the victims' copies stay
// byte-identical to the blob; the honest download completes.
package c14

import (
	"bytes"
	"encoding/binary"
	"encoding/hex"
	"fmt"
	"net"
	"runtime"
	"testing"
	"time"

	"github.com/golang/protobuf/proto"
	"github.com/uber/kraken/core"
	"github.com/uber/kraken/gen/go/proto/p2p"
	"github.com/uber/kraken/lib/torrent/scheduler/connstate"
	"github.com/willf/bitset"

	"kverif/cluster"
	"kverif/kit"
	snet "kverif/shim/net"
	ssync "kverif/shim/sync"
	simrt "kverif/sim"
)

const hugeLen = 1 << 26 // 64 MiB: far beyond any piece of these runs, cheap enough to survive if allocated

type adversary struct {
	s        *simrt.Sim
	tp       *simrt.Tape
	mi       *core.MetaInfo
	d        core.Digest
	nPieces  int
	pieceLen int64
	blob     []byte
	sent     int64
	frames   int
}

func (a *adversary) write(nc net.Conn, b []byte) error {
	nc.SetWriteDeadline(time.Now().Add(5 * time.Second))
	n, err := nc.Write(b)
	a.sent += int64(n)
	return err
}

func (a *adversary) sendMsg(nc net.Conn, m *p2p.Message) error {
	data, err := proto.Marshal(m)
	if err != nil {
		return err
	}
	var l [4]byte
	binary.BigEndian.PutUint32(l[:], uint32(len(data)))
	if err := a.write(nc, l[:]); err != nil {
		return err
	}
	return a.write(nc, data)
}

func (a *adversary) idx() int32 {
	n := int32(a.nPieces)
	vals := []int32{0, -1, n - 1, n, n + 1, 1<<31 - 1, -1 << 31, 1 << 20}
	k := a.tp.Draw(len(vals) + 1)
	if k == len(vals) {
		return int32(a.tp.Draw(a.nPieces + 1))
	}
	return vals[k]
}

func (a *adversary) length() int32 {
	pl := int32(a.pieceLen)
	// benign values (the piece length, zero = "unused") are frequent, so that a
	// frame often deviates in one field only and gets past the checks of the others
	vals := []int32{pl, pl, 0, 0, -1, pl - 1, pl + 1, hugeLen, -1 << 31, 1}
	return vals[a.tp.Draw(len(vals))]
}

func (a *adversary) offset() int32 {
	return []int32{0, 0, 0, -1, 1}[a.tp.Draw(5)]
}

func bitfieldBytes(n uint, full bool) []byte {
	b := bitset.New(n)
	if full {
		for i := uint(0); i < n; i++ {
			b.Set(i)
		}
	}
	out, _ := b.MarshalBinary()
	return out
}

// handshake sends the adversary's handshake; returns whether it was a
// protocol-valid one (the victim may then answer and keep the connection).
func (a *adversary) handshake(nc net.Conn) bool {
	pid := hex.EncodeToString(kit.Bytes(a.s, 20))
	bf := &p2p.BitfieldMessage{PeerID: pid, Name: a.d.Hex(), InfoHash: a.mi.InfoHash().String(), Namespace: cluster.Namespace,
		BitfieldBytes: bitfieldBytes(uint(a.nPieces), a.tp.Chance(500))}
	m := &p2p.Message{Type: p2p.Message_BITFIELD, Bitfield: bf}
	valid := true
	hk := a.tp.Draw(14) - 4 // 5 in 14 handshakes are valid: the frames behind them reach the dispatcher
	if hk < 0 {
		hk = 0
	}
	switch hk {
	case 0: // valid
	case 1: // bitfield of the wrong size
		sizes := []uint{0, 1, uint(a.nPieces) + 1, uint(a.nPieces) + 64, 1 << 16}
		bf.BitfieldBytes = bitfieldBytes(sizes[a.tp.Draw(len(sizes))], a.tp.Chance(500))
	case 2: // missing body
		m.Bitfield = nil
		valid = false
	case 3: // garbage bitfield bytes
		bf.BitfieldBytes = kit.Bytes(a.s, a.tp.Draw(40))
		valid = false
	case 4: // bitset header announcing a huge length with no words (kept at 64 MiB so the harness survives it)
		var h [8]byte
		binary.BigEndian.PutUint64(h[:], hugeLen*8) // bits: the victim would allocate hugeLen bytes
		bf.BitfieldBytes = h[:]
		valid = false
	case 5: // remote bitfields with hostile entries
		bf.RemoteBitfieldBytes = map[string][]byte{pid: bitfieldBytes(uint(a.nPieces)+9, true), "zz": kit.Bytes(a.s, 9)}
	case 6: // wrong type carrying a bitfield body
		m.Type = p2p.Message_PIECE_REQUEST
		valid = false
	case 7: // bad peer id / info hash
		if a.tp.Chance(500) {
			bf.PeerID = "xyz"
		} else {
			bf.InfoHash = "00"
		}
		valid = false
	case 9: // correct announced length, but bits set beyond it in the last word
		b := bitfieldBytes(uint(a.nPieces), a.tp.Chance(500))
		if len(b) >= 16 {
			for i := len(b) - 8; i < len(b); i++ {
				b[i] = 0xff
			}
			if a.tp.Chance(500) {
				b[len(b)-8] = 0x80 // only the highest bit of the last word
				for i := len(b) - 7; i < len(b); i++ {
					b[i] = 0
				}
			}
		}
		bf.BitfieldBytes = b
	case 8: // unknown torrent
		bf.InfoHash = hex.EncodeToString(kit.Bytes(a.s, 20))
		bf.Name = hex.EncodeToString(kit.Bytes(a.s, 32))
	}
	a.s.Logf("adv handshake kind valid=%v", valid)
	if a.sendMsg(nc, m) != nil {
		return false
	}
	return valid
}

func (a *adversary) frame(nc net.Conn) error {
	a.frames++
	tp := a.tp
	kind := tp.Draw(12)
	var m *p2p.Message
	var payload []byte
	switch kind {
	case 0: // piece request, hostile index/offset/length
		m = &p2p.Message{Type: p2p.Message_PIECE_REQUEST, PieceRequest: &p2p.PieceRequestMessage{Index: a.idx(), Offset: a.offset(), Length: a.length()}}
	case 1: // piece payload, header and data disagree in every way
		l := a.length()
		m = &p2p.Message{Type: p2p.Message_PIECE_PAYLOAD, PiecePayload: &p2p.PiecePayloadMessage{Index: a.idx(), Offset: a.offset(), Length: l}}
		switch {
		case l > 0 && l <= 1<<20 && tp.Chance(600):
			payload = kit.Bytes(a.s, int(l))
		case tp.Chance(500):
			payload = kit.Bytes(a.s, tp.Draw(int(a.pieceLen)+2))
		}
	case 2: // correct-looking payload for a valid index with wrong bytes
		i := tp.Draw(a.nPieces)
		l := a.mi.GetPieceLength(i)
		m = &p2p.Message{Type: p2p.Message_PIECE_PAYLOAD, PiecePayload: &p2p.PiecePayloadMessage{Index: int32(i), Length: int32(l)}}
		payload = kit.Bytes(a.s, int(l))
	case 3:
		m = &p2p.Message{Type: p2p.Message_ANNOUCE_PIECE, AnnouncePiece: &p2p.AnnouncePieceMessage{Index: a.idx()}}
	case 4:
		m = &p2p.Message{Type: p2p.Message_CANCEL_PIECE, CancelPiece: &p2p.CancelPieceMessage{Index: a.idx()}}
	case 5:
		m = &p2p.Message{Type: p2p.Message_ERROR, Error: &p2p.ErrorMessage{Index: a.idx(), Code: p2p.ErrorMessage_ErrorCode(tp.Draw(3)), Error: "x"}}
	case 6:
		m = &p2p.Message{Type: p2p.Message_COMPLETE, Complete: &p2p.CompleteMessage{}}
	case 7: // type set, body missing
		types := []p2p.Message_Type{p2p.Message_PIECE_REQUEST, p2p.Message_PIECE_PAYLOAD, p2p.Message_ANNOUCE_PIECE, p2p.Message_CANCEL_PIECE, p2p.Message_ERROR, p2p.Message_COMPLETE, p2p.Message_BITFIELD, p2p.Message_Type(9)}
		m = &p2p.Message{Type: types[tp.Draw(len(types))]}
	case 8: // a second bitfield after the handshake
		m = &p2p.Message{Type: p2p.Message_BITFIELD, Bitfield: &p2p.BitfieldMessage{BitfieldBytes: bitfieldBytes(uint(tp.Draw(200)), true)}}
	case 9: // raw garbage behind a plausible length prefix
		n := tp.Draw(300)
		var l [4]byte
		binary.BigEndian.PutUint32(l[:], uint32(n))
		a.s.Logf("adv frame garbage %d", n)
		if err := a.write(nc, l[:]); err != nil {
			return err
		}
		return a.write(nc, kit.Bytes(a.s, n))
	case 10: // oversized length prefix
		var l [4]byte
		binary.BigEndian.PutUint32(l[:], uint32(1<<31+tp.Draw(1<<20)))
		a.s.Logf("adv frame oversized prefix")
		return a.write(nc, l[:])
	case 11: // length prefix promising more than is sent, then silence / close
		var l [4]byte
		binary.BigEndian.PutUint32(l[:], uint32(1000+tp.Draw(100000)))
		a.s.Logf("adv frame short body")
		if err := a.write(nc, l[:]); err != nil {
			return err
		}
		return a.write(nc, kit.Bytes(a.s, tp.Draw(50)))
	}
	a.s.Logf("adv frame kind=%d %s payload=%d", kind, m.String(), len(payload))
	if err := a.sendMsg(nc, m); err != nil {
		return err
	}
	if payload != nil {
		return a.write(nc, payload)
	}
	return nil
}

func (a *adversary) attack(target string) {
	s := a.s
	nc, err := snet.DialTimeout("tcp", target, 5*time.Second)
	if err != nil {
		s.Logf("adv dial %s: %v", target, err)
		return
	}
	defer nc.Close()
	// drain whatever the victim sends so that it never blocks on us
	simrt.Go(func() {
		buf := make([]byte, 4096)
		for {
			if _, err := nc.Read(buf); err != nil {
				return
			}
		}
	})
	valid := a.handshake(nc)
	if !valid && a.tp.Chance(500) {
		return
	}
	simrt.Sleep(time.Duration(a.tp.Draw(300)) * time.Millisecond)
	n := 1 + a.tp.Draw(8)
	for i := 0; i < n; i++ {
		if err := a.frame(nc); err != nil {
			s.Logf("adv write: %v", err)
			return
		}
		simrt.Sleep(time.Duration(a.tp.Draw(200)) * time.Millisecond)
	}
	if a.tp.Chance(500) {
		simrt.Sleep(time.Duration(a.tp.Draw(3000)) * time.Millisecond)
	}
}

func body(s *simrt.Sim, tier string) {
	tp := s.Tape
	sc := cluster.DefaultSched()
	sc.SeederTTI, sc.LeecherTTI = time.Hour, time.Hour
	sc.ConnTTI = time.Duration(5+tp.Draw(10)) * time.Second
	sc.PreemptionInterval = time.Duration(1+tp.Draw(5)) * time.Second
	sc.EmitStatsInterval = time.Minute
	sc.ConnState = connstate.Config{MaxOpenConnectionsPerTorrent: 3 + tp.Draw(4), BlacklistDuration: time.Duration(8+tp.Draw(8)) * time.Second}
	p := cluster.Params{PieceLength: int64(1024 << tp.Draw(3)), Sched: sc,
		AnnounceInterval: time.Duration(1+tp.Draw(3)) * time.Second, PeerHandoutLimit: 3 + tp.Draw(3)}
	c := cluster.New(s, p)
	if tp.Chance(500) {
		c.NW.MaxLatency = time.Duration(tp.Draw(300)) * time.Millisecond // keeps the victim leeching while attacked
	}
	c.StartOrigins(1)
	c.StartTracker()
	nPieces := 1 + tp.Draw(12)
	size := int(p.PieceLength)*nPieces - tp.Draw(int(p.PieceLength))
	blob := kit.Bytes(s, size)
	d := c.Seed(c.Origins[0], blob)
	mi, err := core.NewMetaInfo(d, bytes.NewReader(blob), p.PieceLength)
	if err != nil {
		s.InfraError("metainfo: %v", err)
	}
	victim := c.StartAgent(1)
	honest := c.StartAgent(2)
	var ms0 runtime.MemStats
	runtime.ReadMemStats(&ms0)
	type res struct {
		done bool
		err  error
	}
	var rv, rh res
	s.GoNode(victim.Node, "download", func() {
		simrt.Sleep(time.Duration(tp.Draw(500)) * time.Millisecond)
		rv.err = victim.Sched.Download(cluster.Namespace, d)
		rv.done = true
		s.Logf("victim download -> %v", rv.err)
	})
	s.GoNode(honest.Node, "download", func() {
		simrt.Sleep(time.Duration(tp.Draw(4000)) * time.Millisecond)
		rh.err = honest.Sched.Download(cluster.Namespace, d)
		rh.done = true
		s.Logf("honest download -> %v", rh.err)
	})
	advNode := s.NewNode("adversary")
	simnetSetIP(advNode)
	adv := &adversary{s: s, tp: tp, mi: mi, d: d, nPieces: mi.NumPieces(), pieceLen: p.PieceLength, blob: blob}
	var wg ssync.WaitGroup
	nAttacks := 1 + tp.Draw(5)
	for i := 0; i < nAttacks; i++ {
		wg.Add(1)
		target := victim.IP + ":16001"
		if tp.Chance(350) {
			target = c.Origins[0].IP + ":16001"
		}
		delay := time.Duration(tp.Draw(3000)) * time.Millisecond
		s.GoNode(advNode, "attack", func() {
			defer wg.Done()
			simrt.Sleep(delay)
			s.Fault("peer_byzantine_conn")
			adv.attack(target)
		})
	}
	wg.Wait()
	s.Logf("attacks over: %d frames, %d bytes", adv.frames, adv.sent)
	kit.SetSample(map[string]any{"blob": size, "pieces": mi.NumPieces(), "piece_length": p.PieceLength, "attacks": nAttacks, "frames": adv.frames, "bytes_sent": adv.sent})
	// both honest downloads must complete, byte-exact
	cycle := sc.ConnTTI + sc.PreemptionInterval + sc.ConnState.BlacklistDuration + 2*p.AnnounceInterval + 40*time.Second
	deadline := s.Now() + 8*cycle
	for !(rv.done && rh.done) && s.Now() < deadline {
		simrt.Sleep(time.Second)
	}
	for _, x := range []struct {
		name string
		r    *res
		a    *cluster.Agent
	}{{"victim", &rv, victim}, {"honest", &rh, honest}} {
		if !x.r.done {
			s.Fail("honest_download_stuck", "%s agent's download did not finish within %v after the attacks ended", x.name, 8*cycle)
		}
		if x.r.err != nil {
			s.Fail("honest_download_failed", "%s agent's download failed: %v", x.name, x.r.err)
		}
		got, err := x.a.ReadCache(d)
		if err != nil || !bytes.Equal(got, blob) {
			s.Fail("blob_corrupted", "%s agent's cached copy differs from the blob after the attacks (err=%v, %d vs %d bytes)", x.name, err, len(got), len(blob))
		}
	}
	var ms1 runtime.MemStats
	runtime.ReadMemStats(&ms1)
	grown := int64(ms1.TotalAlloc - ms0.TotalAlloc)
	kit.Extra["max_alloc_mib"] = max(kit.Extra["max_alloc_mib"], grown>>20)
	if grown > hugeLen-(8<<20) && grown > 40*adv.sent {
		s.Fail("unbounded_allocation", "the process allocated %d MiB during a run in which the adversary sent %d bytes (a declared length is turned into an allocation before any data arrives)", grown>>20, adv.sent)
	}
}

func simnetSetIP(n *simrt.Node) { n.Data["ip"] = "10.0.9.9" }

func TestC14(t *testing.T) {
	kit.Main(t, kit.Spec{Property: "C14", Body: body,
		Config: func(string) simrt.Config {
			return simrt.Config{MaxSteps: 20_000_000, Horizon: 6 * time.Hour, PanicIsFailure: true}
		},
		Real: []string{"lib/torrent/scheduler/conn (handshaker, message framing, read loop, payload read)", "lib/torrent/scheduler/dispatch (message handlers)", "scheduler event loop, connstate",
			"agentstorage / originstorage piece read + write paths", "tracker, origin blobserver metainfo endpoints"},
		Stub: []string{"TCP (simnet) and HTTP (simhttp) transports", "the byzantine peer (harness)", "write-back manager (no-op)"},
		Rule: "one run = origin + victim agent + honest agent downloading a 1-12 piece blob while a byzantine peer opens 1-5 connections to the victim agent or the origin, each with a tape-drawn handshake variant (valid / wrong-size / missing / garbage / hostile remote bitfields / unknown torrent) followed by 1-8 tape-drawn frames (all message types, hostile indices and lengths, missing bodies, mismatching payloads, garbage, oversized or short frames); non-trivial = >=1 contested scheduling decision or fired fault",
		Assumptions: []string{"'allocate without bound' is decided as: process TotalAlloc growth during the run >= ~56 MiB while the adversary sent <1/40 of that (a 64 MiB declared length is the probe value)"},
	})
}

var _ = fmt.Sprint
