// C17: every blob download request returns exactly once.
//
// Real agents, origin and tracker over the simulated networks. Client tasks
// call Scheduler.Download for the same and for different digests (existing and
// not), while other tasks call RemoveTorrent (at drawn instants and exactly when
// the last piece arrives, so that removal races with the asynchronous
// completion notice), idle limits fire, the scheduler is reloaded or stopped,
// the seeder disappears, and tasks are paused. Oracle: every call returns by
// the bound after faults stop; nil => the blob is in the local cache with the
// exact bytes at the return instant (unless a removal of that digest overlapped
// or followed the call: it had not returned when the call began); an error is one of not-found, timeout,
// removed, stopped, or a create-torrent error explained by an injected fault.
package c17

import (
	"bytes"
	"errors"
	"fmt"
	"strings"
	"testing"
	"time"

	"github.com/uber/kraken/core"
	"github.com/uber/kraken/lib/torrent/networkevent"
	"github.com/uber/kraken/lib/torrent/scheduler"
	"github.com/uber/kraken/lib/torrent/scheduler/connstate"

	"kverif/cluster"
	"kverif/kit"
	simrt "kverif/sim"
	"kverif/simhttp"
)

type call struct {
	id       int
	agent    int
	blob     int
	begin    time.Duration
	beginSeq int64
	returned bool
	err      error
	end      time.Duration
}

type removal struct {
	agent, blob int
	seq         int64
	doneSeq     int64 // 0 while RemoveTorrent has not returned
}

type world struct {
	s          *simrt.Sim
	c          *cluster.Cluster
	blobs      [][]byte
	digests    []core.Digest
	calls      []*call
	removals   []*removal
	stopped    map[int]int64 // agent -> seq of Stop/Reload invocation
	httpFaulty bool
}

func (w *world) download(ai, bi int) {
	a := w.c.Agents[ai]
	cl := &call{id: len(w.calls), agent: ai, blob: bi, begin: w.s.Now(), beginSeq: w.s.NextSeq()}
	w.calls = append(w.calls, cl)
	w.s.Logf("call#%d agent%d Download(blob%d)", cl.id, ai+1, bi)
	err := a.Sched.Download(cluster.Namespace, w.digests[bi])
	cl.err, cl.returned, cl.end = err, true, w.s.Now()
	w.s.Logf("call#%d -> %v", cl.id, err)
	switch {
	case err == nil:
		if bi >= len(w.blobs) {
			w.s.Fail("success_for_unknown_blob", "call#%d: Download of a digest nobody holds returned nil", cl.id)
		}
		// The cache read below is itself a sequence of scheduling points, so a
		// RemoveTorrent requested while it runs (the removal task is not blocked
		// by this one) can delete the blob under it. Removals are recorded before
		// RemoveTorrent is invoked, so the list is consulted again after the
		// read: only an absence that no removal since the call began can explain
		// is a violation.
		//
		// A removal counts when it overlaps the call or follows it: requested
		// at any time, but not yet returned when the call began. RemoveTorrent
		// and Download are concurrent operations then, and "Download succeeded,
		// then the removal took effect" is a legal order that the harness
		// cannot tell apart from the other one at the API.
		removedSince := func() bool {
			for _, r := range w.removals {
				if r.agent == ai && w.digests[r.blob] == w.digests[bi] && (r.doneSeq == 0 || r.doneSeq > cl.beginSeq) {
					return true
				}
			}
			return false
		}
		if !removedSince() {
			got, rerr := a.ReadCache(w.digests[bi])
			switch {
			case rerr == nil && bytes.Equal(got, w.blobs[bi]):
			case removedSince():
				w.s.Probe("removal_during_cache_read")
			case rerr != nil:
				w.s.Fail("success_without_blob", "call#%d agent%d: Download returned nil but the blob is not in the local cache: %v", cl.id, ai+1, rerr)
			case w.staleWriter(cl) && bytes.Contains([]byte(describeDiff(got, w.blobs[bi], w.c.P.PieceLength)), []byte("all zero")):
				// Known finding C17-paused-piece-writer (known_findings.json):
				// a task stalled inside agentstorage.(*Torrent).WritePiece,
				// between the write of the piece and the write of its status,
				// outlived the removal and re-creation of the download file.
				w.s.Fail("wrong_bytes_paused_piece_writer", "call#%d agent%d: cached copy differs from the blob (%s) after a piece writer was stalled inside WritePiece for >= 1s", cl.id, ai+1, describeDiff(got, w.blobs[bi], w.c.P.PieceLength))
			default:
				w.s.Fail("wrong_bytes", "call#%d agent%d: cached copy differs from the blob (%s)", cl.id, ai+1, describeDiff(got, w.blobs[bi], w.c.P.PieceLength))
			}
		} else {
			w.s.Probe("success_with_concurrent_removal")
		}
	case errors.Is(err, scheduler.ErrTorrentNotFound), errors.Is(err, scheduler.ErrTorrentTimeout),
		errors.Is(err, scheduler.ErrTorrentRemoved), errors.Is(err, scheduler.ErrSchedulerStopped):
		w.s.Probe("err_" + strings.ReplaceAll(err.Error(), " ", "_"))
		if errors.Is(err, scheduler.ErrTorrentRemoved) {
			ok := false
			for _, r := range w.removals {
				if r.agent == ai && w.digests[r.blob] == w.digests[bi] {
					ok = true
				}
			}
			if !ok {
				w.s.Fail("removed_without_removal", "call#%d: ErrTorrentRemoved but RemoveTorrent was never requested for that blob on agent%d", cl.id, ai+1)
			}
		}
		if errors.Is(err, scheduler.ErrSchedulerStopped) {
			if _, ok := w.stopped[ai]; !ok {
				w.s.Fail("stopped_without_stop", "call#%d: ErrSchedulerStopped but agent%d was never stopped or reloaded", cl.id, ai+1)
			}
		}
		if errors.Is(err, scheduler.ErrTorrentNotFound) && bi < len(w.blobs) && !w.httpFaulty {
			w.s.Fail("not_found_for_existing_blob", "call#%d: ErrTorrentNotFound for a blob the origin holds, without any injected fault", cl.id)
		}
	case strings.HasPrefix(err.Error(), "create torrent"):
		w.s.Probe("err_create_torrent")
		// Torrent creation runs outside the event loop; a RemoveTorrent of the
		// same digest that overlaps the call may delete the download file under
		// it. That is an error result caused by the removal, which the
		// statement allows ("removed").
		overlapRemoval := false
		for _, r := range w.removals {
			if r.agent == ai && w.digests[r.blob] == w.digests[bi] && (r.doneSeq == 0 || r.doneSeq > cl.beginSeq) {
				overlapRemoval = true
			}
		}
		if overlapRemoval {
			w.s.Probe("create_torrent_raced_with_removal")
		} else if w.s.PausedDuring(cl.begin, cl.end) {
			// an injected task pause (slow handler) is a fault on the metainfo path too
			w.s.Probe("create_torrent_failed_during_pause")
		} else if !w.httpFaulty {
			w.s.Fail("unexplained_error", "call#%d: %v without any injected fault on the metainfo path", cl.id, err)
		}
	default:
		w.s.Fail("unexpected_error", "call#%d: %v", cl.id, err)
	}
}

func body(s *simrt.Sim, tier string) {
	tp := s.Tape
	sc := cluster.DefaultSched()
	sc.LeecherTTI = time.Duration(5+tp.Draw(40)) * time.Second
	sc.SeederTTI = time.Duration(5+tp.Draw(60)) * time.Second
	sc.ConnTTI = time.Duration(3+tp.Draw(20)) * time.Second
	sc.PreemptionInterval = time.Duration(1+tp.Draw(8)) * time.Second
	sc.EmitStatsInterval = time.Minute
	sc.ConnState = connstate.Config{MaxOpenConnectionsPerTorrent: 1 + tp.Draw(4), BlacklistDuration: time.Duration(12+tp.Draw(10)) * time.Second}
	p := cluster.Params{PieceLength: int64(512 << tp.Draw(4)), Sched: sc,
		AnnounceInterval: time.Duration(1+tp.Draw(4)) * time.Second, PeerHandoutLimit: 1 + tp.Draw(4)}
	c := cluster.New(s, p)
	w := &world{s: s, c: c, stopped: map[int]int64{}}
	c.StartOrigins(1)
	c.StartTracker()
	nBlobs := 1 + tp.Draw(3)
	for i := 0; i < nBlobs; i++ {
		n := 1 + tp.Draw(12<<10)
		if tp.Chance(100) {
			n = 0
		}
		b := kit.Bytes(s, n)
		w.blobs = append(w.blobs, b)
		w.digests = append(w.digests, c.Seed(c.Origins[0], b))
	}
	// one digest nobody holds
	ghost, _ := core.NewDigester().FromBytes(append(kit.Bytes(s, 40), 'x'))
	w.digests = append(w.digests, ghost)
	nAgents := 1 + tp.Draw(2)
	faulty := tp.Chance(600)
	if faulty && tp.Chance(300) {
		w.httpFaulty = true
		c.HN.FaultFn = simhttp.RandomFaults(s, simhttp.Rates{Refuse: 30, ResetBefore: 30, ResetAfter: 30, Status: 40, Delay: 100})
	}
	if faulty && tp.Chance(400) {
		s.InjectPauses(1+tp.Draw(3), 15000, 20*time.Second)
	}
	mi := map[int]int{} // blob -> number of pieces
	for i, b := range w.blobs {
		mi[i] = int((int64(len(b)) + p.PieceLength - 1) / p.PieceLength)
	}
	for ai := 0; ai < nAgents; ai++ {
		a := c.StartAgent(ai + 1)
		_ = a
	}
	// Workload variant (out of band): slow links, so that downloads last for
	// several announce rounds and removals, reloads and stops land in the middle
	// of transfers, with other peers dialling in meanwhile.
	if (s.Tape.Variant/28)%2 == 1 {
		c.NW.MaxLatency = time.Duration(20+tp.Draw(180)) * time.Millisecond
		s.Probe("slow_links")
	}
	// Workload variant (out of band): the completion notice of finished
	// downloads is slow (the task that sends it is stalled for 1-10 s), so that
	// removals, idle ticks, further requests and Stop land in the window between
	// a torrent being complete and its completion event being applied.
	if (s.Tape.Variant/112)%2 == 1 {
		for i := 0; i < 3; i++ {
			s.ArmPauseAt("liftedEventLoop).DispatcherComplete", nil, 0, time.Duration(1+tp.Draw(10))*time.Second)
		}
		s.Probe("slow_completion_notice_armed")
	}
	// Workload variant (out of band): a piece writer of one agent is stalled
	// inside agentstorage.(*Torrent).WritePiece — a slow disk — for 1-20 s, at a
	// drawn scheduling point of that function (site-armed pause).
	if (s.Tape.Variant/7)%4 == 1 {
		a := c.Agents[tp.Draw(nAgents)]
		s.ArmPauseAt("agentstorage.(*Torrent).WritePiece", a.Node, tp.Draw(16), time.Duration(1+tp.Draw(20))*time.Second)
		s.Probe("pause_armed_in_write_piece")
	}
	// removal exactly when the last piece arrives
	raceRemoval := tp.Chance(500)
	// Workload variants (out of band, see simrt.Tape.Variant; variant 0 is the
	// original workload): in a third of the runs the arrival of the last piece
	// triggers Stop or Reload of that agent instead of RemoveTorrent, so that
	// shutdown races with the asynchronous completion notice.
	variant := s.Tape.Variant
	stopRace := variant%3 == 1
	// ... and in another third the scheduler of an agent is reloaded in the
	// middle of a transfer (when half of the pieces of a blob have arrived):
	// the partial torrent stays on disk without a torrent control, other peers
	// may dial in for it first, and the client asks for the blob again a little
	// later.
	midReload := variant%3 == 2
	if stopRace || midReload {
		raceRemoval = true
	}
	trigger := make(chan [2]int, 64)
	extra := 0 // Download calls issued by the triggers, on top of the clients' nCalls
	if raceRemoval {
		seen := map[[2]int]int{}
		for ai, a := range c.Agents {
			ai := ai
			a.Events.Hook = func(ev *networkevent.Event) {
				if ev.Name != networkevent.ReceivePiece {
					return
				}
				for bi := range w.blobs {
					if infoHashOf(s, w, bi).String() == ev.Torrent {
						k := [2]int{ai, bi}
						seen[k]++
						if midReload {
							if seen[k] == 1+mi[bi]/2 {
								select {
								case trigger <- k:
								default:
								}
							}
							continue
						}
						if seen[k] == mi[bi] {
							select {
							case trigger <- k:
							default:
							}
						}
					}
				}
			}
		}
		simrt.Go(func() {
			for {
				k := simrt.Recv(trigger)
				if midReload {
					if _, done := w.stopped[k[0]]; !done {
						w.stopped[k[0]] = s.NextSeq()
						a, ai, bi := c.Agents[k[0]], k[0], k[1]
						s.Probe("reload_mid_transfer")
						s.Logf("Reload agent%d in the middle of blob%d", ai+1, bi)
						s.GoNode(a.Node, "reload", func() { a.Sched.Reload(sc) })
						extra++
						delay := time.Duration(500+tp.Draw(4000)) * time.Millisecond
						s.GoNode(a.Node, "client", func() {
							simrt.Sleep(delay)
							w.download(ai, bi)
						})
					}
					continue
				}
				if stopRace {
					if _, done := w.stopped[k[0]]; !done {
						w.stopped[k[0]] = s.NextSeq()
						a := c.Agents[k[0]]
						if (variant/3)%2 == 0 {
							s.Probe("stop_at_last_piece")
							s.Logf("Stop agent%d at its last piece", k[0]+1)
							s.GoNode(a.Node, "stop", func() { a.Sched.Stop() })
						} else {
							s.Probe("reload_at_last_piece")
							s.Logf("Reload agent%d at its last piece", k[0]+1)
							s.GoNode(a.Node, "reload", func() { a.Sched.Reload(sc) })
						}
					}
					continue
				}
				if tp.Chance(700) {
					w.remove(k[0], k[1])
				}
			}
		})
	}
	// clients
	nCalls := 0
	for ai := 0; ai < nAgents; ai++ {
		nClients := 1 + tp.Draw(4)
		for ci := 0; ci < nClients; ci++ {
			ai := ai
			nOps := 1 + tp.Draw(3)
			nCalls += nOps
			s.GoNode(c.Agents[ai].Node, "client", func() {
				for k := 0; k < nOps; k++ {
					simrt.Sleep(time.Duration(tp.Draw(4000)) * time.Millisecond)
					bi := tp.Draw(len(w.digests))
					w.download(ai, bi)
				}
			})
		}
	}
	// disturbances
	nDist := tp.Draw(5)
	origDown := false
	for k := 0; k < nDist; k++ {
		simrt.Sleep(time.Duration(tp.Draw(5000)) * time.Millisecond)
		ai := tp.Draw(nAgents)
		switch tp.Draw(6) {
		case 0, 1:
			w.remove(ai, tp.Draw(len(w.blobs)))
		case 2:
			if faulty {
				w.stopped[ai] = s.NextSeq()
				s.Fault("scheduler_stop")
				s.Logf("Stop agent%d", ai+1)
				a := c.Agents[ai]
				s.GoNode(a.Node, "stop", func() { a.Sched.Stop() })
			}
		case 3:
			if faulty {
				w.stopped[ai] = s.NextSeq()
				s.Fault("scheduler_reload")
				s.Logf("Reload agent%d", ai+1)
				a := c.Agents[ai]
				s.GoNode(a.Node, "reload", func() { a.Sched.Reload(sc) })
			}
		case 4:
			if faulty && !origDown {
				origDown = true
				s.Fault("net_partition")
				for _, a := range c.Agents {
					c.NW.Partition(a.Node, c.Origins[0].Node, true)
				}
				s.Logf("origin unreachable (p2p)")
			}
		case 5:
			if faulty {
				cs := c.NW.Conns()
				if len(cs) > 0 {
					cn := cs[tp.Draw(len(cs))]
					cn.Stall(true)
				}
			}
		}
	}
	simrt.Sleep(time.Duration(tp.Draw(8000)) * time.Millisecond)
	// faults stop
	c.NW.HealAll()
	c.NW.Quiet, c.HN.Quiet = true, true
	for _, cn := range c.NW.Conns() {
		if cn.Stalled {
			cn.Stall(false)
		}
	}
	tStop := s.Now()
	s.Logf("faults stop")
	// A call in flight either completes (seeder reachable again) or hits the
	// leecher idle limit; clients may still issue their remaining calls.
	cycle := sc.LeecherTTI + sc.ConnTTI + 2*sc.PreemptionInterval + sc.ConnState.BlacklistDuration + 2*p.AnnounceInterval + 4*time.Second + 35*time.Second + 60*time.Second /*http client timeout*/
	bound := 4 * cycle * time.Duration(3+nCalls)
	deadline := tStop + bound
	for {
		open := 0
		for _, cl := range w.calls {
			if !cl.returned {
				open++
			}
		}
		if open == 0 && len(w.calls) == nCalls+extra {
			break
		}
		if s.Now() >= deadline {
			var who []string
			for _, cl := range w.calls {
				if !cl.returned {
					who = append(who, fmt.Sprintf("call#%d(agent%d blob%d begun %v)", cl.id, cl.agent+1, cl.blob, cl.begin))
				}
			}
			if len(who) == 0 {
				break // clients still sleeping between calls: nothing is blocked
			}
			s.Fail("download_never_returned", "%v still blocked %v after faults stopped (bound %v, leecher idle limit %v)", who, s.Now()-tStop, bound, sc.LeecherTTI)
		}
		simrt.Sleep(time.Second)
	}
	kit.SetSample(map[string]any{"agents": nAgents, "blobs": nBlobs, "calls": len(w.calls), "removals": len(w.removals), "race_removal": raceRemoval,
		"leecher_tti": sc.LeecherTTI.String(), "seeder_tti": sc.SeederTTI.String(), "faulty": faulty})
}

// staleWriter reports whether, before call cl returned, an injected pause held
// a task for at least a second inside agentstorage.(*Torrent).WritePiece: the
// one call site whose stalled writer can mark a piece complete in a download
// file that was removed and created anew meanwhile.
func (w *world) staleWriter(cl *call) bool {
	for _, p := range w.s.Pauses {
		if p.To <= cl.end && p.To-p.From >= time.Second && p.Inside("agentstorage.(*Torrent).WritePiece") {
			return true
		}
	}
	return false
}

// describeDiff says where a cached copy departs from the blob, in pieces.
func describeDiff(got, want []byte, pieceLen int64) string {
	if len(got) != len(want) {
		return fmt.Sprintf("length %d, want %d", len(got), len(want))
	}
	var bad []string
	for off := int64(0); off < int64(len(want)); off += pieceLen {
		end := min(off+pieceLen, int64(len(want)))
		if !bytes.Equal(got[off:end], want[off:end]) {
			kind := "differs"
			if bytes.Equal(got[off:end], make([]byte, end-off)) {
				kind = "all zero"
			}
			bad = append(bad, fmt.Sprintf("piece %d %s", off/pieceLen, kind))
		}
	}
	return fmt.Sprintf("%d bytes, piece length %d: %s", len(want), pieceLen, strings.Join(bad, ", "))
}

var ihCache = map[string]core.InfoHash{}

func infoHashOf(s *simrt.Sim, w *world, bi int) core.InfoHash {
	key := w.digests[bi].Hex() + fmt.Sprint(w.c.P.PieceLength)
	if h, ok := ihCache[key]; ok {
		return h
	}
	mi, err := core.NewMetaInfo(w.digests[bi], bytes.NewReader(w.blobs[bi]), w.c.P.PieceLength)
	if err != nil {
		s.InfraError("metainfo: %v", err)
	}
	ihCache[key] = mi.InfoHash()
	return mi.InfoHash()
}

func (w *world) remove(ai, bi int) {
	a := w.c.Agents[ai]
	rm := &removal{agent: ai, blob: bi, seq: w.s.NextSeq()}
	w.removals = append(w.removals, rm)
	w.s.Logf("RemoveTorrent agent%d blob%d", ai+1, bi)
	d := w.digests[bi]
	w.s.GoNode(a.Node, "remove", func() {
		err := a.Sched.RemoveTorrent(d)
		rm.doneSeq = w.s.NextSeq()
		w.s.Logf("RemoveTorrent agent%d blob%d -> %v", ai+1, bi, err)
	})
}

func TestC17(t *testing.T) {
	kit.Main(t, kit.Spec{Property: "C17", Body: body,
		Config: func(string) simrt.Config { return simrt.Config{MaxSteps: 20_000_000, Horizon: 24 * time.Hour} },
		Real: []string{"lib/torrent/scheduler (event loop, state, dispatcher completion notice, reload, stop)", "agentstorage / originstorage, CADownloadStore / CAStore",
			"tracker server + local peer store", "origin blobserver metainfo endpoints", "announce / metainfo clients"},
		Stub:        []string{"TCP (simnet) and HTTP (simhttp) transports", "write-back manager (no-op)", "health-check filter (identity)"},
		Rule:        "one run = 1-2 agents x 1-4 client tasks x 1-3 Download calls over 1-3 real blobs + one unknown digest, with RemoveTorrent at drawn instants and at the arrival of the last piece, idle limits of seconds, and (60% of runs) Stop / Reload / unreachable seeder / stalled connections / HTTP faults / paused tasks; non-trivial = >=1 contested scheduling decision or fired fault",
		Assumptions: []string{"bound = 4 x (leecher idle limit + conn idle + 2 preemption + blacklist + 2 announce + handshake + dial + http timeouts) x (calls+1) after faults stop"},
	})
}
