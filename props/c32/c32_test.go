// C32: build-index tag puts are dependency-checked, stable and written back.
//
// A real build-index (tagserver + tagstore + SimpleStore + write-back manager
// and executor on simsql, see props/origincluster) serves the real tagclient
// through simhttp. Its origin cluster is one or two REAL origins (the C31
// assembly) whose caches / blob backend hold a tape-drawn subset of the
// dependency blobs; the dependency resolver is a harness stub mapping a
// manifest digest to its dependency digests; the tag backend is the real testfs
// server behind the real testfs client, with injected outages, 5xx, lost
// responses and truncated uploads. Write-through and asynchronous write-back
// are both exercised; the build-index is killed and rebuilt on the same
// directories and sqlite file.
//
//go:debug randseednop=0
package c32

import (
	"bytes"
	"errors"
	"fmt"
	"hash/fnv"
	"math/rand"
	"path/filepath"
	"sort"
	"strings"
	"testing"
	"time"

	"github.com/uber/kraken/build-index/tagclient"
	"github.com/uber/kraken/build-index/tagserver"
	"github.com/uber/kraken/build-index/tagstore"
	"github.com/uber/kraken/core"
	"github.com/uber/kraken/lib/hashring"
	"github.com/uber/kraken/lib/persistedretry"
	"github.com/uber/kraken/lib/store"
	"github.com/uber/kraken/origin/blobserver"
	"github.com/uber/kraken/utils/httputil"

	"kverif/kit"
	oc "kverif/props/origincluster"
	ssync "kverif/shim/sync"
	simrt "kverif/sim"
	"kverif/simhttp"
)

const (
	indexAddr   = "index1:80"
	backendAddr = "backend:80"
	ms          = time.Millisecond
)

const (
	depOnOrigin  = iota // in the cache of at least one origin
	depInBackend        // only in the origin cluster's blob backend
	depMissing          // nowhere
)

type dep struct {
	idx   int
	data  []byte
	d     core.Digest
	where int
	// goneSeq is the event sequence number after which the blob, present at the
	// start, is in no origin's cache and not in the blob backend any more (0:
	// never removed). Judged only for PUTs invoked after it.
	goneSeq int64
}

type manifest struct {
	idx  int
	d    core.Digest
	deps []*dep
}

func (m *manifest) missing() *dep { return m.missingSince(0) }

// missingSince returns a dependency that was in no origin's cache and not in
// the blob backend during the whole of a call invoked at sequence number seq
// (seq 0: from the start of the run).
func (m *manifest) missingSince(seq int64) *dep {
	for _, x := range m.deps {
		if x.where == depMissing || seq > 0 && x.goneSeq > 0 && x.goneSeq < seq {
			return x
		}
	}
	return nil
}

type tagRec struct {
	idx       int
	name      string
	attempted map[string]bool // digest strings whose PUT was invoked
	acked     bool            // a client saw a PUT for the tag succeed
	ackAt     time.Duration
	backed    bool   // backend observed holding the node's digest
	getVal    string // digest returned by successful GETs (all must agree)
	local     bool
}

// resolver is the dependency resolver stub: manifest digest -> dependencies.
type resolver struct{ w *world }

func (r resolver) Resolve(tag string, d core.Digest) (core.DigestList, error) {
	for _, m := range r.w.manifests {
		if m.d == d {
			var l core.DigestList
			for _, x := range m.deps {
				l = append(l, x.d)
			}
			return l, nil
		}
	}
	return nil, errors.New("unknown manifest")
}

type flags struct {
	outage, backendErrs, trunc, crashes, clientNet, originNet, slow bool
	errPm, truncPm, netPm                                           int
}

type world struct {
	s   *simrt.Sim
	hn  *simhttp.Net
	be  *oc.Backend
	dir string
	cfg oc.IndexConfig
	fl  flags

	origins   []string
	deps      []*dep
	manifests []*manifest
	tags      []*tagRec

	writeThrough bool
	nPauses      int
	node         *simrt.Node
	cur          *oc.Index
	restarts     int

	ready     bool
	outage    bool
	stop      bool
	lastOps   int
	observed  int
	lastState uint64
}

func (w *world) tagPath(t *tagRec) string { return oc.TagRoot + "/" + t.name }

func (w *world) observe(s *simrt.Sim) {
	ops := s.Disk().Ops
	if ops == w.lastOps {
		return
	}
	w.lastOps = ops
	w.check(s)
}

// check is the safety oracle for the write-back half: an acknowledged tag the
// backend does not hold yet must still be on the node's disk, holding a digest
// that was put for it.
func (w *world) check(s *simrt.Sim) {
	w.observed++
	h := fnv.New64a()
	for _, t := range w.tags {
		remote, rok := w.be.Get(w.tagPath(t))
		local, lok := oc.LocalTag(w.dir, t.name)
		fmt.Fprintf(h, "%d:%v:%v:%v:%v|", t.idx, t.acked, rok && t.attempted[string(remote)], lok, lok && rok && bytes.Equal(local, remote))
		if t.local && !lok && t.backed {
			s.Probe("local_tag_evicted_after_writeback")
		}
		t.local = lok
		if !t.acked || t.backed {
			continue
		}
		if lok && !t.attempted[string(local)] {
			s.Fail("local_tag_corrupt", "tag %s acknowledged at %v: at %v the node's cached tag file holds %q, which is not a digest that was put for it", t.name, t.ackAt, s.Now(), trunc(local))
			return
		}
		if rok && t.attempted[string(remote)] && (!lok || bytes.Equal(local, remote)) {
			t.backed = true
			s.Probe("written_back")
			s.Logf("observed: backend holds tag %d", t.idx)
			if w.restarts > 0 {
				s.Probe("written_back_after_restart")
			}
			continue
		}
		if !lok {
			if rok {
				s.Fail("tag_lost_backend_partial", "tag %s acknowledged at %v: at %v the node has no cached copy and the backend holds %q, not a digest that was put for it", t.name, t.ackAt, s.Now(), trunc(remote))
			} else {
				s.Fail("tag_lost_before_writeback", "tag %s acknowledged at %v: at %v the node has no cached copy although the backend does not hold the tag", t.name, t.ackAt, s.Now())
			}
			return
		}
	}
	st := h.Sum64()
	if st != w.lastState {
		w.lastState = st
		s.State(st)
	}
}

func trunc(b []byte) string {
	if len(b) > 80 {
		return string(b[:80]) + "..."
	}
	return string(b)
}

func (w *world) startIndex(crashAt int) error {
	if w.node != nil {
		w.s.KillNode(w.node)
		w.s.JoinNode(w.node)
		w.cur.Close()
		w.restarts++
		w.s.Probe("index_restart")
		for _, t := range w.tags {
			if t.acked && !t.backed {
				w.s.Probe("restart_with_writeback_outstanding")
				break
			}
		}
	}
	n, x, err := oc.StartIndex(w.s, w.hn, "index1", w.cfg, crashAt)
	w.node, w.cur = n, x
	if x == nil && err == nil {
		w.s.Probe("crash_during_startup")
	}
	return err
}

func (w *world) indexUp() bool { return w.node != nil && !w.node.Dead && w.cur != nil }

func (w *world) faultFn(ex *simhttp.Exchange) simhttp.Fault {
	tp := w.s.Tape
	switch {
	case ex.To == backendAddr:
		f := simhttp.Fault{}
		switch {
		case w.outage:
			f.Kind = simhttp.Refuse
		case w.fl.trunc && ex.Method == "POST" && tp.Chance(w.fl.truncPm):
			f.Kind, f.K = simhttp.TruncReq, -1
		case w.fl.backendErrs && tp.Chance(w.fl.errPm):
			f.Kind, f.Code = simhttp.Status, []int{503, 500, 429, 502}[tp.Draw(4)]
		case w.fl.backendErrs && tp.Chance(w.fl.errPm/2):
			f.Kind = simhttp.ResetAfter
		case w.fl.backendErrs && tp.Chance(w.fl.errPm/2):
			f.Kind = simhttp.ResetBefore
		}
		if w.fl.slow && tp.Chance(300) {
			f.Latency = time.Duration(1+tp.Draw(400)) * ms // a slow backend: requests take fake time
		}
		return f
	case ex.To == indexAddr:
		if w.fl.clientNet && ex.From == "harness" {
			switch {
			case tp.Chance(w.fl.netPm):
				return simhttp.Fault{Kind: simhttp.ResetAfter}
			case tp.Chance(w.fl.netPm / 3):
				return simhttp.Fault{Kind: simhttp.ResetBefore}
			}
		}
	case strings.HasPrefix(ex.To, "origin"):
		if w.fl.originNet && ex.From == "index1" {
			switch {
			case tp.Chance(w.fl.netPm / 2):
				return simhttp.Fault{Kind: simhttp.Refuse}
			case tp.Chance(w.fl.netPm / 2):
				return simhttp.Fault{Kind: simhttp.Status, Code: []int{503, 500}[tp.Draw(2)]}
			case tp.Chance(w.fl.netPm / 3):
				return simhttp.Fault{Kind: simhttp.ResetAfter}
			}
		}
	}
	return simhttp.Fault{}
}

func (w *world) chaos() {
	s, tp := w.s, w.s.Tape
	for !w.stop {
		simrt.Sleep(time.Duration(1+tp.Draw(12))*time.Second + time.Duration(tp.Draw(900))*ms)
		if w.stop {
			return
		}
		if !w.indexUp() {
			ca := 0
			if tp.Chance(250) {
				ca = 1 + tp.Draw(30)
			}
			if err := w.startIndex(ca); err != nil {
				s.Logf("index failed to start: %v", err)
			}
			continue
		}
		acts := []int{}
		if w.fl.outage {
			acts = append(acts, 0)
		}
		if w.fl.crashes {
			acts = append(acts, 1, 2)
		}
		if len(acts) == 0 {
			return
		}
		switch acts[tp.Draw(len(acts))] {
		case 0:
			w.outage = !w.outage
			s.Logf("backend outage=%v", w.outage)
			if w.outage {
				s.Probe("backend_outage_window")
			}
		case 1:
			s.Fault("crash")
			s.KillNode(w.node)
		case 2:
			w.node.CrashAt = w.node.DiskOps + 1 + tp.Draw(40)
			s.Logf("arm crash at disk op +%d", w.node.CrashAt-w.node.DiskOps)
		}
	}
}

func errClass(err error) string {
	switch {
	case err == nil:
		return "ok"
	case err == tagclient.ErrTagNotFound:
		return "notfound"
	case httputil.IsNetworkError(err):
		return "network"
	case httputil.IsStatus(err, 500):
		return "500"
	case httputil.IsStatus(err, 503):
		return "503"
	}
	if _, ok := err.(httputil.StatusError); ok {
		return "status"
	}
	return "error"
}

// backendTroubled reports whether any exchange with the tag backend logged
// since from was faulted or failed (the only excuse for a 404 on a stored tag).
func (w *world) backendTroubled(from int) bool {
	for _, ex := range w.hn.Log[from:] {
		if ex.To == backendAddr && (ex.Fault.Kind != simhttp.None || ex.Err != "" || ex.Status >= 500) {
			return true
		}
	}
	return false
}

func (w *world) get(id int, t *tagRec, cl tagclient.Client, final bool) {
	s := w.s
	ackedBefore := t.acked
	from := len(w.hn.Log)
	d, err := cl.Get(t.name)
	// An injected task pause (armed by step number, so possibly still pending
	// after faults stopped; up to 20s) can outlast the client's 10s timeout,
	// also for a retry queued behind the paused handler: the final GET is
	// retried three times per pause that may still fire.
	for i := 0; final && err != nil && err != tagclient.ErrTagNotFound && i < 3*w.nPauses; i++ {
		d, err = cl.Get(t.name)
	}
	s.Logf("client %d get tag %d -> %s", id, t.idx, errClass(err))
	switch {
	case err == nil:
		s.Probe("get_ok")
		if !t.attempted[d.String()] {
			s.Fail("get_unknown_digest", "GET %s returned %s, which was never put for the tag", t.name, d)
		}
		if t.getVal == "" {
			t.getVal = d.String()
		} else if t.getVal != d.String() {
			s.Fail("tag_changed", "GET %s returned %s after an earlier GET on the same node returned %s", t.name, d, t.getVal)
		}
		if _, ok := oc.LocalTag(w.dir, t.name); !ok {
			s.Probe("get_resolved_from_backend")
		}
	case err == tagclient.ErrTagNotFound:
		if ackedBefore && !w.backendTroubled(from) {
			s.Fail("tag_vanished", "GET %s answered 404 although a PUT for the tag was acknowledged at %v and no backend request failed during the GET", t.name, t.ackAt)
		}
		if ackedBefore {
			s.Probe("get_404_during_backend_trouble")
		}
	default:
		if final {
			s.Fail("tag_unresolvable", "with faults stopped, GET %s (PUT acknowledged at %v) fails: %v", t.name, t.ackAt, err)
		}
	}
}

func (w *world) client(id, nOps int, fixed bool) {
	s, tp := w.s, w.s.Tape
	cl := tagclient.NewSingleClient(indexAddr, nil)
	for op := 0; op < nOps; op++ {
		simrt.Sleep(time.Duration(tp.Draw(8))*time.Second + time.Duration(tp.Draw(700))*ms)
		t := w.tags[tp.Draw(len(w.tags))]
		if tp.Draw(5) >= 3 {
			w.get(id, t, cl, false)
			continue
		}
		m := w.manifests[tp.Draw(len(w.manifests))]
		if fixed {
			m = w.manifests[t.idx%len(w.manifests)]
		}
		attempts := 1 + tp.Draw(4)
		for a := 0; a < attempts; a++ {
			t.attempted[m.d.String()] = true
			from := len(w.hn.Log)
			callSeq := s.NextSeq()
			err := cl.Put(t.name, m.d)
			s.Logf("client %d put tag %d manifest %d attempt %d -> %s", id, t.idx, m.idx, a, errClass(err))
			if err == nil {
				s.Probe("put_ok")
				if x := m.missingSince(callSeq); x != nil {
					if x.where != depMissing {
						s.Fail("put_succeeded_with_missing_dependency", "PUT %s -> manifest %d (invoked at %d) succeeded although dependency blob %d had been removed from every origin's cache and from the blob backend by %d", t.name, m.idx, callSeq, x.idx, x.goneSeq)
					}
					s.Fail("put_succeeded_with_missing_dependency", "PUT %s -> manifest %d succeeded although dependency blob %d is neither in an origin's cache nor in the blob backend", t.name, m.idx, x.idx)
				}
				if !t.acked {
					t.acked, t.ackAt = true, s.Now()
				}
				w.lastOps = -1
				if w.writeThrough {
					remote, ok := w.be.Get(w.tagPath(t))
					switch {
					case !ok:
						s.Fail("write_through_not_synchronous", "write-through: PUT %s returned success at %v but the backend does not hold the tag", t.name, s.Now())
					case !t.attempted[string(remote)]:
						s.Fail("backend_tag_wrong", "write-through: PUT %s returned success at %v but the backend holds %q, not a digest that was put for it", t.name, s.Now(), trunc(remote))
					}
					s.Probe("write_through_checked")
				}
				for _, ex := range w.hn.Log[from:] {
					if ex.To == backendAddr && ex.From == "index1" && ex.Method == "POST" && w.writeThrough {
						s.Probe("write_through_upload")
					}
				}
				break
			}
			if m.missing() != nil {
				s.Probe("put_rejected_missing_dependency")
			} else if m.missingSince(callSeq) != nil {
				s.Probe("put_rejected_vanished_dependency")
			}
			simrt.Sleep(time.Duration(1+tp.Draw(5))*time.Second + time.Duration(tp.Draw(500))*ms)
		}
	}
}

var curWorld *world

func observeHook(s *simrt.Sim) {
	if w := curWorld; w != nil && w.s == s && w.ready {
		w.observe(s)
	}
}

func body(s *simrt.Sim, tier string) {
	rand.Seed(1)
	tp := s.Tape
	w := &world{s: s, lastOps: -1}
	curWorld = w
	w.hn = simhttp.Install(s)
	w.be = oc.StartBackend(s, w.hn, backendAddr)
	tmp := kit.TempDir(s)
	w.dir = filepath.Join(tmp, "index1")

	nOrigins := 1 + tp.Draw(2)
	nDeps := 1 + tp.Draw(4)
	nManifests := 1 + tp.Draw(3)
	nTags := 1 + tp.Draw(3)
	nClients := 1 + tp.Draw(3)
	nOps := 2 + tp.Draw(4)
	if tier == "thorough" {
		nOps += tp.Draw(5)
	}
	w.writeThrough = tp.Chance(500)
	cleanupMode := tp.Chance(400)
	w.fl = flags{
		outage:      tp.Chance(400),
		backendErrs: tp.Chance(400),
		trunc:       tp.Chance(150),
		crashes:     tp.Chance(450),
		clientNet:   tp.Chance(450),
		originNet:   tp.Chance(400),
	}
	w.fl.slow = tp.Chance(500)
	nPauses := 0
	const maxPause = 20 * time.Second
	if tp.Chance(500) {
		// slow / preempted tasks: whoever runs at the drawn steps stops for a
		// drawn duration while the clock (and everybody else) keeps running
		nPauses = 1 + tp.Draw(4)
	}
	w.nPauses = nPauses
	rates := []int{60, 200, 450}
	w.fl.errPm, w.fl.truncPm, w.fl.netPm = rates[tp.Draw(3)], rates[tp.Draw(3)], rates[tp.Draw(3)]
	retryIv := time.Duration(3+tp.Draw(25)) * time.Second
	pollIv := time.Duration(1+tp.Draw(10)) * time.Second
	bufs := []int{8, 1, 0}
	wb := persistedretry.Config{
		IncomingBuffer: bufs[tp.Draw(3)], RetryBuffer: bufs[tp.Draw(3)], NumIncomingWorkers: 1 + tp.Draw(2), NumRetryWorkers: 1,
		MaxTaskThroughput: 10 * ms, RetryInterval: retryIv, PollRetriesInterval: pollIv,
		SyncRetryBackoff: httputil.ExponentialBackOffConfig{Enabled: true, InitialInterval: 200 * ms, Multiplier: 2,
			MaxInterval: 2 * time.Second, MaxRetries: uint64(1 + tp.Draw(2))},
		Testing: true,
	}
	var cleanup store.CleanupConfig // default: 30m interval, 6h TTI: nothing is evicted within a run
	if cleanupMode {
		cleanup = store.CleanupConfig{Interval: time.Duration(2+tp.Draw(15)) * time.Second, TTI: time.Duration(3+tp.Draw(40)) * time.Second}
		if tp.Chance(500) {
			cleanup.TTL = time.Duration(4+tp.Draw(40)) * time.Second
		}
	}

	// ---- origin cluster holding a drawn subset of the dependency blobs
	for i := 0; i < nOrigins; i++ {
		w.origins = append(w.origins, fmt.Sprintf("origin%d:80", i+1))
	}
	var originObjs []*oc.Origin
	for i, addr := range w.origins {
		_, o, err := oc.Start(s, w.hn, fmt.Sprintf("origin%d", i+1), oc.Config{
			Addr: addr, Cluster: w.origins, Dir: filepath.Join(tmp, fmt.Sprintf("origin%d", i+1)), Namespace: ".*", BackendAddr: backendAddr,
			Store: store.CAStoreConfig{}, WriteBack: persistedretry.Config{}, Server: blobserver.Config{}, Ring: hashring.Config{},
		}, 0)
		if err != nil || o == nil {
			s.InfraError("origin start: %v", err)
		}
		originObjs = append(originObjs, o)
	}
	for i := 0; i < nDeps; i++ {
		data := append([]byte{byte('a' + i)}, kit.Bytes(s, 7)...)
		d, _ := core.NewDigester().FromBytes(data)
		x := &dep{idx: i, data: data, d: d}
		switch k := tp.Draw(5); {
		case k <= 1:
			x.where = depOnOrigin
			on := tp.Draw(nOrigins + 1) // a single origin, or all of them
			for j, o := range originObjs {
				if on == nOrigins || on == j {
					o := o
					t := s.GoNode(o.Node, "seed", func() {
						if err := o.CAS.CreateCacheFile(d.Hex(), bytes.NewReader(data)); err != nil {
							s.InfraError("seed origin: %v", err)
						}
					})
					s.Wait(t)
				}
			}
		case k == 2:
			x.where = depInBackend
			if err := w.be.Put(oc.BlobRoot+"/"+d.Hex(), data); err != nil {
				s.InfraError("seed backend: %v", err)
			}
		default:
			x.where = depMissing
		}
		w.deps = append(w.deps, x)
	}
	for i := 0; i < nManifests; i++ {
		md, _ := core.NewDigester().FromBytes([]byte(fmt.Sprintf("manifest-%d", i)))
		m := &manifest{idx: i, d: md}
		for _, x := range w.deps {
			if tp.Chance(500) {
				m.deps = append(m.deps, x)
			}
		}
		w.manifests = append(w.manifests, m)
	}
	for i := 0; i < nTags; i++ {
		w.tags = append(w.tags, &tagRec{idx: i, name: fmt.Sprintf("repo%d/app:v%d", i, i), attempted: map[string]bool{}})
	}

	w.cfg = oc.IndexConfig{
		Addr: indexAddr, Dir: w.dir, BackendAddr: backendAddr, Origins: w.origins,
		Store:     store.SimpleStoreConfig{CacheCleanup: cleanup},
		WriteBack: wb,
		TagStore:  tagstore.Config{WriteThrough: w.writeThrough},
		Server:    tagserver.Config{},
		Resolver:  resolver{w},
	}
	w.hn.FaultFn = w.faultFn
	w.ready = true
	if err := w.startIndex(0); err != nil {
		s.InfraError("first index start: %v", err)
	}

	if nPauses > 0 {
		s.InjectPauses(nPauses, 1500, maxPause)
	}
	var wg, chaosDone ssync.WaitGroup
	if w.fl.outage || w.fl.crashes {
		chaosDone.Add(1)
		simrt.Go(func() { defer chaosDone.Done(); w.chaos() })
	}
	if s.Tape.Variant%3 == 1 {
		// a dependency that was there disappears for good: the blob backend's
		// owner removes it and every origin drops it from its cache
		var cands []*dep
		for _, x := range w.deps {
			if x.where != depMissing {
				cands = append(cands, x)
			}
		}
		if len(cands) > 0 {
			x := cands[int(s.Tape.Variant/3)%len(cands)]
			after := time.Duration(2+(s.Tape.Variant/12)%25) * time.Second
			wg.Add(1)
			simrt.Go(func() {
				defer wg.Done()
				simrt.Sleep(after)
				if !w.be.Remove(oc.BlobRoot + "/" + x.d.Hex()) {
					return
				}
				for _, o := range originObjs {
					o := o
					s.Wait(s.GoNode(o.Node, "drop", func() { o.CAS.DeleteCacheFile(x.d.Hex()) }))
				}
				for _, o := range originObjs {
					if _, err := o.CAS.GetCacheFileStat(x.d.Hex()); err == nil {
						return // an origin still (or again) holds it: nothing to judge
					}
				}
				x.goneSeq = s.NextSeq()
				s.Logf("dependency blob %d removed from the origin cluster and the blob backend (seq %d)", x.idx, x.goneSeq)
				s.Probe("dependency_vanished")
			})
		}
	}
	for c := 0; c < nClients; c++ {
		wg.Add(1)
		id := c
		simrt.Go(func() { defer wg.Done(); w.client(id, nOps, cleanupMode) })
	}
	wg.Wait()
	w.stop = true
	chaosDone.Wait()

	// ---- faults stop
	w.hn.Quiet = true
	w.outage = false
	if w.indexUp() {
		w.node.CrashAt = 0
	} else if err := w.startIndex(0); err != nil || !w.indexUp() {
		s.Fail("index_cannot_restart", "with no fault injected the build-index does not start on its own directories: %v", err)
	}
	tStop := s.Now()
	// Injected pauses are armed by step number and may still fire after this
	// instant: each can delay the write-back pipeline by its duration.
	bound := 3 * (time.Duration(nTags+1)*(retryIv+pollIv+3*time.Second) + time.Duration(nPauses)*maxPause)
	s.Logf("faults stop at %v, bound %v", tStop, bound)
	simrt.Sleep(bound)
	w.check(s)

	// every 200 the server produced for a PUT (seen by the client or not) must
	// have passed the dependency check
	byDigest := map[string]*manifest{}
	for _, m := range w.manifests {
		byDigest[m.d.String()] = m
	}
	for _, ex := range w.hn.Log {
		if ex.To != indexAddr || ex.Method != "PUT" || !ex.HandlerRan || ex.Status != 200 || ex.Fault.Kind == simhttp.Status {
			continue
		}
		i := strings.LastIndex(ex.Path, "/digest/")
		if i < 0 {
			continue
		}
		ds := strings.ReplaceAll(ex.Path[i+len("/digest/"):], "%3A", ":")
		if m := byDigest[ds]; m != nil && m.missing() != nil {
			s.Fail("put_succeeded_with_missing_dependency", "the server answered 200 to PUT %s although dependency blob %d of manifest %d is missing from the origin cluster", ex.Path, m.missing().idx, m.idx)
		}
	}
	cl := tagclient.NewSingleClient(indexAddr, nil)
	nAcked := 0
	for _, t := range w.tags {
		if !t.acked {
			continue
		}
		nAcked++
		remote, ok := w.be.Get(w.tagPath(t))
		switch {
		case !ok:
			s.Fail("not_written_back_by_bound", "tag %s acknowledged at %v is not in the backend %v after faults stopped (node up, backend healthy since %v)", t.name, t.ackAt, bound, tStop)
		case !t.attempted[string(remote)]:
			s.Fail("backend_tag_wrong", "tag %s acknowledged at %v: %v after faults stopped the backend holds %q, not a digest that was put for it", t.name, t.ackAt, bound, trunc(remote))
		}
		w.get(-1, t, cl, true)
		switch {
		case string(remote) != t.getVal:
			s.Fail("backend_tag_wrong", "tag %s acknowledged at %v: %v after faults stopped the backend holds %q while the node resolves the tag to %s", t.name, t.ackAt, bound, trunc(remote), t.getVal)
		}
	}
	if len(w.hn.HandlerPanics) > 0 {
		s.Fail("handler_panic", "http handler panicked: %v", w.hn.HandlerPanics)
	}
	if nAcked > 0 {
		s.Probe("run_with_ack")
	}
	var wh []string
	for _, x := range w.deps {
		wh = append(wh, []string{"origin", "backend", "missing"}[x.where])
	}
	sort.Strings(wh)
	kit.SetSample(map[string]any{
		"origins": nOrigins, "deps": wh, "manifests": nManifests, "tags": nTags, "clients": nClients, "ops_per_client": nOps,
		"write_through": w.writeThrough, "cleanup": fmt.Sprintf("%+v", cleanup),
		"writeback": fmt.Sprintf("buf=%d/%d workers=%d retry=%v poll=%v", wb.IncomingBuffer, wb.RetryBuffer, wb.NumIncomingWorkers, retryIv, pollIv),
		"faults":    fmt.Sprintf("%+v", w.fl), "acked": nAcked, "pauses": nPauses, "restarts": w.restarts, "observations": w.observed, "bound": bound.String(),
	})
	// let net/http client timeout goroutines expire before the bubble ends
	w.ready = false
	for _, n := range s.Nodes() {
		if n.Name != "harness" && n.Name != "backend" {
			s.KillNode(n)
		}
	}
	s.JoinNode(w.node)
	w.cur.Close()
	for _, o := range originObjs {
		s.JoinNode(o.Node)
		o.Close()
	}
	simrt.Sleep(15*time.Minute + time.Second)
}

func TestC32(t *testing.T) {
	kit.Main(t, kit.Spec{
		Property: "C32",
		Body:     body,
		Config: func(tier string) simrt.Config {
			return simrt.Config{MaxSteps: 1500000, Horizon: 6 * time.Hour, PanicIsFailure: true, Observe: observeHook}
		},
		Real: []string{"build-index/tagserver.Server (putTag, getTag)", "build-index/tagstore", "lib/store.SimpleStore (+cleanup manager)",
			"lib/persistedretry manager + writeback.Store (sqlite via simsql) + writeback.Executor", "build-index/tagclient",
			"origin cluster: 1-2 real origins (blobserver stat/locations, CAStore, hashring, backend manager)", "origin/blobclient ClusterClient",
			"lib/backend.Manager + testfs client + testfs server", "utils/httputil"},
		Stub: []string{"dependency resolver (harness map manifest digest -> dependency digests)", "HTTP transport (simhttp)", "sqlite CURRENT_TIMESTAMP (simsql)",
			"no neighbors, no remotes / tag replication (inert manager)", "healthcheck.IdentityFilter", "tally.NoopScope"},
		Rule: "one run = one build-index + 1-2 origins + testfs backend; 1-4 dependency blobs each in an origin cache / only in the blob backend / missing; 1-3 manifests with drawn dependency subsets; 1-3 tags; 1-3 clients x 2-5 ops (PUT with retries | GET); write-through or async; cleanup disabled (tags re-put with different digests) or aggressive cleanup (each tag always put with the same digest); fault flags (backend outage windows, 5xx/lost responses, truncated uploads, index kill / crash at disk op / crash during restart, lost client responses, index->origin refusals/5xx); non-trivial = contested scheduling or fired fault; distinct = distinct event-log hash",
		Assumptions: []string{"process-crash model: completed syscalls persist, sqlite statements are atomic", "origin contents are static during a run", "the backend never loses data on its own",
			"stability across re-puts with a different digest is asserted only while the node's cache is not being evicted (default cleanup); with aggressive cleanup every put of a tag uses the same digest"},
	})
}
