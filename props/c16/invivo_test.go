package c16

// In-vivo monitors for C16 (DESIGN.md §5 C16): what real schedulers do with
// their connection table under scenario.Churn, judged from two exact
// observation streams —
//
//   * network events (add/drop active conn, blacklist, torrent lifecycle):
//     produced inside the scheduler's event loop, so their order is the order in
//     which the loop changed the table;
//   * p2p frames on the simulated wire: the first frame a dialling peer sends is
//     its handshake (torrent, own id, its neighbours' ids), the first frame of the
//     accepting end is the acceptance.
//
// Rules (each is sound on its own, see the comments at the checks):
//   capacity        active conns of a torrent never exceed the configured maximum
//   one slot        a peer is not made active twice for a torrent without a drop
//   blacklist       no handshake is sent to a peer while an entry for (torrent,
//                   peer) that the scheduler itself announced is unexpired
//   mutual limit    a handshake listing more than MaxMutualConnections neighbours
//                   that are active on the accepting side for the whole exchange
//                   is not accepted

import (
	"os"
	"time"

	"github.com/uber/kraken/gen/go/proto/p2p"
	"github.com/uber/kraken/lib/torrent/networkevent"

	"kverif/kit"
	"kverif/scenario"
	simrt "kverif/sim"
	"kverif/simnet"
	"kverif/wire"
)

type vkey struct{ h, peer string }

type blRec struct{ at, until time.Duration }

type inRec struct {
	h    string
	from string
	nbrs []string
	seq  int64
}

type nodeState struct {
	active        map[vkey]int64 // event sequence number at which the conn became active
	held          map[vkey]int64 // sequence number of our acceptance of a handshake the peer sent: its slot is ours until a drop
	count         map[string]int
	incomingSince map[vkey]bool // the peer dialled us for h after our last handshake to it
	bl            map[vkey]blRec
	incoming      map[*simnet.Conn]*inRec // accepting end -> handshake received on it
}

func newNodeState() *nodeState {
	return &nodeState{held: map[vkey]int64{}, active: map[vkey]int64{}, count: map[string]int{}, incomingSince: map[vkey]bool{}, bl: map[vkey]blRec{}, incoming: map[*simnet.Conn]*inRec{}}
}

type vivo struct {
	s     *simrt.Sim
	sw    *scenario.World
	M, K  int
	nodes map[string]*nodeState
}

func (v *vivo) st(node string) *nodeState {
	st := v.nodes[node]
	if st == nil {
		st = newNodeState()
		v.nodes[node] = st
	}
	return st
}

func (v *vivo) onEvent(sw *scenario.World, node *simrt.Node, origin bool, ev *networkevent.Event) {
	if sw.Reloading[node.Name] {
		return // two schedulers of one process overlap: judged again after the reload
	}
	s, st := v.s, v.st(node.Name)
	k := vkey{ev.Torrent, ev.Peer}
	switch ev.Name {
	case networkevent.AddActiveConn:
		if _, dup := st.active[k]; dup {
			s.Fail("invivo_peer_active_twice", "%s made peer %.8s active for torrent %.8s although it already holds an active conn for it (no drop in between)", node.Name, ev.Peer, ev.Torrent)
		}
		st.active[k] = s.NextSeq()
		st.count[ev.Torrent]++
		if st.count[ev.Torrent] > v.M {
			s.Fail("invivo_capacity_exceeded", "%s holds %d active conns for torrent %.8s, configured maximum %d", node.Name, st.count[ev.Torrent], ev.Torrent, v.M)
		}
		s.Probe("invivo_add_active")
	case networkevent.DropActiveConn:
		if _, ok := st.active[k]; ok {
			delete(st.active, k)
			st.count[ev.Torrent]--
		}
		delete(st.held, k)
	case networkevent.BlacklistConn:
		// An entry is used only when nothing else can hold the slot of (torrent,
		// peer) at this instant: every release of a slot goes through the event
		// that blacklists, and the only conns of the pair that are not ours are
		// those the peer dialled — excluded here. So any later handshake we send
		// was decided after this entry existed.
		if st.incomingSince[k] {
			delete(st.bl, k)
			s.Probe("invivo_blacklist_ambiguous")
			return
		}
		st.bl[k] = blRec{s.Now(), s.Now() + time.Duration(ev.DurationMS)*time.Millisecond}
		s.Probe("invivo_blacklist_tracked")
	case networkevent.AddTorrent, networkevent.TorrentCancelled, networkevent.TorrentComplete:
		// completion clears the torrent's blacklist (also, silently, when the
		// completing dispatcher had been removed); forget around every lifecycle change
		for bk := range st.bl {
			if bk.h == ev.Torrent {
				delete(st.bl, bk)
			}
		}
	}
}

func (v *vivo) onFrame(f *wire.Frame) {
	if !f.First || f.Msg == nil || f.Msg.Type != p2p.Message_BITFIELD || f.Msg.Bitfield == nil {
		return
	}
	s, sw := v.s, v.sw
	if f.Conn.Dialer() {
		// --- a handshake we send
		self := v.st(f.From)
		target := sw.PeerOfIP[scenario.IPOf(f.Conn.Remote())]
		k := vkey{f.InfoHash, target}
		if rec, ok := self.bl[k]; ok && !sw.Reloading[f.From] && f.At > rec.at && f.At < rec.until-time.Millisecond {
			s.Fail("invivo_dialled_while_blacklisted", "%s sent a handshake for torrent %.8s to peer %.8s at %v although it blacklisted that peer for this torrent at %v until %v", f.From, f.InfoHash, target, f.At, rec.at, rec.until)
		}
		self.incomingSince[k] = false
		s.Probe("invivo_outgoing_handshake")
		// --- the same frame is a handshake the other side receives
		victim := v.st(f.To)
		victim.incomingSince[vkey{f.InfoHash, f.PeerID}] = true
		rec := &inRec{h: f.InfoHash, from: f.PeerID, seq: s.NextSeq()}
		for id := range f.Msg.Bitfield.RemoteBitfieldBytes {
			rec.nbrs = append(rec.nbrs, id)
		}
		victim.incoming[f.Conn.Peer()] = rec
		return
	}
	// --- acceptance sent by the accepting end
	victim := v.st(f.From)
	rec := victim.incoming[f.Conn]
	if rec == nil {
		return
	}
	// The slot of the dialler was reserved before this acceptance was written
	// and is released only by the drop of the conn it becomes.
	defer func() { victim.held[vkey{rec.h, rec.from}] = s.NextSeq() }()
	if v.K <= 0 || sw.Reloading[f.From] {
		return
	}
	// Neighbours of the dialler that were active here since before its
	// handshake arrived and still are: they were in the table at whatever
	// instant in between the scheduler judged the handshake.
	mutual := 0
	for _, n := range rec.nbrs {
		if since, ok := victim.active[vkey{rec.h, n}]; ok && since < rec.seq {
			mutual++
		} else if since, ok := victim.held[vkey{rec.h, n}]; ok && since < rec.seq {
			mutual++
		}
	}
	s.Probe("invivo_acceptance_judged")
	if mutual > 0 {
		s.Probe("invivo_acceptance_with_mutual_conns")
	}
	if mutual > v.K {
		s.Fail("invivo_mutual_limit_ignored", "%s accepted a handshake for torrent %.8s from peer %.8s which listed %d neighbours, %d of them with an active conn here during the whole exchange; MaxMutualConnections is %d", f.From, rec.h, rec.from, len(rec.nbrs), mutual, v.K)
	}
}

func invivo(s *simrt.Sim, tier string) {
	v := &vivo{s: s, nodes: map[string]*nodeState{}}
	run := scenario.Churn
	switch sel := s.Tape.Variant / 16 % 4; {
	case sel == 1 || os.Getenv("KSIM_C16_SCENARIO") == "reunion":
		run = scenario.Reunion
	case sel >= 2 || os.Getenv("KSIM_C16_SCENARIO") == "restartburst":
		run = scenario.RestartBurst
	}
	if os.Getenv("KSIM_C16_SCENARIO") == "churn" {
		run = scenario.Churn
	}
	run(s, tier, scenario.Hooks{
		Setup: func(sw *scenario.World) {
			v.sw = sw
			cs := sw.P.Sched.ConnState
			v.M, v.K = cs.MaxOpenConnectionsPerTorrent, cs.MaxMutualConnections
			sw.Wire.OnFrame = v.onFrame
			sw.OnReloaded = func(n *simrt.Node) { v.nodes[n.Name] = newNodeState() }
		},
		OnEvent: v.onEvent,
	})
	s.Probe("invivo_run")
	kit.Extra["invivo_runs"]++
}
