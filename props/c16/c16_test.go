// C16: connection limits and connection states are never violated.
//
// The real connstate.State (fake clock) is driven with tape-generated
// histories over 3 torrents x 5 peers and compared with reference model A.3,
// written from the property statement. The *conn.Conn objects are real ones,
// produced by the real conn.Handshaker (both directions) over an in-memory
// stream installed under shim/net. State is documented as not thread safe (the
// scheduler calls it from its event loop only), so operations are issued by
// one task; the other tasks of a run are the remote ends of handshakes.
package c16

import (
	"fmt"
	"hash/fnv"
	"os"
	"strings"
	"testing"
	"time"

	"github.com/uber-go/tally"
	"github.com/uber/kraken/core"
	"github.com/uber/kraken/lib/torrent/networkevent"
	"github.com/uber/kraken/lib/torrent/scheduler/conn"
	"github.com/uber/kraken/lib/torrent/scheduler/connstate"
	"github.com/uber/kraken/lib/torrent/storage"
	"github.com/willf/bitset"
	"go.uber.org/zap"

	"kverif/kit"
	sclock "kverif/shim/clock"
	snet "kverif/shim/net"
	ssync "kverif/shim/sync"
	simrt "kverif/sim"
)

const (
	nT = 3
	nP = 5
)

type noopEvents struct{}

func (noopEvents) ConnClosed(*conn.Conn) {}

const (
	none = iota
	pending
	active
)

type slot struct {
	kind int
	c    *connRec
}

type connRec struct {
	c      *conn.Conn
	id     int
	p, t   int
	closed bool
	in     bool
}

func (c *connRec) String() string { return fmt.Sprintf("conn%d(p%d,t%d)", c.id, c.p, c.t) }

type world struct {
	s      *simrt.Sim
	st     *connstate.State
	M, K   int // K == 0: no mutual-connection limit configured
	D      time.Duration
	noBL   bool
	peers  [nP]core.PeerID
	pidx   map[core.PeerID]int
	infos  [nT]*storage.TorrentInfo
	hashes [nT]core.InfoHash
	hidx   map[core.InfoHash]int
	local  core.PeerID
	lh     *conn.Handshaker
	rh     [nP]*conn.Handshaker
	onDial func(b *memConn)
	pool   []*connRec
	byConn map[*conn.Conn]*connRec

	// model A.3
	slots [nT][nP]slot
	bl    [nT][nP]time.Duration // expiry; <0: none

	hist []string
}

func (w *world) note(format string, a ...any) {
	l := fmt.Sprintf("t=%v ", w.s.Now()) + fmt.Sprintf(format, a...)
	w.hist = append(w.hist, l)
	w.s.Logf("%s", l)
}

func (w *world) fail(oracle, format string, a ...any) {
	h := w.hist
	if len(h) > 30 {
		h = h[len(h)-30:]
	}
	w.s.Fail(oracle, "%s\nmodel: %s\nhistory:\n  %s", fmt.Sprintf(format, a...), w.modelString(), strings.Join(h, "\n  "))
}

func (w *world) modelString() string {
	var sb strings.Builder
	fmt.Fprintf(&sb, "max=%d mutual=%d blacklist=%v;", w.M, w.K, w.D)
	for t := 0; t < nT; t++ {
		fmt.Fprintf(&sb, " t%d[", t)
		for p := 0; p < nP; p++ {
			switch w.slots[t][p].kind {
			case pending:
				fmt.Fprintf(&sb, " p%d:pending", p)
			case active:
				fmt.Fprintf(&sb, " p%d:active(conn%d)", p, w.slots[t][p].c.id)
			}
			if w.blacklisted(p, t) {
				fmt.Fprintf(&sb, " p%d:blacklisted-until-%v", p, w.bl[t][p])
			}
		}
		sb.WriteString(" ]")
	}
	return sb.String()
}

func (w *world) count(t int, kind int) int {
	n := 0
	for p := 0; p < nP; p++ {
		if k := w.slots[t][p].kind; k != none && (kind == none || k == kind) {
			n++
		}
	}
	return n
}

// blacklisted: instants are whole seconds, durations k+0.5 s: never equal.
func (w *world) blacklisted(p, t int) bool {
	return !w.noBL && w.bl[t][p] >= 0 && w.s.Now() < w.bl[t][p]
}

func (w *world) stateHash() uint64 {
	f := fnv.New64a()
	for t := 0; t < nT; t++ {
		for p := 0; p < nP; p++ {
			fmt.Fprintf(f, "%d%t,", w.slots[t][p].kind, w.blacklisted(p, t))
		}
	}
	return f.Sum64()
}

// ---------------------------------------------------------------------------
// real connections

func (w *world) handshaker(id core.PeerID) *conn.Handshaker {
	h, err := conn.NewHandshaker(conn.Config{}, tally.NoopScope, sclock.New(), networkevent.NewTestProducer(), id, noopEvents{}, zap.NewNop().Sugar())
	if err != nil {
		w.s.InfraError("NewHandshaker: %v", err)
	}
	return h
}

func (w *world) dial(network, address string, timeout time.Duration) (snet.Conn, error, bool) {
	a, b := memPipe()
	if w.onDial == nil {
		w.s.InfraError("unexpected dial to %s", address)
	}
	w.onDial(b)
	return a, nil, true
}

// newConn performs a real handshake between the local handshaker and the
// remote peer p for torrent t and returns the local *conn.Conn.
func (w *world) newConn(p, t int, incoming bool) *connRec {
	s := w.s
	if w.rh[p] == nil {
		w.rh[p] = w.handshaker(w.peers[p])
	}
	addr := fmt.Sprintf("10.0.0.%d:%d", p+1, 7000+t)
	var c *conn.Conn
	if !incoming {
		w.onDial = func(b *memConn) {
			simrt.Go(func() { // remote end
				pc, err := w.rh[p].Accept(b)
				if err != nil {
					s.InfraError("remote accept: %v", err)
				}
				if _, err := w.rh[p].Establish(pc, w.infos[t], nil); err != nil {
					s.InfraError("remote establish: %v", err)
				}
			})
		}
		r, err := w.lh.Initialize(w.peers[p], false, addr, w.infos[t], nil, "ns")
		if err != nil {
			s.InfraError("initialize: %v", err)
		}
		c = r.Conn
	} else {
		var got *memConn
		var wg ssync.WaitGroup
		wg.Add(1)
		w.onDial = func(b *memConn) { got = b; wg.Done() }
		simrt.Go(func() { // remote end dials us
			if _, err := w.rh[p].Initialize(w.local, false, "10.0.0.100:7000", w.infos[t], nil, "ns"); err != nil {
				s.InfraError("remote initialize: %v", err)
			}
		})
		wg.Wait()
		pc, err := w.lh.Accept(got)
		if err != nil {
			s.InfraError("accept: %v", err)
		}
		c, err = w.lh.Establish(pc, w.infos[t], nil)
		if err != nil {
			s.InfraError("establish: %v", err)
		}
	}
	w.onDial = nil
	if c.PeerID() != w.peers[p] || c.InfoHash() != w.hashes[t] {
		s.InfraError("handshake produced a conn with the wrong identity")
	}
	r := &connRec{c: c, id: len(w.pool), p: p, t: t, in: incoming}
	w.pool = append(w.pool, r)
	w.byConn[c] = r
	s.Probe("conn_created")
	w.note("%v created (incoming=%t)", r, incoming)
	return r
}

// pickConn returns a pooled conn for (p,t) (tape-chosen) or a new one.
func (w *world) pickConn(p, t int, preferNew bool) *connRec {
	tp := w.s.Tape
	var have []*connRec
	for _, r := range w.pool {
		if r.p == p && r.t == t {
			have = append(have, r)
		}
	}
	if len(have) == 0 || (len(have) < 3 && len(w.pool) < 14 && (preferNew || tp.Chance(300))) {
		return w.newConn(p, t, tp.Chance(400))
	}
	return have[tp.Draw(len(have))]
}

// ---------------------------------------------------------------------------
// operations, each judged against the model

func (w *world) addPending(p, t int, nbrs []int, ctx string) error {
	var ids []core.PeerID
	mutual := 0
	for _, n := range nbrs {
		ids = append(ids, w.peers[n])
		if w.slots[t][n].kind != none {
			mutual++
		}
	}
	err := w.st.AddPending(w.peers[p], w.hashes[t], ids)
	w.note("%saddPending(p%d,t%d,nbrs=%v) -> %v", ctx, p, t, nbrs, err)
	reasons := map[error]bool{}
	if w.count(t, none) >= w.M {
		reasons[connstate.ErrTorrentAtCapacity] = true
	}
	switch w.slots[t][p].kind {
	case pending:
		reasons[connstate.ErrConnAlreadyPending] = true
	case active:
		reasons[connstate.ErrConnAlreadyActive] = true
	}
	if w.K > 0 && mutual > w.K {
		reasons[connstate.ErrTooManyMutualConns] = true
	}
	if err == nil {
		switch {
		case reasons[connstate.ErrTorrentAtCapacity]:
			w.fail("capacity_exceeded", "AddPending(p%d,t%d) accepted although the torrent already has %d pending+active connections (max %d)", p, t, w.count(t, none), w.M)
		case reasons[connstate.ErrConnAlreadyPending]:
			w.fail("peer_added_twice", "AddPending(p%d,t%d) accepted although the peer is already pending", p, t)
		case reasons[connstate.ErrConnAlreadyActive]:
			w.fail("pending_and_active", "AddPending(p%d,t%d) accepted although the peer has an active connection", p, t)
		case reasons[connstate.ErrTooManyMutualConns]:
			w.fail("mutual_limit_not_enforced", "AddPending(p%d,t%d) accepted although %d of its neighbours %v are connected (max mutual %d)", p, t, mutual, nbrs, w.K)
		}
		w.slots[t][p] = slot{kind: pending}
		w.s.Probe("add_pending_ok")
		return nil
	}
	if !reasons[err] {
		if err == connstate.ErrTooManyMutualConns {
			w.fail("mutual_limit_wrong", "AddPending(p%d,t%d) refused for mutual connections although only %d of its neighbours %v are connected (configured max mutual %d, 0 = no limit)", p, t, mutual, nbrs, w.K)
		}
		w.fail("unexpected_refusal", "AddPending(p%d,t%d) = %v but that reason does not apply", p, t, err)
	}
	switch err {
	case connstate.ErrTorrentAtCapacity:
		w.s.Probe("refused_capacity")
	case connstate.ErrTooManyMutualConns:
		w.s.Probe("refused_mutual")
	default:
		w.s.Probe("refused_duplicate")
	}
	return err
}

func (w *world) moveActive(r *connRec) {
	err := w.st.MovePendingToActive(r.c)
	w.note("movePendingToActive(%v closed=%t) -> %v", r, r.closed, err)
	sl := &w.slots[r.t][r.p]
	reasons := map[error]bool{}
	if r.closed {
		reasons[connstate.ErrConnClosed] = true
	}
	if sl.kind != pending {
		reasons[connstate.ErrInvalidActiveTransition] = true
	}
	if err == nil {
		switch {
		case r.closed:
			w.fail("closed_conn_activated", "MovePendingToActive accepted the closed %v", r)
		case sl.kind == active:
			w.fail("active_conn_overwritten", "MovePendingToActive(%v) accepted although the peer already has active conn%d", r, sl.c.id)
		case sl.kind == none:
			w.fail("activated_without_pending", "MovePendingToActive(%v) accepted although no capacity was reserved (not pending)", r)
		}
		*sl = slot{kind: active, c: r}
		w.s.Probe("move_active_ok")
		return
	}
	if !reasons[err] {
		w.fail("unexpected_refusal", "MovePendingToActive(%v) = %v but that reason does not apply", r, err)
	}
	w.s.Probe("move_active_refused")
}

func (w *world) deletePending(p, t int) {
	w.st.DeletePending(w.peers[p], w.hashes[t])
	w.note("deletePending(p%d,t%d) [model: %s]", p, t, []string{"none", "pending", "active"}[w.slots[t][p].kind])
	if w.slots[t][p].kind == pending {
		w.slots[t][p] = slot{}
		w.s.Probe("delete_pending_effective")
	} else if w.slots[t][p].kind == active {
		w.s.Probe("delete_pending_of_active")
	}
}

func (w *world) deleteActive(r *connRec) {
	w.st.DeleteActive(r.c)
	sl := &w.slots[r.t][r.p]
	switch {
	case sl.kind == active && sl.c == r:
		w.note("deleteActive(%v) [stored conn]", r)
		*sl = slot{}
		w.s.Probe("delete_active_effective")
	case sl.kind == active:
		w.note("deleteActive(%v) [replaced: stored is conn%d]", r, sl.c.id)
		w.s.Probe("delete_active_of_replaced_conn")
	case sl.kind == pending:
		w.note("deleteActive(%v) [peer is pending again]", r)
		w.s.Probe("delete_active_while_pending")
	default:
		w.note("deleteActive(%v) [no slot]", r)
	}
}

func (w *world) blacklist(p, t int) {
	was := w.blacklisted(p, t)
	err := w.st.Blacklist(w.peers[p], w.hashes[t])
	w.note("blacklist(p%d,t%d) -> %v", p, t, err)
	if w.noBL {
		if err != nil {
			w.fail("blacklist_refused", "Blacklist returned %v with blacklisting disabled", err)
		}
		return
	}
	if was {
		if err == nil {
			w.fail("blacklist_twice_accepted", "Blacklist(p%d,t%d) accepted although the peer is blacklisted until %v", p, t, w.bl[t][p])
		}
		w.s.Probe("blacklist_already")
		return
	}
	if err != nil {
		w.fail("blacklist_refused", "Blacklist(p%d,t%d) = %v although the peer is not blacklisted", p, t, err)
	}
	w.bl[t][p] = w.s.Now() + w.D
	w.s.Probe("blacklist_ok")
}

func (w *world) clearBlacklist(t int) {
	w.st.ClearBlacklist(w.hashes[t])
	w.note("clearBlacklist(t%d)", t)
	for p := 0; p < nP; p++ {
		if w.blacklisted(p, t) {
			w.s.Probe("clear_blacklist_effective")
		}
		w.bl[t][p] = -1
	}
}

func (w *world) checkBlacklisted(p, t int, ctx string) bool {
	got, want := w.st.Blacklisted(w.peers[p], w.hashes[t]), w.blacklisted(p, t)
	if got != want {
		w.note("%sblacklisted(p%d,t%d) -> %t", ctx, p, t, got)
		switch {
		case ctx != "" && want:
			w.fail("blacklisted_peer_dialled", "announce result: p%d is blacklisted for t%d until %v but Blacklisted says no, the peer would be dialled", p, t, w.bl[t][p])
		case want:
			w.fail("blacklist_ended_early", "Blacklisted(p%d,t%d) = false but the peer is blacklisted until %v", p, t, w.bl[t][p])
		default:
			w.fail("blacklist_outlives_expiry", "Blacklisted(p%d,t%d) = true but the entry expired at %v or was cleared / never made", p, t, w.bl[t][p])
		}
	}
	return got
}

// announceResult replays what the scheduler does with the peers of an announce
// response (events.go announceResultEvent): skip blacklisted peers, reserve
// capacity for the others, stop at capacity.
func (w *world) announceResult(t int, order []int) {
	w.note("announceResult(t%d, peers=%v)", t, order)
	for _, p := range order {
		if w.checkBlacklisted(p, t, "announce: ") {
			w.s.Probe("announce_skipped_blacklisted")
			continue
		}
		if err := w.addPending(p, t, nil, "announce: "); err != nil {
			if err == connstate.ErrTorrentAtCapacity {
				break
			}
			continue
		}
		if w.blacklisted(p, t) {
			w.fail("blacklisted_peer_dialled", "p%d dialled for t%d while blacklisted", p, t)
		}
		w.s.Probe("announce_dial")
	}
}

// observe checks every read-only accessor against the model.
func (w *world) observe(afterForeignDelete *connRec) {
	got := map[*connRec]bool{}
	for _, c := range w.st.ActiveConns() {
		r := w.byConn[c]
		if r == nil {
			w.fail("active_conns_mismatch", "ActiveConns returned an unknown connection")
		}
		if got[r] {
			w.fail("active_conns_mismatch", "ActiveConns lists %v twice", r)
		}
		got[r] = true
	}
	for t := 0; t < nT; t++ {
		for p := 0; p < nP; p++ {
			sl := w.slots[t][p]
			if sl.kind == active && !got[sl.c] {
				w.note("activeConns lacks %v", sl.c)
				if afterForeignDelete != nil && afterForeignDelete.p == p && afterForeignDelete.t == t {
					w.fail("replaced_conn_removed", "DeleteActive(%v) removed %v, the newer connection of the same peer and torrent", afterForeignDelete, sl.c)
				}
				w.fail("active_conns_mismatch", "%v should be active but ActiveConns does not list it", sl.c)
			}
			delete(got, sl.c)
		}
	}
	for _, r := range w.pool { // deterministic order
		if got[r] {
			w.note("activeConns lists %v", r)
			w.fail("active_conns_mismatch", "ActiveConns lists %v which is not active", r)
		}
	}
	for t := 0; t < nT; t++ {
		want := w.count(t, active) == w.M
		if s := w.st.Saturated(w.hashes[t]); s != want {
			w.note("saturated(t%d) -> %t", t, s)
			w.fail("saturated_wrong", "Saturated(t%d) = %t with %d active of max %d", t, s, w.count(t, active), w.M)
		}
		if want {
			w.s.Probe("saturated_torrent")
		}
		for p := 0; p < nP; p++ {
			w.checkBlacklisted(p, t, "")
		}
	}
	seen := map[[2]int]bool{}
	for _, b := range w.st.BlacklistSnapshot() {
		p, okp := w.pidx[b.PeerID]
		t, okt := w.hidx[b.InfoHash]
		if !okp || !okt {
			w.fail("blacklist_snapshot_wrong", "snapshot has an unknown entry")
		}
		if b.Remaining <= 0 {
			continue // an expired leftover claims nothing
		}
		if !w.blacklisted(p, t) {
			w.fail("blacklist_snapshot_wrong", "snapshot lists (p%d,t%d) with %v remaining but the peer is not blacklisted", p, t, b.Remaining)
		}
		if b.Remaining != w.bl[t][p]-w.s.Now() {
			w.fail("blacklist_snapshot_wrong", "snapshot says %v remaining for (p%d,t%d), expiry is %v", b.Remaining, p, t, w.bl[t][p])
		}
		seen[[2]int{p, t}] = true
	}
	for t := 0; t < nT; t++ {
		for p := 0; p < nP; p++ {
			if w.blacklisted(p, t) && !seen[[2]int{p, t}] {
				w.fail("blacklist_snapshot_wrong", "snapshot omits blacklisted (p%d,t%d)", p, t)
			}
		}
	}
	w.s.State(w.stateHash())
}

func (w *world) nbrs(p int) []int {
	mask := w.s.Tape.Draw(1 << nP)
	var out []int
	for n := 0; n < nP; n++ {
		if n != p && mask&(1<<uint(n)) != 0 {
			out = append(out, n)
		}
	}
	return out
}

func body(s *simrt.Sim, tier string) {
	// One run in 16 watches the connection tables of real schedulers in a
	// simulated cluster (invivo_test.go); workload variants are out of band.
	if s.Tape.Variant%16 == 5 || os.Getenv("KSIM_C16_MODE") == "invivo" {
		invivo(s, tier)
		return
	}
	tp := s.Tape
	w := &world{s: s, pidx: map[core.PeerID]int{}, hidx: map[core.InfoHash]int{}, byConn: map[*conn.Conn]*connRec{}}
	w.M = 1 + tp.Draw(5)
	w.K = tp.Draw(4)
	w.D = time.Duration(2+tp.Draw(6))*time.Second + 500*time.Millisecond
	w.noBL = tp.Draw(10) == 9
	for p := 0; p < nP; p++ {
		id, err := core.HashedPeerID(fmt.Sprintf("peer%d", p))
		if err != nil {
			s.InfraError("%v", err)
		}
		w.peers[p] = id
		w.pidx[id] = p
	}
	w.local, _ = core.HashedPeerID("local")
	for t := 0; t < nT; t++ {
		data := []byte{byte(t), 1, 2, 3}
		d, err := core.NewDigester().FromBytes(data)
		if err != nil {
			s.InfraError("%v", err)
		}
		mi, err := core.NewMetaInfoFromBytes(d, data, 2)
		if err != nil {
			s.InfraError("%v", err)
		}
		w.infos[t] = storage.NewTorrentInfo(mi, bitset.New(uint(mi.NumPieces())))
		w.hashes[t] = mi.InfoHash()
		w.hidx[w.hashes[t]] = t
		for p := 0; p < nP; p++ {
			w.bl[t][p] = -1
		}
	}
	snet.SimDial = w.dial
	s.AtEnd(func() { snet.SimDial = nil })
	w.lh = w.handshaker(w.local)
	w.st = connstate.New(connstate.Config{
		MaxOpenConnectionsPerTorrent: w.M,
		MaxMutualConnections:         w.K,
		DisableBlacklist:             w.noBL,
		BlacklistDuration:            w.D,
	}, sclock.New(), w.local, networkevent.NewTestProducer(), zap.NewNop().Sugar())
	s.Logf("config max=%d mutual=%d blacklist=%v disabled=%t", w.M, w.K, w.D, w.noBL)

	n := 10 + tp.Draw(71)
	if tier == "thorough" {
		n += tp.Draw(120)
	}
	for i := 0; i < n; i++ {
		var foreign *connRec
		switch k := tp.Draw(18); {
		case k < 5: // make progress on one (peer, torrent) pair
			p, t := tp.Draw(nP), tp.Draw(nT)
			switch sl := w.slots[t][p]; sl.kind {
			case none:
				w.addPending(p, t, w.nbrs(p), "")
			case pending:
				if tp.Chance(200) {
					w.deletePending(p, t)
				} else {
					w.moveActive(w.pickConn(p, t, tp.Chance(500)))
				}
			case active:
				r := sl.c
				if tp.Chance(400) {
					r = w.pickConn(p, t, false)
				}
				if r != sl.c {
					foreign = r
				}
				w.deleteActive(r)
			}
		case k < 7:
			p := tp.Draw(nP)
			w.addPending(p, tp.Draw(nT), w.nbrs(p), "")
		case k == 7:
			w.moveActive(w.pickConn(tp.Draw(nP), tp.Draw(nT), false))
		case k == 8:
			w.deletePending(tp.Draw(nP), tp.Draw(nT))
		case k == 9:
			if len(w.pool) > 0 {
				r := w.pool[tp.Draw(len(w.pool))]
				if sl := w.slots[r.t][r.p]; sl.kind == active && sl.c != r {
					foreign = r
				}
				w.deleteActive(r)
			}
		case k == 10 || k == 11:
			w.blacklist(tp.Draw(nP), tp.Draw(nT))
		case k == 12:
			w.clearBlacklist(tp.Draw(nT))
		case k == 13 || k == 14:
			d := time.Duration(1+tp.Draw(int(w.D/time.Second)+2)) * time.Second
			simrt.Sleep(d)
			w.note("(clock advanced by %v)", d)
			s.Probe("clock_advance")
		case k == 15:
			if len(w.pool) > 0 {
				r := w.pool[tp.Draw(len(w.pool))]
				r.c.Close()
				r.closed = true
				w.note("close %v", r)
				s.Probe("conn_closed")
				if !r.c.IsClosed() {
					s.InfraError("Close did not mark the conn closed")
				}
			}
		default: // announce result for a torrent
			t := tp.Draw(nT)
			var order []int
			start, cnt := tp.Draw(nP), 1+tp.Draw(nP)
			for j := 0; j < cnt; j++ {
				order = append(order, (start+j)%nP)
			}
			w.announceResult(t, order)
		}
		w.observe(foreign)
	}
	// final sweep: reveal the hidden pending/none state of every pair
	for t := 0; t < nT; t++ {
		for p := 0; p < nP; p++ {
			w.addPending(p, t, nil, "final: ")
		}
	}
	w.observe(nil)
	kit.SetSample(map[string]any{"max_open_conn": w.M, "max_mutual_conn": w.K, "blacklist": w.D.String(), "blacklist_disabled": w.noBL, "steps": n, "conns_created": len(w.pool)})
}

func TestC16(t *testing.T) {
	kit.Main(t, kit.Spec{
		Property: "C16",
		Body:     body,
		Config: func(tier string) simrt.Config {
			return simrt.Config{MaxSteps: 20_000_000, Horizon: 12 * time.Hour, PanicIsFailure: true}
		},
		Real: []string{"lib/torrent/scheduler/connstate.State", "lib/torrent/scheduler/conn.Handshaker and conn.Conn (objects only: handshake both directions, Close/IsClosed)"},
		Stub: []string{"transport: in-memory byte stream installed under shim/net (no faults)", "the scheduler event loop: one harness task issues the operations, including a replay of the announce-result peer selection of events.go", "networkevent.TestProducer, tally.NoopScope"},
		Rule: "one run = one history: max connections per torrent 1-5, max mutual 0(no limit)-3, blacklist duration k+0.5 s (or disabled) drawn per run; 10-80 (thorough 200) steps over 3 torrents x 5 peers: add-pending with drawn neighbour lists, move-to-active with fresh/reused/closed connections, delete-pending, delete-active of the stored or of a replaced connection, blacklist, clear-blacklist, clock advances of whole seconds, announce-result replays; after every step ActiveConns, Saturated, Blacklisted of all pairs and BlacklistSnapshot are compared with the model; final sweep AddPending on every pair; distinct = distinct event-log hash",
		Assumptions: []string{
			"all instants are whole seconds and the blacklist duration is k+0.5 s: no comparison at the expiry boundary is asserted",
			"when several refusal reasons apply to one call any of them is accepted",
			"max_mutual_conn = 0 means no limit (documented default); otherwise a peer is refused iff more than that many of its neighbours are pending or active for the torrent",
			"State is used from one task, as its documentation requires",
		},
	})
}
