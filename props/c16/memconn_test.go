package c16

import (
	"io"
	"net"
	"time"

	ssync "kverif/shim/sync"
)

// In-memory duplex byte stream used only to let the real conn.Handshaker
// produce real *conn.Conn objects (the only public way to obtain one with a
// chosen remote peer id and info hash). Reads block on simulator primitives, so
// a blocked reader releases the baton. No faults: the transport is not under
// test here (connstate never touches the socket).

type pipeBuf struct {
	mu     ssync.Mutex
	cond   *ssync.Cond
	data   []byte
	closed bool
}

func newPipeBuf() *pipeBuf {
	b := &pipeBuf{}
	b.cond = ssync.NewCond(&b.mu)
	return b
}

type memConn struct {
	rd, wr *pipeBuf
	name   string
}

func memPipe() (a, b *memConn) {
	x, y := newPipeBuf(), newPipeBuf()
	return &memConn{rd: x, wr: y, name: "a"}, &memConn{rd: y, wr: x, name: "b"}
}

func (c *memConn) Read(p []byte) (int, error) {
	b := c.rd
	b.mu.Lock()
	defer b.mu.Unlock()
	for len(b.data) == 0 && !b.closed {
		b.cond.Wait()
	}
	if len(b.data) == 0 {
		return 0, io.EOF
	}
	n := copy(p, b.data)
	b.data = b.data[n:]
	return n, nil
}

func (c *memConn) Write(p []byte) (int, error) {
	b := c.wr
	b.mu.Lock()
	defer b.mu.Unlock()
	if b.closed {
		return 0, io.ErrClosedPipe
	}
	b.data = append(b.data, p...)
	b.cond.Broadcast()
	return len(p), nil
}

func (c *memConn) Close() error {
	for _, b := range []*pipeBuf{c.rd, c.wr} {
		b.mu.Lock()
		b.closed = true
		b.cond.Broadcast()
		b.mu.Unlock()
	}
	return nil
}

type memAddr string

func (a memAddr) Network() string { return "tcp" }
func (a memAddr) String() string  { return string(a) }

func (c *memConn) LocalAddr() net.Addr                { return memAddr("mem-" + c.name) }
func (c *memConn) RemoteAddr() net.Addr               { return memAddr("mem-peer-of-" + c.name) }
func (c *memConn) SetDeadline(t time.Time) error      { return nil }
func (c *memConn) SetReadDeadline(t time.Time) error  { return nil }
func (c *memConn) SetWriteDeadline(t time.Time) error { return nil }
