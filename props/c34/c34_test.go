// C34: HTTP retries resend the complete original request.
//
// Real code: utils/httputil Send / Get / Post / Put / Patch / Delete / Head /
// PollAccepted with SendRetry, RetryBackoff, RetryCodes, SendAcceptedCodes,
// SendHeaders, SendBody, SendTimeout. The server side is a scripted simhttp
// endpoint: per attempt the tape decides whether the connection is refused,
// reset before / after the handler ran, cut while the request is sent, an
// intermediary or the handler answers a retryable / extra-retryable / other /
// accepted status, or the answer comes later than the client timeout.
//
// Oracle (from the property statement only):
//   - every attempt has the same method, URL and headers;
//   - every attempt that is made carries the complete original body: an attempt
//     that dies on the client with a framing error ("ContentLength=N with Body
//     length 0", read of a closed file) or goes out with other bytes violates it;
//   - success is reported only for an accepted response to an attempt whose
//     body was the complete original body;
//   - a delivered accepted status is never followed by another attempt;
//   - attempts <= 1 + backoff limit.
//
// Modelling notes (also in claim.json):
//   - Real net/http, on a REUSED keep-alive connection, transparently replays
//     sized bodies created by http.NewRequest from bytes.Reader / strings.Reader
//     / bytes.Buffer (GetBody); on a fresh connection (after a reset or
//     Connection: close) it fails with "ContentLength=N with Body length 0".
//     simhttp models both (Net.KeepAlive, drawn per run); the property has to
//     hold in both environments. Length-less bodies behave identically in both.
//   - A refused connection does not consume the request body (as in net/http).
package c34

import (
	"bytes"
	"fmt"
	"io"
	"net/http"
	"net/url"
	"path/filepath"
	"sort"
	"strings"
	"testing"
	"time"

	"github.com/cenkalti/backoff"
	"github.com/uber/kraken/utils/httputil"

	"kverif/kit"
	sos "kverif/shim/os"
	ssync "kverif/shim/sync"
	simrt "kverif/sim"
	"kverif/simhttp"
)

// ---- per-attempt script -----------------------------------------------------

const (
	stAccept      = iota // handler answers an accepted status
	stRetryable          // handler answers 429/502/503/504
	stProxyStatus        // an intermediary answers 502/503/504/429, handler not run
	stResetAfter         // handler ran, response lost
	stResetBefore        // connection reset before the handler
	stRefuse             // connection refused (the body is not touched)
	stExtra              // handler answers a code configured with RetryCodes
	stOther              // handler answers a non-retryable, non-accepted status
	stSlow               // answer arrives after the client timeout
	stTruncReq           // connection breaks while the request body is sent
	stPending            // PollAccepted only: handler answers 202
	nSteps
)

var stepNames = [...]string{"accept", "retryable", "proxy_status", "reset_after", "reset_before", "refuse", "extra_code", "other_status", "slow", "trunc_req", "pending_202"}

type step struct {
	kind int
	code int
	resp []byte
}

type seen struct {
	method, uri string
	header      http.Header
	n           int
	sha         string
	readErr     string
}

type attempt struct {
	st      step
	refused bool
	ex      *simhttp.Exchange
	srv     *seen
}

// limitedBackOff allows exactly limit retries.
type limitedBackOff struct {
	limit, used, resets int
	d                   time.Duration
}

func (b *limitedBackOff) NextBackOff() time.Duration {
	if b.used >= b.limit {
		return backoff.Stop
	}
	b.used++
	return b.d
}
func (b *limitedBackOff) Reset() { b.used = 0; b.resets++ }

type call struct {
	id       int
	poll     bool
	host     string
	method   string
	rawurl   string
	headers  map[string]string
	bodyKind int
	orig     []byte
	limit    int // retry limit of one Send
	pollLim  int
	accepted map[int]bool
	extra    []int
	timeout  time.Duration
	attempts []*attempt
	cur      *attempt
}

var bodyKinds = [...]string{"none", "bytes.Reader", "strings.Reader", "bytes.Buffer", "file", "multireader", "wrapped", "sectionreader"}

type world struct {
	s     *simrt.Sim
	hn    *simhttp.Net
	calls map[string]*call
}

// onAttempt is the simhttp FaultFn: it is called once per attempt before the
// request body is touched, records the attempt, draws its script step and
// translates it into a transport fault (or leaves it to the handler).
func (w *world) onAttempt(ex *simhttp.Exchange) simhttp.Fault {
	c := w.calls[ex.To]
	if c == nil {
		w.s.InfraError("request to unknown host %s", ex.To)
		return simhttp.Fault{}
	}
	a := &attempt{ex: ex}
	a.st = w.drawStep(c, len(c.attempts))
	c.attempts = append(c.attempts, a)
	c.cur = a
	w.s.Logf("call%d attempt %d script=%s code=%d", c.id, len(c.attempts), stepNames[a.st.kind], a.st.code)
	if len(c.attempts) > 40 {
		// unbounded retrying: stop the run with the verdict instead of spinning
		w.s.Fail("too_many_attempts", "call %d: %d attempts with backoff limit %d (poll limit %d)", c.id, len(c.attempts), c.limit, c.pollLim)
	}
	switch a.st.kind {
	case stRefuse:
		a.refused = true
		return simhttp.Fault{Kind: simhttp.Refuse}
	case stProxyStatus:
		return simhttp.Fault{Kind: simhttp.Status, Code: a.st.code}
	case stResetAfter:
		return simhttp.Fault{Kind: simhttp.ResetAfter}
	case stResetBefore:
		return simhttp.Fault{Kind: simhttp.ResetBefore}
	case stTruncReq:
		return simhttp.Fault{Kind: simhttp.TruncReq, K: -1}
	case stSlow:
		w.s.Fault("http_slow_response")
		return simhttp.Fault{Latency: c.timeout + time.Second}
	}
	return simhttp.Fault{}
}

func (w *world) drawStep(c *call, idx int) step {
	tp := w.s.Tape
	var st step
	// 0 is the boring choice: the attempt is answered with an accepted status.
	k := tp.Draw(16)
	switch {
	case k < 4:
		st.kind = stAccept
	case k < 6:
		st.kind = stRetryable
	case k == 6:
		st.kind = stProxyStatus
	case k == 7:
		st.kind = stResetAfter
	case k == 8:
		st.kind = stResetBefore
	case k == 9:
		st.kind = stRefuse
	case k == 10:
		st.kind = stExtra
	case k == 11:
		st.kind = stOther
	case k == 12:
		st.kind = stSlow
	case k == 13:
		st.kind = stTruncReq
	case k == 14:
		st.kind = stRetryable
	default:
		st.kind = stResetAfter
	}
	if c.poll && tp.Chance(450) {
		st.kind = stPending
	}
	if st.kind == stExtra && len(c.extra) == 0 {
		st.kind = stRetryable
	}
	switch st.kind {
	case stAccept:
		codes := sortedCodes(c.accepted)
		st.code = codes[tp.Draw(len(codes))]
	case stRetryable, stProxyStatus:
		st.code = []int{503, 502, 504, 429}[tp.Draw(4)]
	case stExtra:
		st.code = c.extra[tp.Draw(len(c.extra))]
	case stOther:
		st.code = []int{404, 400, 500, 409, 501}[tp.Draw(5)]
	case stPending:
		st.code = 202
	default:
		st.code = 200
	}
	if n := tp.Draw(3); n > 0 {
		st.resp = kit.Bytes(w.s, []int{0, 5, 300}[n])
	}
	return st
}

func sortedCodes(m map[int]bool) []int {
	var out []int
	for c := range m {
		out = append(out, c)
	}
	sort.Ints(out)
	return out
}

func (w *world) handler(c *call) http.Handler {
	return http.HandlerFunc(func(rw http.ResponseWriter, r *http.Request) {
		a := c.cur
		b, err := io.ReadAll(r.Body)
		sn := &seen{method: r.Method, uri: r.RequestURI, header: r.Header.Clone(), n: len(b), sha: kit.SHA(b)}
		if err != nil {
			sn.readErr = err.Error()
		}
		if a != nil {
			a.srv = sn
			rw.WriteHeader(a.st.code)
			if r.Method != http.MethodHead && a.st.code != 204 && a.st.code != 304 {
				rw.Write(a.st.resp)
			}
		}
	})
}

// lenless hides every optional interface of the wrapped reader.
type lenless struct{ r io.Reader }

func (l lenless) Read(p []byte) (int, error) { return l.r.Read(p) }

// makeBody builds the request body of the drawn kind holding content; the
// reader may have been advanced before Send (pre), the original body is what
// is left to read at call time.
func (w *world) makeBody(c *call, content []byte, pre int, dir string) io.Reader {
	switch c.bodyKind {
	case 1:
		r := bytes.NewReader(content)
		io.CopyN(io.Discard, r, int64(pre))
		return r
	case 2:
		r := strings.NewReader(string(content))
		io.CopyN(io.Discard, r, int64(pre))
		return r
	case 3:
		b := bytes.NewBuffer(append([]byte(nil), content...))
		b.Next(pre)
		return b
	case 4:
		p := filepath.Join(dir, fmt.Sprintf("body%d", c.id))
		if err := sos.WriteFile(p, content, 0o644); err != nil {
			w.s.InfraError("write body file: %v", err)
		}
		f, err := sos.Open(p)
		if err != nil {
			w.s.InfraError("open body file: %v", err)
		}
		io.CopyN(io.Discard, f, int64(pre))
		return f
	case 5:
		h := len(content[pre:]) / 2
		return io.MultiReader(bytes.NewReader(content[pre:pre+h]), bytes.NewReader(content[pre+h:]))
	case 6:
		return lenless{bytes.NewReader(content[pre:])}
	case 7:
		r := io.NewSectionReader(bytes.NewReader(content), 0, int64(len(content)))
		io.CopyN(io.Discard, r, int64(pre))
		return r
	}
	return nil
}

var headerPool = [][2]string{
	{"X-Kraken-Trace", "abc123"},
	{"Content-Type", "application/json"},
	{"x-lower-case", "Mixed Value; q=1"},
	{"Authorization", "Bearer tok"},
	{"Content-Range", "0-10"},
}

var pathPool = []string{"/x", "/", "/namespace/a%2Fb/blobs/sha256:ab12", "/tags/repo%3Atag/digest/d", "/internal/duplicate/tags/t"}
var queryPool = []string{"", "", "replicate=true", "a=1&b=two+words", "ttl_hr=3"}

func (w *world) newCall(id int, dir string) (*call, []httputil.SendOption, *limitedBackOff) {
	tp := w.s.Tape
	c := &call{id: id, host: fmt.Sprintf("srv%d:80", id), accepted: map[int]bool{200: true}, timeout: 60 * time.Second}
	c.poll = tp.Draw(5) == 4
	c.method = "GET"
	if !c.poll {
		c.method = []string{"POST", "PUT", "GET", "PATCH", "DELETE", "HEAD"}[tp.Draw(6)]
	}
	c.rawurl = "http://" + c.host + pathPool[tp.Draw(len(pathPool))]
	if q := queryPool[tp.Draw(len(queryPool))]; q != "" {
		c.rawurl += "?" + q
	}
	var opts []httputil.SendOption
	// headers
	if nh := tp.Draw(4); nh > 0 {
		c.headers = map[string]string{}
		first := tp.Draw(len(headerPool))
		for i := 0; i < nh; i++ {
			h := headerPool[(first+i)%len(headerPool)]
			c.headers[h[0]] = h[1]
		}
		opts = append(opts, httputil.SendHeaders(c.headers))
	}
	// body
	if !c.poll {
		c.bodyKind = tp.Draw(len(bodyKinds))
		if c.bodyKind != 0 {
			var size int
			switch tp.Draw(5) {
			case 0:
				size = 1 + tp.Draw(16)
			case 1:
				size = 0
			case 2:
				size = 17 + tp.Draw(4080)
			case 3:
				size = 4097 + tp.Draw(61440)
			case 4:
				size = 65536
			}
			content := kit.Bytes(w.s, size)
			pre := 0
			if size > 1 && tp.Chance(250) {
				pre = 1 + tp.Draw(size-1)
			}
			c.orig = append([]byte(nil), content[pre:]...)
			opts = append(opts, httputil.SendBody(w.makeBody(c, content, pre, dir)))
		}
	}
	// accepted codes (disjoint from the extra retry codes: a code that is both
	// accepted and configured for retry is a contradictory configuration the
	// statement does not rule on)
	switch tp.Draw(4) {
	case 1:
		c.accepted = map[int]bool{200: true, 201: true, 204: true}
	case 2:
		c.accepted = map[int]bool{201: true, 503: true} // accepted wins over the default retryable set
	case 3:
		c.accepted = map[int]bool{202: true, 200: true}
	}
	if c.poll {
		c.accepted = map[int]bool{200: true}
	} else if len(c.accepted) != 1 || !c.accepted[200] {
		opts = append(opts, httputil.SendAcceptedCodes(sortedCodes(c.accepted)...))
	}
	// timeout
	switch tp.Draw(3) {
	case 1:
		c.timeout = 5 * time.Second
		opts = append(opts, httputil.SendTimeout(c.timeout))
	case 2:
		c.timeout = 500 * time.Millisecond
		opts = append(opts, httputil.SendTimeout(c.timeout))
	}
	// retry
	interval := []time.Duration{250 * time.Millisecond, 0, time.Millisecond, 3 * time.Second}[tp.Draw(4)]
	var own *limitedBackOff
	switch tp.Draw(5) {
	case 0: // own counting backoff, limit 0..4
		c.limit = tp.Draw(5)
		own = &limitedBackOff{limit: c.limit, d: interval}
		var ro []httputil.RetryOption
		ro = append(ro, httputil.RetryBackoff(own))
		if tp.Chance(400) {
			c.extra = [][]int{{400}, {404, 409}, {500}}[tp.Draw(3)]
			ro = append(ro, httputil.RetryCodes(c.extra...))
		}
		opts = append(opts, httputil.SendRetry(ro...))
	case 1: // library backoff
		c.limit = 1 + tp.Draw(4)
		opts = append(opts, httputil.SendRetry(httputil.RetryBackoff(
			backoff.WithMaxRetries(backoff.NewConstantBackOff(interval), uint64(c.limit)))))
	case 2: // default retry option
		c.limit = 2
		if tp.Chance(300) {
			c.extra = []int{400}
			opts = append(opts, httputil.SendRetry(httputil.RetryCodes(400)))
		} else {
			opts = append(opts, httputil.SendRetry())
		}
	case 3: // no retry option at all
		c.limit = 0
	case 4:
		c.limit = 0
		opts = append(opts, httputil.SendRetry(httputil.RetryBackoff(&backoff.StopBackOff{})))
	}
	// an extra code must not be accepted (see above)
	for _, x := range c.extra {
		if c.accepted[x] {
			delete(c.accepted, x)
		}
	}
	var pollB *limitedBackOff
	if c.poll {
		c.pollLim = tp.Draw(5)
		pollB = &limitedBackOff{limit: c.pollLim, d: interval}
	}
	// The options are independent settings: callers list them in any order.
	// Half of the runs (out of band) pass them in the opposite order.
	if w.s.Tape.Variant%2 == 1 {
		for i, j := 0, len(opts)-1; i < j; i, j = i+1, j-1 {
			opts[i], opts[j] = opts[j], opts[i]
		}
		w.s.Probe("options_in_reverse_order")
	}
	return c, opts, pollB
}

func send(c *call, opts []httputil.SendOption, viaHelper bool) (*http.Response, error) {
	if viaHelper {
		switch c.method {
		case "GET":
			return httputil.Get(c.rawurl, opts...)
		case "POST":
			return httputil.Post(c.rawurl, opts...)
		case "PUT":
			return httputil.Put(c.rawurl, opts...)
		case "PATCH":
			return httputil.Patch(c.rawurl, opts...)
		case "DELETE":
			return httputil.Delete(c.rawurl, opts...)
		case "HEAD":
			return httputil.Head(c.rawurl, opts...)
		}
	}
	return httputil.Send(c.method, c.rawurl, opts...)
}

func headerKeys(m map[string]string) []string {
	var keys []string
	for k := range m {
		keys = append(keys, k)
	}
	sort.Strings(keys)
	return keys
}

func headerString(h http.Header) string {
	var keys []string
	for k := range h {
		keys = append(keys, k)
	}
	sort.Strings(keys)
	var sb strings.Builder
	for _, k := range keys {
		fmt.Fprintf(&sb, "%s=%q;", k, h[k])
	}
	return sb.String()
}

func (w *world) runCall(c *call, opts []httputil.SendOption, pollB *limitedBackOff) {
	s := w.s
	var resp *http.Response
	var err error
	if c.poll {
		resp, err = httputil.PollAccepted(c.rawurl, pollB, opts...)
	} else {
		resp, err = send(c, opts, s.Tape.Chance(500))
	}
	var gotBody []byte
	status := 0
	if err == nil {
		if resp == nil {
			s.Fail("nil_response_without_error", "call %d: Send returned (nil, nil)", c.id)
		}
		status = resp.StatusCode
		gotBody, _ = io.ReadAll(resp.Body)
		resp.Body.Close()
	}
	class := "ok"
	switch {
	case err == nil:
	case httputil.IsNetworkError(err):
		class = "network_error"
	default:
		if se, ok := err.(httputil.StatusError); ok {
			class = fmt.Sprintf("status_%d", se.Status)
		} else {
			class = "other_error"
		}
	}
	s.Logf("call%d %s %s body=%s/%d limit=%d -> %s attempts=%d", c.id, c.method, c.rawurl, bodyKinds[c.bodyKind], len(c.orig), c.limit, class, len(c.attempts))
	w.judge(c, err, status, gotBody)
}

func (w *world) judge(c *call, err error, status int, gotBody []byte) {
	s := w.s
	origSHA := kit.SHA(c.orig)
	n := len(c.attempts)
	if n == 0 {
		s.Fail("no_attempt", "call %d returned %v without any attempt", c.id, err)
	}
	u, _ := url.Parse(c.rawurl)
	bodyOK := func(a *attempt) (bool, string) {
		if a.refused {
			return true, ""
		}
		if a.ex.BodyErr != "" {
			return false, "failed on the client before it was sent: " + a.ex.BodyErr
		}
		if a.ex.BodyLen != len(c.orig) || a.ex.BodySHA != origSHA {
			return false, fmt.Sprintf("went out with a %d-byte body (sha %.12s)", a.ex.BodyLen, a.ex.BodySHA)
		}
		return true, ""
	}
	last := c.attempts[n-1]
	// ---- success only for an accepted answer to a complete request
	if err == nil {
		if last.refused || last.ex.Err != "" || !c.accepted[status] || last.ex.Status != status {
			s.Fail("success_without_accepted_response", "call %d: success (status %d) reported, but the last attempt (%d) ended with status=%d err=%q; accepted=%v",
				c.id, status, n, exStatus(last), exErr(last), sortedCodes(c.accepted))
		}
		if ok, why := bodyOK(last); !ok {
			s.Fail("success_on_incomplete_body", "call %d (%s %s, body %s of %d bytes): success reported for attempt %d which %s; the server answered %d to a request that was not the original",
				c.id, c.method, c.rawurl, bodyKinds[c.bodyKind], len(c.orig), n, why, status)
		}
		if last.srv != nil && c.method != "HEAD" && status != 204 && !bytes.Equal(gotBody, last.st.resp) {
			s.Fail("response_body_mismatch", "call %d: response body of %d bytes, server sent %d", c.id, len(gotBody), len(last.st.resp))
		}
		s.Probe("send_ok")
		if n > 1 {
			s.Probe("send_ok_after_retry")
		}
	}
	// ---- every attempt is the original request
	for i, a := range c.attempts {
		if a.ex.Method != c.method || a.ex.To != u.Host || a.ex.Path != u.EscapedPath() || a.ex.Query != u.RawQuery {
			s.Fail("attempt_differs", "call %d attempt %d is %s %s%s?%s, original %s %s", c.id, i+1, a.ex.Method, a.ex.To, a.ex.Path, a.ex.Query, c.method, u.String())
		}
		for _, k := range headerKeys(c.headers) {
			if vs := a.ex.Header.Values(k); len(vs) != 1 || vs[0] != c.headers[k] {
				s.Fail("attempt_differs", "call %d attempt %d header %s=%q, original %q", c.id, i+1, k, vs, c.headers[k])
			}
		}
		if hs, h0 := headerString(a.ex.Header), headerString(c.attempts[0].ex.Header); hs != h0 {
			s.Fail("attempt_differs", "call %d attempt %d headers %s differ from the first attempt's %s", c.id, i+1, hs, h0)
		}
		if ok, why := bodyOK(a); !ok {
			if i == 0 {
				s.InfraError("first attempt of call %d %s (body kind %s)", c.id, why, bodyKinds[c.bodyKind])
			}
			oracle := "retry_body_differs"
			if a.ex.BodyErr != "" {
				oracle = "retry_body_not_resent"
			}
			s.Fail(oracle, "call %d (%s %s, body %s of %d bytes): attempt %d %s (previous attempt: %s)",
				c.id, c.method, c.rawurl, bodyKinds[c.bodyKind], len(c.orig), i+1, why, stepNames[c.attempts[i-1].st.kind])
		}
		// what the handler saw (cross-check of the transport model)
		if a.srv != nil && a.st.kind != stTruncReq {
			if a.srv.method != c.method || a.srv.uri != u.RequestURI() || a.srv.n != len(c.orig) || a.srv.sha != origSHA || a.srv.readErr != "" {
				s.InfraError("call %d attempt %d: handler saw %s %s %d bytes err=%q, transport logged %d bytes", c.id, i+1, a.srv.method, a.srv.uri, a.srv.n, a.srv.readErr, a.ex.BodyLen)
			}
			for _, k := range headerKeys(c.headers) {
				if a.srv.header.Get(k) != c.headers[k] {
					s.InfraError("call %d attempt %d: handler saw header %s=%q", c.id, i+1, k, a.srv.header.Get(k))
				}
			}
		}
		// an accepted status ends the loop
		if i < n-1 && !a.refused && a.ex.Err == "" && c.accepted[a.ex.Status] {
			s.Fail("retried_after_accepted", "call %d: attempt %d was answered with accepted status %d, yet attempt %d followed", c.id, i+1, a.ex.Status, i+2)
		}
		if i > 0 {
			s.Probe("retry")
			if len(c.orig) > 0 {
				s.Probe("retry_with_body")
			}
		}
	}
	// ---- bounded by the backoff
	bound := 1 + c.limit
	if c.poll {
		bound = (1 + c.limit) * (1 + c.pollLim)
		pend := 0
		for _, a := range c.attempts {
			if a.ex.Err == "" && a.ex.Status == 202 {
				pend++
			}
		}
		if pend > 1+c.pollLim {
			s.Fail("too_many_polls", "call %d: %d polls answered 202 with poll backoff limit %d", c.id, pend, c.pollLim)
		}
		if pend > 0 {
			s.Probe("poll_202")
		}
	}
	if n > bound {
		s.Fail("too_many_attempts", "call %d: %d attempts, backoff limit %d (poll limit %d) allows %d", c.id, n, c.limit, c.pollLim, bound)
	}
	if n == bound && n > 1 && err != nil {
		s.Probe("backoff_exhausted")
	}
	s.State(uint64(n)<<32 | uint64(c.bodyKind)<<16 | uint64(status))
}

func exStatus(a *attempt) int { return a.ex.Status }
func exErr(a *attempt) string { return a.ex.Err }

func body(s *simrt.Sim, tier string) {
	hn := simhttp.Install(s)
	w := &world{s: s, hn: hn, calls: map[string]*call{}}
	hn.FaultFn = w.onAttempt
	dir := kit.TempDir(s)
	tp := s.Tape
	hn.KeepAlive = tp.Chance(500)
	nCalls := 1 + tp.Draw(3)
	if tier == "thorough" {
		nCalls += tp.Draw(3)
	}
	concurrent := tp.Chance(300)
	var wg ssync.WaitGroup
	var samples []map[string]any
	for i := 0; i < nCalls; i++ {
		c, opts, pollB := w.newCall(i+1, dir)
		w.calls[c.host] = c
		hn.Register(c.host, s.NewNode(fmt.Sprintf("srv%d", c.id)), w.handler(c))
		samples = append(samples, map[string]any{"method": c.method, "url": c.rawurl, "poll": c.poll, "body": bodyKinds[c.bodyKind], "size": len(c.orig),
			"retry_limit": c.limit, "poll_limit": c.pollLim, "accepted": sortedCodes(c.accepted), "extra_retry_codes": c.extra, "timeout": c.timeout.String(), "headers": len(c.headers)})
		if concurrent {
			wg.Add(1)
			simrt.Go(func() {
				defer wg.Done()
				w.runCall(c, opts, pollB)
			})
		} else {
			w.runCall(c, opts, pollB)
		}
	}
	wg.Wait()
	kit.SetSample(map[string]any{"calls": samples, "concurrent": concurrent, "keep_alive": hn.KeepAlive})
}

func TestC34(t *testing.T) {
	kit.Main(t, kit.Spec{
		Property: "C34",
		Body:     body,
		Config: func(tier string) simrt.Config {
			return simrt.Config{MaxSteps: 400000, Horizon: 2 * time.Hour, PanicIsFailure: true}
		},
		Real: []string{"utils/httputil.Send/Get/Post/Put/Patch/Delete/Head", "utils/httputil.PollAccepted", "httputil retry options (SendRetry, RetryBackoff, RetryCodes, SendAcceptedCodes, SendHeaders, SendBody, SendTimeout)", "net/http.Client (timeouts, request cloning)", "cenkalti/backoff WithMaxRetries/ConstantBackOff/StopBackOff"},
		Stub: []string{"server = scripted simhttp handler recording what it received", "network = simhttp, per run either every attempt on a fresh connection or keep-alive reuse with net/http's transparent GetBody replay", "counting BackOff implementation for exact limits"},
		Rule: "one run = 1-3 (thorough: up to 5) Send/PollAccepted calls, sequential or concurrent, each with tape-drawn method, URL, header set, body kind (none, bytes.Reader, strings.Reader, bytes.Buffer, simulated file, MultiReader, opaque wrapper, SectionReader; possibly pre-advanced) and size 0-64KiB, accepted codes, extra retry codes, timeout, backoff kind/limit 0-4 and a per-attempt server script (accepted / retryable / proxy status / reset before / reset after / refused / extra code / other status / slower than timeout / request cut / 202); non-trivial = at least one fault fired; distinct = distinct event-log hash",
		Assumptions: []string{
			"keep-alive reuse is drawn per run; without reuse (server closes the connection, or the previous attempt died with a network error) net/http cannot replay a consumed sized body",
			"accepted codes and RetryCodes are disjoint (a code configured as both is not ruled on by the statement)",
			"a refused connection does not consume the request body (as in net/http); resets, proxy answers and timeouts do",
		},
	})
}
