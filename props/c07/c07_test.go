// C07: the disk blob store behaves like its capacity-bounded LRU model.
//
// Three configurations, drawn per run:
//   - sequential, fault free: every result of a random history (<= 80 ops, 5
//     keys, all scopes, capacity from one blob to all blobs) is compared with
//     props/lrumodel (values, error classes, listings as sets, victims of
//     every admission, LRU order where unambiguous, accounting);
//   - sequential with injected disk errors (EIO / ENOSPC / short sidecar
//     writes): the faulted call may fail and its key may be in the pre- or
//     post-state; touched keys are brought back to a known state by
//     observation + Delete with faults paused; everything else stays strict and
//     the accounting is verified exactly at the end by filling the store;
//   - concurrent: 2-3 tasks, each owning a disjoint set of keys and sharing
//     the capacity; per-key results stay strict (a blob may vanish only while
//     it is complete and not banned), accounting verified at quiescence.
package c07

import (
	"bytes"
	"errors"
	"fmt"
	"io"
	"os"
	"regexp"
	"sort"
	"strings"
	"testing"
	"time"

	"github.com/uber-go/tally"
	storelib "github.com/uber/kraken/lib/store"
	"github.com/uber/kraken/lib/store/disk"
	"github.com/uber/kraken/lib/store/metadata"

	"kverif/kit"
	lru "kverif/props/lrumodel"
	ssync "kverif/shim/sync"
	simrt "kverif/sim"
)

// ---- harness-defined metadata types (public metadata.Metadata interface) ----

const (
	sufMov = "_kmovable"   // movable: survives completion
	sufImm = "_kimmovable" // not movable: must disappear on completion
)

var suffixes = []string{sufMov, sufImm}

type md struct {
	suffix  string
	movable bool
	val     []byte
}

func (m *md) GetSuffix() string          { return m.suffix }
func (m *md) Movable() bool              { return m.movable }
func (m *md) Serialize() ([]byte, error) { return m.val, nil }
func (m *md) Deserialize(b []byte) error { m.val = append([]byte(nil), b...); return nil }

type mdFactory struct {
	suffix  string
	movable bool
}

func (f mdFactory) Create(string) metadata.Metadata { return &md{suffix: f.suffix, movable: f.movable} }

func init() {
	metadata.Register(regexp.MustCompile(sufMov), mdFactory{sufMov, true})
	metadata.Register(regexp.MustCompile(sufImm), mdFactory{sufImm, false})
}

func newMD(suffix string, v []byte) *md {
	return &md{suffix: suffix, movable: suffix == sufMov, val: v}
}

// ---- helpers ----

var keys = []string{"a1b2c3d4", "a1b2ffee", "a1c0de00", "0badf00d", "ffee0011"}

const probeKey = "5ca1ab1e"

func classify(err error) lru.Class {
	switch {
	case err == nil:
		return lru.OK
	case errors.Is(err, storelib.ErrOutOfScope):
		return lru.OutOfScope
	case errors.Is(err, os.ErrExist):
		return lru.Exists
	case errors.Is(err, os.ErrNotExist):
		return lru.NotExist
	}
	return lru.Other
}

func sorted(in []string) []string {
	out := append([]string(nil), in...)
	sort.Strings(out)
	return out
}

func same(a, b []string) bool { return strings.Join(sorted(a), ",") == strings.Join(sorted(b), ",") }

func minus(a, b []string) []string {
	var out []string
	for _, x := range a {
		found := false
		for _, y := range b {
			if x == y {
				found = true
			}
		}
		if !found {
			out = append(out, x)
		}
	}
	return out
}

func hashState(m *lru.Model) uint64 {
	h := uint64(14695981039346656037)
	mix := func(s string) {
		for i := 0; i < len(s); i++ {
			h = (h ^ uint64(s[i])) * 1099511628211
		}
		h = (h ^ 0xff) * 1099511628211
	}
	for _, k := range m.Keys() {
		b := m.Blobs[k]
		mix(fmt.Sprintf("%s %d %v %v %d %d", k, b.Reserved, b.Complete, b.Banned, len(b.Data), len(b.MD)))
	}
	return h
}

type world struct {
	s       *simrt.Sim
	tp      *simrt.Tape
	st      *disk.Store
	m       *lru.Model
	cfg     disk.Config
	maxSz   int
	conc    bool // concurrent configuration: no cross-key (admission/LRU) oracles
	faulty  bool
	paused  bool            // fault injection paused (observation / normalisation)
	mdDirty map[string]bool // ListMetadata may show leftovers of a faulted metadata write
	ops     map[string]int
}

func (w *world) view(sc lru.Scope) *disk.Store {
	switch sc {
	case lru.OnlyComplete:
		if w.tp.Chance(500) {
			return w.st.Scoped(storelib.BlobScopeComplete)
		}
		return w.st.ScopeComplete()
	case lru.OnlyIncomplete:
		return w.st.ScopeIncomplete()
	}
	return w.st
}

func (w *world) faults() int {
	n := 0
	for k, v := range w.s.Faults {
		if strings.HasPrefix(k, "disk_") {
			n += v
		}
	}
	return n
}

func (w *world) fail(v *lru.Violation) {
	if v != nil {
		w.s.Fail(v.Oracle, "%s", v.Msg)
	}
}

func (w *world) wantClass(op string, got error, want lru.Class) {
	if c := classify(got); c != want {
		w.s.Fail("result_mismatch", "%s returned %s (%v), model expects %s", op, c, got, want)
	}
}

func readAll(f *disk.File) ([]byte, error) {
	defer f.Close()
	return io.ReadAll(f)
}

// quiet runs fn with fault injection paused.
func (w *world) quiet(fn func()) {
	old := w.paused
	w.paused = true
	fn()
	w.paused = old
}

// evictedUnnoticed (concurrent configuration): the key is gone in the store
// although the model has it; legitimate only while complete and not banned.
func (w *world) vanishedOK(k string, op string) bool {
	b := w.m.Blobs[k]
	if w.conc && b != nil && b.Evictable() {
		w.s.Probe("concurrent_eviction_noticed")
		w.m.Remove(k)
		return true
	}
	return false
}

// step performs one operation of the history on key k through scope sc.
func (w *world) step(kind int, k string, sc lru.Scope) {
	s, m, tp := w.s, w.m, w.tp
	st := w.view(sc)
	name := [...]string{"create", "write", "read", "stat", "has", "list", "complete", "delete", "ban", "unban", "setmd", "getmd", "delmd", "listmd", "writeatmd", "clean", "probe"}[kind]
	w.ops[name]++
	pre := m.Clone()
	f0 := w.faults()
	faulted := func() bool { return w.faults() != f0 }
	// relaxed handling of a call during which an injected fault fired
	afterFault := func(op string, err error, want lru.Class, touched []string, mayVanish bool) {
		c := classify(err)
		if c != want && c != lru.Other {
			s.Fail("result_mismatch_under_fault", "%s returned %s (%v) under an injected fault, model expects %s or an error", op, c, err, want)
		}
		s.Logf("%s -> %s (faulted)", op, c)
		w.normalise(pre, touched, k, mayVanish)
	}
	switch kind {
	case 0: // Create with any size, write a payload through the handle
		n := uint64(tp.Draw(w.maxSz + 1))
		if tp.Chance(30) {
			n = w.m.Cap + uint64(tp.Draw(3)) // around / above capacity
		}
		plen := int(n)
		if plen > 64 || tp.Chance(200) {
			plen = tp.Draw(65) // real size may differ from the reserved size
		}
		payload := kit.Bytes(s, plen)
		before := pre.Keys()
		f, err := st.Create(k, n)
		op := fmt.Sprintf("Create(%s,%d)", k, n)
		if faulted() {
			if f != nil {
				f.Close()
			}
			afterFault(op, err, lru.OK, append(pre.Evictable(), k), true)
			return
		}
		if _, exists := m.Blobs[k]; exists && !(classify(err) != lru.Exists && w.vanishedOK(k, op)) {
			w.wantClass(op, err, lru.Exists)
			s.Logf("%s -> exists", op)
			return
		}
		c := classify(err)
		if c != lru.OK && c != lru.Other {
			s.Fail("result_mismatch", "%s returned %s (%v)", op, c, err)
		}
		if !w.conc {
			var now []string
			w.quiet(func() { now = w.st.List() })
			vanished := minus(before, now)
			if extra := minus(minus(now, before), []string{k}); len(extra) > 0 {
				s.Fail("listing_mismatch", "%s made %v appear", op, extra)
			}
			if len(vanished) > 0 {
				s.Probe("eviction")
				if len(pre.Evictable()) > len(vanished) {
					s.Probe("eviction_with_choice")
				}
			}
			if c == lru.Other {
				s.Probe("create_refused_no_space")
			}
			w.fail(m.Admit(k, n, c == lru.OK, vanished, true))
			s.Logf("%s -> %s evicted=%v", op, c, vanished)
		} else {
			if c == lru.OK {
				m.Blobs[k] = &lru.Blob{Reserved: n, MD: map[string][]byte{}}
			}
			s.Logf("%s -> %s", op, c)
		}
		if c == lru.OK {
			delete(w.mdDirty, k)
			if nw, werr := f.Write(payload); werr != nil || nw != len(payload) {
				s.Fail("write_failed", "write of %d bytes to new blob %s: n=%d err=%v", len(payload), k, nw, werr)
			}
			if tp.Chance(500) {
				f.Close()
			} else {
				f.Commit()
			}
			m.WriteAt(k, 0, payload)
		}
	case 1: // Open + WriteAt (incomplete blobs only: clients do not rewrite complete blobs)
		want, _ := m.Open(k, sc)
		f, err := st.Open(k)
		op := fmt.Sprintf("Open(%s,%s)", k, sc)
		if faulted() {
			afterFault(op, err, want, []string{k}, false)
			return
		}
		if classify(err) == lru.NotExist && want != lru.NotExist && w.vanishedOK(k, op) {
			return
		}
		w.wantClass(op, err, want)
		s.Logf("%s -> %s", op, want)
		if err == nil {
			if b := m.Blobs[k]; !b.Complete {
				off := tp.Draw(len(b.Data) + 2)
				p := kit.Bytes(s, 1+tp.Draw(16))
				if nw, werr := f.WriteAt(p, int64(off)); werr != nil || nw != len(p) {
					s.Fail("write_failed", "WriteAt(%s,%d,%d bytes): n=%d err=%v", k, off, len(p), nw, werr)
				}
				m.WriteAt(k, off, p)
			}
			f.Close()
		}
	case 2: // Open + read back
		want, data := m.Open(k, sc)
		f, err := st.Open(k)
		op := fmt.Sprintf("Open(%s,%s)", k, sc)
		if faulted() {
			afterFault(op, err, want, []string{k}, false)
			return
		}
		if classify(err) == lru.NotExist && want != lru.NotExist && w.vanishedOK(k, op) {
			return
		}
		w.wantClass(op, err, want)
		s.Logf("%s -> %s", op, want)
		if err == nil {
			sz := f.Size()
			got, rerr := readAll(f)
			if rerr != nil || !bytes.Equal(got, data) {
				s.Fail("data_mismatch", "blob %s reads back %d bytes (err %v), model has %d bytes (equal=%v)", k, len(got), rerr, len(data), bytes.Equal(got, data))
			}
			if sz != int64(len(data)) {
				s.Fail("stat_mismatch", "File.Size of %s = %d, model %d", k, sz, len(data))
			}
		}
	case 3: // Stat
		want, size := m.Stat(k, sc)
		fi, err := st.Stat(k)
		op := fmt.Sprintf("Stat(%s,%s)", k, sc)
		if classify(err) == lru.NotExist && want != lru.NotExist && w.vanishedOK(k, op) {
			return
		}
		w.wantClass(op, err, want)
		s.Logf("%s -> %s", op, want)
		if err == nil && fi.Size() != int64(size) {
			s.Fail("stat_mismatch", "Stat(%s).Size = %d, model %d", k, fi.Size(), size)
		}
	case 4: // Has
		wIn, wScope := m.Has(k, sc)
		in, inScope := st.Has(k)
		if !in && wIn && w.vanishedOK(k, "Has") {
			return
		}
		s.Logf("Has(%s,%s) -> %v %v", k, sc, in, inScope)
		if in != wIn || inScope != wScope {
			s.Fail("has_mismatch", "Has(%s,%s) = (%v,%v), model (%v,%v)", k, sc, in, inScope, wIn, wScope)
		}
	case 5: // List
		got := st.List()
		want := m.List(sc)
		if w.conc {
			// other tasks' keys come and go; own non-evictable keys must be listed
			return
		}
		s.Logf("List(%s) -> %v", sc, sorted(got))
		if !same(got, want) {
			s.Fail("listing_mismatch", "List(%s) = %v, model %v", sc, sorted(got), want)
		}
	case 6: // MarkComplete (not scoped)
		want := m.MarkComplete(k)
		err := st.MarkComplete(k)
		op := fmt.Sprintf("MarkComplete(%s)", k)
		if faulted() {
			afterFault(op, err, want, []string{k}, false)
			return
		}
		if classify(err) == lru.NotExist && want != lru.NotExist && w.vanishedOK(k, op) {
			return
		}
		w.wantClass(op, err, want)
		s.Logf("%s -> %s", op, want)
	case 7: // Delete
		want := m.Delete(k, sc)
		err := st.Delete(k)
		op := fmt.Sprintf("Delete(%s,%s)", k, sc)
		if faulted() {
			afterFault(op, err, want, []string{k}, false)
			return
		}
		if classify(err) == lru.NotExist && want != lru.NotExist && w.conc && pre.Blobs[k] != nil && pre.Blobs[k].Evictable() {
			w.s.Probe("concurrent_eviction_noticed")
			return
		}
		w.wantClass(op, err, want)
		s.Logf("%s -> %s", op, want)
	case 8, 9: // BanEviction / UnbanEviction (idempotent)
		var want lru.Class
		var err error
		op := fmt.Sprintf("BanEviction(%s,%s)", k, sc)
		if kind == 8 {
			want = m.Ban(k, sc)
			err = st.BanEviction(k)
		} else {
			op = "Un" + op
			want = m.Unban(k, sc)
			err = st.UnbanEviction(k)
		}
		if faulted() {
			afterFault(op, err, want, []string{k}, false)
			return
		}
		if classify(err) == lru.NotExist && want != lru.NotExist && w.conc && pre.Blobs[k] != nil && pre.Blobs[k].Evictable() {
			w.s.Probe("concurrent_eviction_noticed")
			w.m.Remove(k)
			return
		}
		w.wantClass(op, err, want)
		s.Logf("%s -> %s", op, want)
	case 10: // SetMetadata
		suf := suffixes[tp.Draw(2)]
		v := kit.Bytes(s, tp.Draw(24))
		want := m.SetMD(k, suf, v, sc)
		err := st.SetMetadata(k, newMD(suf, v))
		op := fmt.Sprintf("SetMetadata(%s,%s,%s)", k, suf, sc)
		if faulted() {
			w.metadataAfterFault(op, err, want, pre, k, suf)
			return
		}
		if classify(err) == lru.NotExist && want != lru.NotExist && w.vanishedOK(k, op) {
			return
		}
		w.wantClass(op, err, want)
		s.Logf("%s -> %s", op, want)
	case 11: // GetMetadata
		suf := suffixes[tp.Draw(2)]
		want, wok, wv := m.GetMD(k, suf, sc)
		got := newMD(suf, nil)
		ok, err := st.GetMetadata(k, got)
		op := fmt.Sprintf("GetMetadata(%s,%s,%s)", k, suf, sc)
		if classify(err) == lru.NotExist && want != lru.NotExist && w.vanishedOK(k, op) {
			return
		}
		w.wantClass(op, err, want)
		s.Logf("%s -> %s %v", op, want, ok)
		if err == nil && (ok != wok || (ok && !bytes.Equal(got.val, wv))) {
			s.Fail("metadata_mismatch", "%s = (present=%v, %x), last value set per model (present=%v, %x)", op, ok, got.val, wok, wv)
		}
	case 12: // DeleteMetadata
		suf := suffixes[tp.Draw(2)]
		want := m.DelMD(k, suf, sc)
		err := st.DeleteMetadata(k, suf)
		op := fmt.Sprintf("DeleteMetadata(%s,%s,%s)", k, suf, sc)
		if faulted() {
			w.metadataAfterFault(op, err, want, pre, k, suf)
			return
		}
		if classify(err) == lru.NotExist && want != lru.NotExist && w.vanishedOK(k, op) {
			return
		}
		w.wantClass(op, err, want)
		s.Logf("%s -> %s", op, want)
	case 13: // ListMetadata
		want, wl := m.ListMD(k, sc)
		got, err := st.ListMetadata(k)
		op := fmt.Sprintf("ListMetadata(%s,%s)", k, sc)
		if classify(err) == lru.NotExist && want != lru.NotExist && w.vanishedOK(k, op) {
			return
		}
		w.wantClass(op, err, want)
		var gl []string
		for _, x := range got {
			gl = append(gl, x.GetSuffix())
		}
		s.Logf("%s -> %s %v", op, want, sorted(gl))
		if err == nil {
			if w.mdDirty[k] {
				if len(minus(wl, gl)) > 0 {
					s.Fail("metadata_mismatch", "%s = %v lacks metadata of the model %v", op, sorted(gl), wl)
				}
			} else if !same(gl, wl) {
				s.Fail("metadata_mismatch", "%s = %v, model %v", op, sorted(gl), wl)
			}
		}
	case 14: // WriteAtMetadata
		suf := suffixes[tp.Draw(2)]
		off := tp.Draw(12)
		p := kit.Bytes(s, 1+tp.Draw(8))
		want := m.WriteAtMD(k, suf, p, off, sc)
		err := st.WriteAtMetadata(k, newMD(suf, nil), p, int64(off))
		op := fmt.Sprintf("WriteAtMetadata(%s,%s,%d,%s)", k, suf, off, sc)
		if faulted() {
			w.metadataAfterFault(op, err, want, pre, k, suf)
			return
		}
		if classify(err) == lru.NotExist && want != lru.NotExist && w.vanishedOK(k, op) {
			return
		}
		w.wantClass(op, err, want)
		s.Logf("%s -> %s", op, want)
	case 15: // Clean
		if w.conc {
			return
		}
		target := tp.Draw(100)
		if tp.Chance(100) {
			target = []int{-1, 100, 150}[tp.Draw(3)]
		}
		respect := !tp.Chance(300)
		before := pre.Keys()
		util, err := st.Clean(target, respect)
		op := fmt.Sprintf("Clean(%d,%v)", target, respect)
		if faulted() {
			afterFault(op, err, lru.OK, before, true)
			return
		}
		var now []string
		w.quiet(func() { now = w.st.List() })
		removed := minus(before, now)
		if extra := minus(now, before); len(extra) > 0 {
			s.Fail("listing_mismatch", "%s made %v appear", op, extra)
		}
		s.Logf("%s -> %s util=%d removed=%v", op, classify(err), util, removed)
		w.fail(m.Clean(target, respect, removed, err != nil))
		if err == nil {
			s.Probe("clean")
			if want := int(m.Used() * 100 / m.Cap); util != want {
				s.Fail("accounting_mismatch", "%s reports utilisation %d%%, sum of live reserved sizes %d of %d = %d%%", op, util, m.Used(), m.Cap, want)
			}
		}
	case 16: // accounting probe: exactly the free space must be admissible without eviction
		if w.conc {
			return
		}
		w.quiet(func() { w.probeFree(false) })
	}
}

// metadataAfterFault: the faulted metadata call may have failed; the value is
// the old or the new one, never anything else.
func (w *world) metadataAfterFault(op string, err error, want lru.Class, pre *lru.Model, k, suf string) {
	s := w.s
	c := classify(err)
	if c != want && c != lru.Other {
		s.Fail("result_mismatch_under_fault", "%s returned %s (%v) under an injected fault, model expects %s or an error", op, c, err, want)
	}
	s.Logf("%s -> %s (faulted)", op, c)
	pb, nb := pre.Blobs[k], w.m.Blobs[k]
	if pb == nil || nb == nil || want != lru.OK {
		// the call was not supposed to touch anything
		w.m.Blobs = pre.Blobs
		return
	}
	w.quiet(func() {
		got := newMD(suf, nil)
		ok, gerr := w.st.GetMetadata(k, got)
		if gerr != nil {
			s.Fail("metadata_unreadable_after_fault", "GetMetadata(%s,%s) after faulted %s: %v", k, suf, op, gerr)
		}
		oldV, oldOK := pb.MD[suf]
		newV, newOK := nb.MD[suf]
		switch {
		case ok == newOK && (!ok || bytes.Equal(got.val, newV)):
		case ok == oldOK && (!ok || bytes.Equal(got.val, oldV)):
			if oldOK {
				nb.MD[suf] = oldV
			} else {
				delete(nb.MD, suf)
			}
		default:
			if strings.HasPrefix(op, "WriteAt") && ok {
				// in-place partial overwrite is not atomic by contract: accept what is there
				nb.MD[suf] = got.val
				break
			}
			s.Fail("metadata_garbage_after_fault", "after faulted %s metadata %s of %s is (present=%v,%x): neither old (present=%v,%x) nor new (present=%v,%x)", op, suf, k, ok, got.val, oldOK, oldV, newOK, newV)
		}
	})
	w.mdDirty[k] = true
}

// normalise brings the touched keys of a faulted call back to a known state:
// presence must be the pre- or the post-state, bytes read back are never wrong,
// then the key is deleted (faults paused) so that the model is exact again.
//
// subject is the key the call was about (a faulted Create may have created
// it); with mayVanish every other touched key may have been evicted/removed
// (Create: the evictable keys; Clean: every key).
func (w *world) normalise(pre *lru.Model, touched []string, subject string, mayVanish bool) {
	s := w.s
	post := w.m
	w.quiet(func() {
		for _, k := range touched {
			in, _ := w.st.Has(k)
			_, inC := w.st.ScopeComplete().Has(k)
			pb, nb := pre.Blobs[k], post.Blobs[k]
			okPresence := false
			for _, b := range []*lru.Blob{pb, nb} {
				if (b == nil) == !in && (b == nil || b.Complete == inC) {
					okPresence = true
				}
			}
			if mayVanish && !in {
				okPresence = true
			}
			if mayVanish && k == subject && pb == nil && in && !inC {
				okPresence = true // the faulted Create went through
			}
			// a key that the faulted call would have created/evicted/deleted/completed may be in either state
			if !okPresence {
				s.Fail("state_garbage_after_fault", "after a faulted call key %s is (present=%v complete=%v); before: %s, expected after: %s", k, in, inC, descr(pb), descr(nb))
			}
			if in {
				if f, err := w.st.Open(k); err == nil {
					got, rerr := readAll(f)
					var want []byte
					if pb != nil {
						want = pb.Data
					}
					if rerr != nil || !bytes.Equal(got, want) {
						s.Fail("wrong_data_after_fault", "after a faulted call blob %s reads back %d bytes (err %v), expected %d", k, len(got), rerr, len(want))
					}
				}
				if err := w.st.Delete(k); err != nil {
					s.Fail("delete_after_fault_failed", "Delete(%s) after a faulted call, with faults stopped: %v", k, err)
				}
				s.Probe("normalised_by_delete")
			}
			post.Remove(k)
			delete(w.mdDirty, k)
		}
	})
}

func descr(b *lru.Blob) string {
	if b == nil {
		return "absent"
	}
	if b.Complete {
		return "complete"
	}
	return "incomplete"
}

// probeFree checks reserved space = sum of live reserved sizes through the
// public API: a blob of exactly the free size must be admitted without any
// eviction; with exact=true (nothing evictable left, see finalCheck) one more
// byte must be refused.
func (w *world) probeFree(exact bool) {
	s, m := w.s, w.m
	if m.Used() > m.Cap {
		s.Fail("admission_exceeds_capacity", "sum of live reserved sizes %d exceeds capacity %d", m.Used(), m.Cap)
	}
	free := m.Cap - m.Used()
	before := sorted(w.st.List())
	f, err := w.st.Create(probeKey, free)
	if err != nil {
		s.Fail("accounting_mismatch", "sum of live reserved sizes is %d of %d (%v) but a blob of the remaining %d bytes is refused: %v", m.Used(), m.Cap, m.Keys(), free, err)
	}
	f.Close()
	after := sorted(minus(w.st.List(), []string{probeKey}))
	if !same(before, after) {
		s.Fail("accounting_mismatch", "sum of live reserved sizes is %d of %d but admitting the remaining %d bytes evicted %v", m.Used(), m.Cap, free, minus(before, after))
	}
	if err := w.st.Delete(probeKey); err != nil {
		s.Fail("accounting_mismatch", "delete probe: %v", err)
	}
	s.Probe("accounting_probe")
	if !exact {
		return
	}
	f, err = w.st.Create(probeKey, free+1)
	if err == nil {
		f.Close()
		s.Fail("accounting_mismatch", "sum of live reserved sizes is %d of %d, nothing is evictable, yet a blob of %d bytes is admitted", m.Used(), m.Cap, free+1)
	}
	if now := sorted(w.st.List()); !same(before, now) {
		s.Fail("evicted_unevictable", "refused admission changed the listing from %v to %v although nothing was evictable", before, now)
	}
	s.Probe("accounting_probe_exact")
}

// finalCheck: full read-back of every key against the model, then the exact
// accounting check with every blob banned from eviction.
func (w *world) finalCheck() {
	s, m := w.s, w.m
	got := w.st.List()
	if w.conc {
		// evictions by other tasks that the owner did not observe yet
		for _, k := range minus(m.Keys(), got) {
			if !m.Blobs[k].Evictable() {
				s.Fail("evicted_unevictable", "%s disappeared although it is %s", k, descr(m.Blobs[k]))
			}
			m.Remove(k)
		}
	}
	if !same(got, m.Keys()) {
		s.Fail("listing_mismatch", "final List = %v, model %v", sorted(got), m.Keys())
	}
	if !same(w.st.ScopeComplete().List(), m.List(lru.OnlyComplete)) || !same(w.st.ScopeIncomplete().List(), m.List(lru.OnlyIncomplete)) {
		s.Fail("listing_mismatch", "final scoped listings complete=%v incomplete=%v, model %v / %v", sorted(w.st.ScopeComplete().List()), sorted(w.st.ScopeIncomplete().List()), m.List(lru.OnlyComplete), m.List(lru.OnlyIncomplete))
	}
	for _, k := range m.Keys() {
		b := m.Blobs[k]
		f, err := w.st.Open(k)
		if err != nil {
			s.Fail("result_mismatch", "final Open(%s): %v", k, err)
		}
		data, rerr := readAll(f)
		if rerr != nil || !bytes.Equal(data, b.Data) {
			s.Fail("data_mismatch", "final read of %s: %d bytes (err %v), model %d", k, len(data), rerr, len(b.Data))
		}
		for _, suf := range suffixes {
			g := newMD(suf, nil)
			ok, err := w.st.GetMetadata(k, g)
			wv, wok := b.MD[suf]
			if err != nil || ok != wok || (ok && !bytes.Equal(g.val, wv)) {
				s.Fail("metadata_mismatch", "final GetMetadata(%s,%s) = (present=%v,%x,err %v), model (present=%v,%x)", k, suf, ok, g.val, err, wok, wv)
			}
		}
		if err := w.st.BanEviction(k); err != nil {
			s.Fail("result_mismatch", "final BanEviction(%s): %v", k, err)
		}
	}
	w.probeFree(true)
	s.State(hashState(m))
}

func (w *world) open(dir string) {
	st, err := disk.NewStore(&w.cfg, tally.NoopScope)
	if err != nil {
		w.s.Fail("new_store_failed", "NewStore on an empty directory: %v", err)
	}
	w.st = st
}

var kindWeights = []int{ // index = op kind
	0: 18, 1: 5, 2: 9, 3: 3, 4: 4, 5: 4, 6: 16, 7: 4, 8: 3, 9: 5, 10: 6, 11: 5, 12: 2, 13: 3, 14: 2, 15: 2, 16: 2,
}

// stepMaybeComplete: a Create is often followed directly by MarkComplete (the
// common client pattern), so that histories hold several evictable blobs.
func (w *world) stepMaybeComplete(kind int, k string, sc lru.Scope) {
	w.step(kind, k, sc)
	if kind == 0 && w.tp.Chance(550) {
		w.step(6, k, lru.Any)
	}
}

func drawKind(tp *simrt.Tape) int {
	total := 0
	for _, w := range kindWeights {
		total += w
	}
	r := tp.Draw(total)
	for k, w := range kindWeights {
		if r < w {
			return k
		}
		r -= w
	}
	return 0
}

func body(s *simrt.Sim, tier string) {
	tp := s.Tape
	mode := tp.Draw(5) // 0,1,2 sequential fault free; 3 faults; 4 concurrent
	w := &world{s: s, tp: tp, mdDirty: map[string]bool{}, ops: map[string]int{}}
	w.maxSz = 8 + tp.Draw(33)
	extra := tp.Draw(4*w.maxSz + 1) // capacity: one blob ... all five blobs, biased to the tight end
	if e2 := tp.Draw(4*w.maxSz + 1); e2 < extra {
		extra = e2
	}
	capacity := uint64(w.maxSz + extra)
	w.cfg = disk.Config{RootDir: kit.TempDir(s), CapacityBytes: capacity, ShardLength: tp.Draw(3), RebootIncompleteBlobs: tp.Chance(500)}
	w.m = lru.New(capacity, map[string]bool{sufImm: true})
	w.open(w.cfg.RootDir)
	nOps := 10 + tp.Draw(71)
	modeName := "sequential"
	switch mode {
	case 3:
		modeName = "faults"
		w.faulty = true
		rates := kit.DiskFaultRates{EIO: 12 + tp.Draw(20), ENOSPC: 8 + tp.Draw(12), Short: 30}
		rates.Match = func(kind, path string) bool {
			if w.paused {
				return false
			}
			// blob payload writes are plain file I/O of the client, not store logic
			return !((kind == "write" || kind == "writeat") && strings.HasSuffix(path, "/data"))
		}
		stop := kit.InjectDiskFaults(s, rates)
		for i := 0; i < nOps; i++ {
			w.stepMaybeComplete(drawKind(tp), keys[tp.Draw(len(keys))], lru.Scope(tp.Draw(3)))
			s.State(hashState(w.m))
		}
		stop()
		w.finalCheck()
	case 4:
		modeName = "concurrent"
		w.conc = true
		nTasks := 2 + tp.Draw(2)
		own := [][]string{{keys[0], keys[1]}, {keys[2], keys[3]}, {keys[4]}}
		if nTasks == 2 {
			own = [][]string{{keys[0], keys[1], keys[4]}, {keys[2], keys[3]}}
		}
		per := nOps / nTasks
		var wg ssync.WaitGroup
		for t := 0; t < nTasks; t++ {
			mine := own[t]
			wg.Add(1)
			simrt.Go(func() {
				defer wg.Done()
				for i := 0; i < per; i++ {
					w.stepMaybeComplete(drawKind(tp), mine[tp.Draw(len(mine))], lru.Scope(tp.Draw(3)))
				}
			})
		}
		wg.Wait()
		w.finalCheck()
	default:
		for i := 0; i < nOps; i++ {
			w.stepMaybeComplete(drawKind(tp), keys[tp.Draw(len(keys))], lru.Scope(tp.Draw(3)))
			s.State(hashState(w.m))
		}
		w.finalCheck()
	}
	s.Probe("mode_" + modeName)
	kit.SetSample(map[string]any{"mode": modeName, "capacity": capacity, "max_blob_size": w.maxSz, "shard_length": w.cfg.ShardLength,
		"reboot_incomplete": w.cfg.RebootIncompleteBlobs, "ops": nOps, "op_mix": w.ops, "live_at_end": len(w.m.Blobs)})
}

func TestC07(t *testing.T) {
	kit.Main(t, kit.Spec{
		Property: "C07",
		Body:     body,
		Config: func(tier string) simrt.Config {
			return simrt.Config{MaxSteps: 400000, Horizon: time.Hour, PanicIsFailure: true}
		},
		Real: []string{"lib/store/disk.Store (store, scoped views, pather)", "lib/store/metadata registry"},
		Stub: []string{"metadata.Metadata implementations (harness-defined movable / non-movable types)", "tally.NoopScope", "file system = tmpfs through shim/os"},
		Rule: "one run = one history of 10..80 operations over 5 keys (+1 probe key) with tape-drawn capacity (one blob .. all blobs), blob sizes, shard length, scopes, payloads and configuration (sequential | injected disk errors | 2-3 concurrent tasks owning disjoint keys); non-trivial = contested scheduling decision or fired fault; distinct states = distinct model states (keys, sizes, completeness, bans)",
		Assumptions: []string{
			"which calls count as a use for LRU purposes: Open, completion and UnbanEviction do (documented); Stat/Has/metadata calls/idempotent no-ops may or may not -- eviction order is judged only between blobs whose relative recency is the same under both readings",
			"under injected disk errors the faulted call may fail and its key (for Create/Clean: every evictable key) may be in the pre- or post-state; such keys are deleted with faults paused before the comparison continues",
			"concurrent configuration: tasks own disjoint keys, so per-key results are sequential; cross-key oracles (victim choice, admission) are checked only in the sequential configurations",
		},
	})
}
