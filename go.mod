module kverif

go 1.26.8

require (
	github.com/andres-erbsen/clock v0.0.0-20160526145045-9e14626cd129
	github.com/anishathalye/porcupine v1.3.0
	github.com/docker/distribution v2.7.1+incompatible
	github.com/uber-go/tally v3.3.11+incompatible
	github.com/uber/kraken v0.0.0
	go.uber.org/atomic v1.5.0
)

replace github.com/uber/kraken => /repo

replace github.com/docker/distribution => github.com/docker/distribution v0.0.0-20191024225408-dee21c0394b5

replace github.com/containerd/containerd => github.com/containerd/containerd v1.3.10

replace github.com/containerd/continuity => github.com/containerd/continuity v0.1.0

replace github.com/opencontainers/runc => github.com/opencontainers/runc v1.0.0-rc10
