module kverif

go 1.26.8

require (
	github.com/andres-erbsen/clock v0.0.0-20160526145045-9e14626cd129
	github.com/anishathalye/porcupine v1.3.0
	github.com/c2h5oh/datasize v0.0.0-20171227191756-4eba002a5eae
	github.com/cenkalti/backoff v2.2.1+incompatible
	github.com/docker/distribution v2.7.1+incompatible
	github.com/go-chi/chi v4.0.2+incompatible
	github.com/golang/protobuf v1.5.4
	github.com/jmoiron/sqlx v0.0.0-20190319043955-cdf62fdf55f6
	github.com/mattn/go-sqlite3 v1.14.0
	github.com/pressly/goose v2.6.0+incompatible
	github.com/uber-go/tally v3.3.11+incompatible
	github.com/uber/kraken v0.0.0
	github.com/willf/bitset v0.0.0-20190228212526-18bd95f470f9
	go.opentelemetry.io/otel v1.41.0
	go.uber.org/atomic v1.5.0
	go.uber.org/zap v1.10.0
)

require (
	github.com/aws/aws-sdk-go v1.21.4 // indirect
	github.com/cespare/xxhash/v2 v2.3.0 // indirect
	github.com/containerd/containerd v1.5.7 // indirect
	github.com/containerd/continuity v0.0.0-00010101000000-000000000000 // indirect
	github.com/containerd/fifo v1.0.0 // indirect
	github.com/containerd/ttrpc v1.1.0 // indirect
	github.com/containerd/typeurl v1.0.2 // indirect
	github.com/davecgh/go-spew v1.1.1 // indirect
	github.com/docker/go-events v0.0.0-20190806004212-e31b211e4f1c // indirect
	github.com/felixge/httpsnoop v1.0.4 // indirect
	github.com/go-logr/logr v1.4.3 // indirect
	github.com/go-logr/stdr v1.2.2 // indirect
	github.com/gogo/googleapis v1.4.1 // indirect
	github.com/gogo/protobuf v1.3.2 // indirect
	github.com/gomodule/redigo v1.8.9 // indirect
	github.com/jackpal/bencode-go v0.0.0-20180813173944-227668e840fa // indirect
	github.com/opencontainers/go-digest v1.0.0 // indirect
	github.com/opencontainers/image-spec v1.0.2 // indirect
	github.com/opencontainers/runc v1.0.2 // indirect
	github.com/opencontainers/runtime-spec v1.0.3-0.20210326190908-1c3f411f0417 // indirect
	github.com/pkg/errors v0.9.1 // indirect
	github.com/pmezard/go-difflib v1.0.0 // indirect
	github.com/sirupsen/logrus v1.8.3 // indirect
	github.com/spaolacci/murmur3 v0.0.0-20180118202830-f09979ecbc72 // indirect
	github.com/stretchr/testify v1.11.1 // indirect
	github.com/syndtr/gocapability v0.0.0-20200815063812-42c35b437635 // indirect
	go.opentelemetry.io/auto/sdk v1.2.1 // indirect
	go.opentelemetry.io/contrib/instrumentation/net/http/otelhttp v0.46.0 // indirect
	go.opentelemetry.io/otel/metric v1.41.0 // indirect
	go.opentelemetry.io/otel/trace v1.41.0 // indirect
	go.uber.org/multierr v1.4.0 // indirect
	golang.org/x/net v0.48.0 // indirect
	golang.org/x/sync v0.19.0 // indirect
	golang.org/x/sys v0.39.0 // indirect
	golang.org/x/text v0.32.0 // indirect
	golang.org/x/time v0.0.0-20200416051211-89c76fbcd5d1 // indirect
	google.golang.org/genproto v0.0.0-20200527145253-8367513e4ece // indirect
	google.golang.org/grpc v1.79.3 // indirect
	google.golang.org/protobuf v1.36.10 // indirect
	gopkg.in/yaml.v2 v2.3.0 // indirect
	gopkg.in/yaml.v3 v3.0.1 // indirect
)

replace github.com/uber/kraken => /repo

replace github.com/docker/distribution => github.com/docker/distribution v0.0.0-20191024225408-dee21c0394b5

replace github.com/containerd/containerd => github.com/containerd/containerd v1.3.10

replace github.com/containerd/continuity => github.com/containerd/continuity v0.1.0

replace github.com/opencontainers/runc => github.com/opencontainers/runc v1.0.0-rc10
