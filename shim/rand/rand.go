// Package rand replaces math/rand: inside a simulation small Intn choices are
// tape draws (explored, shrinkable) and everything else comes from the run's
// seeded generator.
package rand

import (
	real "math/rand"

	simrt "kverif/sim"
)

func r() *real.Rand {
	if s := simrt.Active(); s != nil {
		return s.Rand()
	}
	return nil
}

func Seed(seed int64) {
	if r() == nil {
		real.Seed(seed)
	}
}

func Intn(n int) int {
	if s, t := simrt.Cur(); s != nil {
		if n <= 0 {
			panic("invalid argument to Intn")
		}
		if n <= 4096 && t != nil && !t.Dead() && !s.Observer() {
			return s.Tape.Draw(n)
		}
		return s.Rand().Intn(n)
	}
	return real.Intn(n)
}

func Int() int {
	if g := r(); g != nil {
		return g.Int()
	}
	return real.Int()
}
func Int31() int32 {
	if g := r(); g != nil {
		return g.Int31()
	}
	return real.Int31()
}
func Int31n(n int32) int32 { return int32(Intn(int(n))) }
func Int63() int64 {
	if g := r(); g != nil {
		return g.Int63()
	}
	return real.Int63()
}
func Int63n(n int64) int64 {
	if g := r(); g != nil {
		if n <= 4096 {
			return int64(Intn(int(n)))
		}
		return g.Int63n(n)
	}
	return real.Int63n(n)
}
func Uint32() uint32 {
	if g := r(); g != nil {
		return g.Uint32()
	}
	return real.Uint32()
}
func Uint64() uint64 {
	if g := r(); g != nil {
		return g.Uint64()
	}
	return real.Uint64()
}
func Float32() float32 {
	if g := r(); g != nil {
		return g.Float32()
	}
	return real.Float32()
}
func Float64() float64 {
	if g := r(); g != nil {
		return g.Float64()
	}
	return real.Float64()
}
func ExpFloat64() float64 {
	if g := r(); g != nil {
		return g.ExpFloat64()
	}
	return real.ExpFloat64()
}
func NormFloat64() float64 {
	if g := r(); g != nil {
		return g.NormFloat64()
	}
	return real.NormFloat64()
}
func Perm(n int) []int {
	if g := r(); g != nil {
		return g.Perm(n)
	}
	return real.Perm(n)
}
func Shuffle(n int, swap func(i, j int)) {
	if g := r(); g != nil {
		g.Shuffle(n, swap)
		return
	}
	real.Shuffle(n, swap)
}
func Read(p []byte) (int, error) {
	if g := r(); g != nil {
		return g.Read(p)
	}
	return real.Read(p)
}
