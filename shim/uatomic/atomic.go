// Package atomic replaces go.uber.org/atomic in transformed code: the real
// atomics preceded by a scheduling point.
package atomic

import (
	"time"

	real "go.uber.org/atomic"
	simrt "kverif/sim"
)

type Value = real.Value

type Error = real.Error

func NewError(e error) *Error { return real.NewError(e) }

var _ time.Duration

type Int32 struct{ real.Int32 }

func NewInt32(v int32) *Int32 { x := &Int32{}; x.Int32.Store(v); return x }

func (x *Int32) Load() int32 { simrt.Yield(); return x.Int32.Load() }

func (x *Int32) Add(a0 int32) int32 { simrt.Yield(); return x.Int32.Add(a0) }

func (x *Int32) Sub(a0 int32) int32 { simrt.Yield(); return x.Int32.Sub(a0) }

func (x *Int32) Inc() int32 { simrt.Yield(); return x.Int32.Inc() }

func (x *Int32) Dec() int32 { simrt.Yield(); return x.Int32.Dec() }

func (x *Int32) CAS(a0 int32, a1 int32) bool { simrt.Yield(); return x.Int32.CAS(a0, a1) }

func (x *Int32) Store(a0 int32) { simrt.Yield(); x.Int32.Store(a0) }

func (x *Int32) Swap(a0 int32) int32 { simrt.Yield(); return x.Int32.Swap(a0) }

type Int64 struct{ real.Int64 }

func NewInt64(v int64) *Int64 { x := &Int64{}; x.Int64.Store(v); return x }

func (x *Int64) Load() int64 { simrt.Yield(); return x.Int64.Load() }

func (x *Int64) Add(a0 int64) int64 { simrt.Yield(); return x.Int64.Add(a0) }

func (x *Int64) Sub(a0 int64) int64 { simrt.Yield(); return x.Int64.Sub(a0) }

func (x *Int64) Inc() int64 { simrt.Yield(); return x.Int64.Inc() }

func (x *Int64) Dec() int64 { simrt.Yield(); return x.Int64.Dec() }

func (x *Int64) CAS(a0 int64, a1 int64) bool { simrt.Yield(); return x.Int64.CAS(a0, a1) }

func (x *Int64) Store(a0 int64) { simrt.Yield(); x.Int64.Store(a0) }

func (x *Int64) Swap(a0 int64) int64 { simrt.Yield(); return x.Int64.Swap(a0) }

type Uint32 struct{ real.Uint32 }

func NewUint32(v uint32) *Uint32 { x := &Uint32{}; x.Uint32.Store(v); return x }

func (x *Uint32) Load() uint32 { simrt.Yield(); return x.Uint32.Load() }

func (x *Uint32) Add(a0 uint32) uint32 { simrt.Yield(); return x.Uint32.Add(a0) }

func (x *Uint32) Sub(a0 uint32) uint32 { simrt.Yield(); return x.Uint32.Sub(a0) }

func (x *Uint32) Inc() uint32 { simrt.Yield(); return x.Uint32.Inc() }

func (x *Uint32) Dec() uint32 { simrt.Yield(); return x.Uint32.Dec() }

func (x *Uint32) CAS(a0 uint32, a1 uint32) bool { simrt.Yield(); return x.Uint32.CAS(a0, a1) }

func (x *Uint32) Store(a0 uint32) { simrt.Yield(); x.Uint32.Store(a0) }

func (x *Uint32) Swap(a0 uint32) uint32 { simrt.Yield(); return x.Uint32.Swap(a0) }

type Uint64 struct{ real.Uint64 }

func NewUint64(v uint64) *Uint64 { x := &Uint64{}; x.Uint64.Store(v); return x }

func (x *Uint64) Load() uint64 { simrt.Yield(); return x.Uint64.Load() }

func (x *Uint64) Add(a0 uint64) uint64 { simrt.Yield(); return x.Uint64.Add(a0) }

func (x *Uint64) Sub(a0 uint64) uint64 { simrt.Yield(); return x.Uint64.Sub(a0) }

func (x *Uint64) Inc() uint64 { simrt.Yield(); return x.Uint64.Inc() }

func (x *Uint64) Dec() uint64 { simrt.Yield(); return x.Uint64.Dec() }

func (x *Uint64) CAS(a0 uint64, a1 uint64) bool { simrt.Yield(); return x.Uint64.CAS(a0, a1) }

func (x *Uint64) Store(a0 uint64) { simrt.Yield(); x.Uint64.Store(a0) }

func (x *Uint64) Swap(a0 uint64) uint64 { simrt.Yield(); return x.Uint64.Swap(a0) }

type Bool struct{ real.Bool }

func NewBool(v bool) *Bool { x := &Bool{}; x.Bool.Store(v); return x }

func (x *Bool) Load() bool { simrt.Yield(); return x.Bool.Load() }

func (x *Bool) CAS(a0 bool, a1 bool) bool { simrt.Yield(); return x.Bool.CAS(a0, a1) }

func (x *Bool) Store(a0 bool) { simrt.Yield(); x.Bool.Store(a0) }

func (x *Bool) Swap(a0 bool) bool { simrt.Yield(); return x.Bool.Swap(a0) }

func (x *Bool) Toggle() bool { simrt.Yield(); return x.Bool.Toggle() }

type Float64 struct{ real.Float64 }

func NewFloat64(v float64) *Float64 { x := &Float64{}; x.Float64.Store(v); return x }

func (x *Float64) Load() float64 { simrt.Yield(); return x.Float64.Load() }

func (x *Float64) Store(a0 float64) { simrt.Yield(); x.Float64.Store(a0) }

func (x *Float64) Add(a0 float64) float64 { simrt.Yield(); return x.Float64.Add(a0) }

func (x *Float64) Sub(a0 float64) float64 { simrt.Yield(); return x.Float64.Sub(a0) }

func (x *Float64) CAS(a0 float64, a1 float64) bool { simrt.Yield(); return x.Float64.CAS(a0, a1) }

type Duration struct{ real.Duration }

func NewDuration(v time.Duration) *Duration { x := &Duration{}; x.Duration.Store(v); return x }

func (x *Duration) Load() time.Duration { simrt.Yield(); return x.Duration.Load() }

func (x *Duration) Store(a0 time.Duration) { simrt.Yield(); x.Duration.Store(a0) }

func (x *Duration) Add(a0 time.Duration) time.Duration { simrt.Yield(); return x.Duration.Add(a0) }

func (x *Duration) Sub(a0 time.Duration) time.Duration { simrt.Yield(); return x.Duration.Sub(a0) }

func (x *Duration) Swap(a0 time.Duration) time.Duration { simrt.Yield(); return x.Duration.Swap(a0) }

func (x *Duration) CAS(a0 time.Duration, a1 time.Duration) bool {
	simrt.Yield()
	return x.Duration.CAS(a0, a1)
}

type String struct{ real.String }

func NewString(v string) *String { x := &String{}; x.String.Store(v); return x }

func (x *String) Load() string { simrt.Yield(); return x.String.Load() }

func (x *String) Store(a0 string) { simrt.Yield(); x.String.Store(a0) }
