// Package singleflight is the simulated counterpart of
// golang.org/x/sync/singleflight: the same API and semantics, built on the
// shim sync package so that waiting for a shared call is a scheduling point of
// the simulator (the original blocks on a native WaitGroup, which the baton
// scheduler cannot see).
package singleflight

import (
	"kverif/shim/sync"
	simrt "kverif/sim"
)

type call struct {
	wg    sync.WaitGroup
	val   interface{}
	err   error
	dups  int
	chans []chan<- Result
}

// Group represents a class of work in which units with the same key are
// executed once at a time.
type Group struct {
	mu sync.Mutex
	m  map[string]*call
}

// Result holds the results of Do, so they can be passed on a channel.
type Result struct {
	Val    interface{}
	Err    error
	Shared bool
}

// Do executes fn once per key at a time; duplicate callers wait for the
// original to complete and receive the same results.
func (g *Group) Do(key string, fn func() (interface{}, error)) (v interface{}, err error, shared bool) {
	g.mu.Lock()
	if g.m == nil {
		g.m = make(map[string]*call)
	}
	if c, ok := g.m[key]; ok {
		c.dups++
		g.mu.Unlock()
		c.wg.Wait()
		return c.val, c.err, true
	}
	c := new(call)
	c.wg.Add(1)
	g.m[key] = c
	g.mu.Unlock()

	g.doCall(c, key, fn)
	return c.val, c.err, c.dups > 0
}

// DoChan is like Do but returns a channel that will receive the results.
func (g *Group) DoChan(key string, fn func() (interface{}, error)) <-chan Result {
	ch := make(chan Result, 1)
	g.mu.Lock()
	if g.m == nil {
		g.m = make(map[string]*call)
	}
	if c, ok := g.m[key]; ok {
		c.dups++
		c.chans = append(c.chans, ch)
		g.mu.Unlock()
		return ch
	}
	c := &call{chans: []chan<- Result{ch}}
	c.wg.Add(1)
	g.m[key] = c
	g.mu.Unlock()

	simrt.Go(func() { g.doCall(c, key, fn) })
	return ch
}

func (g *Group) doCall(c *call, key string, fn func() (interface{}, error)) {
	done := false
	defer func() {
		// as the original: waiters are released and the key is forgotten also
		// when fn panics (the panic keeps unwinding the caller)
		g.mu.Lock()
		c.wg.Done()
		if g.m[key] == c {
			delete(g.m, key)
		}
		if done {
			for _, ch := range c.chans {
				simrt.SendTo(ch)(Result{c.val, c.err, c.dups > 0})
			}
		}
		g.mu.Unlock()
	}()
	c.val, c.err = fn()
	done = true
}

// Forget tells the singleflight to forget about a key.
func (g *Group) Forget(key string) {
	g.mu.Lock()
	delete(g.m, key)
	g.mu.Unlock()
}
