// Package syncmap replaces golang.org/x/sync/syncmap in transformed code.
package syncmap

import ssync "kverif/shim/sync"

type Map = ssync.Map
