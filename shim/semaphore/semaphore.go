// Package semaphore is the simulated counterpart of
// golang.org/x/sync/semaphore (same API): waiting is a select on channels the
// simulator schedules.
package semaphore

import (
	"container/list"
	"context"

	"kverif/shim/sync"
	simrt "kverif/sim"
)

type waiter struct {
	n     int64
	ready chan struct{}
}

// NewWeighted creates a new weighted semaphore with the given maximum combined
// weight for concurrent access.
func NewWeighted(n int64) *Weighted { return &Weighted{size: n} }

// Weighted provides a way to bound concurrent access to a resource.
type Weighted struct {
	size    int64
	cur     int64
	mu      sync.Mutex
	waiters list.List
}

// Acquire acquires the semaphore with a weight of n, blocking until resources
// are available or ctx is done.
func (s *Weighted) Acquire(ctx context.Context, n int64) error {
	done := ctx.Done()
	s.mu.Lock()
	select {
	case <-done:
		s.mu.Unlock()
		return ctx.Err()
	default:
	}
	if s.size-s.cur >= n && s.waiters.Len() == 0 {
		s.cur += n
		s.mu.Unlock()
		return nil
	}
	if n > s.size {
		s.mu.Unlock()
		simrt.Recv(done)
		return ctx.Err()
	}
	ready := make(chan struct{})
	w := waiter{n: n, ready: ready}
	elem := s.waiters.PushBack(w)
	s.mu.Unlock()

	if simrt.Select(false, simrt.RecvCase(done), simrt.RecvCase((<-chan struct{})(ready))) == 0 {
		s.mu.Lock()
		select {
		case <-ready:
			// acquired after we were cancelled: pretend we did not notice
			s.mu.Unlock()
			return nil
		default:
			isFront := s.waiters.Front() == elem
			s.waiters.Remove(elem)
			if isFront && s.size > s.cur {
				s.notifyWaiters()
			}
		}
		s.mu.Unlock()
		return ctx.Err()
	}
	return nil
}

// TryAcquire acquires the semaphore with a weight of n without blocking.
func (s *Weighted) TryAcquire(n int64) bool {
	s.mu.Lock()
	success := s.size-s.cur >= n && s.waiters.Len() == 0
	if success {
		s.cur += n
	}
	s.mu.Unlock()
	return success
}

// Release releases the semaphore with a weight of n.
func (s *Weighted) Release(n int64) {
	s.mu.Lock()
	s.cur -= n
	if s.cur < 0 {
		s.mu.Unlock()
		panic("semaphore: released more than held")
	}
	s.notifyWaiters()
	s.mu.Unlock()
}

func (s *Weighted) notifyWaiters() {
	for {
		next := s.waiters.Front()
		if next == nil {
			break
		}
		w := next.Value.(waiter)
		if s.size-s.cur < w.n {
			break
		}
		s.cur += w.n
		s.waiters.Remove(next)
		close(w.ready)
	}
}
