// Package atomic replaces sync/atomic in transformed code: the real atomics
// preceded by a scheduling point. The typed values (Int32, Value, ...) are the
// real ones; their methods are not scheduling points.
package atomic

import (
	real "sync/atomic"
	"unsafe"

	simrt "kverif/sim"
)

type (
	Bool    = real.Bool
	Int32   = real.Int32
	Int64   = real.Int64
	Uint32  = real.Uint32
	Uint64  = real.Uint64
	Uintptr = real.Uintptr
	Value   = real.Value
)

type Pointer[T any] = real.Pointer[T]

func AddInt32(addr *int32, delta int32) int32 { simrt.Yield(); return real.AddInt32(addr, delta) }
func LoadInt32(addr *int32) int32             { simrt.Yield(); return real.LoadInt32(addr) }
func StoreInt32(addr *int32, v int32)         { simrt.Yield(); real.StoreInt32(addr, v) }
func SwapInt32(addr *int32, v int32) int32    { simrt.Yield(); return real.SwapInt32(addr, v) }
func CompareAndSwapInt32(addr *int32, o, n int32) bool {
	simrt.Yield()
	return real.CompareAndSwapInt32(addr, o, n)
}
func AddInt64(addr *int64, delta int64) int64 { simrt.Yield(); return real.AddInt64(addr, delta) }
func LoadInt64(addr *int64) int64             { simrt.Yield(); return real.LoadInt64(addr) }
func StoreInt64(addr *int64, v int64)         { simrt.Yield(); real.StoreInt64(addr, v) }
func SwapInt64(addr *int64, v int64) int64    { simrt.Yield(); return real.SwapInt64(addr, v) }
func CompareAndSwapInt64(addr *int64, o, n int64) bool {
	simrt.Yield()
	return real.CompareAndSwapInt64(addr, o, n)
}
func AddUint32(addr *uint32, delta uint32) uint32 { simrt.Yield(); return real.AddUint32(addr, delta) }
func LoadUint32(addr *uint32) uint32              { simrt.Yield(); return real.LoadUint32(addr) }
func StoreUint32(addr *uint32, v uint32)          { simrt.Yield(); real.StoreUint32(addr, v) }
func SwapUint32(addr *uint32, v uint32) uint32    { simrt.Yield(); return real.SwapUint32(addr, v) }
func CompareAndSwapUint32(addr *uint32, o, n uint32) bool {
	simrt.Yield()
	return real.CompareAndSwapUint32(addr, o, n)
}
func AddUint64(addr *uint64, delta uint64) uint64 { simrt.Yield(); return real.AddUint64(addr, delta) }
func LoadUint64(addr *uint64) uint64              { simrt.Yield(); return real.LoadUint64(addr) }
func StoreUint64(addr *uint64, v uint64)          { simrt.Yield(); real.StoreUint64(addr, v) }
func SwapUint64(addr *uint64, v uint64) uint64    { simrt.Yield(); return real.SwapUint64(addr, v) }
func CompareAndSwapUint64(addr *uint64, o, n uint64) bool {
	simrt.Yield()
	return real.CompareAndSwapUint64(addr, o, n)
}
func AddUintptr(addr *uintptr, delta uintptr) uintptr {
	simrt.Yield()
	return real.AddUintptr(addr, delta)
}
func LoadUintptr(addr *uintptr) uintptr            { simrt.Yield(); return real.LoadUintptr(addr) }
func StoreUintptr(addr *uintptr, v uintptr)        { simrt.Yield(); real.StoreUintptr(addr, v) }
func SwapUintptr(addr *uintptr, v uintptr) uintptr { simrt.Yield(); return real.SwapUintptr(addr, v) }
func CompareAndSwapUintptr(addr *uintptr, o, n uintptr) bool {
	simrt.Yield()
	return real.CompareAndSwapUintptr(addr, o, n)
}
func AndInt32(addr *int32, m int32) int32                 { simrt.Yield(); return real.AndInt32(addr, m) }
func OrInt32(addr *int32, m int32) int32                  { simrt.Yield(); return real.OrInt32(addr, m) }
func AndInt64(addr *int64, m int64) int64                 { simrt.Yield(); return real.AndInt64(addr, m) }
func OrInt64(addr *int64, m int64) int64                  { simrt.Yield(); return real.OrInt64(addr, m) }
func AndUint32(addr *uint32, m uint32) uint32             { simrt.Yield(); return real.AndUint32(addr, m) }
func OrUint32(addr *uint32, m uint32) uint32              { simrt.Yield(); return real.OrUint32(addr, m) }
func AndUint64(addr *uint64, m uint64) uint64             { simrt.Yield(); return real.AndUint64(addr, m) }
func OrUint64(addr *uint64, m uint64) uint64              { simrt.Yield(); return real.OrUint64(addr, m) }
func AndUintptr(addr *uintptr, m uintptr) uintptr         { simrt.Yield(); return real.AndUintptr(addr, m) }
func OrUintptr(addr *uintptr, m uintptr) uintptr          { simrt.Yield(); return real.OrUintptr(addr, m) }
func LoadPointer(addr *unsafe.Pointer) unsafe.Pointer     { simrt.Yield(); return real.LoadPointer(addr) }
func StorePointer(addr *unsafe.Pointer, v unsafe.Pointer) { simrt.Yield(); real.StorePointer(addr, v) }
func SwapPointer(addr *unsafe.Pointer, v unsafe.Pointer) unsafe.Pointer {
	simrt.Yield()
	return real.SwapPointer(addr, v)
}
func CompareAndSwapPointer(addr *unsafe.Pointer, o, n unsafe.Pointer) bool {
	simrt.Yield()
	return real.CompareAndSwapPointer(addr, o, n)
}
