// Package errgroup is the simulated counterpart of
// golang.org/x/sync/errgroup (same API), built on the shim sync package and
// simrt.Go so that its goroutines are tasks of the simulator.
package errgroup

import (
	"context"
	"fmt"

	"kverif/shim/sync"
	simrt "kverif/sim"
)

type token struct{}

// Group is a collection of goroutines working on subtasks of one task.
type Group struct {
	cancel func(error)
	wg     sync.WaitGroup

	mu      sync.Mutex
	limit   int
	limited bool
	active  int
	cond    *sync.Cond
	errOnce sync.Once
	err     error
}

// WithContext returns a new Group and an associated Context derived from ctx.
func WithContext(ctx context.Context) (*Group, context.Context) {
	ctx, cancel := context.WithCancelCause(ctx)
	return &Group{cancel: cancel}, ctx
}

func (g *Group) done() {
	g.mu.Lock()
	g.active--
	if g.cond != nil {
		g.cond.Broadcast()
	}
	g.mu.Unlock()
	g.wg.Done()
}

// Wait blocks until all function calls from the Go method have returned, then
// returns the first non-nil error (if any) from them.
func (g *Group) Wait() error {
	g.wg.Wait()
	if g.cancel != nil {
		g.cancel(g.err)
	}
	return g.err
}

func (g *Group) run(f func() error) {
	defer g.done()
	if err := f(); err != nil {
		g.errOnce.Do(func() {
			g.err = err
			if g.cancel != nil {
				g.cancel(g.err)
			}
		})
	}
}

// Go calls the given function in a new goroutine; it blocks until the new
// goroutine can be added without exceeding the configured limit.
func (g *Group) Go(f func() error) {
	g.mu.Lock()
	if g.cond == nil {
		g.cond = sync.NewCond(&g.mu)
	}
	for g.limited && g.active >= g.limit {
		g.cond.Wait()
	}
	g.active++
	g.mu.Unlock()
	g.wg.Add(1)
	simrt.Go(func() { g.run(f) })
}

// TryGo calls the given function in a new goroutine only if the number of
// active goroutines in the group is currently below the configured limit.
func (g *Group) TryGo(f func() error) bool {
	g.mu.Lock()
	if g.limited && g.active >= g.limit {
		g.mu.Unlock()
		return false
	}
	g.active++
	g.mu.Unlock()
	g.wg.Add(1)
	simrt.Go(func() { g.run(f) })
	return true
}

// SetLimit limits the number of active goroutines in this group to at most n.
// A negative value indicates no limit.
func (g *Group) SetLimit(n int) {
	g.mu.Lock()
	defer g.mu.Unlock()
	if g.active != 0 {
		panic(fmt.Errorf("errgroup: modify limit while %v goroutines in the group are still active", g.active))
	}
	g.limit, g.limited = n, n >= 0
}
