// Package uuid replaces github.com/docker/distribution/uuid: inside a
// simulation identifiers come from the run's seeded generator.
package uuid

import (
	real "github.com/docker/distribution/uuid"
	simrt "kverif/sim"
)

func Generate() UUID {
	s := simrt.Active()
	if s == nil {
		return real.Generate()
	}
	var u UUID
	s.RandBytes(u[:])
	u[6] = (u[6] & 0x0f) | 0x40
	u[8] = (u[8] & 0x3f) | 0x80
	return u
}
