// Package ioutil replaces io/ioutil: file-system helpers go through shim/os.
package ioutil

import (
	"io/fs"
	"sort"

	sos "kverif/shim/os"
)

func WriteFile(name string, data []byte, perm fs.FileMode) error {
	return sos.WriteFile(name, data, perm)
}
func ReadFile(name string) ([]byte, error)            { return sos.ReadFile(name) }
func TempDir(dir, pattern string) (string, error)     { return sos.MkdirTemp(dir, pattern) }
func TempFile(dir, pattern string) (*sos.File, error) { return sos.CreateTemp(dir, pattern) }
func ReadDir(dirname string) ([]fs.FileInfo, error) {
	es, err := sos.ReadDir(dirname)
	if err != nil {
		return nil, err
	}
	out := make([]fs.FileInfo, 0, len(es))
	for _, e := range es {
		fi, err := e.Info()
		if err != nil {
			return nil, err
		}
		out = append(out, fi)
	}
	sort.Slice(out, func(i, j int) bool { return out[i].Name() < out[j].Name() })
	return out, nil
}
