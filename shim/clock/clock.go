// Package clock replaces github.com/andres-erbsen/clock in transformed code.
// The "real" clock is the synctest fake clock; Sleep releases the baton and
// AfterFunc callbacks run as simulated tasks of the caller's node.
package clock

import (
	"time"

	real "github.com/andres-erbsen/clock"
	simrt "kverif/sim"
)

type simClock struct{ real.Clock }

func New() Clock { return simClock{real.New()} }

func (c simClock) Sleep(d time.Duration) { simrt.Sleep(d) }

func (c simClock) After(d time.Duration) <-chan time.Time { return c.Clock.After(d + simrt.TimerEps()) }
func (c simClock) Tick(d time.Duration) <-chan time.Time  { return c.Clock.Tick(d + simrt.TimerEps()) }
func (c simClock) Ticker(d time.Duration) *Ticker         { return c.Clock.Ticker(d + simrt.TimerEps()) }
func (c simClock) Timer(d time.Duration) *Timer           { return c.Clock.Timer(d + simrt.TimerEps()) }

func (c simClock) AfterFunc(d time.Duration, f func()) *Timer {
	s, t := simrt.Cur()
	if s == nil || t == nil {
		return c.Clock.AfterFunc(d, f)
	}
	node := t.Node
	return c.Clock.AfterFunc(d+simrt.TimerEps(), func() { s.GoForeign(node, "afterfunc", f) })
}
