// Package clock replaces github.com/andres-erbsen/clock in transformed code.
// The "real" clock is the synctest fake clock; Sleep releases the baton and
// AfterFunc callbacks run as simulated tasks of the caller's node.
package clock

import (
	"time"

	real "github.com/andres-erbsen/clock"
	simrt "kverif/sim"
)

type simClock struct{ real.Clock }

func New() Clock { return simClock{real.New()} }

func (c simClock) Sleep(d time.Duration) { simrt.Sleep(d) }

func (c simClock) AfterFunc(d time.Duration, f func()) *Timer {
	s, t := simrt.Cur()
	if s == nil || t == nil {
		return c.Clock.AfterFunc(d, f)
	}
	node := t.Node
	return c.Clock.AfterFunc(d, func() { s.GoForeign(node, "afterfunc", f) })
}
