// Package sync is the simulated replacement of the standard sync package for
// transformed kraken code. Outside a simulation every type behaves as the real
// one (pass-through); inside, every blocking operation is a scheduling point of
// the baton scheduler and no goroutine ever blocks on a real lock.
package sync

import (
	"fmt"
	realsync "sync"

	simrt "kverif/sim"
)

type (
	Locker = realsync.Locker
	Pool   = realsync.Pool
)

func OnceFunc(f func()) func() { return realsync.OnceFunc(f) }

func OnceValue[T any](f func() T) func() T { return realsync.OnceValue(f) }

func OnceValues[T1, T2 any](f func() (T1, T2)) func() (T1, T2) { return realsync.OnceValues(f) }

// Mutex: any waiter may win after Unlock (Go permits barging).
type Mutex struct {
	real    realsync.Mutex
	locked  bool
	waiters []*simrt.Task
}

func (m *Mutex) Lock() {
	s, t := simrt.Cur()
	if s == nil {
		m.real.Lock()
		return
	}
	if t == nil {
		if s.Observer() {
			return
		}
		s.InfraError("sync.Mutex.Lock from a goroutine that is not a simulated task")
		return
	}
	if t.Dead() {
		return
	}
	simrt.Yield()
	for m.locked {
		m.waiters = append(m.waiters, t)
		s.BlockOn(t, "mutex")
	}
	m.locked = true
	if s.PreemptInLocks() {
		simrt.Yield() // a goroutine can be descheduled while it holds a lock
	}
}

func (m *Mutex) TryLock() bool {
	s, t := simrt.Cur()
	if s == nil {
		return m.real.TryLock()
	}
	if t == nil || t.Dead() {
		return true
	}
	simrt.Yield()
	if m.locked {
		return false
	}
	m.locked = true
	return true
}

func (m *Mutex) Unlock() {
	s, t := simrt.Cur()
	if s == nil {
		m.real.Unlock()
		return
	}
	if t == nil {
		if s.Observer() {
			return
		}
		s.InfraError("sync.Mutex.Unlock from a goroutine that is not a simulated task")
		return
	}
	if !m.locked {
		if t.Dead() {
			return
		}
		panic("sync: unlock of unlocked mutex")
	}
	m.locked = false
	for _, w := range m.waiters {
		s.MakeReady(w)
	}
	m.waiters = m.waiters[:0]
}

// RWMutex with writer preference: a pending Lock blocks new RLocks.
type RWMutex struct {
	real     realsync.RWMutex
	writer   bool
	readers  int
	wpending int
	waiters  []*simrt.Task
}

func (m *RWMutex) wake(s *simrt.Sim) {
	for _, w := range m.waiters {
		s.MakeReady(w)
	}
	m.waiters = m.waiters[:0]
}

func (m *RWMutex) Lock() {
	s, t := simrt.Cur()
	if s == nil {
		m.real.Lock()
		return
	}
	if t == nil {
		if s.Observer() {
			return
		}
		s.InfraError("sync.RWMutex.Lock from a goroutine that is not a simulated task")
		return
	}
	if t.Dead() {
		return
	}
	simrt.Yield()
	m.wpending++
	for m.writer || m.readers > 0 {
		m.waiters = append(m.waiters, t)
		s.BlockOn(t, "rwmutex.Lock")
	}
	m.wpending--
	m.writer = true
	if s.PreemptInLocks() {
		simrt.Yield()
	}
}

func (m *RWMutex) TryLock() bool {
	s, t := simrt.Cur()
	if s == nil {
		return m.real.TryLock()
	}
	if t == nil || t.Dead() {
		return true
	}
	simrt.Yield()
	if m.writer || m.readers > 0 {
		return false
	}
	m.writer = true
	return true
}

func (m *RWMutex) Unlock() {
	s, t := simrt.Cur()
	if s == nil {
		m.real.Unlock()
		return
	}
	if t == nil {
		if s.Observer() {
			return
		}
		s.InfraError("sync.RWMutex.Unlock from a goroutine that is not a simulated task")
		return
	}
	if !m.writer {
		if t.Dead() {
			return
		}
		panic("sync: Unlock of unlocked RWMutex")
	}
	m.writer = false
	m.wake(s)
}

func (m *RWMutex) RLock() {
	s, t := simrt.Cur()
	if s == nil {
		m.real.RLock()
		return
	}
	if t == nil {
		if s.Observer() {
			return
		}
		s.InfraError("sync.RWMutex.RLock from a goroutine that is not a simulated task")
		return
	}
	if t.Dead() {
		return
	}
	simrt.Yield()
	for m.writer || m.wpending > 0 {
		m.waiters = append(m.waiters, t)
		s.BlockOn(t, "rwmutex.RLock")
	}
	m.readers++
	if s.PreemptInLocks() {
		simrt.Yield()
	}
}

func (m *RWMutex) TryRLock() bool {
	s, t := simrt.Cur()
	if s == nil {
		return m.real.TryRLock()
	}
	if t == nil || t.Dead() {
		return true
	}
	simrt.Yield()
	if m.writer || m.wpending > 0 {
		return false
	}
	m.readers++
	return true
}

func (m *RWMutex) RUnlock() {
	s, t := simrt.Cur()
	if s == nil {
		m.real.RUnlock()
		return
	}
	if t == nil {
		if s.Observer() {
			return
		}
		s.InfraError("sync.RWMutex.RUnlock from a goroutine that is not a simulated task")
		return
	}
	if m.readers <= 0 {
		if t.Dead() {
			return
		}
		panic("sync: RUnlock of unlocked RWMutex")
	}
	m.readers--
	if m.readers == 0 {
		m.wake(s)
	}
}

type rlocker RWMutex

func (r *rlocker) Lock()   { (*RWMutex)(r).RLock() }
func (r *rlocker) Unlock() { (*RWMutex)(r).RUnlock() }

func (m *RWMutex) RLocker() Locker { return (*rlocker)(m) }

// Cond: Signal wakes the longest waiter, Broadcast all; Wait re-acquires L.
type Cond struct {
	L       Locker
	real    *realsync.Cond
	waiters []*condWaiter
}

type condWaiter struct {
	t        *simrt.Task
	signaled bool
}

func NewCond(l Locker) *Cond { return &Cond{L: l} }

func (c *Cond) realCond() *realsync.Cond {
	if c.real == nil {
		c.real = realsync.NewCond(c.L)
	}
	return c.real
}

func (c *Cond) Wait() {
	s, t := simrt.Cur()
	if s == nil {
		c.realCond().Wait()
		return
	}
	if t == nil {
		s.InfraError("sync.Cond.Wait from a goroutine that is not a simulated task")
		return
	}
	if t.Dead() {
		simrt.Exit()
	}
	w := &condWaiter{t: t}
	c.waiters = append(c.waiters, w)
	c.L.Unlock()
	for !w.signaled {
		s.BlockOn(t, "cond")
	}
	c.L.Lock()
}

func (c *Cond) Signal() {
	s, t := simrt.Cur()
	if s == nil {
		c.realCond().Signal()
		return
	}
	if t == nil || t.Dead() {
		return
	}
	if len(c.waiters) > 0 {
		w := c.waiters[0]
		c.waiters = c.waiters[1:]
		w.signaled = true
		s.MakeReady(w.t)
	}
}

func (c *Cond) Broadcast() {
	s, t := simrt.Cur()
	if s == nil {
		c.realCond().Broadcast()
		return
	}
	if t == nil || t.Dead() {
		return
	}
	for _, w := range c.waiters {
		w.signaled = true
		s.MakeReady(w.t)
	}
	c.waiters = nil
}

// WaitGroup.
type WaitGroup struct {
	real    realsync.WaitGroup
	n       int
	waiters []*simrt.Task
}

func (wg *WaitGroup) Add(delta int) {
	s, t := simrt.Cur()
	if s == nil {
		wg.real.Add(delta)
		return
	}
	if t != nil && t.Dead() {
		return
	}
	wg.n += delta
	if wg.n < 0 {
		wg.n = 0
		panic("sync: negative WaitGroup counter")
	}
	if wg.n == 0 {
		for _, w := range wg.waiters {
			s.MakeReady(w)
		}
		wg.waiters = wg.waiters[:0]
	}
}

func (wg *WaitGroup) Done() { wg.Add(-1) }

func (wg *WaitGroup) Go(f func()) {
	wg.Add(1)
	simrt.Go(func() {
		defer wg.Done()
		f()
	})
}

func (wg *WaitGroup) Wait() {
	s, t := simrt.Cur()
	if s == nil {
		wg.real.Wait()
		return
	}
	if t == nil {
		s.InfraError("sync.WaitGroup.Wait from a goroutine that is not a simulated task")
		return
	}
	if t.Dead() {
		return
	}
	simrt.Yield()
	for wg.n > 0 {
		wg.waiters = append(wg.waiters, t)
		s.BlockOn(t, "waitgroup")
	}
}

// Once: concurrent callers block until the first call returns.
type Once struct {
	real    realsync.Once
	state   int // 0 new, 1 running, 2 done
	waiters []*simrt.Task
}

func (o *Once) Do(f func()) {
	s, t := simrt.Cur()
	if s == nil || t == nil {
		if o.state == 2 {
			return
		}
		o.real.Do(func() {
			defer func() { o.state = 2 }()
			f()
		})
		return
	}
	if t.Dead() {
		return
	}
	simrt.Yield()
	for o.state == 1 {
		o.waiters = append(o.waiters, t)
		s.BlockOn(t, "once")
	}
	if o.state == 2 {
		return
	}
	o.state = 1
	defer func() {
		o.state = 2
		o.real.Do(func() {})
		for _, w := range o.waiters {
			s.MakeReady(w)
		}
		o.waiters = nil
	}()
	f()
}

// Map: linearisable per operation (a scheduling point precedes each), Range in
// canonical key order rotated by a tape draw.
type Map struct {
	real realsync.Map
}

func (m *Map) Load(key any) (any, bool) { simrt.Yield(); return m.real.Load(key) }
func (m *Map) Store(key, value any)     { simrt.Yield(); m.real.Store(key, value) }
func (m *Map) Clear()                   { simrt.Yield(); m.real.Clear() }
func (m *Map) LoadOrStore(key, value any) (any, bool) {
	simrt.Yield()
	return m.real.LoadOrStore(key, value)
}
func (m *Map) LoadAndDelete(key any) (any, bool) { simrt.Yield(); return m.real.LoadAndDelete(key) }
func (m *Map) Delete(key any)                    { simrt.Yield(); m.real.Delete(key) }
func (m *Map) Swap(key, value any) (any, bool)   { simrt.Yield(); return m.real.Swap(key, value) }
func (m *Map) CompareAndSwap(key, old, new any) bool {
	simrt.Yield()
	return m.real.CompareAndSwap(key, old, new)
}
func (m *Map) CompareAndDelete(key, old any) bool {
	simrt.Yield()
	return m.real.CompareAndDelete(key, old)
}

func (m *Map) Range(f func(key, value any) bool) {
	s, _ := simrt.Cur()
	if s == nil {
		m.real.Range(f)
		return
	}
	simrt.Yield()
	tmp := map[any]any{}
	m.real.Range(func(k, v any) bool { tmp[k] = v; return true })
	for _, k := range simrt.MapKeys(tmp) {
		v, ok := m.real.Load(k)
		if !ok {
			continue
		}
		if !f(k, v) {
			return
		}
	}
}

var _ = fmt.Sprint
