// Package os is the simulated-disk seam: a complete re-export of the standard
// os package (zz_reexport.go) with every mutating entry point decomposed to
// system-call granularity and routed through simrt.DiskOp (scheduling point,
// per-node op counter, crash point, error injection, audit). Backing store is
// the real file system (a per-run tmpfs directory); under the process-crash
// model completed system calls persist, so the real files are the durable state.
// Outside a simulation everything is a pass-through.
package os

import (
	"errors"
	"io/fs"
	real "os"
	"path/filepath"
	"sort"
	"strconv"
	"strings"
	"syscall"
	"time"

	simrt "kverif/sim"
)

// ErrShort asks File.Write to perform a short write (injected by a FaultFn).
var ErrShort = errors.New("simulated short write")

// File wraps *os.File; writes are disk ops.
type File struct {
	f    *real.File
	path string
}

var (
	Stdin  = &File{f: real.Stdin, path: "/dev/stdin"}
	Stdout = &File{f: real.Stdout, path: "/dev/stdout"}
	Stderr = &File{f: real.Stderr, path: "/dev/stderr"}
)

func key(name string) string {
	if !filepath.IsAbs(name) {
		if a, err := filepath.Abs(name); err == nil {
			return a
		}
	}
	return filepath.Clean(name)
}

func disk() *simrt.DiskState {
	if s := simrt.Active(); s != nil {
		return s.Disk()
	}
	return nil
}

func touch(name string) {
	if d := disk(); d != nil {
		d.Touch(key(name))
	}
}

func perr(op, path string, err error) error {
	return &fs.PathError{Op: op, Path: path, Err: err}
}

type fileInfo struct {
	real.FileInfo
	mt time.Time
}

func (fi fileInfo) ModTime() time.Time { return fi.mt }

func wrapInfo(name string, fi real.FileInfo) real.FileInfo {
	s := simrt.Active()
	if s == nil || fi == nil {
		return fi
	}
	if mt, ok := s.Disk().Mtime[key(name)]; ok {
		return fileInfo{fi, mt}
	}
	return fileInfo{fi, s.StartTime()}
}

type dirEntry struct {
	real.DirEntry
	path string
}

func (e dirEntry) Info() (real.FileInfo, error) {
	fi, err := e.DirEntry.Info()
	if err != nil {
		return fi, err
	}
	return wrapInfo(e.path, fi), nil
}

func Stat(name string) (real.FileInfo, error) {
	if !simrt.DiskRead("stat", name) {
		return nil, perr("stat", name, simrt.ErrCrashed)
	}
	fi, err := real.Stat(name)
	if err != nil {
		return nil, err
	}
	return wrapInfo(name, fi), nil
}

func Lstat(name string) (real.FileInfo, error) {
	if !simrt.DiskRead("lstat", name) {
		return nil, perr("lstat", name, simrt.ErrCrashed)
	}
	fi, err := real.Lstat(name)
	if err != nil {
		return nil, err
	}
	return wrapInfo(name, fi), nil
}

func ReadDir(name string) ([]real.DirEntry, error) {
	if !simrt.DiskRead("readdir", name) {
		return nil, perr("readdir", name, simrt.ErrCrashed)
	}
	es, err := real.ReadDir(name)
	if simrt.Active() != nil {
		for i, e := range es {
			es[i] = dirEntry{e, filepath.Join(name, e.Name())}
		}
	}
	return es, err
}

func ReadFile(name string) ([]byte, error) {
	if !simrt.DiskRead("readfile", name) {
		return nil, perr("open", name, simrt.ErrCrashed)
	}
	return real.ReadFile(name)
}

func Open(name string) (*File, error) { return OpenFile(name, real.O_RDONLY, 0) }

func Create(name string) (*File, error) {
	return OpenFile(name, real.O_RDWR|real.O_CREATE|real.O_TRUNC, 0o666)
}

func OpenFile(name string, flag int, perm real.FileMode) (*File, error) {
	mutating := flag&(real.O_CREATE|real.O_TRUNC) != 0
	existed := true
	if mutating {
		if simrt.Active() != nil {
			if _, e := real.Lstat(name); e != nil {
				existed = false
			}
		}
		if err := simrt.DiskOp("open", name); err != nil {
			return nil, perr("open", name, err)
		}
	} else if !simrt.DiskRead("open", name) {
		return nil, perr("open", name, simrt.ErrCrashed)
	}
	f, err := real.OpenFile(name, flag, perm)
	if err != nil {
		return nil, err
	}
	if mutating && (!existed || flag&real.O_TRUNC != 0) {
		touch(name)
	}
	return &File{f: f, path: name}, nil
}

func NewFile(fd uintptr, name string) *File {
	f := real.NewFile(fd, name)
	if f == nil {
		return nil
	}
	return &File{f: f, path: name}
}

func Pipe() (r *File, w *File, err error) {
	rr, ww, err := real.Pipe()
	if err != nil {
		return nil, nil, err
	}
	return &File{f: rr, path: "|0"}, &File{f: ww, path: "|1"}, nil
}

func Mkdir(name string, perm real.FileMode) error {
	if err := simrt.DiskOp("mkdir", name); err != nil {
		return perr("mkdir", name, err)
	}
	err := real.Mkdir(name, perm)
	if err == nil {
		touch(name)
	}
	return err
}

// MkdirAll creates one directory per disk op.
func MkdirAll(path string, perm real.FileMode) error {
	if simrt.Active() == nil {
		return real.MkdirAll(path, perm)
	}
	if fi, err := real.Stat(path); err == nil {
		if fi.IsDir() {
			simrt.DiskRead("stat", path)
			return nil
		}
		return perr("mkdir", path, syscall.ENOTDIR)
	}
	var missing []string
	p := filepath.Clean(path)
	for {
		if _, err := real.Stat(p); err == nil {
			break
		}
		missing = append(missing, p)
		np := filepath.Dir(p)
		if np == p {
			break
		}
		p = np
	}
	for i := len(missing) - 1; i >= 0; i-- {
		if err := simrt.DiskOp("mkdir", missing[i]); err != nil {
			return perr("mkdir", missing[i], err)
		}
		if err := real.Mkdir(missing[i], perm); err != nil && !real.IsExist(err) {
			return err
		}
		touch(missing[i])
	}
	return nil
}

func forget(name string) {
	if d := disk(); d != nil {
		delete(d.Mtime, key(name))
	}
}

func Remove(name string) error {
	if err := simrt.DiskOp("remove", name); err != nil {
		return perr("remove", name, err)
	}
	err := real.Remove(name)
	if err == nil {
		forget(name)
	}
	return err
}

// RemoveAll removes one entry per disk op, in name order, then the directory.
func RemoveAll(path string) error {
	if simrt.Active() == nil {
		return real.RemoveAll(path)
	}
	fi, err := real.Lstat(path)
	if err != nil {
		if real.IsNotExist(err) {
			simrt.DiskRead("lstat", path)
			return nil
		}
		return err
	}
	if !fi.IsDir() {
		if err := Remove(path); err != nil && !real.IsNotExist(err) {
			return err
		}
		return nil
	}
	es, err := real.ReadDir(path)
	if err != nil && !real.IsNotExist(err) {
		return err
	}
	sort.Slice(es, func(i, j int) bool { return es[i].Name() < es[j].Name() })
	for _, e := range es {
		if err := RemoveAll(filepath.Join(path, e.Name())); err != nil {
			return err
		}
	}
	if err := Remove(path); err != nil && !real.IsNotExist(err) {
		return err
	}
	return nil
}

func Rename(oldpath, newpath string) error {
	if err := simrt.DiskOp("rename", oldpath+" -> "+newpath); err != nil {
		return &real.LinkError{Op: "rename", Old: oldpath, New: newpath, Err: err}
	}
	err := real.Rename(oldpath, newpath)
	if err == nil {
		if d := disk(); d != nil {
			ok, nk := key(oldpath), key(newpath)
			if mt, has := d.Mtime[ok]; has {
				d.Mtime[nk] = mt
				delete(d.Mtime, ok)
			}
			pre := ok + "/"
			for k, v := range d.Mtime {
				if strings.HasPrefix(k, pre) {
					d.Mtime[nk+"/"+k[len(pre):]] = v
					delete(d.Mtime, k)
				}
			}
		}
	}
	return err
}

func Link(oldname, newname string) error {
	if err := simrt.DiskOp("link", oldname+" -> "+newname); err != nil {
		return &real.LinkError{Op: "link", Old: oldname, New: newname, Err: err}
	}
	err := real.Link(oldname, newname)
	if err == nil {
		touch(newname)
	}
	return err
}

func Symlink(oldname, newname string) error {
	if err := simrt.DiskOp("symlink", oldname+" -> "+newname); err != nil {
		return &real.LinkError{Op: "symlink", Old: oldname, New: newname, Err: err}
	}
	err := real.Symlink(oldname, newname)
	if err == nil {
		touch(newname)
	}
	return err
}

func Truncate(name string, size int64) error {
	if err := simrt.DiskOp("truncate", name); err != nil {
		return perr("truncate", name, err)
	}
	err := real.Truncate(name, size)
	if err == nil {
		touch(name)
	}
	return err
}

func Chmod(name string, mode real.FileMode) error {
	if err := simrt.DiskOp("chmod", name); err != nil {
		return perr("chmod", name, err)
	}
	return real.Chmod(name, mode)
}

func Chtimes(name string, atime, mtime time.Time) error {
	if err := simrt.DiskOp("chtimes", name); err != nil {
		return perr("chtimes", name, err)
	}
	err := real.Chtimes(name, atime, mtime)
	if err == nil {
		if d := disk(); d != nil {
			d.Mtime[key(name)] = mtime
		}
	}
	return err
}

func WriteFile(name string, data []byte, perm real.FileMode) error {
	f, err := OpenFile(name, real.O_WRONLY|real.O_CREATE|real.O_TRUNC, perm)
	if err != nil {
		return err
	}
	_, err = f.Write(data)
	if err1 := f.Close(); err1 != nil && err == nil {
		err = err1
	}
	return err
}

func tempName(pattern string) (prefix, suffix string) {
	if i := strings.LastIndex(pattern, "*"); i >= 0 {
		return pattern[:i], pattern[i+1:]
	}
	return pattern, ""
}

// simTempDir redirects temp files requested outside the run's own directories
// (system temp dir, /tmp...) to the run's private temp root.
func simTempDir(dir string) string {
	if strings.Contains(dir, "/ksim-") {
		return dir
	}
	s := simrt.Active()
	if s == nil {
		return dir
	}
	return s.TempRoot()
}

func MkdirTemp(dir, pattern string) (string, error) {
	d := disk()
	if d == nil {
		return real.MkdirTemp(dir, pattern)
	}
	dir = simTempDir(dir)
	pre, suf := tempName(pattern)
	for {
		d.TempSeq++
		name := filepath.Join(dir, pre+strconv.Itoa(1000000+d.TempSeq)+suf)
		err := Mkdir(name, 0o700)
		if err == nil {
			return name, nil
		}
		if !real.IsExist(err) {
			return "", err
		}
	}
}

func CreateTemp(dir, pattern string) (*File, error) {
	d := disk()
	if d == nil {
		f, err := real.CreateTemp(dir, pattern)
		if err != nil {
			return nil, err
		}
		return &File{f: f, path: f.Name()}, nil
	}
	dir = simTempDir(dir)
	pre, suf := tempName(pattern)
	for {
		d.TempSeq++
		name := filepath.Join(dir, pre+strconv.Itoa(1000000+d.TempSeq)+suf)
		f, err := OpenFile(name, real.O_RDWR|real.O_CREATE|real.O_EXCL, 0o600)
		if err == nil {
			return f, nil
		}
		if !real.IsExist(err) {
			return nil, err
		}
	}
}

// Exit: inside a simulation the calling node dies, not the simulator.
func Exit(code int) {
	if s, t := simrt.Cur(); s != nil && t != nil {
		simrt.LogFatal("os.Exit(" + strconv.Itoa(code) + ")")
		return
	}
	real.Exit(code)
}

// ---- File methods ----

func (f *File) Real() *real.File { return f.f }

func (f *File) Name() string { return f.f.Name() }
func (f *File) Fd() uintptr  { return f.f.Fd() }

func (f *File) Close() error {
	if f == nil {
		return real.ErrInvalid
	}
	// a dead process' descriptors are closed too: always really close
	simrt.DiskRead("close", f.path)
	return f.f.Close()
}

func (f *File) Read(b []byte) (int, error) {
	if !simrt.DiskRead("read", f.path) {
		return 0, perr("read", f.path, simrt.ErrCrashed)
	}
	return f.f.Read(b)
}

func (f *File) ReadAt(b []byte, off int64) (int, error) {
	if !simrt.DiskRead("read", f.path) {
		return 0, perr("read", f.path, simrt.ErrCrashed)
	}
	return f.f.ReadAt(b, off)
}

func (f *File) Seek(offset int64, whence int) (int64, error) { return f.f.Seek(offset, whence) }

func (f *File) Stat() (real.FileInfo, error) {
	if !simrt.DiskRead("fstat", f.path) {
		return nil, perr("stat", f.path, simrt.ErrCrashed)
	}
	fi, err := f.f.Stat()
	if err != nil {
		return nil, err
	}
	return wrapInfo(f.path, fi), nil
}

// torn performs the prefix of a write that a process killed inside the system
// call may leave behind (page granularity), when the harness enabled it and the
// coming op is the crash point.
func (f *File) torn(b []byte, at int64, positional bool) {
	s, t := simrt.Cur()
	if s == nil || t == nil || t.Dead() {
		return
	}
	d := s.Disk()
	n := t.Node
	if !d.TornOK || n.CrashAt == 0 || n.DiskOps+1 != n.CrashAt || len(b) <= 4096 {
		return
	}
	pages := len(b) / 4096
	k := s.Tape.Draw(pages + 1)
	if k == 0 {
		return
	}
	s.Fault("disk_torn_write")
	if positional {
		f.f.WriteAt(b[:k*4096], at)
	} else {
		f.f.Write(b[:k*4096])
	}
}

func (f *File) Write(b []byte) (int, error) {
	f.torn(b, 0, false)
	if err := simrt.DiskOp("write", f.path); err != nil {
		if errors.Is(err, ErrShort) && len(b) > 1 {
			n, _ := f.f.Write(b[:len(b)/2])
			touch(f.path)
			return n, perr("write", f.path, syscall.ENOSPC)
		}
		return 0, perr("write", f.path, err)
	}
	n, err := f.f.Write(b)
	touch(f.path)
	return n, err
}

func (f *File) WriteAt(b []byte, off int64) (int, error) {
	f.torn(b, off, true)
	if err := simrt.DiskOp("writeat", f.path); err != nil {
		if errors.Is(err, ErrShort) && len(b) > 1 {
			n, _ := f.f.WriteAt(b[:len(b)/2], off)
			touch(f.path)
			return n, perr("write", f.path, syscall.ENOSPC)
		}
		return 0, perr("write", f.path, err)
	}
	n, err := f.f.WriteAt(b, off)
	touch(f.path)
	return n, err
}

func (f *File) WriteString(s string) (int, error) { return f.Write([]byte(s)) }

func (f *File) Truncate(size int64) error {
	if err := simrt.DiskOp("ftruncate", f.path); err != nil {
		return perr("truncate", f.path, err)
	}
	err := f.f.Truncate(size)
	touch(f.path)
	return err
}

func (f *File) Sync() error {
	if !simrt.DiskRead("fsync", f.path) {
		return perr("sync", f.path, simrt.ErrCrashed)
	}
	return f.f.Sync()
}

func (f *File) Chmod(mode real.FileMode) error { return f.f.Chmod(mode) }
func (f *File) Chown(uid, gid int) error       { return f.f.Chown(uid, gid) }
func (f *File) Chdir() error                   { return f.f.Chdir() }

func (f *File) Readdir(n int) ([]real.FileInfo, error) {
	fis, err := f.f.Readdir(n)
	if simrt.Active() != nil {
		sort.Slice(fis, func(i, j int) bool { return fis[i].Name() < fis[j].Name() })
		for i, fi := range fis {
			fis[i] = wrapInfo(filepath.Join(f.path, fi.Name()), fi)
		}
	}
	return fis, err
}

func (f *File) Readdirnames(n int) ([]string, error) {
	names, err := f.f.Readdirnames(n)
	if simrt.Active() != nil {
		sort.Strings(names)
	}
	return names, err
}

func (f *File) ReadDir(n int) ([]real.DirEntry, error) {
	es, err := f.f.ReadDir(n)
	if simrt.Active() != nil {
		sort.Slice(es, func(i, j int) bool { return es[i].Name() < es[j].Name() })
		for i, e := range es {
			es[i] = dirEntry{e, filepath.Join(f.path, e.Name())}
		}
	}
	return es, err
}

func (f *File) SetDeadline(t time.Time) error      { return f.f.SetDeadline(t) }
func (f *File) SetReadDeadline(t time.Time) error  { return f.f.SetReadDeadline(t) }
func (f *File) SetWriteDeadline(t time.Time) error { return f.f.SetWriteDeadline(t) }
func (f *File) SyscallConn() (syscall.RawConn, error) {
	return f.f.SyscallConn()
}
