package net

import "time"

// placeholders until the simulated transport is wired (simnet package)
var (
	SimListen func(network, address string) (Listener, error, bool)
	SimDial   func(network, address string, timeout time.Duration) (Conn, error, bool)
)

func simListen(network, address string) (Listener, error, bool) {
	if SimListen != nil {
		return SimListen(network, address)
	}
	return nil, nil, false
}

func simDial(network, address string, timeout time.Duration) (Conn, error, bool) {
	if SimDial != nil {
		return SimDial(network, address, timeout)
	}
	return nil, nil, false
}
