// Package net is the p2p transport seam (see simnet.go). Everything that is
// not Listen / Dial / DialTimeout is the real package.
package net

import (
	real "net"
	"time"
)

func Listen(network, address string) (Listener, error) {
	if l, err, ok := simListen(network, address); ok {
		return l, err
	}
	return real.Listen(network, address)
}

func Dial(network, address string) (Conn, error) { return DialTimeout(network, address, 0) }

func DialTimeout(network, address string, timeout time.Duration) (Conn, error) {
	if c, err, ok := simDial(network, address, timeout); ok {
		return c, err
	}
	return real.DialTimeout(network, address, timeout)
}
