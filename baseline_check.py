#!/usr/bin/env python3
"""Runs kraken's pinned baseline test suite (guard off: plain /repo, default
toolchain) and compares with /root/.vp/BASELINE.json stable_pass."""
import json, subprocess, sys, os
b = json.load(open('/root/.vp/BASELINE.json'))
env = dict(os.environ, GOFLAGS='-mod=mod', GOPROXY='off')
for k in ('GOSUMDB', 'GOTOOLCHAIN'):
    env.pop(k, None)
p = subprocess.run(['bash', '-c', b['cmd']], stdout=subprocess.PIPE, stderr=subprocess.DEVNULL, text=True, env=env)
subprocess.run(['git', '-C', '/repo', 'checkout', '--', 'go.mod', 'go.sum'], stderr=subprocess.DEVNULL)  # -mod=mod may rewrite them
res = {}
for line in p.stdout.splitlines():
    try:
        ev = json.loads(line)
    except Exception:
        continue
    if ev.get('Test') and ev.get('Action') in ('pass', 'fail', 'skip'):
        res[ev['Package'] + '::' + ev['Test']] = ev['Action']
missing = [t for t in b['stable_pass'] if res.get(t) != 'pass']
print('stable_pass=%d passed_now=%d not_passing=%d' % (len(b['stable_pass']), sum(1 for t in b['stable_pass'] if res.get(t) == 'pass'), len(missing)))
for t in missing[:40]:
    print('  NOT PASSING', t, res.get(t))
sys.exit(1 if missing else 0)
