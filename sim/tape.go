// Package simrt is the deterministic simulation runtime: tasks, the baton
// scheduler, the choice tape, the event log and fault bookkeeping.
package simrt

// Tape is the single source of nondeterminism of a run. In search mode it is
// filled lazily from a splitmix64 stream and recorded; in replay mode the
// recorded prefix is forced and draws past its end return 0, the boring choice
// (which is what makes truncation a valid shrink).
type Tape struct {
	vals   []uint64
	pos    int
	forced bool
	state  uint64
	// Variant selects among workload variants of a harness without consuming
	// tape positions: derived from the run seed in search mode, stored in the
	// replay file, 0 when a replay file predates it (so that variant 0 must
	// remain the harness's original workload and old replays keep their
	// meaning). It is fixed while a tape is shrunk.
	Variant uint64
}

// NewTape returns a search-mode tape seeded with seed.
func NewTape(seed uint64) *Tape { return &Tape{state: seed} }

// ForcedTape returns a replay-mode tape.
func ForcedTape(vals []uint64) *Tape {
	c := make([]uint64, len(vals))
	copy(c, vals)
	return &Tape{vals: c, forced: true}
}

// Mix derives a run seed from a base seed and a run index.
func Mix(seed, idx uint64) uint64 {
	z := seed*0x9E3779B97F4A7C15 + idx*0xBF58476D1CE4E5B9 + 0x94D049BB133111EB
	z = (z ^ (z >> 30)) * 0xBF58476D1CE4E5B9
	z = (z ^ (z >> 27)) * 0x94D049BB133111EB
	return z ^ (z >> 31)
}

func (t *Tape) next() uint64 {
	if t.pos < len(t.vals) {
		v := t.vals[t.pos]
		t.pos++
		return v
	}
	if t.forced {
		t.pos++
		return 0
	}
	t.state += 0x9E3779B97F4A7C15
	z := t.state
	z = (z ^ (z >> 30)) * 0xBF58476D1CE4E5B9
	z = (z ^ (z >> 27)) * 0x94D049BB133111EB
	z ^= z >> 31
	t.vals = append(t.vals, z)
	t.pos++
	return z
}

// Draw returns a value in [0,n). n<=1 consumes nothing.
func (t *Tape) Draw(n int) int {
	if n <= 1 {
		return 0
	}
	return int(t.next() % uint64(n))
}

// Chance returns true with probability permille/1000; a zero tape value is
// always false.
func (t *Tape) Chance(permille int) bool {
	if permille <= 0 {
		return false
	}
	v := t.next()
	return int(v%1000) >= 1000-permille
}

// Values returns the recorded tape (trimmed to what was consumed).
func (t *Tape) Values() []uint64 {
	n := t.pos
	if n > len(t.vals) {
		n = len(t.vals)
	}
	out := make([]uint64, n)
	copy(out, t.vals[:n])
	return out
}

// Pos is the number of draws consumed so far.
func (t *Tape) Pos() int { return t.pos }
