package simrt

import (
	"errors"
	"fmt"
	"os"
	"strings"
	"syscall"
	"time"
)

// ErrCrashed is returned by simulated I/O issued by a task of a dead node.
var ErrCrashed = errors.New("simulated process is dead")

// DiskState is the per-run state of the simulated disk.
type DiskState struct {
	Mtime   map[string]time.Time
	TempSeq int
	Audit   []AuditRec
	AuditOn bool
	Ops     int
	FaultFn func(n *Node, kind, path string) error // error injection hook (harness)
	// SQLFaultFn, if set, may fail a mutating SQL statement ("INSERT tbl", ...)
	// before it is executed (busy / locked / I/O error of the database).
	SQLFaultFn func(n *Node, stmt string) error
	OpLog   []string
	OpLogOn bool
	TornOK  bool
	// UsageFn, if set, answers utils/diskspaceutil.Usage (virtual disk utilisation).
	UsageFn  func() (DiskUsage, error)
	tempRoot string
}

// AuditRec is one path reaching the disk shim.
type AuditRec struct {
	Node string
	Kind string
	Path string
}

// Disk returns the simulated-disk state of the run.
func (s *Sim) Disk() *DiskState {
	if s.disk == nil {
		s.disk = &DiskState{Mtime: map[string]time.Time{}}
	}
	return s.disk
}

// DiskRead is called by shim/os before a non-mutating file-system call:
// scheduling point + audit. It reports false when the caller is dead.
func DiskRead(kind, path string) bool {
	s, t := Cur()
	if t == nil {
		return true
	}
	if t.dead {
		return false
	}
	s.yield(t)
	d := s.Disk()
	if d.AuditOn {
		d.Audit = append(d.Audit, AuditRec{t.Node.Name, kind, path})
	}
	return true
}

// DiskOp is called by shim/os before every mutating file-system step. It is a
// scheduling point, numbers the op for the calling node, crashes the node when
// the op is the chosen crash point (the op is then NOT performed), and lets the
// harness inject an error. A non-nil error means: do not perform the op.
func DiskOp(kind, path string) error {
	s, t := Cur()
	if t == nil {
		return nil
	}
	if t.dead {
		return ErrCrashed
	}
	s.yield(t)
	n := t.Node
	d := s.Disk()
	n.DiskOps++
	d.Ops++
	if d.AuditOn {
		d.Audit = append(d.Audit, AuditRec{n.Name, kind, path})
	}
	if d.OpLogOn {
		d.OpLog = append(d.OpLog, fmt.Sprintf("%s#%d %s %s", n.Name, n.DiskOps, kind, path))
	}
	if s.cfg.Trace {
		s.Logf("disk %s#%d %s %s", n.Name, n.DiskOps, kind, shortPath(path))
	} else {
		s.mixHash(uint64(n.DiskOps)<<16 | uint64(len(kind)))
		s.hashString(shortPath(path))
	}
	if n.CrashAt != 0 && n.DiskOps == n.CrashAt {
		s.Fault("crash")
		s.Logf("crash at disk op %d (%s %s)", n.DiskOps, kind, shortPath(path))
		s.KillNode(n) // does not return
	}
	if d.FaultFn != nil {
		if err := d.FaultFn(n, kind, path); err != nil {
			s.Fault("disk_" + errName(err))
			return err
		}
	}
	return nil
}

// SQLOp is called by the simulated-clock sqlite driver before every statement
// that changes the database. Statements are atomic (sqlite's journal is
// trusted), so the statement boundary is the crash granularity: the op is
// numbered with the node's disk ops and may be the node's crash point (the
// statement is then NOT executed). It is not a scheduling point: database/sql
// holds native locks around driver calls, and a task must not give the baton
// away with such a lock held. No error injection.
func SQLOp(stmt string) error {
	s, t := Cur()
	if t == nil {
		return nil
	}
	if t.dead {
		return ErrCrashed
	}
	n := t.Node
	d := s.Disk()
	n.DiskOps++
	d.Ops++
	if d.OpLogOn {
		d.OpLog = append(d.OpLog, fmt.Sprintf("%s#%d sql %s", n.Name, n.DiskOps, stmt))
	}
	if s.cfg.Trace {
		s.Logf("disk %s#%d sql %s", n.Name, n.DiskOps, stmt)
	} else {
		s.mixHash(uint64(n.DiskOps)<<16 | 3)
		s.hashString(stmt)
	}
	if n.CrashAt != 0 && n.DiskOps == n.CrashAt {
		s.Fault("crash")
		s.Probe("crash_at_sql_statement")
		s.Logf("crash at disk op %d (sql %s)", n.DiskOps, stmt)
		s.KillNode(n) // does not return
	}
	if d.SQLFaultFn != nil {
		if err := d.SQLFaultFn(n, stmt); err != nil {
			s.Logf("sql %s on %s fails: %v", stmt, n.Name, err)
			return err
		}
	}
	return nil
}

func shortPath(p string) string {
	// strip every "<anything>/ksim-<pid>-<seq>" prefix (also inside "a -> b")
	for {
		i := strings.Index(p, "/ksim-")
		if i < 0 {
			return p
		}
		start := strings.LastIndexAny(p[:i], " ") + 1
		end := i + 1
		if j := strings.IndexAny(p[end:], "/ "); j >= 0 {
			end += j
		} else {
			end = len(p)
		}
		p = p[:start] + p[end:]
	}
}

func errName(err error) string {
	switch {
	case errors.Is(err, syscall.ENOSPC):
		return "enospc"
	case errors.Is(err, syscall.EIO):
		return "eio"
	case errors.Is(err, syscall.EMFILE):
		return "emfile"
	}
	return "err"
}

// Touch stamps the virtual mtime of path with the fake clock.
func (d *DiskState) Touch(path string) { d.Mtime[path] = time.Now() }

// TempRoot returns (creating it on first use) the run's private directory for
// files kraken asks to be created in the system temp directory, so that names
// are unique per run and never collide between worker processes.
func (s *Sim) TempRoot() string {
	d := s.Disk()
	if d.tempRoot == "" {
		tmpSeq++
		d.tempRoot = fmt.Sprintf("/dev/shm/ksim-%08d-9%07d", os.Getpid()%100000000, tmpSeq%10000000)
		os.RemoveAll(d.tempRoot)
		if err := os.MkdirAll(d.tempRoot, 0o755); err != nil {
			panic(err)
		}
		root := d.tempRoot
		s.AtEnd(func() { os.RemoveAll(root) })
	}
	return d.tempRoot
}

var tmpSeq int

// DiskUsage is the simulated disk utilisation consulted by the rewritten
// utils/diskspaceutil.Usage.
type DiskUsage struct {
	Util              int
	Total, Used, Free uint64
}

// DiskUsageHook returns the harness-provided utilisation (DiskState.UsageFn),
// if any; ok=false means "use the real file system".
func DiskUsageHook() (DiskUsage, error, bool) {
	s := active.Load()
	if s == nil || s.Disk().UsageFn == nil {
		return DiskUsage{}, nil, false
	}
	u, err := s.Disk().UsageFn()
	return u, err, true
}
