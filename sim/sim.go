package simrt

import (
	"fmt"
	mrand "math/rand"
	"os"
	"runtime"
	"runtime/debug"
	"sort"
	"strings"
	"sync"
	"sync/atomic"
	"testing/synctest"
	"time"
)

func getg() uintptr

// ---------------------------------------------------------------------------
// Task table: goroutine identity -> task.

var (
	gtab   sync.Map // uintptr(g) -> *Task
	active atomic.Pointer[Sim]
)

// Active returns the simulation currently running in this process, or nil.
func Active() *Sim { return active.Load() }

// Cur returns the active simulation and the task of the calling goroutine.
// Either may be nil: no simulation (pass-through mode), or a goroutine that is
// not a simulated task (scheduler / observer / foreign goroutine).
func Cur() (*Sim, *Task) {
	s := active.Load()
	if s == nil {
		return nil, nil
	}
	if v, ok := gtab.Load(getg()); ok {
		t := v.(*Task)
		if t.sim == s {
			return s, t
		}
		return s, nil
	}
	return s, nil
}

const (
	stReady int32 = iota
	stRunning
	stBlocked // blocked on a simulated primitive (mutex, cond, waitgroup, pipe)
	stNative  // inside a native blocking operation (channel, select, sleep)
	stDone
)

// Node is a simulated process: a set of tasks that crash together.
type Node struct {
	ID   int
	Name string
	Dead bool
	live int
	// Disk-op accounting for crash injection (used by shim/os).
	DiskOps int
	CrashAt int // crash when DiskOps reaches this value (0 = never)
	joiners []*Task
	hooked  bool
	Data    map[string]any
}

// Task is one simulated goroutine.
type Task struct {
	sim     *Sim
	ID      int
	Name    string
	Node    *Node
	state   int32
	grant   chan struct{}
	kill    chan struct{}
	doneCh  chan struct{}
	dead    bool // unwinding: every simulator call is a no-op or an exit
	killed  bool
	prio    int
	frozen  int // not eligible until sim.contested reaches this value
	waitOn  string
	pausing bool
	g       uintptr
}

// Dead reports whether the task is being unwound (crashed node / end of run).
func (t *Task) Dead() bool { return t.dead }

// PanicInfo describes a panic that escaped a task.
type PanicInfo struct {
	Task  string
	Node  string
	Value string
	Stack string
	// InKraken is true when the innermost non-runtime frame is kraken code.
	InKraken bool
}

// Failure is an oracle verdict.
type Failure struct {
	Oracle string `json:"oracle"`
	Msg    string `json:"message"`
	Step   int    `json:"step"`
}

// Config bounds one run.
type Config struct {
	MaxSteps int           // scheduling-step cap (inconclusive when hit)
	Horizon  time.Duration // fake-time horizon (inconclusive when hit)
	Trace    bool          // keep a human readable trace
	// PanicIsFailure: a panic in kraken code is recorded as failure "panic".
	// When false it is recorded in Panics and the node is crashed.
	PanicIsFailure bool
	// Observe is called by the scheduler between steps in observer mode.
	Observe func(s *Sim)
}

// Sim is one simulated run.
type Sim struct {
	Tape *Tape
	cfg  Config

	mu      sync.Mutex
	tasks   []*Task
	nextID  int
	cur     *Task
	last    *Task
	yieldCh chan struct{}
	wakeCh  chan struct{}
	nodes   []*Node
	main    *Task

	Steps     int
	contested int
	observer  bool
	stop      bool
	tearing   bool

	strat strategy

	hash       uint64
	trace      []string
	Faults     map[string]int
	Probes     map[string]int
	Panics     []PanicInfo
	failure    *Failure
	Inconcl    string // non-empty: run was inconclusive (step cap, horizon, deadlock)
	Infra      string // non-empty: infrastructure error (exit 2)
	zombies    int
	start      time.Time
	SimTime    time.Duration
	Deadlock   bool
	states     map[uint64]struct{}
	disk       *DiskState
	timerSeq   int64
	deathHooks []func(*Node)
	atEnd      []func()
	decorators map[string]func(any) any
	sitePauses []*sitePause
	seq        int64
	pausePts   []pausePt
	Pauses     []PauseRec
	rng        *mrand.Rand
	Ext        map[string]any
}

type strategy struct {
	kind      int // 0 sticky, 1 uniform, 2 pct
	switchPm  int
	stallPm   int
	pctPoints []int
	pctLow    int
	name      string
}

// Result summarises a finished run.
type Result struct {
	Failure   *Failure
	Inconcl   string
	Infra     string
	Steps     int
	Contested int
	Hash      uint64
	SimTime   time.Duration
	Faults    map[string]int
	Probes    map[string]int
	Panics    []PanicInfo
	Trace     []string
	Tape      []uint64
	Strategy  string
	Zombies   int
	States    map[uint64]struct{}
}

// Run executes body as the main task of a fresh simulation. It must be called
// from inside a synctest bubble (see RunBubble in the harness kit).
func Run(tape *Tape, cfg Config, body func(s *Sim)) *Result {
	if cfg.MaxSteps == 0 {
		cfg.MaxSteps = 2_000_000
	}
	if cfg.Horizon == 0 {
		cfg.Horizon = 24 * time.Hour
	}
	s := &Sim{
		Tape:    tape,
		cfg:     cfg,
		yieldCh: make(chan struct{}),
		wakeCh:  make(chan struct{}, 1),
		Faults:  map[string]int{},
		Probes:  map[string]int{},
		hash:    14695981039346656037,
		start:   time.Now(),
		states:  map[uint64]struct{}{},
		Ext:     map[string]any{},
	}
	s.nodes = append(s.nodes, &Node{ID: 0, Name: "harness", Data: map[string]any{}})
	s.drawStrategy()
	// Pin the process-global math/rand source used by untransformed
	// dependencies (cenkalti/backoff jitter...) with a tape draw, so that a
	// replay is a pure function of its tape.
	mrand.Seed(int64(1 + s.Tape.Draw(1<<30))) //nolint:staticcheck
	if !active.CompareAndSwap(nil, s) {
		return &Result{Infra: "another simulation is active in this process"}
	}
	defer active.Store(nil)
	s.main = s.spawn(s.nodes[0], "main", func() { body(s) })
	s.loop()
	s.teardown()
	for _, fn := range s.atEnd {
		fn()
	}
	s.SimTime = time.Since(s.start)
	return &Result{
		Failure: s.failure, Inconcl: s.Inconcl, Infra: s.Infra, Steps: s.Steps,
		Contested: s.contested, Hash: s.hash, SimTime: s.SimTime, Faults: s.Faults,
		Probes: s.Probes, Panics: s.Panics, Trace: s.trace, Tape: tape.Values(),
		Strategy: s.strat.name, Zombies: s.zombies, States: s.states,
	}
}

func (s *Sim) drawStrategy() {
	// First draws of every tape: the scheduling strategy. 0 = sticky(99%).
	k := s.Tape.Draw(8)
	switch k {
	case 0:
		s.strat = strategy{kind: 0, switchPm: 10, name: "sticky99"}
	case 1:
		s.strat = strategy{kind: 0, switchPm: 100, name: "sticky90"}
	case 2:
		s.strat = strategy{kind: 0, switchPm: 500, name: "sticky50"}
	case 3:
		s.strat = strategy{kind: 1, name: "uniform"}
	case 4, 5, 6:
		d := k - 3
		s.strat = strategy{kind: 2, name: fmt.Sprintf("pct%d", d), pctLow: -1}
		for i := 0; i < d-1; i++ {
			s.strat.pctPoints = append(s.strat.pctPoints, 1+s.Tape.Draw(300))
		}
	case 7:
		s.strat = strategy{kind: 0, switchPm: 100, stallPm: 50, name: "sticky90+stall"}
	}
}

// ---------------------------------------------------------------------------
// Scheduler loop (runs on the bubble's root goroutine).

func (s *Sim) loop() {
	var ready []*Task
	horizon := time.NewTimer(s.cfg.Horizon)
	defer horizon.Stop()
	for {
		synctest.Wait()
		if s.stop || s.Infra != "" {
			return
		}
		s.reapDeadNodes()
		s.mu.Lock()
		ready = ready[:0]
		native := 0
		for _, t := range s.tasks {
			switch t.state {
			case stReady:
				ready = append(ready, t)
			case stNative:
				native++
			}
		}
		mainDone := s.main.state == stDone
		s.compact()
		s.mu.Unlock()
		if mainDone {
			return
		}
		if len(ready) == 0 {
			if native == 0 {
				s.Deadlock = true
				s.Inconcl = "deadlock: every task is blocked on a simulated primitive: " + s.blockedSummary()
				return
			}
			select {
			case <-s.wakeCh:
			case <-horizon.C:
				s.Inconcl = "fake-time horizon reached"
				return
			}
			continue
		}
		if s.cfg.Observe != nil {
			s.observer = true
			s.cfg.Observe(s)
			s.observer = false
			if s.stop {
				return
			}
		}
		t := s.pick(ready)
		s.Steps++
		if s.Steps > s.cfg.MaxSteps {
			s.Inconcl = "step cap reached"
			return
		}
		s.last = t
		s.cur = t
		t.state = stRunning
		t.grant <- struct{}{}
		<-s.yieldCh
	}
}

func (s *Sim) blockedSummary() string {
	var b []string
	for _, t := range s.tasks {
		if t.state == stBlocked {
			b = append(b, fmt.Sprintf("%s#%d(%s)", t.Name, t.ID, t.waitOn))
		}
	}
	if len(b) > 12 {
		b = b[:12]
	}
	return strings.Join(b, ",")
}

func (s *Sim) compact() {
	done := 0
	for _, t := range s.tasks {
		if t.state == stDone {
			done++
		}
	}
	if done < 64 || done*2 < len(s.tasks) {
		return
	}
	j := 0
	for _, t := range s.tasks {
		if t.state != stDone || t == s.main {
			s.tasks[j] = t
			j++
		}
	}
	for k := j; k < len(s.tasks); k++ {
		s.tasks[k] = nil
	}
	s.tasks = s.tasks[:j]
}

func (s *Sim) pick(ready []*Task) *Task {
	if len(ready) == 1 {
		return ready[0]
	}
	s.contested++
	// frozen (stalled) tasks are skipped unless nothing else is ready
	elig := ready
	nf := 0
	for _, t := range ready {
		if t.frozen > s.contested {
			nf++
		}
	}
	if nf > 0 && nf < len(ready) {
		elig = make([]*Task, 0, len(ready)-nf)
		for _, t := range ready {
			if t.frozen <= s.contested {
				elig = append(elig, t)
			}
		}
	}
	var chosen *Task
	if len(elig) == 1 {
		chosen = elig[0]
	}
	switch {
	case chosen != nil:
	case s.strat.kind == 1:
		chosen = elig[s.Tape.Draw(len(elig))]
	case s.strat.kind == 2:
		for _, p := range s.strat.pctPoints {
			if p == s.contested && s.last != nil {
				s.strat.pctLow--
				s.last.prio = s.strat.pctLow
			}
		}
		for _, t := range elig {
			if chosen == nil || t.prio > chosen.prio {
				chosen = t
			}
		}
	default:
		lastIdx := -1
		for i, t := range elig {
			if t == s.last {
				lastIdx = i
			}
		}
		if lastIdx >= 0 {
			if !s.Tape.Chance(s.strat.switchPm) {
				chosen = elig[lastIdx]
			} else {
				k := s.Tape.Draw(len(elig) - 1)
				if k >= lastIdx {
					k++
				}
				chosen = elig[k]
				if s.strat.stallPm > 0 && s.Tape.Chance(s.strat.stallPm) {
					elig[lastIdx].frozen = s.contested + 1 + s.Tape.Draw(400)
					s.Faults["stall"]++
				}
			}
		} else {
			chosen = elig[s.Tape.Draw(len(elig))]
		}
	}
	s.mixHash(uint64(chosen.ID)<<8 | 1)
	if s.cfg.Trace && len(s.trace) < 20000 {
		s.trace = append(s.trace, fmt.Sprintf("sched step=%d ready=%d -> %s#%d", s.Steps, len(ready), chosen.Name, chosen.ID))
	}
	return chosen
}

func (s *Sim) mixHash(v uint64) {
	h := s.hash
	for i := 0; i < 8; i++ {
		h ^= v & 0xff
		h *= 1099511628211
		v >>= 8
	}
	s.hash = h
}

func (s *Sim) hashString(str string) {
	h := s.hash
	for i := 0; i < len(str); i++ {
		h ^= uint64(str[i])
		h *= 1099511628211
	}
	s.hash = h
}

// Logf records an event in the run's event log (hash always, text when
// tracing). It never draws from the tape and never reads a real clock.
func (s *Sim) Logf(format string, args ...any) {
	str := fmt.Sprintf(format, args...)
	s.hashString(str)
	if s.cfg.Trace && len(s.trace) < 20000 {
		s.trace = append(s.trace, fmt.Sprintf("t=%v %s", time.Since(s.start), str))
	}
}

// Tracing reports whether a textual trace is kept.
func (s *Sim) Tracing() bool { return s.cfg.Trace }

// Fault counts a fault that actually fired.
func (s *Sim) Fault(kind string) {
	s.Faults[kind]++
	s.Logf("fault %s", kind)
}

// Probe counts a reach probe.
func (s *Sim) Probe(name string) { s.Probes[name]++ }

// State records a hash of oracle-visible state (for the distinct_states measure).
func (s *Sim) State(h uint64) { s.states[h] = struct{}{} }

// Now returns fake time elapsed since the start of the run.
func (s *Sim) Now() time.Duration { return time.Since(s.start) }

// Fail records an oracle failure (first one wins) and stops the run. When
// called from a task, the task does not return.
func (s *Sim) Fail(oracle, format string, args ...any) {
	if s.failure == nil {
		s.failure = &Failure{Oracle: oracle, Msg: fmt.Sprintf(format, args...), Step: s.Steps}
		s.Logf("FAIL %s: %s", oracle, s.failure.Msg)
	}
	s.stop = true
	if _, t := Cur(); t != nil {
		t.exit()
	}
}

// Failed reports whether a failure has been recorded.
func (s *Sim) Failed() bool { return s.failure != nil }

// InfraError records an infrastructure error (exit 2, never a verdict).
func (s *Sim) InfraError(format string, args ...any) {
	if s.Infra == "" {
		s.Infra = fmt.Sprintf(format, args...)
	}
	s.stop = true
	if _, t := Cur(); t != nil {
		t.exit()
	}
}

// ---------------------------------------------------------------------------
// Tasks.

func (s *Sim) spawn(node *Node, name string, fn func()) *Task {
	s.mu.Lock()
	t := &Task{sim: s, ID: s.nextID, Name: name, Node: node, state: stReady,
		grant: make(chan struct{}), kill: make(chan struct{}), doneCh: make(chan struct{})}
	s.nextID++
	if s.strat.kind == 2 {
		t.prio = 1 + s.Tape.Draw(1<<20)
	}
	s.tasks = append(s.tasks, t)
	node.live++
	s.mu.Unlock()
	go t.run(fn)
	return t
}

func (t *Task) run(fn func()) {
	s := t.sim
	t.g = getg()
	gtab.Store(t.g, t)
	normal := false
	defer func() {
		var pi *PanicInfo
		if !normal {
			if r := recover(); r != nil {
				st := string(debug.Stack())
				pi = &PanicInfo{Task: t.Name, Node: t.Node.Name, Value: fmt.Sprint(r), Stack: st, InKraken: panicInKraken(st)}
			}
		}
		gtab.Delete(t.g)
		s.mu.Lock()
		t.state = stDone
		t.Node.live--
		if pi != nil {
			s.Panics = append(s.Panics, *pi)
		}
		if t.Node.live == 0 {
			for _, j := range t.Node.joiners {
				s.makeReadyLocked(j)
			}
			t.Node.joiners = nil
		}
		s.mu.Unlock()
		if pi != nil && !t.dead {
			s.hashString("panic " + pi.Value)
			if s.cfg.Trace {
				s.trace = append(s.trace, "PANIC in "+t.Name+": "+pi.Value)
			}
			if !pi.InKraken {
				if s.Infra == "" {
					s.Infra = "panic outside kraken code: " + pi.Value + "\n" + pi.Stack
				}
				s.stop = true
			} else if s.cfg.PanicIsFailure {
				if s.failure == nil {
					s.failure = &Failure{Oracle: "panic", Msg: "panic in kraken code: " + pi.Value + "\n" + trimStack(pi.Stack), Step: s.Steps}
				}
				s.stop = true
			} else {
				t.Node.Dead = true // an un-injected crash of that process
				s.Faults["kraken_panic"]++
			}
		}
		if t.killed {
			close(t.doneCh)
			return
		}
		close(t.doneCh)
		// we hold the baton: give it back
		s.cur = nil
		s.yieldCh <- struct{}{}
	}()
	t.park()
	fn()
	normal = true
}

func trimStack(st string) string {
	lines := strings.Split(st, "\n")
	if len(lines) > 40 {
		lines = lines[:40]
	}
	return strings.Join(lines, "\n")
}

// panicInKraken classifies a panic by the first frame below the runtime's
// panic machinery: kraken (overlay or /repo) code vs harness/shim/simulator.
func panicInKraken(stack string) bool {
	lines := strings.Split(stack, "\n")
	seenPanic := false
	for i := 0; i+1 < len(lines); i++ {
		l := lines[i]
		if strings.HasPrefix(l, "panic(") {
			seenPanic = true
			continue
		}
		if !seenPanic {
			continue
		}
		if strings.HasPrefix(l, "\t") || l == "" {
			continue
		}
		// function line; the file line follows
		file := strings.TrimSpace(lines[i+1])
		if strings.HasPrefix(l, "runtime.") || strings.HasPrefix(l, "runtime/") || strings.Contains(file, "/src/runtime/") {
			continue
		}
		if strings.Contains(l, "github.com/uber/kraken/") {
			return true
		}
		if strings.HasPrefix(l, "kverif/shim/") || strings.HasPrefix(l, "kverif/sim.") {
			// A panic raised by a shim on behalf of kraken code (e.g. negative
			// WaitGroup counter, unlock of unlocked mutex, Fatal log): look at
			// the caller.
			continue
		}
		if strings.HasPrefix(l, "kverif/") {
			return false
		}
		// third-party or standard library frame called from somewhere: keep
		// walking up to find who called it.
		continue
	}
	return false
}

// park waits for the baton (or for the kill signal).
func (t *Task) park() {
	select {
	case <-t.grant:
	case <-t.kill:
		t.dead = true
		t.killed = true
		runtime.Goexit()
	}
}

// exit unwinds the calling task. Deferred kraken code runs with the task marked
// dead, so every simulator call it makes is a no-op.
func (t *Task) exit() {
	t.dead = true
	runtime.Goexit()
}

// Exit unwinds the calling task (harness use).
func Exit() {
	if _, t := Cur(); t != nil {
		t.exit()
	}
	runtime.Goexit()
}

// check validates that the calling task holds the baton. Returns false when
// the call must be treated as a no-op (dead task).
func (s *Sim) check(t *Task) bool {
	if t.dead {
		return false
	}
	select {
	case <-t.kill:
		t.dead = true
		t.killed = true
		runtime.Goexit()
	default:
	}
	if s.cur != t {
		if s.Infra == "" {
			s.Infra = fmt.Sprintf("task %s#%d runs without the baton (cur=%v)\n%s", t.Name, t.ID, s.cur, debug.Stack())
		}
		s.stop = true
		t.dead = true
		t.killed = true // do not hand a baton back that we do not hold
		runtime.Goexit()
	}
	return true
}

// yield is a scheduling point.
func (s *Sim) yield(t *Task) {
	if !s.check(t) {
		return
	}
	if t.Node.Dead {
		t.exit()
	}
	t.state = stReady
	s.cur = nil
	s.yieldCh <- struct{}{}
	t.park()
	if len(s.pausePts) > 0 && s.Steps >= s.pausePts[0].step && !t.pausing && !s.tearing {
		p := s.pausePts[0]
		s.pausePts = s.pausePts[1:]
		s.pauseHere(t, p.dur)
	}
	if len(s.sitePauses) > 0 && !t.pausing && !s.tearing {
		var names []string
		for i := 0; i < len(s.sitePauses); i++ {
			sp := s.sitePauses[i]
			if sp.node != nil && sp.node != t.Node {
				continue
			}
			if names == nil {
				names = callerNames()
			}
			hit := true
			for _, want := range strings.Split(sp.site, "&") {
				found := false
				for _, f := range names {
					if strings.Contains(f, want) {
						found = true
						break
					}
				}
				if !found {
					hit = false
					break
				}
			}
			if !hit {
				continue
			}
			if sp.skip > 0 {
				sp.skip--
				continue
			}
			s.sitePauses = append(s.sitePauses[:i:i], s.sitePauses[i+1:]...)
			s.Probes["site_pause:"+sp.site]++
			s.pauseHere(t, sp.dur)
			break
		}
	}
}

// pauseHere stops t (the running task, at a scheduling point) for d of fake
// time: the "slow / stalled task" fault.
func (s *Sim) pauseHere(t *Task, d time.Duration) {
	t.pausing = true
	s.Faults["task_pause"]++
	from := s.Now()
	s.Logf("pause task %s#%d for %v", t.Name, t.ID, d)
	s.block(t, "pause")
	tm := time.NewTimer(d)
	select {
	case <-tm.C:
	case <-t.kill:
		tm.Stop()
		t.dead, t.killed = true, true
		runtime.Goexit()
	}
	s.Pauses = append(s.Pauses, PauseRec{Task: t.ID, From: from, To: s.Now(), Stack: callerNames()})
	s.resume(t)
	t.pausing = false
}

type sitePause struct {
	site string
	node *Node
	skip int
	dur  time.Duration
}

// ArmPauseAt arms one task pause that is bound to a place in the code instead
// of a step count ("event-biased" placement of the slow-task fault): the first
// task (of node, if not nil) that reaches a scheduling point while a function
// whose qualified name contains site (several names joined by "&": all of
// them) is on its call stack, after skip such
// scheduling points have gone by, is paused for d of fake time. The harness
// draws skip and d from the tape, so the run stays a function of the tape.
func (s *Sim) ArmPauseAt(site string, node *Node, skip int, d time.Duration) {
	s.sitePauses = append(s.sitePauses, &sitePause{site: site, node: node, skip: skip, dur: d})
}

// PauseRec records an injected task pause (the "slow / stalled task" fault:
// the task stops at a scheduling point while the clock keeps running).
type PauseRec struct {
	Task     int
	From, To time.Duration
	// Stack holds the function names of the paused task's call stack, so that
	// an oracle can tell where the task stood (never drawn from, never hashed).
	Stack []string
}

// Inside reports whether the task was paused within a function whose
// qualified name contains fn.
func (p PauseRec) Inside(fn string) bool {
	for _, f := range p.Stack {
		if strings.Contains(f, fn) {
			return true
		}
	}
	return false
}

func callerNames() []string {
	pcs := make([]uintptr, 64)
	n := runtime.Callers(2, pcs)
	frames := runtime.CallersFrames(pcs[:n])
	var out []string
	for {
		f, more := frames.Next()
		if f.Function != "" {
			out = append(out, f.Function)
		}
		if !more {
			break
		}
	}
	return out
}

type pausePt struct {
	step int
	dur  time.Duration
}

// InjectPauses arms n task pauses at tape-drawn scheduling steps in
// [0,maxStep) with tape-drawn durations up to maxDur (on a 1ms..maxDur
// log-ish scale). Whichever task is running at such a step is paused.
func (s *Sim) InjectPauses(n, maxStep int, maxDur time.Duration) {
	for i := 0; i < n; i++ {
		st := s.Steps + 1 + s.Tape.Draw(maxStep)
		scale := []time.Duration{time.Millisecond, 100 * time.Millisecond, time.Second, 10 * time.Second, 70 * time.Second, 10 * time.Minute}
		d := scale[s.Tape.Draw(len(scale))]
		if d > maxDur {
			d = maxDur
		}
		d += time.Duration(s.Tape.Draw(7)) * 137 * time.Microsecond // never on a round instant
		s.pausePts = append(s.pausePts, pausePt{st, d})
	}
	sort.Slice(s.pausePts, func(i, j int) bool { return s.pausePts[i].step < s.pausePts[j].step })
}

// PausedDuring reports whether any injected pause overlaps [from,to]
// (a pause still in progress counts from its start).
func (s *Sim) PausedDuring(from, to time.Duration) bool {
	for _, p := range s.Pauses {
		if p.From <= to && p.To >= from {
			return true
		}
	}
	for _, t := range s.tasks {
		if t != nil && t.pausing {
			return true
		}
	}
	return false
}

// Yield is a scheduling point for the calling task; no-op outside a simulation.
func Yield() {
	s, t := Cur()
	if t == nil {
		return
	}
	s.yield(t)
}

// block hands the baton back before a native blocking operation.
func (s *Sim) block(t *Task, what string) {
	t.state = stNative
	t.waitOn = what
	s.cur = nil
	s.yieldCh <- struct{}{}
}

// resume re-registers the task as ready after a native blocking operation and
// waits for the baton.
func (s *Sim) resume(t *Task) {
	s.mu.Lock()
	t.state = stReady
	s.mu.Unlock()
	select {
	case s.wakeCh <- struct{}{}:
	default:
	}
	t.park()
	if t.Node.Dead {
		t.exit()
	}
}

// BlockOn parks the calling task until another task calls MakeReady on it.
// The caller re-checks its condition afterwards. Used by shim primitives.
func (s *Sim) BlockOn(t *Task, what string) {
	t.state = stBlocked
	t.waitOn = what
	s.cur = nil
	s.yieldCh <- struct{}{}
	t.park()
	if t.Node.Dead {
		t.exit()
	}
}

// MakeReady marks a task blocked by BlockOn as runnable. Baton holder only.
func (s *Sim) MakeReady(t *Task) {
	s.mu.Lock()
	s.makeReadyLocked(t)
	s.mu.Unlock()
}

func (s *Sim) makeReadyLocked(t *Task) {
	if t.state == stBlocked {
		t.state = stReady
	}
}

// Observer reports whether invariant code is running (locks are no-ops).
func (s *Sim) Observer() bool { return s.observer }

// Go starts fn as a new task of the caller's node. Outside a simulation it is
// a plain goroutine.
func Go(fn func()) {
	s, t := Cur()
	if s == nil {
		go fn()
		return
	}
	if t == nil {
		// foreign goroutine (timer callback...): attach to the harness node
		s.spawn(s.nodes[0], "foreign", fn)
		select {
		case s.wakeCh <- struct{}{}:
		default:
		}
		return
	}
	if t.dead {
		return
	}
	s.spawn(t.Node, callerName(), fn)
}

func callerName() string {
	pc, _, line, ok := runtime.Caller(2)
	if !ok {
		return "task"
	}
	f := runtime.FuncForPC(pc)
	n := f.Name()
	if i := strings.LastIndex(n, "/"); i >= 0 {
		n = n[i+1:]
	}
	return fmt.Sprintf("%s:%d", n, line)
}

// GoNode starts fn as a task of node n.
func (s *Sim) GoNode(n *Node, name string, fn func()) *Task {
	return s.spawn(n, name, fn)
}

// NewNode creates a simulated process.
func (s *Sim) NewNode(name string) *Node {
	n := &Node{ID: len(s.nodes), Name: name, Data: map[string]any{}}
	s.nodes = append(s.nodes, n)
	return n
}

// Nodes lists the nodes of the run.
func (s *Sim) Nodes() []*Node { return s.nodes }

// CurNode returns the node of the calling task (harness node otherwise).
func CurNode() *Node {
	s, t := Cur()
	if s == nil {
		return nil
	}
	if t == nil {
		return s.nodes[0]
	}
	return t.Node
}

// KillNode crashes a node: its tasks never run kraken code again. If the
// caller belongs to the node it does not return.
func (s *Sim) KillNode(n *Node) {
	if n.Dead {
		return
	}
	n.Dead = true
	s.Logf("crash node %s", n.Name)
	if _, t := Cur(); t != nil && t.Node == n {
		t.exit()
	}
}

// JoinNode blocks the calling task until every task of n has finished.
func (s *Sim) JoinNode(n *Node) {
	_, t := Cur()
	if t == nil {
		return
	}
	for n.live > 0 {
		if !s.check(t) {
			return
		}
		n.joiners = append(n.joiners, t)
		s.BlockOn(t, "join "+n.Name)
	}
}

// Wait blocks the calling task until task x is done.
func (s *Sim) Wait(x *Task) {
	_, t := Cur()
	for x.state != stDone {
		if t == nil {
			<-x.doneCh
			return
		}
		if !s.check(t) {
			return
		}
		s.block(t, "wait task")
		select {
		case <-x.doneCh:
		case <-t.kill:
			t.dead, t.killed = true, true
			runtime.Goexit()
		}
		s.resume(t)
	}
}

// OnNodeDeath registers fn to be called (on the scheduler goroutine, no task
// running) once for every node that dies.
func (s *Sim) OnNodeDeath(fn func(*Node)) { s.deathHooks = append(s.deathHooks, fn) }

func (s *Sim) reapDeadNodes() {
	for _, n := range s.nodes {
		if n.Dead && !n.hooked {
			n.hooked = true
			if !s.tearing {
				for _, fn := range s.deathHooks {
					fn(n)
				}
			}
		}
		if n.Dead && n.live > 0 {
			s.reap(func(t *Task) bool { return t.Node == n })
		}
	}
}

// reap unwinds, one at a time, every live task selected by sel.
func (s *Sim) reap(sel func(*Task) bool) {
	s.mu.Lock()
	ts := append([]*Task(nil), s.tasks...)
	s.mu.Unlock()
	for _, t := range ts {
		if t == nil || t.state == stDone || !sel(t) || t.killed {
			continue
		}
		t.dead = true
		t.killed = true
		s.cur = t
		close(t.kill)
		synctest.Wait()
		select {
		case <-t.doneCh:
		default:
			// stuck in an untransformed blocking call; it will exit at its
			// next simulator call.
			s.zombies++
		}
		s.cur = nil
	}
}

func (s *Sim) teardown() {
	s.tearing = true
	for _, n := range s.nodes {
		n.Dead = true
	}
	s.reap(func(*Task) bool { return true })
	// Let timers of untransformed code (net/http client timeouts, sql
	// connection cleaners) expire so that their goroutines finish.
	if s.zombies > 0 {
		time.Sleep(10 * time.Minute)
		synctest.Wait()
	}
}

// ---------------------------------------------------------------------------
// Sleep, channels, select.

// Sleep sleeps on the fake clock without holding the baton.
func Sleep(d time.Duration) {
	s, t := Cur()
	if t == nil {
		time.Sleep(d)
		return
	}
	if !s.check(t) {
		return
	}
	s.yield(t)
	if d <= 0 {
		return
	}
	s.block(t, "sleep")
	tm := time.NewTimer(d)
	select {
	case <-tm.C:
	case <-t.kill:
		tm.Stop()
		t.dead, t.killed = true, true
		runtime.Goexit()
	}
	s.resume(t)
}

// SendTo is the rewritten form of `ch <- v`.
func SendTo[T any](ch chan<- T) func(T) {
	return func(v T) {
		s, t := Cur()
		if t == nil {
			ch <- v
			return
		}
		if !s.check(t) {
			return
		}
		s.yield(t)
		select {
		case ch <- v:
			return
		default:
		}
		s.block(t, "chan send")
		select {
		case ch <- v:
		case <-t.kill:
			t.dead, t.killed = true, true
			runtime.Goexit()
		}
		s.resume(t)
	}
}

// Recv is the rewritten form of `<-ch`.
func Recv[T any](ch <-chan T) T {
	v, _ := Recv2(ch)
	return v
}

// Recv2 is the rewritten form of `v, ok := <-ch`.
func Recv2[T any](ch <-chan T) (T, bool) {
	s, t := Cur()
	if t == nil {
		v, ok := <-ch
		return v, ok
	}
	if !s.check(t) {
		var z T
		// A dead task receives nothing; unwind instead of returning a zero
		// value kraken code could act upon.
		runtime.Goexit()
		return z, false
	}
	s.yield(t)
	select {
	case v, ok := <-ch:
		return v, ok
	default:
	}
	s.block(t, "chan recv")
	var v T
	var ok bool
	select {
	case v, ok = <-ch:
	case <-t.kill:
		t.dead, t.killed = true, true
		runtime.Goexit()
	}
	s.resume(t)
	return v, ok
}

// ParkForever is the rewritten form of `select {}`.
func ParkForever() {
	s, t := Cur()
	if t == nil {
		select {}
	}
	if !s.check(t) {
		runtime.Goexit()
	}
	s.block(t, "select{}")
	<-t.kill
	t.dead, t.killed = true, true
	runtime.Goexit()
}

// MapKeys returns the keys of m in canonical order rotated by a tape draw, so
// that map iteration order is an explored, replayable choice.
func MapKeys[M ~map[K]V, K comparable, V any](m M) []K {
	keys := make([]K, 0, len(m))
	for k := range m {
		keys = append(keys, k)
	}
	if len(keys) < 2 {
		return keys
	}
	SortKeys(keys)
	s, t := Cur()
	if t == nil || t.dead || s.observer {
		return keys
	}
	r := s.Tape.Draw(len(keys))
	if r != 0 {
		out := make([]K, 0, len(keys))
		out = append(out, keys[r:]...)
		out = append(out, keys[:r]...)
		return out
	}
	return keys
}

// SortKeys sorts keys canonically (by value for basic kinds, by fmt otherwise).
func SortKeys[K comparable](keys []K) {
	switch ks := any(keys).(type) {
	case []string:
		sort.Strings(ks)
		return
	case []int:
		sort.Ints(ks)
		return
	}
	strs := make([]string, len(keys))
	for i, k := range keys {
		strs[i] = keyString(any(k))
	}
	idx := make([]int, len(keys))
	for i := range idx {
		idx[i] = i
	}
	sort.SliceStable(idx, func(a, b int) bool { return strs[idx[a]] < strs[idx[b]] })
	out := make([]K, len(keys))
	for i, j := range idx {
		out[i] = keys[j]
	}
	copy(keys, out)
}

func keyString(k any) string {
	if s, ok := k.(fmt.Stringer); ok {
		return s.String()
	}
	return fmt.Sprintf("%v", k)
}

// Fatal is the panic value raised by the rewritten utils/log.Fatal*: a fatal
// log is the death of the calling node, not of the simulator process.
type Fatal struct{ Msg string }

func (f Fatal) String() string { return "log.Fatal: " + f.Msg }

// LogFatal is called by the rewritten utils/log.Fatal* functions.
func LogFatal(args ...any) {
	s, t := Cur()
	if s == nil || t == nil {
		panic(Fatal{Msg: fmt.Sprint(args...)})
	}
	if t.dead {
		runtime.Goexit()
	}
	s.Faults["log_fatal"]++
	s.Logf("log.Fatal on node %s: %s", t.Node.Name, fmt.Sprint(args...))
	s.KillNode(t.Node)
}

// StartTime is the fake wall-clock instant at which the run started.
func (s *Sim) StartTime() time.Time { return s.start }

// Rand is the run's seeded generator (seeded by one tape draw on first use).
func (s *Sim) Rand() *mrand.Rand {
	if s.rng == nil {
		s.rng = mrand.New(mrand.NewSource(int64(s.Tape.next() >> 1)))
	}
	return s.rng
}

// RandBytes fills b from the run's seeded generator.
func (s *Sim) RandBytes(b []byte) { s.Rand().Read(b) }

// GoForeign starts fn as a task of node n from a goroutine that is not a task
// (timer callbacks of untransformed code).
func (s *Sim) GoForeign(n *Node, name string, fn func()) {
	if active.Load() != s || s.tearing || n.Dead {
		return
	}
	s.spawn(n, name, fn)
	select {
	case s.wakeCh <- struct{}{}:
	default:
	}
}

// AtEnd registers fn to run after the run's tasks have been torn down (still
// inside the bubble, on the scheduler goroutine; not a task).
func (s *Sim) AtEnd(fn func()) { s.atEnd = append(s.atEnd, fn) }

// NextSeq returns the next value of the run's global event sequence counter
// (used to stamp invoke/return events of recorded histories).
func (s *Sim) NextSeq() int64 { s.seq++; return s.seq }

// timerEps returns a small per-timer offset (nanoseconds, unique per creation)
// so that no two timers created by simulated code fire at exactly the same fake
// instant: a goroutine selecting on several timer channels would otherwise be
// woken in an order that depends on channel addresses (allocator), which is
// not reproducible.
//
// Which of two timers due at the same nominal instant fires first is real
// nondeterminism (Go's select picks at random among ready channels), so it is
// explored: per run the offsets either grow with the creation order (a timer
// created earlier fires first; always so for workload variant 0) or shrink
// with it (created later fires first). The mode comes from the out-of-band
// workload variant, so no tape position is consumed.
func timerEps() time.Duration {
	s := active.Load()
	if s == nil {
		return 0
	}
	s.timerSeq++
	return s.epsOf(s.timerSeq)
}

const epsMod = 999983

func (s *Sim) epsOf(seq int64) time.Duration {
	if s.Tape != nil && (s.Tape.Variant>>20)&1 == 1 {
		return time.Duration(epsMod - seq%epsMod)
	}
	return time.Duration(1 + seq%epsMod)
}

// PreemptInLocks reports whether, in this run, acquiring a lock is followed by
// a scheduling point, so that a task can be descheduled while it holds the
// lock (TryLock by others then fails, lock hand-offs are observable). Real
// goroutines can be preempted anywhere; half of the runs model that (out-of-
// band workload variant, never for variant 0), the other half keep critical
// sections without a synchronisation operation inside atomic, which is cheaper.
func (s *Sim) PreemptInLocks() bool { return s.Tape != nil && (s.Tape.Variant>>21)&1 == 1 }

// TimerEpsAfter returns the offset that the k-th timer (k >= 1) created by
// simulated code after this call will get, without consuming it, so that a
// harness can compute the exact fake instants at which the tickers created by
// the next constructor call will fire.
func (s *Sim) TimerEpsAfter(k int) time.Duration { return s.epsOf(s.timerSeq + int64(k)) }

// TimerEps is timerEps for the clock shim.
func TimerEps() time.Duration { return timerEps() }

// NewTimer, NewTicker, After, Tick, AfterFunc are the rewritten forms of the
// corresponding time functions in transformed code.
func NewTimer(d time.Duration) *time.Timer   { return time.NewTimer(d + timerEps()) }
func NewTicker(d time.Duration) *time.Ticker { return time.NewTicker(d + timerEps()) }
func After(d time.Duration) <-chan time.Time { return time.After(d + timerEps()) }
func Tick(d time.Duration) <-chan time.Time  { return time.Tick(d + timerEps()) }
func AfterFunc(d time.Duration, f func()) *time.Timer {
	s, t := Cur()
	if s == nil || t == nil {
		return time.AfterFunc(d, f)
	}
	node := t.Node
	return time.AfterFunc(d+timerEps(), func() { s.GoForeign(node, "afterfunc", f) })
}

// NextTimerEps is TimerEpsAfter(1).
func (s *Sim) NextTimerEps() time.Duration { return s.TimerEpsAfter(1) }

func init() {
	// make math/rand.Seed effective again (Go >= 1.24 ignores it by default)
	g := os.Getenv("GODEBUG")
	if !strings.Contains(g, "randseednop") {
		if g != "" {
			g += ","
		}
		os.Setenv("GODEBUG", g+"randseednop=0")
	}
}

// ---- decoration points (DESIGN.md §5 C20) ---------------------------------

// SetDecorator registers fn for the decoration point name for this run: the
// transformer rewrites configured constructor calls whose result is used at an
// interface type into Decorate[I](name, call), so a harness can wrap the real
// object in a recording decorator. Without a registered decorator (and outside
// any simulation) Decorate is the identity.
func (s *Sim) SetDecorator(name string, fn func(v any) any) {
	if s.decorators == nil {
		s.decorators = map[string]func(any) any{}
	}
	s.decorators[name] = fn
}

// Decorate is called by transformed kraken code at a decoration point.
func Decorate[T any](name string, v T) T {
	s := Active()
	if s == nil || s.decorators == nil {
		return v
	}
	fn := s.decorators[name]
	if fn == nil {
		return v
	}
	s.Probes["decorated:"+name]++
	out, ok := fn(v).(T)
	if !ok {
		s.InfraError("decorator %s returned a value of the wrong type", name)
		return v
	}
	return out
}
