package simrt

import (
	"reflect"
	"runtime"
)

// Case is one communication clause of a rewritten select statement.
type Case interface {
	try() bool
	refl() reflect.SelectCase
	done(v reflect.Value, ok bool)
}

// RecvC is a receive clause; after Select returns its index, V and OK hold the
// received value.
type RecvC[T any] struct {
	ch <-chan T
	V  T
	OK bool
}

// RecvCase builds a receive clause.
func RecvCase[T any](ch <-chan T) *RecvC[T] { return &RecvC[T]{ch: ch} }

func (c *RecvC[T]) try() bool {
	if c.ch == nil {
		return false
	}
	select {
	case v, ok := <-c.ch:
		c.V, c.OK = v, ok
		return true
	default:
		return false
	}
}

func (c *RecvC[T]) refl() reflect.SelectCase {
	if c.ch == nil {
		return reflect.SelectCase{Dir: reflect.SelectRecv}
	}
	return reflect.SelectCase{Dir: reflect.SelectRecv, Chan: reflect.ValueOf(c.ch)}
}

func (c *RecvC[T]) done(v reflect.Value, ok bool) {
	c.OK = ok
	if ok {
		// Set through reflection: v.Interface().(T) would panic for a nil
		// value of an interface-typed channel element.
		reflect.ValueOf(&c.V).Elem().Set(v)
	} else {
		var z T
		c.V = z
	}
}

// SendC is a send clause.
type SendC[T any] struct {
	ch chan<- T
	v  T
}

// SendCase builds a send clause (curried so that T is inferred from the channel).
func SendCase[T any](ch chan<- T) func(T) *SendC[T] {
	return func(v T) *SendC[T] { return &SendC[T]{ch: ch, v: v} }
}

func (c *SendC[T]) try() bool {
	if c.ch == nil {
		return false
	}
	select {
	case c.ch <- c.v:
		return true
	default:
		return false
	}
}

func (c *SendC[T]) refl() reflect.SelectCase {
	if c.ch == nil {
		return reflect.SelectCase{Dir: reflect.SelectSend}
	}
	return reflect.SelectCase{Dir: reflect.SelectSend, Chan: reflect.ValueOf(c.ch), Send: reflect.ValueOf(&c.v).Elem()}
}

func (c *SendC[T]) done(reflect.Value, bool) {}

// Select is the rewritten form of a select statement. It returns the index of
// the clause that proceeded, or -1 for the default clause. Ready clauses are
// polled in a tape-chosen order, which removes the runtime's random choice.
func Select(hasDefault bool, cases ...Case) int {
	s, t := Cur()
	n := len(cases)
	if t == nil {
		rc := make([]reflect.SelectCase, 0, n+1)
		for _, c := range cases {
			rc = append(rc, c.refl())
		}
		if hasDefault {
			rc = append(rc, reflect.SelectCase{Dir: reflect.SelectDefault})
		}
		i, v, ok := reflect.Select(rc)
		if i == n {
			return -1
		}
		cases[i].done(v, ok)
		return i
	}
	if !s.check(t) {
		runtime.Goexit()
	}
	s.yield(t)
	start := 0
	if n > 1 {
		start = s.Tape.Draw(n)
	}
	for k := 0; k < n; k++ {
		i := (start + k) % n
		if cases[i].try() {
			return i
		}
	}
	if hasDefault {
		return -1
	}
	rc := make([]reflect.SelectCase, 0, n+1)
	for _, c := range cases {
		rc = append(rc, c.refl())
	}
	rc = append(rc, reflect.SelectCase{Dir: reflect.SelectRecv, Chan: reflect.ValueOf(t.kill)})
	s.block(t, "select")
	i, v, ok := reflect.Select(rc)
	if i == n {
		t.dead, t.killed = true, true
		runtime.Goexit()
	}
	cases[i].done(v, ok)
	s.resume(t)
	return i
}
