#include "textflag.h"

// func getg() uintptr — address of the current goroutine's g, used only as an
// opaque identity for the task table.
TEXT ·getg(SB),NOSPLIT,$0-8
	MOVQ (TLS), AX
	MOVQ AX, ret+0(FP)
	RET
