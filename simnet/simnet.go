// Package simnet is the simulated p2p transport behind shim/net: in-memory,
// per-connection reliable ordered byte streams (TCP semantics: bytes on one
// connection are never reordered, duplicated or silently lost) with tape-driven
// chunking, latency, refusal, reset, stall and partitions. Blocking reads,
// writes and accepts release the baton; deadlines use the fake clock.
package simnet

import (
	"errors"
	"fmt"
	"io"
	"net"
	"os"
	"sort"
	"strconv"
	"strings"
	"syscall"
	"time"

	snet "kverif/shim/net"
	simrt "kverif/sim"
)

// Network is the simulated TCP network of one run.
type Network struct {
	s         *simrt.Sim
	listeners map[string]*Listener
	conns     []*Conn
	nextPort  int
	// partition: pairs of node names that cannot talk
	cut map[[2]string]bool
	// Tuning / faults (set by the harness; all draws come from the tape)
	BufCap     int           // per-direction buffer (default 256 KiB)
	MaxLatency time.Duration // per-chunk latency upper bound (0 = none)
	ChunkPm    int           // per mille of reads that return a short chunk
	RefusePm   int           // per mille of dials refused
	ResetPm    int           // per mille of writes that reset the connection
	Quiet      bool          // faults stop
	// OnData, if set, observes every successful Write (after faults): from, to, bytes.
	OnData func(from, to string, b []byte)
	// OnWrite, if set, observes the bytes accepted by every Write of a
	// connection end, in order (wire-level monitors reassemble frames from it).
	OnWrite func(c *Conn, b []byte)
	// Corrupt, if set, may modify the bytes of a Write in flight (byzantine link).
	Corrupt func(c *Conn, b []byte) []byte
	Dials   []DialRec
}

// DialRec logs a dial attempt (C16: no dial to a blacklisted peer).
type DialRec struct {
	At       time.Duration
	From, To string
	Err      string
}

// Install creates the network and hooks it under shim/net until the run ends.
func Install(s *simrt.Sim) *Network {
	n := &Network{s: s, listeners: map[string]*Listener{}, nextPort: 40000, cut: map[[2]string]bool{}, BufCap: 256 << 10}
	snet.SimListen = n.listen
	snet.SimDial = n.dial
	s.AtEnd(func() { snet.SimListen, snet.SimDial = nil, nil })
	s.Ext["simnet"] = n
	s.OnNodeDeath(n.nodeDied)
	return n
}

// Of returns the network installed in s.
func Of(s *simrt.Sim) *Network {
	n, _ := s.Ext["simnet"].(*Network)
	return n
}

// SetIP declares the address other nodes use to reach node (Listen(":port")
// binds to it).
func SetIP(node *simrt.Node, ip string) { node.Data["ip"] = ip }

func nodeIP(node *simrt.Node) string {
	if ip, ok := node.Data["ip"].(string); ok {
		return ip
	}
	return node.Name
}

func pairKey(a, b string) [2]string {
	if a > b {
		a, b = b, a
	}
	return [2]string{a, b}
}

// Partition cuts (or heals) the link between two nodes.
func (n *Network) Partition(a, b *simrt.Node, cut bool) {
	if cut {
		n.cut[pairKey(a.Name, b.Name)] = true
		n.s.Fault("net_partition")
	} else if n.cut[pairKey(a.Name, b.Name)] {
		delete(n.cut, pairKey(a.Name, b.Name))
		n.s.Fault("net_heal")
		for _, c := range n.conns {
			c.signal()
			c.peer.signal()
		}
	}
}

// HealAll removes every partition.
func (n *Network) HealAll() {
	if len(n.cut) == 0 {
		return
	}
	n.cut = map[[2]string]bool{}
	n.s.Fault("net_heal")
	for _, c := range n.conns {
		c.signal()
	}
}

func (n *Network) isCut(a, b string) bool { return n.cut[pairKey(a, b)] }

type addr struct{ s string }

func (a addr) Network() string { return "tcp" }
func (a addr) String() string  { return a.s }

func tcpAddr(hostport string) net.Addr {
	h, p, err := net.SplitHostPort(hostport)
	if err == nil {
		if ip := net.ParseIP(h); ip != nil {
			port, _ := strconv.Atoi(p)
			return &net.TCPAddr{IP: ip, Port: port}
		}
	}
	return addr{hostport}
}

type timeoutError struct{}

func (timeoutError) Error() string   { return "i/o timeout" }
func (timeoutError) Timeout() bool   { return true }
func (timeoutError) Temporary() bool { return true }
func (timeoutError) Is(err error) bool {
	return err == os.ErrDeadlineExceeded
}

// ---------------------------------------------------------------------------

// Listener is a simulated listening socket.
type Listener struct {
	n      *Network
	addr   string
	node   *simrt.Node
	queue  chan *Conn
	closed chan struct{}
	dead   bool
}

func (n *Network) listen(network, address string) (net.Listener, error, bool) {
	s, t := simrt.Cur()
	if s == nil || s != n.s || t == nil {
		return nil, nil, false
	}
	host, port, err := net.SplitHostPort(address)
	if err != nil {
		return nil, err, true
	}
	if host == "" || host == "0.0.0.0" || host == "localhost" {
		host = nodeIP(t.Node)
	}
	if port == "0" || port == "" {
		n.nextPort++
		port = strconv.Itoa(n.nextPort)
	}
	key := net.JoinHostPort(host, port)
	if l, ok := n.listeners[key]; ok && !l.dead {
		return nil, &net.OpError{Op: "listen", Net: "tcp", Err: syscall.EADDRINUSE}, true
	}
	l := &Listener{n: n, addr: key, node: t.Node, queue: make(chan *Conn, 256), closed: make(chan struct{})}
	n.listeners[key] = l
	s.Logf("listen %s by %s", key, t.Node.Name)
	return l, nil, true
}

func (l *Listener) Accept() (net.Conn, error) {
	qc, cc := simrt.RecvCase(l.queue), simrt.RecvCase(l.closed)
	switch simrt.Select(false, qc, cc) {
	case 0:
		return qc.V, nil
	}
	return nil, &net.OpError{Op: "accept", Net: "tcp", Err: net.ErrClosed}
}

func (l *Listener) Close() error {
	if !l.dead {
		l.dead = true
		close(l.closed)
		if l.n.listeners[l.addr] == l {
			delete(l.n.listeners, l.addr)
		}
	}
	return nil
}

func (l *Listener) Addr() net.Addr { return tcpAddr(l.addr) }

func (n *Network) dial(network, address string, timeout time.Duration) (net.Conn, error, bool) {
	s, t := simrt.Cur()
	if s == nil || s != n.s || t == nil {
		return nil, nil, false
	}
	simrt.Yield()
	from := t.Node
	rec := DialRec{At: s.Now(), From: from.Name, To: address}
	fail := func(err error) (net.Conn, error, bool) {
		rec.Err = err.Error()
		n.Dials = append(n.Dials, rec)
		s.Logf("dial %s -> %s: %v", from.Name, address, err)
		return nil, &net.OpError{Op: "dial", Net: "tcp", Addr: tcpAddr(address), Err: err}, true
	}
	l := n.listeners[address]
	if l == nil || l.dead || l.node.Dead {
		return fail(syscall.ECONNREFUSED)
	}
	if n.isCut(from.Name, l.node.Name) {
		if timeout <= 0 {
			timeout = 30 * time.Second
		}
		simrt.Sleep(timeout)
		return fail(timeoutError{})
	}
	if !n.Quiet && n.RefusePm > 0 && s.Tape.Chance(n.RefusePm) {
		s.Fault("net_refuse")
		return fail(syscall.ECONNREFUSED)
	}
	if !n.Quiet && n.MaxLatency > 0 {
		simrt.Sleep(time.Duration(s.Tape.Draw(int(n.MaxLatency/time.Millisecond)+1)) * time.Millisecond)
		if l.dead || l.node.Dead {
			return fail(syscall.ECONNREFUSED)
		}
	}
	n.nextPort++
	local := net.JoinHostPort(nodeIP(from), strconv.Itoa(n.nextPort))
	a := &Conn{n: n, node: from, local: local, remote: address, sig: make(chan struct{}, 1), id: len(n.conns)}
	b := &Conn{n: n, node: l.node, local: address, remote: local, sig: make(chan struct{}, 1), id: len(n.conns) + 1}
	a.peer, b.peer = b, a
	n.conns = append(n.conns, a, b)
	select {
	case l.queue <- b:
	default:
		return fail(syscall.ECONNREFUSED) // backlog full
	}
	n.Dials = append(n.Dials, rec)
	s.Logf("dial %s -> %s ok", from.Name, address)
	return a, nil, true
}

// ---------------------------------------------------------------------------

type chunk struct {
	b       []byte
	readyAt time.Duration
}

// Conn is one end of a simulated TCP connection.
type Conn struct {
	n             *Network
	id            int
	node          *simrt.Node
	peer          *Conn
	local, remote string
	in            []chunk // bytes written by the peer, not yet read
	inBytes       int
	closed        bool // this end closed
	peerClosed    bool // peer closed (EOF after draining)
	reset         bool
	sig           chan struct{}
	rdl, wdl      time.Time
	Stalled       bool // bytes towards this end are held (stall fault)
	BytesIn       int64
}

func (c *Conn) signal() {
	select {
	case c.sig <- struct{}{}:
	default:
	}
}

// ID is the index of this connection end in the run (dialling end even, accepting end odd).
func (c *Conn) ID() int { return c.id }

// Dialer reports whether this end initiated the connection.
func (c *Conn) Dialer() bool { return c.id%2 == 0 }

// Local and Remote are the addresses of this end and of its peer.
func (c *Conn) Local() string  { return c.local }
func (c *Conn) Remote() string { return c.remote }

// Node returns the owning node.
func (c *Conn) Node() *simrt.Node { return c.node }

// Peer returns the other end.
func (c *Conn) Peer() *Conn { return c.peer }

// wait blocks until signalled or the deadline passes; false on timeout.
func (c *Conn) wait(deadline time.Time, extra time.Duration) bool {
	var tc <-chan time.Time
	var tm *time.Timer
	d := time.Duration(-1)
	if !deadline.IsZero() {
		d = time.Until(deadline)
		if d <= 0 {
			return false
		}
	}
	if extra > 0 && (d < 0 || extra < d) {
		// wake up when the next chunk becomes visible
		tm = time.NewTimer(extra)
		tc = tm.C
		sc, xc := simrt.RecvCase(c.sig), simrt.RecvCase(tc)
		simrt.Select(false, sc, xc)
		tm.Stop()
		return true
	}
	if d >= 0 {
		tm = time.NewTimer(d)
		tc = tm.C
		sc, xc := simrt.RecvCase(c.sig), simrt.RecvCase(tc)
		i := simrt.Select(false, sc, xc)
		tm.Stop()
		return i == 0
	}
	simrt.Recv(c.sig)
	return true
}

func (c *Conn) Read(p []byte) (int, error) {
	s := c.n.s
	simrt.Yield()
	if len(p) == 0 {
		return 0, nil
	}
	for {
		if c.closed {
			return 0, &net.OpError{Op: "read", Net: "tcp", Err: net.ErrClosed}
		}
		if c.reset {
			return 0, &net.OpError{Op: "read", Net: "tcp", Err: syscall.ECONNRESET}
		}
		held := c.Stalled || c.n.isCut(c.node.Name, c.peer.node.Name)
		if len(c.in) > 0 && !held {
			now := s.Now()
			ch := &c.in[0]
			if ch.readyAt <= now {
				n := len(ch.b)
				if n > len(p) {
					n = len(p)
				}
				if n > 1 && !c.n.Quiet && c.n.ChunkPm > 0 && s.Tape.Chance(c.n.ChunkPm) {
					n = 1 + s.Tape.Draw(n-1)
				}
				copy(p, ch.b[:n])
				ch.b = ch.b[n:]
				if len(ch.b) == 0 {
					c.in = c.in[1:]
				}
				c.inBytes -= n
				c.BytesIn += int64(n)
				c.peer.signal() // writer may have been waiting for space
				return n, nil
			}
			if !c.wait(c.rdl, ch.readyAt-now) {
				return 0, &net.OpError{Op: "read", Net: "tcp", Err: timeoutError{}}
			}
			continue
		}
		if len(c.in) == 0 && c.peerClosed {
			return 0, io.EOF
		}
		if !c.wait(c.rdl, 0) {
			return 0, &net.OpError{Op: "read", Net: "tcp", Err: timeoutError{}}
		}
	}
}

func (c *Conn) Write(p []byte) (int, error) {
	s := c.n.s
	simrt.Yield()
	total := 0
	for len(p) > 0 {
		if c.closed {
			return total, &net.OpError{Op: "write", Net: "tcp", Err: net.ErrClosed}
		}
		if c.reset {
			return total, &net.OpError{Op: "write", Net: "tcp", Err: syscall.ECONNRESET}
		}
		if c.peer.closed || c.peer.node.Dead {
			return total, &net.OpError{Op: "write", Net: "tcp", Err: syscall.EPIPE}
		}
		if !c.n.Quiet && c.n.ResetPm > 0 && s.Tape.Chance(c.n.ResetPm) {
			s.Fault("net_reset")
			c.Reset()
			return total, &net.OpError{Op: "write", Net: "tcp", Err: syscall.ECONNRESET}
		}
		space := c.n.BufCap - c.peer.inBytes
		if space <= 0 {
			if !c.wait(c.wdl, 0) {
				return total, &net.OpError{Op: "write", Net: "tcp", Err: timeoutError{}}
			}
			continue
		}
		n := len(p)
		if n > space {
			n = space
		}
		b := make([]byte, n)
		copy(b, p[:n])
		if c.n.Corrupt != nil {
			b = c.n.Corrupt(c, b)
		}
		var lat time.Duration
		if !c.n.Quiet && c.n.MaxLatency > 0 {
			lat = time.Duration(s.Tape.Draw(int(c.n.MaxLatency/time.Millisecond)+1)) * time.Millisecond
		}
		ready := s.Now() + lat
		if k := len(c.peer.in); k > 0 && c.peer.in[k-1].readyAt > ready {
			ready = c.peer.in[k-1].readyAt // never reorder
		}
		c.peer.in = append(c.peer.in, chunk{b, ready})
		c.peer.inBytes += len(b)
		if c.n.OnData != nil {
			c.n.OnData(c.node.Name, c.peer.node.Name, b)
		}
		if c.n.OnWrite != nil {
			c.n.OnWrite(c, b)
		}
		c.peer.signal()
		p = p[n:]
		total += n
	}
	return total, nil
}

// Reset aborts the connection in both directions (buffered data is lost).
func (c *Conn) Reset() {
	for _, e := range []*Conn{c, c.peer} {
		e.reset = true
		e.in = nil
		e.inBytes = 0
		e.signal()
	}
}

// Stall holds (or releases) the bytes travelling towards this end.
func (c *Conn) Stall(on bool) {
	c.Stalled = on
	if on {
		c.n.s.Fault("net_stall")
	} else {
		c.signal()
	}
}

func (c *Conn) Close() error {
	if c.closed {
		return &net.OpError{Op: "close", Net: "tcp", Err: net.ErrClosed}
	}
	c.closed = true
	c.peer.peerClosed = true
	c.signal()
	c.peer.signal()
	return nil
}

func (c *Conn) LocalAddr() net.Addr  { return tcpAddr(c.local) }
func (c *Conn) RemoteAddr() net.Addr { return tcpAddr(c.remote) }

func (c *Conn) SetDeadline(t time.Time) error {
	c.rdl, c.wdl = t, t
	c.signal()
	return nil
}
func (c *Conn) SetReadDeadline(t time.Time) error  { c.rdl = t; c.signal(); return nil }
func (c *Conn) SetWriteDeadline(t time.Time) error { c.wdl = t; c.signal(); return nil }

// nodeDied resets every connection of a crashed node and closes its listeners.
func (n *Network) nodeDied(node *simrt.Node) {
	for _, c := range n.conns {
		if c.node == node && !c.closed {
			c.closed = true
			c.peer.peerClosed = true
			if len(c.peer.in) == 0 {
				c.peer.reset = true
			}
			c.peer.signal()
		}
	}
	var keys []string
	for k, l := range n.listeners {
		if l.node == node {
			keys = append(keys, k)
		}
	}
	sort.Strings(keys)
	for _, k := range keys {
		n.listeners[k].Close()
	}
}

// Conns returns every connection end created so far.
func (n *Network) Conns() []*Conn { return n.conns }

// Between returns the open connection ends owned by node a whose peer is node b.
func (n *Network) Between(a, b *simrt.Node) []*Conn {
	var out []*Conn
	for _, c := range n.conns {
		if c.node == a && c.peer.node == b && !c.closed && !c.reset {
			out = append(out, c)
		}
	}
	return out
}

var _ = errors.New
var _ = fmt.Sprint
var _ = strings.Contains
