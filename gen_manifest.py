#!/usr/bin/env python3
"""Regenerates MANIFEST.json from props/claims.json (claimed checks) and the
not-applicable table, so that the manifest is always valid and in sync."""
import json, os
V = os.path.dirname(os.path.abspath(__file__))
claims = json.load(open(os.path.join(V, "props", "claims.json")))
claims["claimed"] = {}
for d in sorted(os.listdir(os.path.join(V, "props"))):
    cp = os.path.join(V, "props", d, "claim.json")
    enabled = open(os.path.join(V, "props", "enabled.txt")).read().split()
    if os.path.exists(cp) and d.upper() in enabled:
        claims["claimed"][d.upper()] = json.load(open(cp))
props = [json.loads(l) for l in open(os.path.join(V, "properties.jsonl"))]
ids = [p["id"] for p in props]
checks = []
for pid in ids:
    c = claims["claimed"].get(pid)
    if not c:
        continue
    checks.append({
        "property_id": pid,
        "quick_cmd": "./check %s --tier quick" % pid,
        "thorough_cmd": "./check %s --tier thorough" % pid,
        "evidence_file": "evidence/%s.json" % pid,
        "replay_cmd_template": "./check %s --replay {path}" % pid,
        "engine": "ksim",
        "level_claimed": {"category": c.get("level", "exploration"), "text": c["text"], "design_ref": c.get("design_ref", "DESIGN.md §5 " + pid)},
        "level_note": c["note"],
        "technique": c.get("technique", "deterministic simulation with fault injection: seeded schedule/fault search over real kraken code, invariant + history oracles, shrunk replay tape"),
    })
na = []
for pid in ids:
    if pid in claims["claimed"]:
        continue
    na.append({"property_id": pid, "reason": claims["not_applicable"].get(pid, claims["pending_reason"])})
m = {
    "version": 1,
    "setup_cmd": "./setup.sh",
    "hooks": {
        "guard": "verif",
        "enable": "no hook is committed to /repo: seams are injected at build time by tools/simgen (source-to-source rewrite of the current /repo tree into .build/overlay) and `go1.26.8 test -c -overlay .build/overlay.json -tags verif`; with the overlay off the tree is the shipped code",
        "baseline_off_cmd": json.load(open("/root/.vp/BASELINE.json"))["cmd"] if os.path.exists("/root/.vp/BASELINE.json") else "",
        "source_commits": [],
        "add_only": True,
    },
    "engines": [{"name": "ksim", "path": "sim/ shim/ kit/ tools/simgen/ check", "serves_properties": [c["property_id"] for c in checks],
                 "kind_free_text": "deterministic simulator: synctest fake clock + baton scheduler + choice tape + simulated disk/network/HTTP seams injected by a build-time source transformer; seeded search, shrinking, exact replay"}],
    "checks": checks,
    "not_applicable": na,
    "notes": "See DESIGN.md. Exit codes: 0 held, 1 VIOLATION line, 2 infrastructure trouble (never a verdict). known_findings.json lists genuine defects (fixed or recorded).",
}
json.dump(m, open(os.path.join(V, "MANIFEST.json"), "w"), indent=1)
print("MANIFEST: %d checks, %d not applicable" % (len(checks), len(na)))
