// Package simhttp is the simulated HTTP transport: an http.RoundTripper,
// installed as http.DefaultTransport for the duration of a run, that routes
// host:port to the real http.Handler of the addressed simulated node. The
// handler runs as a task of that node; faults (refusal, reset before / after
// the handler ran, injected statuses, truncated bodies, latency) are decided by
// a harness-supplied function that draws from the tape. Every attempt is logged.
//
// HTTP/1.1 framing rules the properties can observe are modelled: a request
// with a declared Content-Length whose body yields a different number of bytes
// fails on the client ("ContentLength=N with Body length M") and is not
// delivered intact; an unknown-length body is delivered as read (chunked); a
// truncated response surfaces as io.ErrUnexpectedEOF from resp.Body.
//
// Modelling assumptions: no pipelining; connection reuse only as described at
// Net.KeepAlive (the transport-level GetBody replay of net/http happens only on
// a reused connection); a refused / unreachable host never consumes the body.
package simhttp

import (
	"bytes"
	"context"
	"crypto/sha256"
	"encoding/hex"
	"errors"
	"fmt"
	"io"
	"net"
	"net/http"
	"sort"
	"strings"
	"syscall"
	"time"

	simrt "kverif/sim"
)

// Fault kinds.
const (
	None        = ""
	Refuse      = "http_refuse"           // connection refused, handler not run
	ResetBefore = "http_reset_before"     // connection reset before the request was read
	ResetAfter  = "http_reset_after"      // handler ran, response lost (duplicate delivery on retry)
	Status      = "http_status"           // an intermediary answers with Code, handler not run
	TruncResp   = "http_truncate_body"    // response body cut after K bytes
	TruncReq    = "http_truncate_request" // request body cut after K bytes (server sees unexpected EOF)
)

// Fault is the decision for one attempt.
type Fault struct {
	Kind    string
	Code    int
	K       int
	Latency time.Duration
}

// Exchange is the log record of one attempt.
type Exchange struct {
	Seq         int
	At          time.Duration
	From, To    string
	Method      string
	Path        string // escaped path as sent
	Query       string
	Header      http.Header
	DeclaredLen int64 // Content-Length announced by the client (-1 unknown)
	BodyLen     int   // bytes the client side actually produced
	BodySHA     string
	Body        []byte // kept when Net.KeepBodies
	BodyErr     string // client-side framing error, if any
	Fault       Fault
	HandlerRan  bool
	Status      int
	RespLen     int
	Err         string // error returned to the client, if any
	Done        time.Duration
}

// Host is a registered server endpoint.
type Host struct {
	Addr    string
	Node    *simrt.Node
	Handler http.Handler
	Down    bool
}

// Net is the simulated HTTP network of one run.
type Net struct {
	s          *simrt.Sim
	hosts      map[string]*Host
	Log        []*Exchange
	KeepBodies bool
	// FaultFn decides the fault of an attempt (nil: none). It may draw from
	// the tape. It is not consulted once Quiet is set ("faults stop").
	FaultFn func(ex *Exchange) Fault
	Quiet   bool
	// HandlerPanics counts panics recovered from handlers (the real server
	// recovers them per connection too).
	HandlerPanics []string
	// KeepAlive models connection reuse: after a delivered response the next
	// attempt from the same node to the same host runs on the reused
	// connection, where the real transport transparently replays a consumed
	// body that has GetBody. false (default) = every attempt is a fresh
	// connection (server sent Connection: close) and no replay happens.
	KeepAlive bool
	idle      map[string]bool
	old       http.RoundTripper
}

// Install creates the network and installs it as http.DefaultTransport until
// the end of the run.
func Install(s *simrt.Sim) *Net {
	n := &Net{s: s, hosts: map[string]*Host{}, idle: map[string]bool{}}
	n.old = http.DefaultTransport
	http.DefaultTransport = n
	s.AtEnd(func() { http.DefaultTransport = n.old })
	s.Ext["simhttp"] = n
	return n
}

// Of returns the network installed in s (nil if none).
func Of(s *simrt.Sim) *Net {
	n, _ := s.Ext["simhttp"].(*Net)
	return n
}

// Register binds addr (host:port) to a handler served by tasks of node.
func (n *Net) Register(addr string, node *simrt.Node, h http.Handler) *Host {
	hst := &Host{Addr: addr, Node: node, Handler: h}
	n.hosts[addr] = hst
	return hst
}

// Unregister removes addr.
func (n *Net) Unregister(addr string) { delete(n.hosts, addr) }

// Hosts lists registered addresses (sorted).
func (n *Net) Hosts() []string {
	var out []string
	for a := range n.hosts {
		out = append(out, a)
	}
	sort.Strings(out)
	return out
}

type timeoutErr struct{ msg string }

func (e timeoutErr) Error() string   { return e.msg }
func (e timeoutErr) Timeout() bool   { return true }
func (e timeoutErr) Temporary() bool { return true }

func opErr(op string, err error) error {
	return &net.OpError{Op: op, Net: "tcp", Err: err}
}

type recorder struct {
	hdr     http.Header
	code    int
	buf     bytes.Buffer
	wrote   bool
	flushed bool
}

func (r *recorder) Header() http.Header { return r.hdr }
func (r *recorder) WriteHeader(code int) {
	if r.wrote {
		return
	}
	r.wrote = true
	r.code = code
}
func (r *recorder) Write(b []byte) (int, error) {
	if !r.wrote {
		r.WriteHeader(http.StatusOK)
	}
	simrt.Yield()
	return r.buf.Write(b)
}
func (r *recorder) Flush() { r.flushed = true }

type cutReader struct {
	r    io.Reader
	left int
	err  error
}

func (c *cutReader) Read(p []byte) (int, error) {
	simrt.Yield()
	if c.left <= 0 {
		return 0, c.err
	}
	if len(p) > c.left {
		p = p[:c.left]
	}
	n, err := c.r.Read(p)
	c.left -= n
	if err == io.EOF || (err == nil && c.left == 0) {
		if c.left > 0 {
			return n, c.err
		}
		if err == io.EOF {
			return n, c.err
		}
		return n, nil
	}
	return n, err
}

type yieldReader struct{ r io.Reader }

func (y yieldReader) Read(p []byte) (int, error) { simrt.Yield(); return y.r.Read(p) }

// RoundTrip implements http.RoundTripper.
func (n *Net) RoundTrip(req *http.Request) (*http.Response, error) {
	s, t := simrt.Cur()
	if s == nil || s != n.s {
		return nil, errors.New("simhttp: RoundTrip outside its simulation")
	}
	from := "?"
	if t != nil {
		from = t.Node.Name
	}
	ex := &Exchange{Seq: len(n.Log) + 1, At: s.Now(), From: from, To: req.URL.Host, Method: req.Method,
		Path: req.URL.EscapedPath(), Query: req.URL.RawQuery, Header: req.Header.Clone(), DeclaredLen: req.ContentLength}
	n.Log = append(n.Log, ex)
	fail := func(err error) (*http.Response, error) {
		ex.Err = err.Error()
		ex.Done = s.Now()
		s.Logf("http#%d %s %s%s -> error %v", ex.Seq, ex.Method, ex.To, ex.Path, err)
		return nil, err
	}
	// --- fault decision and connection establishment come first: the real
	// transport does not touch the body when it cannot get a connection.
	var f Fault
	if n.FaultFn != nil && !n.Quiet {
		f = n.FaultFn(ex)
	}
	ckey := from + ">" + req.URL.Host
	host := n.hosts[req.URL.Host]
	if host == nil || host.Down || host.Node.Dead || f.Kind == Refuse {
		if f.Kind == Refuse {
			ex.Fault = f
			s.Fault(Refuse)
		}
		if req.Body != nil {
			req.Body.Close()
		}
		delete(n.idle, ckey)
		return fail(opErr("dial", syscall.ECONNREFUSED))
	}
	reused := n.KeepAlive && n.idle[ckey]
	delete(n.idle, ckey)
	// --- client side: produce the request body
	var body []byte
	if req.Body != nil && req.Body != http.NoBody {
		b, err := io.ReadAll(yieldReader{req.Body})
		req.Body.Close()
		body = b
		if err != nil {
			ex.BodyErr = err.Error()
			return fail(fmt.Errorf("simhttp: reading request body: %w", err))
		}
		if req.ContentLength == 0 {
			ex.DeclaredLen = -1 // unknown length: chunked
		}
		if reused && len(body) == 0 && req.ContentLength > 0 && req.GetBody != nil {
			// Reused keep-alive connection on which nothing was written: the
			// real transport rewinds the body with GetBody and retries on a
			// new connection, transparently to the caller.
			if rb, err := req.GetBody(); err == nil {
				body, _ = io.ReadAll(yieldReader{rb})
				rb.Close()
				s.Probe("http_transport_rewind")
			}
		}
	}
	ex.BodyLen = len(body)
	h := sha256.Sum256(body)
	ex.BodySHA = hex.EncodeToString(h[:])
	if n.KeepBodies {
		ex.Body = body
	}
	if ex.DeclaredLen > 0 && int64(len(body)) != ex.DeclaredLen {
		ex.BodyErr = fmt.Sprintf("http: ContentLength=%d with Body length %d", ex.DeclaredLen, len(body))
		return fail(errors.New(ex.BodyErr))
	}
	if f.Kind == TruncReq {
		if len(body) == 0 {
			f.Kind = None
		} else if f.K < 0 || f.K >= len(body) {
			f.K = s.Tape.Draw(len(body))
		}
	}
	ex.Fault = f
	if f.Kind != None && f.Kind != TruncResp {
		s.Fault(f.Kind)
	}
	if f.Latency > 0 {
		simrt.Sleep(f.Latency)
	}
	if err := req.Context().Err(); err != nil {
		return fail(err)
	}
	if host.Down || host.Node.Dead {
		return fail(opErr("read", syscall.ECONNRESET))
	}
	if f.Kind == ResetBefore {
		return fail(opErr("read", syscall.ECONNRESET))
	}
	if f.Kind == Status {
		ex.Status = f.Code
		ex.Done = s.Now()
		s.Logf("http#%d %s %s%s -> injected %d", ex.Seq, ex.Method, ex.To, ex.Path, f.Code)
		return &http.Response{Status: fmt.Sprintf("%d %s", f.Code, http.StatusText(f.Code)), StatusCode: f.Code, Proto: "HTTP/1.1", ProtoMajor: 1, ProtoMinor: 1,
			Header: http.Header{}, Body: http.NoBody, ContentLength: 0, Request: req}, nil
	}
	// --- server side
	sctx, cancel := context.WithCancel(context.Background())
	var rbody io.Reader = yieldReader{bytes.NewReader(body)}
	if f.Kind == TruncReq && f.K < len(body) {
		rbody = &cutReader{r: bytes.NewReader(body), left: f.K, err: io.ErrUnexpectedEOF}
	}
	sreq, err := http.NewRequestWithContext(sctx, req.Method, req.URL.String(), io.NopCloser(rbody))
	if err != nil {
		cancel()
		return fail(err)
	}
	sreq.Header = req.Header.Clone()
	sreq.Host = req.URL.Host
	if req.Host != "" {
		sreq.Host = req.Host
	}
	sreq.RequestURI = req.URL.RequestURI()
	sreq.RemoteAddr = from + ":40000"
	sreq.ContentLength = ex.DeclaredLen
	if ex.DeclaredLen == -1 {
		sreq.TransferEncoding = []string{"chunked"}
	}
	if len(body) == 0 && ex.DeclaredLen <= 0 {
		sreq.Body = http.NoBody
		sreq.ContentLength = 0
		sreq.TransferEncoding = nil
	}
	rec := &recorder{hdr: http.Header{}, code: 200}
	done := make(chan struct{})
	completed := false
	s.GoNode(host.Node, "http:"+req.Method+" "+ex.Path, func() {
		defer close(done)
		defer func() {
			if r := recover(); r != nil {
				if r == http.ErrAbortHandler {
					return
				}
				n.HandlerPanics = append(n.HandlerPanics, fmt.Sprintf("%s %s: %v", req.Method, ex.Path, r))
				s.Probe("http_handler_panic")
				s.Logf("http#%d handler panic: %v", ex.Seq, r)
			}
		}()
		host.Handler.ServeHTTP(rec, sreq)
		completed = true
	})
	dc, cc := simrt.RecvCase(done), simrt.RecvCase(req.Context().Done())
	switch simrt.Select(false, dc, cc) {
	case 1:
		cancel()
		return fail(req.Context().Err())
	}
	cancel()
	ex.HandlerRan = true
	if !completed {
		// server died or the handler panicked: connection closed without a response
		return fail(opErr("read", io.EOF))
	}
	if f.Kind == TruncReq && f.K < len(body) {
		// the connection broke while the client was sending
		return fail(opErr("write", syscall.EPIPE))
	}
	if f.Kind == ResetAfter {
		ex.Status = rec.code
		return fail(opErr("read", syscall.ECONNRESET))
	}
	out := rec.buf.Bytes()
	ex.Status = rec.code
	ex.RespLen = len(out)
	ex.Done = s.Now()
	resp := &http.Response{Status: fmt.Sprintf("%d %s", rec.code, http.StatusText(rec.code)), StatusCode: rec.code,
		Proto: "HTTP/1.1", ProtoMajor: 1, ProtoMinor: 1, Header: rec.hdr.Clone(), Request: req, ContentLength: int64(len(out))}
	if req.Method == http.MethodHead {
		resp.Body = http.NoBody
		s.Logf("http#%d %s %s%s -> %d", ex.Seq, ex.Method, ex.To, ex.Path, rec.code)
		return resp, nil
	}
	if n.KeepAlive && f.Kind == None {
		n.idle[ckey] = true
	}
	if f.Kind == TruncResp && len(out) > 0 {
		if f.K < 0 || f.K >= len(out) {
			f.K = s.Tape.Draw(len(out))
		}
		ex.Fault = f
		s.Fault(TruncResp)
		resp.Body = io.NopCloser(&cutReader{r: bytes.NewReader(out), left: f.K, err: io.ErrUnexpectedEOF})
	} else {
		resp.Body = io.NopCloser(yieldReader{bytes.NewReader(out)})
	}
	s.Logf("http#%d %s %s%s -> %d (%d bytes)%s", ex.Seq, ex.Method, ex.To, ex.Path, rec.code, len(out), faultSuffix(f))
	return resp, nil
}

func faultSuffix(f Fault) string {
	if f.Kind == None {
		return ""
	}
	return " fault=" + f.Kind
}

// Rates configures RandomFaults (per mille per attempt).
type Rates struct {
	Refuse, ResetBefore, ResetAfter, Status, TruncResp, TruncReq, Delay int
	Codes                                                               []int                // statuses to inject (default 502,503,504,429)
	MaxDelay                                                            time.Duration        // default 3s
	Match                                                               func(*Exchange) bool // restrict (nil = all)
}

// RandomFaults returns a FaultFn drawing faults from the tape at the given rates.
func RandomFaults(s *simrt.Sim, r Rates) func(*Exchange) Fault {
	if len(r.Codes) == 0 {
		r.Codes = []int{503, 502, 504, 429}
	}
	if r.MaxDelay == 0 {
		r.MaxDelay = 3 * time.Second
	}
	return func(ex *Exchange) Fault {
		if r.Match != nil && !r.Match(ex) {
			return Fault{}
		}
		var f Fault
		tp := s.Tape
		switch {
		case tp.Chance(r.Refuse):
			f.Kind = Refuse
		case tp.Chance(r.ResetBefore):
			f.Kind = ResetBefore
		case tp.Chance(r.ResetAfter):
			f.Kind = ResetAfter
		case tp.Chance(r.Status):
			f.Kind = Status
			f.Code = r.Codes[tp.Draw(len(r.Codes))]
		case tp.Chance(r.TruncResp):
			f.Kind = TruncResp
			f.K = -1
		case tp.Chance(r.TruncReq):
			f.Kind = TruncReq
			f.K = -1
		}
		if tp.Chance(r.Delay) {
			f.Latency = time.Duration(1+tp.Draw(int(r.MaxDelay/time.Millisecond))) * time.Millisecond
		}
		return f
	}
}

// PathHas is a small helper for Match functions.
func PathHas(ex *Exchange, sub string) bool { return strings.Contains(ex.Path, sub) }
